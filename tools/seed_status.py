#!/usr/bin/env python3
"""One line per stored seeded change: id, property, rules of its own property that fire, other rules."""
import glob, json, os, sys
VERIF = os.path.dirname(os.path.dirname(os.path.abspath(__file__)))
lo = int(sys.argv[1]) if len(sys.argv) > 1 else 0
for d in sorted(glob.glob(os.path.join(VERIF, "seeded", "S*"))):
    m = json.load(open(os.path.join(d, "meta.json")))
    n = int(m["id"][1:3]) if m["id"][1:3].isdigit() else 0
    if n < lo:
        continue
    p = m["breaks_property"]
    own = [r for r in m["detected_by"] if r.split("/")[0].startswith("R" + p[1:] + ".")]
    oth = [r for r in m["detected_by"] if r not in own]
    tag = "OWN " if own else ("OTHER" if oth else "MISS ")
    print(tag, m["id"], p, "confirmed" if m.get("confirmed") else "UNCONFIRMED", own, oth)
