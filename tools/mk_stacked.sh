#!/bin/sh
# mk_stacked.sh <base-patch (relative to /verif)> <name> "<expect>" : after editing /tmp/sc/<dir> (a scratch copy with the base applied,
# made by tools/scratch.sh) record the edit as mutants/firing/<name>.diff stacked on the base.  usage: mk_stacked.sh base name expect dir
set -e
base="$1"; name="$2"; expect="$3"; dir="$4"
tmp=$(mktemp -d /tmp/stk.XXXXXX)
/verif/tools/scratch.sh /verif/$base $tmp/a >/dev/null
mkdir $tmp/b; (cd $dir && tar --exclude=.git -cf - .) | (cd $tmp/b && tar -xf -)
(cd $tmp && diff -ruN a b | sed 's#^--- a/#--- a/#;s#^+++ b/#+++ b/#' > $tmp/d.diff || true)
{ echo "# expect: $expect"; echo "# base: $base"; cat $tmp/d.diff; } > /verif/mutants/firing/$name.diff
rm -rf $tmp
grep -c '^@@' /verif/mutants/firing/$name.diff
