#!/bin/sh
# mk_stacked.sh <base-patch (relative to /verif)> <name> "<expect>" <dir>: after editing <dir> (a scratch copy made by
# tools/scratch.sh with the base patch applied) record the uncommitted edit as mutants/firing/<name>.diff stacked on the base.
set -e
base="$1"; name="$2"; expect="$3"; dir="$4"
{ echo "# expect: $expect"; echo "# base: $base"; git -C "$dir" diff; } > /verif/mutants/firing/$name.diff
grep -c '^@@' /verif/mutants/firing/$name.diff
