#!/bin/sh
# tools/mkmut.sh <name> <expect...> -- reads a sed/python edit script from stdin? (no)
# usage: tools/mkmut.sh NAME "C10:R10.1 ..." FILE 'old' 'new'   (exact single replacement via python)
name="$1"; expect="$2"; file="$3"; old="$4"; new="$5"; kind="${6:-firing}"
tmp=$(mktemp -d /tmp/mkmut.XXXXXX)
mkdir -p "$tmp/a" "$tmp/b"
d=$(dirname "$file"); mkdir -p "$tmp/a/$d" "$tmp/b/$d"
cp "/repo/$file" "$tmp/a/$file"; cp "/repo/$file" "$tmp/b/$file"
python3 - "$tmp/b/$file" "$old" "$new" <<'PY'
import sys
p,old,new=sys.argv[1:4]
s=open(p).read()
if s.count(old)!=1:
    print("ERROR: pattern occurs",s.count(old),"times in",p); sys.exit(1)
open(p,'w').write(s.replace(old,new))
PY
[ $? -eq 0 ] || { rm -rf "$tmp"; exit 1; }
out="/verif/mutants/$kind/$name.diff"
if [ "$kind" = firing ]; then echo "# expect: $expect" > "$out"; else echo "# benign: $expect" > "$out"; fi
(cd "$tmp" && diff -u "a/$file" "b/$file" | sed "s|^--- a/|diff --git a/$file b/$file\n--- a/|" ) >> "$out"
rm -rf "$tmp"
echo "wrote $out"
