#!/usr/bin/env python3
"""Intake of an independently written breaking change (seeded change).

  tools/seed_intake.py <worktree> <property> <seed-id> "<needs>" "<breaks>"

1. takes the source diff of the sub-agent's worktree (tracked files only) and
   its demonstration test (zz_seeded_demo_test.go, untracked);
2. confirms in a fresh scratch worktree of /repo that the change compiles, that
   the unedited suite still passes with it, that the demonstration fails with
   it and passes without it;
3. stores patch.diff, the demonstration and meta.json under /verif/seeded/<id>/;
4. applies the patch to /repo, runs every check (evidence to a scratch
   directory), records which rules fire, and undoes the patch straight away.
"""
import glob, json, os, shutil, subprocess, sys, tempfile

VERIF = os.path.dirname(os.path.dirname(os.path.abspath(__file__)))
ENV = dict(os.environ, GOFLAGS="-mod=mod", GOPROXY="off", GOSUMDB="off", GOTOOLCHAIN="local")
ENV.pop("GOWORK", None)

def run(cmd, cwd=None, timeout=600):
    r = subprocess.run(cmd, cwd=cwd, capture_output=True, text=True, errors="replace", env=ENV, timeout=timeout)
    return r.returncode, r.stdout + r.stderr

def main():
    wt, prop, sid, needs, breaks = sys.argv[1:6]
    rc, diff = run(["git", "diff", "HEAD"], cwd=wt)
    if not diff.strip():
        print("no source change in", wt); sys.exit(1)
    demos = [p for p in glob.glob(os.path.join(wt, "**", "zz_seeded_demo_test.go"), recursive=True)]
    if not demos:
        print("no demonstration file"); sys.exit(1)
    demo = demos[0]
    demo_rel = os.path.relpath(demo, wt)
    pkg = "./" + os.path.dirname(demo_rel) if os.path.dirname(demo_rel) else "."
    out = os.path.join(VERIF, "seeded", sid)
    os.makedirs(out, exist_ok=True)
    open(os.path.join(out, "patch.diff"), "w").write(diff)
    shutil.copy(demo, os.path.join(out, os.path.basename(demo) + ".txt"))
    ran = []
    scratch = tempfile.mkdtemp(prefix="seed-verify-")
    v = os.path.join(scratch, "wt")
    ok = True
    try:
        run(["git", "-C", "/repo", "worktree", "add", "-q", "--detach", v, "HEAD"])
        # without the change: demo passes
        shutil.copy(demo, os.path.join(v, demo_rel))
        rc0, o0 = run(["go", "test", "-vet=off", "-count=1", "-run", "TestSeededDemo", pkg], cwd=v)
        ran.append({"cmd": f"go test -run TestSeededDemo {pkg}   (original code)", "exit": rc0})
        os.remove(os.path.join(v, demo_rel))
        rc, o = run(["git", "apply", os.path.join(out, "patch.diff")], cwd=v)
        if rc != 0:
            print("patch does not apply:", o); ok = False
        rcb, ob = run(["go", "build", "./..."], cwd=v)
        ran.append({"cmd": "go build ./...   (with the change)", "exit": rcb})
        rcs, os_ = run(["go", "test", "-vet=off", "-count=1", "./..."], cwd=v)
        ran.append({"cmd": "go test -vet=off -count=1 ./...   (with the change, unedited suite)", "exit": rcs})
        shutil.copy(demo, os.path.join(v, demo_rel))
        rc1, o1 = run(["go", "test", "-vet=off", "-count=1", "-run", "TestSeededDemo", pkg], cwd=v)
        ran.append({"cmd": f"go test -run TestSeededDemo {pkg}   (with the change)", "exit": rc1})
        if rc0 != 0:
            print("demo does not pass on the original code:\n", o0[-800:]); ok = False
        if rcb != 0:
            print("does not compile:\n", ob[-800:]); ok = False
        if rcs != 0:
            print("existing suite fails with the change:\n", os_[-800:]); ok = False
        if rc1 == 0:
            print("demo does not fail with the change"); ok = False
    finally:
        run(["git", "-C", "/repo", "worktree", "remove", "--force", v])
        shutil.rmtree(scratch, ignore_errors=True)
    # run the checks against /repo with the patch applied
    fired = {}
    ev = tempfile.mkdtemp(prefix="seed-ev-")
    try:
        rc, o = run(["git", "-C", "/repo", "apply", os.path.join(out, "patch.diff")])
        if rc != 0:
            print("cannot apply to /repo:", o); ok = False
        else:
            try:
                rc, o = run([os.path.join(VERIF, "bin", "fsverif"), "-property", "all", "-repo", "/repo", "-out", ev,
                             "-known", os.path.join(VERIF, "known_findings.json")], cwd=VERIF)
                for line in o.splitlines():
                    if line.startswith("VIOLATED") or line.startswith("UNDECIDED"):
                        parts = line.split()
                        fired.setdefault(parts[1], []).append(" ".join(parts[2:])[:300])
            finally:
                run(["git", "-C", "/repo", "checkout", "--", "."])
    finally:
        shutil.rmtree(ev, ignore_errors=True)
    meta = {
        "id": sid,
        "breaks_property": prop,
        "what_it_breaks": breaks,
        "needs_to_manifest": needs,
        "written_by": "independent sub-agent given only the property text and a scratch worktree",
        "confirmed": ok,
        "ran": ran,
        "detected_by": {k: v[:3] for k, v in sorted(fired.items())},
        "detected": bool(fired),
    }
    json.dump(meta, open(os.path.join(out, "meta.json"), "w"), indent=1)
    print(json.dumps({"id": sid, "confirmed": ok, "detected_by": sorted(fired)}, indent=1))
    for k, v in sorted(fired.items()):
        print("  ", k, "::", v[0][:220])

main()
