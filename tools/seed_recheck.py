#!/usr/bin/env python3
"""Re-run all checks against every stored seeded change (apply to /repo, run,
undo) and update seeded/<id>/meta.json with what fires now."""
import glob, json, os, shutil, subprocess, sys, tempfile
VERIF = os.path.dirname(os.path.dirname(os.path.abspath(__file__)))
def run(cmd, cwd=None):
    r = subprocess.run(cmd, cwd=cwd, capture_output=True, text=True)
    return r.returncode, r.stdout + r.stderr
only = sys.argv[1:]
res = {}
for d in sorted(glob.glob(os.path.join(VERIF, "seeded", "*"))):
    sid = os.path.basename(d)
    if only and not any(o in sid for o in only):
        continue
    patch = os.path.join(d, "patch.diff")
    rc, o = run(["git", "-C", "/repo", "apply", patch])
    if rc != 0:
        print(sid, "patch does not apply:", o); continue
    ev = tempfile.mkdtemp(prefix="seed-ev-")
    fired = {}
    try:
        rc, o = run([os.path.join(VERIF, "bin", "fsverif"), "-property", "all", "-repo", "/repo", "-out", ev, "-known", os.path.join(VERIF, "known_findings.json")], cwd=VERIF)
        for line in o.splitlines():
            if line.startswith("VIOLATED") or line.startswith("UNDECIDED"):
                parts = line.split()
                fired.setdefault(parts[1], []).append(" ".join(parts[2:])[:300])
    finally:
        run(["git", "-C", "/repo", "checkout", "--", "."])
        shutil.rmtree(ev, ignore_errors=True)
    m = json.load(open(os.path.join(d, "meta.json")))
    m["detected_by"] = {k: v[:3] for k, v in sorted(fired.items())}
    m["detected"] = bool(fired)
    json.dump(m, open(os.path.join(d, "meta.json"), "w"), indent=1)
    print(("DETECTED " if fired else "MISSED   ") + sid, sorted(fired))
