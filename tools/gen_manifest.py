#!/usr/bin/env python3
"""Generates /verif/MANIFEST.json from the table below (kept next to the
checker so that the claimed level, technique and design reference stay in one
place). Run after adding or removing a property check."""
import json, os, subprocess, sys

VERIF = os.path.dirname(os.path.dirname(os.path.abspath(__file__)))

# id -> (technique, design_ref, what the check gives, trusted base)
CLAIMS = {}
def claim(pid, technique, ref, text, note):
    CLAIMS[pid] = (technique, ref, text, note)

exec(open(os.path.join(VERIF, "tools", "claims.py")).read())

NOT_BUILT = {}
exec(open(os.path.join(VERIF, "tools", "not_applicable.py")).read())

props = [json.loads(l) for l in open(os.path.join(VERIF, "properties.jsonl"))]
checks, na = [], []
for p in props:
    pid = p["id"]
    if pid in CLAIMS:
        tech, ref, text, note = CLAIMS[pid]
        checks.append({
            "property_id": pid,
            "quick_cmd": f"./check {pid} quick",
            "thorough_cmd": f"./check {pid} thorough",
            "evidence_file": f"/verif/evidence/{pid}.json",
            "replay_cmd_template": f"./check {pid} --explain {{path}}",
            "engine": "fsverif",
            "level_claimed": {"category": "other", "text": text, "design_ref": ref},
            "level_note": note,
            "technique": tech,
        })
    else:
        na.append({"property_id": pid, "reason": NOT_BUILT.get(pid, "no sound structural clause could be decided statically; see DESIGN.md section 5")})

manifest = {
    "version": 1,
    "setup_cmd": "cd /verif/checker && GOFLAGS=-mod=mod GOPROXY=off GOSUMDB=off GOTOOLCHAIN=local CGO_ENABLED=0 go build -o /verif/bin/fsverif .",
    "hooks": {
        "guard": "verif",
        "enable": "none needed: the checks are static analyses of the unmodified source (go/packages + go/ssa); no hook or instrumentation commit exists in /repo",
        "baseline_off_cmd": 'for m in $(cat /w/out/gomods.txt); do MF=$(cd /repo/$m && . /w/out/goenv.sh && gomodflag); (cd /repo/$m && go test $MF -json -vet=off -count=1 -timeout 25m ./...); done',
        "source_commits": [],
        "add_only": True,
    },
    "engines": [{
        "name": "fsverif",
        "path": "/verif/checker",
        "serves_properties": sorted(CLAIMS),
        "kind_free_text": "repository-specific static analyser (Go, golang.org/x/tools v0.29.0: go/packages, go/ssa, VTA/CHA call graphs): path-sensitive SSA explorer (dominance, guards, barriers, error discipline), must-hold lockset, field census / provenance, who-may-call, channel-operation census, no-retain analysis, finite-ordering evaluation, codec table extraction",
    }],
    "checks": checks,
    "notes": "All claims are level 'other': each check decides, on every path of the analysed functions and for the current working tree of /repo, structural clauses that are necessary conditions of the property (listed per rule in the evidence), never the behavioural statement as a whole. Genuine defects found and repaired are recorded in known_findings.json (status fixed); open findings print KNOWN-FINDING lines. ./selftest applies the patches under mutants/ and seeded/ to scratch copies to test the checker both ways.",
    "not_applicable": na,
}
json.dump(manifest, open(os.path.join(VERIF, "MANIFEST.json"), "w"), indent=1)
print("claimed", len(checks), "not_applicable", len(na))
