#!/usr/bin/env python3
"""Removal-mutation sweep (development aid, not a registered check):
apply each mutant listed by bin/mutate to a scratch copy of /repo, keep those
that still build and pass the unedited test suite, run the checker on them and
list the ones it is silent on (candidates for clauses no rule asks about;
many are equivalent or outside the properties).
  tools/mutation_run.py mutants.tsv /var/tmp/fsmut  > report.tsv
The tests of a mutant run inside tools/jail.sh (mutated code running as root has
removed scratch data of other tools under /tmp before).
"""
import json, os, shutil, subprocess, sys, concurrent.futures, threading
VERIF = os.path.dirname(os.path.dirname(os.path.abspath(__file__)))
ENV = dict(os.environ, GOFLAGS="-mod=mod", GOPROXY="off", GOSUMDB="off", GOTOOLCHAIN="local"); ENV.pop("GOWORK", None)
tsv, base = sys.argv[1], sys.argv[2]
only = sys.argv[3] if len(sys.argv) > 3 else ""
muts = [l.rstrip("\n").split("\t") for l in open(tsv)]
if only:
    muts = [m for m in muts if only in m[0]]
known = json.load(open(os.path.join(VERIF, "known_findings.json")))["findings"]
NW = int(os.environ.get("NW", "10"))
# the pristine sources are read once, so that a patch applied to /repo for a
# moment by another tool (seed intake) cannot leak into a mutant
SRC = {rel: open(os.path.join("/repo", rel), "rb").read() for rel in sorted({m[1] for m in muts})}
os.makedirs(base, exist_ok=True)
local = threading.local()
free = list(range(NW))
lock = threading.Lock()
def listing(d):
    out = {}
    for root, dirs, files in os.walk(d):
        for f in files:
            p = os.path.join(root, f)
            try:
                out[os.path.relpath(p, d)] = os.path.getsize(p)
            except OSError:
                pass
    return out
PRISTINE = None
def wdir(i):
    # (a mutant may have damaged its own work directory - a RemoveAll of a
    # relative path runs in it - so it is compared with /repo before each use)
    global PRISTINE
    d = os.path.join(base, "w%d" % i)
    with lock:
        if PRISTINE is None:
            PRISTINE = {k: v for k, v in listing("/repo").items() if not k.startswith(".git" + os.sep) and k != ".git"}
    if not os.path.isdir(d) or listing(d) != PRISTINE:
        shutil.rmtree(d, ignore_errors=True)
        shutil.copytree("/repo", d, ignore=shutil.ignore_patterns(".git"), symlinks=True)
    return d
def run(cmd, cwd, timeout):
    try:
        r = subprocess.run(cmd, cwd=cwd, capture_output=True, text=True, env=ENV, timeout=timeout)
        return r.returncode, r.stdout + r.stderr
    except subprocess.TimeoutExpired:
        return 124, "timeout"
def one(m):
    mid, rel, a, b, repl = m[0], m[1], int(m[2]), int(m[3]), m[4] if len(m) > 4 else ""
    with lock:
        i = free.pop()
    try:
        d = wdir(i)
        src = SRC[rel]
        new = src[:a] + repl.encode() + src[b:]
        open(os.path.join(d, rel), "wb").write(new)
        try:
            rc, o = run(["go", "build", "./..."], d, 120)
            if rc != 0:
                return mid, "nobuild", ""
            rc, o = run(["go", "vet", "-vettool=/bin/true", "./..."], d, 5) if False else (0, "")
            # the mutated code runs as root: jailed (read-only root, private /tmp)
            rc, o = run([os.path.join(VERIF, "tools", "jail.sh"), d, "go", "test", "-vet=off", "-count=1", ".", "./copy"], d, 180)
            if rc != 0:
                return mid, "killed-by-tests", ""
            rc, o = run([os.path.join(VERIF, "bin", "fsverif"), "-property", "all", "-child", "-config", "linux/amd64", "-repo", d], d, 300)
            if "{" not in o:
                return mid, "checker-failed", o[-200:]
            reps = json.loads(o[o.index("{"):])
            hits = []
            for pid, rep in sorted(reps.items()):
                for ob in rep["Obs"]:
                    if ob["verdict"] in ("violation", "undecided") and not any(k["status"] == "open" and k["property"] == pid and k["rule"] == ob["rule"] and k["construct"] == ob["construct"] for k in known):
                        hits.append(ob["rule"])
            if hits:
                return mid, "reported", ",".join(sorted(set(hits)))
            ctx = src[max(0, src.rfind(b"\n", 0, a - 1) + 1): src.find(b"\n", b) if src.find(b"\n", b) > 0 else b].decode(errors="replace")
            return mid, "SURVIVED", (src[a:b].decode(errors="replace").replace("\n", " ")[:160] + "  =>  " + repl[:80])
        finally:
            open(os.path.join(d, rel), "wb").write(src)
    finally:
        with lock:
            free.append(i)
with concurrent.futures.ThreadPoolExecutor(NW) as ex:
    for mid, verdict, info in ex.map(one, muts):
        print("%s\t%s\t%s" % (verdict, mid, info), flush=True)
