#!/bin/sh
# jail.sh <workdir> <command...>: run the command in a private mount namespace
# where the whole root file system is read-only except <workdir>, the Go build
# cache and a private tmpfs on /tmp.
# Mutated code runs its tests as root: a mutant that removes or rewrites the
# wrong path (a parent of its temp dir, a relative path) must not be able to
# touch /repo, /verif or other scratch data. Development aid for
# tools/mutation_run.py; not used by any registered check.
set -e
w="$1"; shift
exec unshare -m sh -c '
set -e
mount --make-rprivate /
mount --bind "$0" "$0"
mount --bind /root/.cache/go-build /root/.cache/go-build
mount -t tmpfs -o size=4g,mode=1777 none /tmp
mount -o remount,ro,bind /
cd "$1"; shift
exec "$@"
' "$w" "$w" "$@"
