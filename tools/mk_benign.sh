#!/bin/sh
# mk_benign.sh <name> "<why>" <dir>: record the uncommitted edit of a scratch copy (tools/scratch.sh /dev/null <dir>)
# as the hand-written benign control mutants/benign/<name>.diff
set -e
{ echo "# benign: $2"; git -C "$3" diff; } > /verif/mutants/benign/$1.diff
grep -c '^@@' /verif/mutants/benign/$1.diff
