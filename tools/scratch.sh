#!/bin/sh
# scratch.sh <patch|/dev/null> <dir>: copy /repo (without .git) to <dir>, make it a throw-away git repository
# (so that `git diff` shows later edits), and apply <patch> on top (committed as the base of further edits).
# Debugging aid; remove <dir> afterwards.
set -e
rm -rf "$2"; mkdir -p "$2"
(cd /repo && tar --exclude=.git -cf - .) | (cd "$2" && tar -xf -)
cd "$2"
git init -q . && git add -A && git -c user.name=x -c user.email=x@x commit -qm base
if [ -s "$1" ]; then
  git apply "$1" 2>/dev/null || patch -p1 -s < "$1"
  git add -A && git -c user.name=x -c user.email=x@x commit -qm patched
fi
