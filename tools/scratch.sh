#!/bin/sh
# scratch.sh <patch> <dir>: copy /repo (without .git) to <dir> and apply <patch> (debugging aid; remove <dir> afterwards)
set -e
rm -rf "$2"; mkdir -p "$2"
(cd /repo && tar --exclude=.git -cf - .) | (cd "$2" && tar -xf -)
cd "$2" && git apply --unsafe-paths --directory="$2" "$1" 2>/dev/null || (cd "$2" && patch -p1 -s < "$1")
