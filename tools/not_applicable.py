# -*- python -*-  properties not (yet) claimed, with the reason
for pid in []:
    NOT_BUILT[pid] = "check under construction in this build session: the rules of DESIGN.md for this property are not wired into the checker yet, so nothing is claimed"
