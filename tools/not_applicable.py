# -*- python -*-  properties not (yet) claimed, with the reason
for pid in ["C17","C18","C19","C20"]:
    NOT_BUILT[pid] = "check under construction in this build session: the rules of DESIGN.md for this property are not wired into the checker yet, so nothing is claimed"
