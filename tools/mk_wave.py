#!/usr/bin/env python3
"""Prepare a wave of sub-agent tasks: one scratch worktree of /repo and one
prompt file per task, under a base directory outside /repo and /verif.

  tools/mk_wave.py seeds   /tmp/wt2      -> <base>/Cxx + <base>/Cxx.prompt.txt
  tools/mk_wave.py refactor /tmp/wt2     -> <base>/Txx + <base>/Txx.prompt.txt

The prompts contain only the text of the property (seeds) or a list of files
(refactorings): nothing from /verif.
"""
import json, os, subprocess, sys
VERIF = os.path.dirname(os.path.dirname(os.path.abspath(__file__)))
kind, base = sys.argv[1], sys.argv[2]
HINT = sys.argv[3] if len(sys.argv) > 3 else ""
TASKS = sys.argv[3] if len(sys.argv) > 3 else "tools/prompts/refactor_wave2.json"
os.makedirs(base, exist_ok=True)

def worktree(d):
    if not os.path.isdir(d):
        subprocess.run(["git", "-C", "/repo", "worktree", "add", "-q", "--detach", d, "HEAD"], check=True)

if kind == "seeds":
    tmpl = open(os.path.join(VERIF, "tools/prompts/seed_prompt_template.txt")).read()
    for line in open(os.path.join(VERIF, "properties.jsonl")):
        p = json.loads(line)
        d = os.path.join(base, p["id"])
        worktree(d)
        prop = "TITLE: %s\n\nSTATEMENT: %s\n\nQUANTIFIED OVER: %s\n\nWHY THE EXISTING TESTS CANNOT SETTLE IT: %s\n\nCODE ANCHORS: %s" % (
            p["title"], p["statement"], p["quantifier"]["text"], p["why_tests_cant"], json.dumps(p.get("anchors")))
        t = tmpl.replace("@DIR@", d).replace("@BASE@", base).replace("@ID@", p["id"]).replace("@PROP@", prop).replace("@HINT@", HINT)
        open(os.path.join(base, p["id"] + ".prompt.txt"), "w").write(t)
        print(d)
else:
    tmpl = open(os.path.join(VERIF, "tools/prompts/refactor_prompt_template.txt")).read()
    tasks = json.load(open(os.path.join(VERIF, TASKS)))
    for t in tasks:
        d = os.path.join(base, t["id"])
        worktree(d)
        s = tmpl.replace("@DIR@", d).replace("@BASE@", base).replace("@FILES@", t["files"]).replace("@STYLE@", t["style"])
        open(os.path.join(base, t["id"] + ".prompt.txt"), "w").write(s)
        print(d)
