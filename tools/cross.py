#!/usr/bin/env python3
"""Cross product of breaking changes and behaviour-preserving refactorings
(developer tooling, not a registered check).

For a breaking patch M (mutants/firing, seeded) and a benign patch B
(mutants/benign) that touch a common file, merge both onto the reference tree
(3-way, in a scratch git repository outside /repo and /verif); when the merge
is clean and the result builds, run the checker on it and require a violation
of M's property.  A pair that is no longer detected shows a rule that does
not see through that refactoring.

usage: cross.py [-n MAX] [-j JOBS] [benign-glob [breaking-glob]]
       cross.py benign [MAX]     pairs of benign patches merged: must stay silent
"""
import concurrent.futures, glob, json, os, random, re, shutil, subprocess, sys, tempfile, threading

VERIF = os.path.dirname(os.path.dirname(os.path.abspath(__file__)))
BIN = os.path.join(VERIF, "bin", "fsverif")
ENV = dict(os.environ, GOFLAGS="-mod=mod", GOPROXY="off", GOSUMDB="off", GOTOOLCHAIN="local",
           GIT_AUTHOR_NAME="x", GIT_AUTHOR_EMAIL="x@x", GIT_COMMITTER_NAME="x", GIT_COMMITTER_EMAIL="x@x")
ENV.pop("GOWORK", None)


def sh(cmd, cwd, check=False):
    r = subprocess.run(cmd, cwd=cwd, capture_output=True, text=True, env=ENV)
    if check and r.returncode != 0:
        raise RuntimeError(" ".join(cmd) + ": " + r.stderr[-300:])
    return r


def files_of(patch):
    return set(re.findall(r"^\+\+\+ b/(\S+)", open(patch).read(), re.M))


def expect_of(patch):
    if "/seeded/" in patch:
        return [json.load(open(os.path.join(os.path.dirname(patch), "meta.json")))["breaks_property"]]
    m = re.search(r"# expect:(.*)", open(patch).read().split("diff --git")[0])
    return sorted({e.split(":")[0] for e in m.group(1).split()}) if m else []


local = threading.local()


def repo():
    if getattr(local, "dir", None):
        return local.dir
    d = tempfile.mkdtemp(prefix="cross-")
    r = os.path.join(d, "repo")
    shutil.copytree("/repo", r, ignore=shutil.ignore_patterns(".git"), symlinks=True)
    sh(["git", "init", "-q", "-b", "base", "."], r, True)
    sh(["git", "add", "-A"], r, True)
    sh(["git", "commit", "-qm", "base"], r, True)
    local.dir = r
    dirs.append(d)
    return r


dirs = []


def branch(r, name, patch):
    sh(["git", "checkout", "-q", "-f", "base"], r, True)
    sh(["git", "clean", "-qfd"], r)
    sh(["git", "branch", "-D", name], r)
    sh(["git", "checkout", "-q", "-b", name], r, True)
    a = sh(["git", "apply", "--index", patch], r)
    if a.returncode != 0:
        return False
    sh(["git", "commit", "-qm", name], r, True)
    return True


def one(pair):
    b, m = pair
    r = repo()
    tag = os.path.basename(b)[:-5] + " x " + (os.path.basename(os.path.dirname(m)) if "/seeded/" in m else os.path.basename(m)[:-5])
    if not branch(r, "b", b) or not branch(r, "m", m):
        return tag, "skip", "patch does not apply"
    sh(["git", "checkout", "-q", "-f", "b"], r, True)
    mg = sh(["git", "merge", "-q", "--no-edit", "m"], r)
    if mg.returncode != 0:
        sh(["git", "merge", "--abort"], r)
        return tag, "skip", "merge conflict"
    if sh(["go", "build", "./..."], r).returncode != 0:
        return tag, "skip", "merged tree does not build"
    props = expect_of(m)
    if not props:
        return tag, "skip", "no expectation"
    out = sh([BIN, "-property", ",".join(props), "-child", "-config", "linux/amd64", "-repo", r], r)
    if "{" not in out.stdout:
        return tag, "error", out.stderr[-200:]
    reps = json.loads(out.stdout[out.stdout.index("{"):])
    known = json.load(open(os.path.join(VERIF, "known_findings.json")))["findings"]
    fired = []
    for pid, rep in reps.items():
        for ob in rep["Obs"]:
            if ob["verdict"] in ("violation", "undecided") and not any(
                    k["status"] == "open" and k["property"] == pid and k["rule"] == ob["rule"] and k["construct"] == ob["construct"] for k in known):
                fired.append(pid + ":" + ob["rule"])
    if fired:
        return tag, "detected", " ".join(sorted(set(fired))[:4])
    return tag, "MISSED", ",".join(props)


def both_benign(pair):
    """Two behaviour-preserving patches merged: the result must be silent."""
    b1, b2 = pair
    r = repo()
    tag = os.path.basename(b1)[:-5] + " + " + os.path.basename(b2)[:-5]
    if not branch(r, "b", b1) or not branch(r, "m", b2):
        return tag, "skip", "patch does not apply"
    sh(["git", "checkout", "-q", "-f", "b"], r, True)
    mg = sh(["git", "merge", "-q", "--no-edit", "m"], r)
    if mg.returncode != 0:
        sh(["git", "merge", "--abort"], r)
        return tag, "skip", "merge conflict"
    if sh(["go", "build", "./..."], r).returncode != 0:
        return tag, "skip", "merged tree does not build"
    out = sh([BIN, "-property", "all", "-child", "-config", "linux/amd64", "-repo", r], r)
    if "{" not in out.stdout:
        return tag, "error", out.stderr[-200:]
    reps = json.loads(out.stdout[out.stdout.index("{"):])
    known = json.load(open(os.path.join(VERIF, "known_findings.json")))["findings"]
    fired = []
    for pid, rep in reps.items():
        for ob in rep["Obs"]:
            if ob["verdict"] in ("violation", "undecided") and not any(
                    k["status"] == "open" and k["property"] == pid and k["rule"] == ob["rule"] and k["construct"] == ob["construct"] for k in known):
                fired.append(pid + ":" + ob["rule"] + " " + ob["construct"])
    if fired:
        return tag, "ALARM", "; ".join(sorted(set(fired))[:4])
    return tag, "silent", ""


def main_benign(args):
    n, jobs = 300, 8
    benign = sorted(glob.glob(os.path.join(VERIF, "mutants/benign/A-*.diff")))
    bf = {b: files_of(b) for b in benign}
    pairs = [(a, b) for i, a in enumerate(benign) for b in benign[i + 1:] if bf[a] & bf[b]]
    random.Random(11).shuffle(pairs)
    pairs = pairs[:int(args[0]) if args else n]
    print(f"{len(pairs)} pairs of benign patches")
    stats = {}
    try:
        with concurrent.futures.ThreadPoolExecutor(max_workers=jobs) as ex:
            for tag, verdict, detail in ex.map(both_benign, pairs):
                stats[verdict] = stats.get(verdict, 0) + 1
                if verdict not in ("skip", "silent"):
                    print(f"{verdict:9s} {tag}  {detail}", flush=True)
    finally:
        for d in dirs:
            shutil.rmtree(d, ignore_errors=True)
    print(stats)


def main():
    args = sys.argv[1:]
    if args and args[0] == "benign":
        return main_benign(args[1:])
    n, jobs = 300, 6
    while args and args[0] in ("-n", "-j"):
        if args[0] == "-n":
            n = int(args[1])
        else:
            jobs = int(args[1])
        args = args[2:]
    bg = args[0] if args else "mutants/benign/A-*.diff"
    mg = args[1:] or ["mutants/firing/[A-UW-Z]*.diff", "seeded/*/patch.diff"]
    benign = sorted(glob.glob(os.path.join(VERIF, bg)))
    breaking = []
    for g in mg:
        breaking += sorted(glob.glob(os.path.join(VERIF, g)))
    bf = {b: files_of(b) for b in benign}
    mf = {m: files_of(m) for m in breaking}
    pairs = [(b, m) for b in benign for m in breaking if bf[b] & mf[m] and "# base:" not in open(m).read(400)]
    random.Random(7).shuffle(pairs)
    pairs = pairs[:n]
    print(f"{len(pairs)} pairs")
    stats = {}
    try:
        with concurrent.futures.ThreadPoolExecutor(max_workers=jobs) as ex:
            for tag, verdict, detail in ex.map(one, pairs):
                stats[verdict] = stats.get(verdict, 0) + 1
                if verdict != "skip":
                    print(f"{verdict:9s} {tag}  {detail}", flush=True)
    finally:
        for d in dirs:
            shutil.rmtree(d, ignore_errors=True)
    print(stats)


main()
