#!/usr/bin/env python3
"""Intake of a behaviour-preserving refactoring written by a sub-agent:
store its diff as mutants/benign/<name>.diff (header '# benign: ...'), confirm it
builds and keeps the suite green, run all checks on a scratch copy and list
every alarm (each is a false alarm to be analysed)."""
import json, os, shutil, subprocess, sys, tempfile
VERIF = os.path.dirname(os.path.dirname(os.path.abspath(__file__)))
ENV = dict(os.environ, GOFLAGS="-mod=mod", GOPROXY="off", GOSUMDB="off", GOTOOLCHAIN="local"); ENV.pop("GOWORK", None)
def run(cmd, cwd=None):
    r = subprocess.run(cmd, cwd=cwd, capture_output=True, text=True, env=ENV)
    return r.returncode, r.stdout + r.stderr
wt, name, why = sys.argv[1:4]
run(["git", "add", "-N", "."], cwd=wt)  # new files belong to the patch
rc, diff = run(["git", "diff", "HEAD"], cwd=wt)
if not diff.strip():
    print("no change"); sys.exit(1)
out = os.path.join(VERIF, "mutants", "benign", name + ".diff")
open(out, "w").write("# benign: " + why + "\n" + diff)
tmp = tempfile.mkdtemp(prefix="refac-")
try:
    dst = os.path.join(tmp, "repo")
    shutil.copytree("/repo", dst, ignore=shutil.ignore_patterns(".git"), symlinks=True)
    rc, o = run(["git", "apply", "--unsafe-paths", "--directory=" + dst, out], cwd=tmp)
    if rc: print("patch does not apply", o); sys.exit(1)
    rc, o = run(["go", "build", "./..."], cwd=dst)
    if rc: print("does not build", o[-500:]); sys.exit(1)
    rc, o = run(["go", "test", "-vet=off", "-count=1", "./..."], cwd=dst)
    print("suite:", "green" if rc == 0 else "FAILS " + o[-300:])
    import re
    configs = ["linux/amd64"]
    if re.search(r"^\+\+\+ b/\S*_(windows|unix|linux|darwin|freebsd|nolinux|otherbsd|nowindows)\.go", diff, re.M):
        configs = ["linux/amd64", "linux/386", "darwin/amd64", "freebsd/amd64", "openbsd/amd64", "windows/amd64"]
    known = json.load(open(os.path.join(VERIF, "known_findings.json")))["findings"]
    n = 0
    for cfg in configs:
        rc, o = run([os.environ.get("SELFTEST_BIN", os.path.join(VERIF, "bin", "fsverif")), "-property", "all", "-child", "-config", cfg, "-repo", dst])
        if rc or "{" not in o:
            print(f"[{cfg}] checker failed (a patch that breaks another platform's build is not a valid benign patch)", o[-500:]); n += 1; continue
        reps = json.loads(o[o.index("{"):])
        for pid, rep in sorted(reps.items()):
            for ob in rep["Obs"]:
                if ob["verdict"] in ("violation", "undecided"):
                    if any(k["status"] == "open" and k["property"] == pid and k["rule"] == ob["rule"] and k["construct"] == ob["construct"] for k in known):
                        continue
                    n += 1
                    print(f"ALARM [{cfg}] {pid} {ob['rule']} {ob['construct']} at {ob['pos']}: {ob['why'][:260]}")
    print("alarms:", n)
finally:
    shutil.rmtree(tmp, ignore_errors=True)
