#!/usr/bin/env python3
"""List every alarm the checker raises on the benign patches (false alarms)."""
import glob, json, os, shutil, subprocess, sys, tempfile
VERIF = os.path.dirname(os.path.dirname(os.path.abspath(__file__)))
pats = sys.argv[1:] or ["mutants/benign/A-*.diff"]
files = []
for p in pats:
    files += sorted(glob.glob(os.path.join(VERIF, p)))
known = json.load(open(os.path.join(VERIF, "known_findings.json")))["findings"]
for f in files:
    tmp = tempfile.mkdtemp(prefix="benign-")
    try:
        dst = os.path.join(tmp, "repo")
        shutil.copytree("/repo", dst, ignore=shutil.ignore_patterns(".git"), symlinks=True)
        subprocess.run(["git", "apply", "--unsafe-paths", "--directory=" + dst, f], cwd=tmp, check=True, capture_output=True)
        r = subprocess.run([os.path.join(VERIF, "bin", "fsverif"), "-property", "all", "-child", "-config", "linux/amd64", "-repo", dst], capture_output=True, text=True)
        reps = json.loads(r.stdout[r.stdout.index("{"):])
        print("===", os.path.basename(f))
        for pid, rep in sorted(reps.items()):
            for ob in rep["Obs"]:
                if ob["verdict"] in ("violation", "undecided") and not any(k["status"] == "open" and k["property"] == pid and k["rule"] == ob["rule"] and k["construct"] == ob["construct"] for k in known):
                    print(f"  {pid} {ob['rule']} {ob['construct']} @{ob['pos']}: {ob['why'][:230]}")
    finally:
        shutil.rmtree(tmp, ignore_errors=True)
