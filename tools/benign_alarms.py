#!/usr/bin/env python3
"""List every alarm the checker raises on the benign patches (false alarms)."""
import glob, json, os, shutil, subprocess, sys, tempfile
VERIF = os.path.dirname(os.path.dirname(os.path.abspath(__file__)))
CONFIGS = os.environ.get("CONFIGS", "linux/amd64").split(",")  # CONFIGS=all for the 8 thorough configurations
if CONFIGS == ["all"]:
    CONFIGS = ["linux/amd64", "linux/386", "linux/arm64", "darwin/amd64", "freebsd/amd64", "openbsd/amd64", "netbsd/amd64", "windows/amd64"]
pats = sys.argv[1:] or ["mutants/benign/A-*.diff"]
files = []
for p in pats:
    files += sorted(glob.glob(os.path.join(VERIF, p)))
known = json.load(open(os.path.join(VERIF, "known_findings.json")))["findings"]
for f in files:
    tmp = tempfile.mkdtemp(prefix="benign-")
    try:
        dst = os.path.join(tmp, "repo")
        shutil.copytree("/repo", dst, ignore=shutil.ignore_patterns(".git"), symlinks=True)
        subprocess.run(["git", "apply", "--unsafe-paths", "--directory=" + dst, f], cwd=tmp, check=True, capture_output=True)
        print("===", os.path.basename(f))
        for cfg in CONFIGS:
            r = subprocess.run([os.environ.get("FSVERIF", os.path.join(VERIF, "bin", "fsverif")), "-property", "all", "-child", "-config", cfg, "-repo", dst], capture_output=True, text=True)
            if "{" not in r.stdout:
                print(f"  [{cfg}] checker failed: {r.stderr[-300:]}")
                continue
            reps = json.loads(r.stdout[r.stdout.index("{"):])
            for pid, rep in sorted(reps.items()):
                for ob in rep["Obs"]:
                    if ob["verdict"] in ("violation", "undecided") and not any(k["status"] == "open" and k["property"] == pid and k["rule"] == ob["rule"] and k["construct"] == ob["construct"] for k in known):
                        tag = "" if cfg == "linux/amd64" else f"[{cfg}] "
                        print(f"  {tag}{pid} {ob['rule']} {ob['construct']} @{ob['pos']}: {ob['why'][:230]}")
    finally:
        shutil.rmtree(tmp, ignore_errors=True)
