// fsverif: repository-specific static checker for tonistiigi/fsutil.
// See /verif/DESIGN.md. Nothing in the analysed repository is executed.
package main

import (
	"encoding/json"
	"flag"
	"fmt"
	"os"
	"os/exec"
	"runtime/debug"
	"sort"
	"strconv"
	"strings"
	"sync"
	"time"

	"fsverif/eng"
	"fsverif/props"
	"fsverif/rep"
)

var thoroughConfigs = []string{
	"linux/amd64", "linux/386", "linux/arm64", "darwin/amd64", "freebsd/amd64", "openbsd/amd64", "netbsd/amd64", "windows/amd64",
}

func main() {
	property := flag.String("property", "", "property id (C01..C20) or 'all'")
	tier := flag.String("tier", "quick", "quick | thorough")
	repo := flag.String("repo", "/repo", "repository working tree to analyse")
	out := flag.String("out", "/verif/evidence", "evidence directory")
	knownPath := flag.String("known", "/verif/known_findings.json", "known findings file")
	config := flag.String("config", "", "single GOOS/GOARCH (child mode)")
	child := flag.Bool("child", false, "emit the per-config report as JSON on stdout")
	explain := flag.String("explain", "", "pretty-print a violations file")
	list := flag.Bool("list", false, "list registered properties")
	flag.Parse()

	if *explain != "" {
		doExplain(*explain)
		return
	}
	if *list {
		for _, id := range props.IDs() {
			fmt.Println(id)
		}
		return
	}
	if *property == "" {
		fmt.Fprintln(os.Stderr, "usage: fsverif -property Cxx [-tier quick|thorough]")
		os.Exit(2)
	}
	seed := 0
	if s := os.Getenv("VERIF_SEED"); s != "" {
		seed, _ = strconv.Atoi(s)
	}
	if t := os.Getenv("VERIF_TIER"); t != "" && !flagSet("tier") {
		*tier = t
	}
	ids := strings.Split(*property, ",")
	if *property == "all" {
		ids = props.IDs()
	}
	for _, id := range ids {
		if props.Registry[id] == nil {
			fmt.Printf("VIOLATION property=%s replay=-\n", id)
			fmt.Fprintf(os.Stderr, "unknown property %s\n", id)
			os.Exit(1)
		}
	}

	if *child {
		runChild(ids, *repo, *config, *tier)
		return
	}

	start := time.Now()
	known, err := rep.LoadKnown(*knownPath)
	if err != nil {
		fmt.Fprintf(os.Stderr, "cannot read known findings %s: %v\n", *knownPath, err)
		for _, id := range ids {
			fmt.Printf("VIOLATION property=%s replay=%s\n", id, *knownPath)
		}
		os.Exit(1)
	}

	configs := []string{"linux/amd64"}
	if *tier == "thorough" {
		configs = thoroughConfigs
	}
	reports := map[string][]*rep.Report{} // property -> per config
	failed := false
	if len(configs) == 1 {
		rs, err := analyse(ids, *repo, configs[0], *tier)
		if err != nil {
			fatalAll(ids, *out, *tier, seed, err, start)
		}
		for id, r := range rs {
			reports[id] = append(reports[id], r)
		}
	} else {
		// one child process per configuration bounds memory and uses the cores
		var mu sync.Mutex
		var wg sync.WaitGroup
		sem := make(chan struct{}, 8)
		var firstErr error
		self, _ := os.Executable()
		for _, cfg := range configs {
			cfg := cfg
			wg.Add(1)
			go func() {
				defer wg.Done()
				sem <- struct{}{}
				defer func() { <-sem }()
				cmd := exec.Command(self, "-child", "-config", cfg, "-property", strings.Join(ids, ","), "-repo", *repo, "-tier", *tier)
				cmd.Stderr = os.Stderr
				b, err := cmd.Output()
				mu.Lock()
				defer mu.Unlock()
				if err != nil {
					if firstErr == nil {
						firstErr = fmt.Errorf("config %s: %v: %s", cfg, err, string(b))
					}
					return
				}
				var rs map[string]*rep.Report
				if err := json.Unmarshal(b, &rs); err != nil {
					if firstErr == nil {
						firstErr = fmt.Errorf("config %s: bad child output: %v", cfg, err)
					}
					return
				}
				for id, r := range rs {
					reports[id] = append(reports[id], r)
				}
			}()
		}
		wg.Wait()
		if firstErr != nil {
			fatalAll(ids, *out, *tier, seed, firstErr, start)
		}
		for id := range reports {
			sort.Slice(reports[id], func(i, j int) bool {
				return cfgIndex(reports[id][i].Config) < cfgIndex(reports[id][j].Config)
			})
		}
	}
	for _, id := range ids {
		extra := map[string]interface{}{
			"checker_cmd": fmt.Sprintf("fsverif -property %s -tier %s -repo %s", id, *tier, *repo),
		}
		res, err := rep.Finish(id, *tier, seed, reports[id], known, *out, props.Registry[id].Explanation, start, extra)
		if err != nil {
			fmt.Fprintln(os.Stderr, err)
			fmt.Printf("VIOLATION property=%s replay=-\n", id)
			failed = true
			continue
		}
		nOb := 0
		for _, r := range reports[id] {
			nOb += len(r.Obs)
		}
		for _, l := range res.Lines {
			fmt.Println(l)
		}
		if res.Violations > 0 {
			failed = true
		} else {
			fmt.Printf("OK property=%s tier=%s configs=%d obligations=%d known_findings=%d evidence=%s/%s.json\n", id, *tier, len(reports[id]), nOb, len(res.KnownHits), *out, id)
		}
	}
	if failed {
		os.Exit(1)
	}
}

func cfgIndex(c string) int {
	for i, x := range thoroughConfigs {
		if x == c {
			return i
		}
	}
	return 99
}

func flagSet(name string) bool {
	set := false
	flag.Visit(func(f *flag.Flag) {
		if f.Name == name {
			set = true
		}
	})
	return set
}

// analyse loads one configuration and runs the requested properties on it.
// A panic inside a rule is a checker failure and fails closed.
func analyse(ids []string, repo, cfg, tier string) (rs map[string]*rep.Report, err error) {
	parts := strings.SplitN(cfg, "/", 2)
	if len(parts) != 2 {
		return nil, fmt.Errorf("bad config %q", cfg)
	}
	p, err := eng.Load(repo, parts[0], parts[1], false)
	if err != nil {
		return nil, err
	}
	if len(p.Pkgs) < 7 {
		return nil, fmt.Errorf("only %d module packages loaded for %s, expected at least 7", len(p.Pkgs), cfg)
	}
	p.SetKnown(props.KnownNames())
	rs = map[string]*rep.Report{}
	for _, id := range ids {
		r := rep.New(id, cfg)
		rs[id] = r
		for _, n := range eng.AliasNotes() {
			r.Assumption("renamed identifier recognised by shape [" + cfg + "]: " + n)
		}
		if len(p.Dead) > 0 {
			r.Assumption("unexported functions that nothing in the program can call (no static call, no value use, no dynamic dispatch) are not analysed [" + cfg + "]: " + strings.Join(p.Dead, ", "))
		}
		if len(p.Seams) > 0 {
			var ss []string
			for g, f := range p.Seams {
				ss = append(ss, g+" = "+f)
			}
			sort.Strings(ss)
			r.Assumption("package-level function variables set once by the package initialiser and never assigned by non-test code are read as the function they hold [" + cfg + "]: " + strings.Join(ss, ", "))
		}
		r.Assumption("unexported, statically called, non-recursive functions that no rule names are analysed as part of their callers (inlined, depth <= 4) [" + cfg + "]: " + strings.Join(p.TransparentNames(), ", "))
		func() {
			defer func() {
				if e := recover(); e != nil {
					r.Undecided("CHECKER", "panic/"+id, "-", fmt.Sprintf("checker panic: %v\n%s", e, trimStack(string(debug.Stack()))))
				}
			}()
			props.Registry[id].Run(&props.Ctx{P: p, R: r, Tier: tier})
		}()
	}
	return rs, nil
}

func trimStack(s string) string {
	lines := strings.Split(s, "\n")
	if len(lines) > 24 {
		lines = lines[:24]
	}
	return strings.Join(lines, "\n")
}

func runChild(ids []string, repo, cfg, tier string) {
	rs, err := analyse(ids, repo, cfg, tier)
	if err != nil {
		fmt.Fprintln(os.Stderr, err)
		os.Exit(3)
	}
	b, _ := json.Marshal(rs)
	os.Stdout.Write(b)
}

// fatalAll: a load failure fails every requested property (fail closed).
func fatalAll(ids []string, out, tier string, seed int, err error, start time.Time) {
	fmt.Fprintln(os.Stderr, "FATAL:", err)
	for _, id := range ids {
		r := rep.New(id, "-")
		r.Undecided("LOAD", "load", "-", err.Error())
		res, ferr := rep.Finish(id, tier, seed, []*rep.Report{r}, nil, out, props.Registry[id].Explanation, start, nil)
		if ferr != nil {
			fmt.Printf("VIOLATION property=%s replay=-\n", id)
			continue
		}
		for _, l := range res.Lines {
			fmt.Println(l)
		}
	}
	os.Exit(1)
}

func doExplain(path string) {
	b, err := os.ReadFile(path)
	if err != nil {
		fmt.Fprintln(os.Stderr, err)
		os.Exit(2)
	}
	var f struct {
		Property   string   `json:"property"`
		Tier       string   `json:"tier"`
		Violations []rep.Ob `json:"violations"`
	}
	if err := json.Unmarshal(b, &f); err != nil {
		fmt.Fprintln(os.Stderr, err)
		os.Exit(2)
	}
	fmt.Printf("property %s (%s tier): %d unresolved obligation(s)\n", f.Property, f.Tier, len(f.Violations))
	for i, o := range f.Violations {
		fmt.Printf("\n[%d] %s  rule %s  config %s\n    construct: %s\n    at:        %s\n    why:       %s\n", i+1, strings.ToUpper(o.Verdict), o.Rule, o.Config, o.Construct, o.Pos, o.Why)
	}
}
