// Package rep collects obligations, matches them against the committed list
// of known findings and writes the evidence and violation files.
package rep

import (
	"encoding/json"
	"fmt"
	"os"
	"path/filepath"
	"sort"
	"strings"
	"time"
)

// Ob is one decided obligation.
type Ob struct {
	Rule      string `json:"rule"`
	Construct string `json:"construct"`
	Pos       string `json:"pos"`
	Verdict   string `json:"verdict"` // ok | violation | undecided | known-finding
	Why       string `json:"why"`
	Config    string `json:"config,omitempty"`
}

// Report accumulates the result of one property on one configuration.
type Report struct {
	Property  string
	Config    string
	Obs       []Ob
	Funcs     map[string]bool
	CallSites int
	Canaries  int
	Rules     map[string]string // rule id -> one-line statement
	Assume    map[string]bool
}

func New(property, config string) *Report {
	return &Report{Property: property, Config: config, Funcs: map[string]bool{}, Rules: map[string]string{}, Assume: map[string]bool{}}
}

// Rule registers a rule statement (shown in the evidence).
func (r *Report) Rule(id, text string) { r.Rules[id] = text }

// Assumption records a trusted fact.
func (r *Report) Assumption(s string) { r.Assume[s] = true }

// Analysed notes a function that a rule inspected.
func (r *Report) Analysed(fn string) { r.Funcs[fn] = true }

func (r *Report) add(rule, construct, pos, verdict, why string) {
	// a site inside a shared helper is visited once per caller: keep one copy
	for _, o := range r.Obs {
		if o.Rule == rule && o.Construct == construct && o.Pos == pos && o.Verdict == verdict && o.Why == why {
			return
		}
	}
	r.Obs = append(r.Obs, Ob{Rule: rule, Construct: construct, Pos: pos, Verdict: verdict, Why: why, Config: r.Config})
}

func (r *Report) OK(rule, construct, pos, why string) { r.add(rule, construct, pos, "ok", why) }
func (r *Report) Fail(rule, construct, pos, why string) {
	r.add(rule, construct, pos, "violation", why)
}
func (r *Report) Undecided(rule, construct, pos, why string) {
	r.add(rule, construct, pos, "undecided", why)
}

// Check adds ok or violation depending on cond.
func (r *Report) Check(cond bool, rule, construct, pos, whyOK, whyFail string) bool {
	if cond {
		r.OK(rule, construct, pos, whyOK)
	} else {
		r.Fail(rule, construct, pos, whyFail)
	}
	return cond
}

// Floor fails when fewer than min instances of a rule matched: a rule that
// matches nothing must not pass vacuously.
func (r *Report) Floor(rule, what string, got, min int) bool {
	c := fmt.Sprintf("floor/%s", what)
	if got < min {
		r.Fail(rule, c, "-", fmt.Sprintf("only %d instance(s) of %s matched, at least %d were confirmed by hand on the reference tree: the rule would pass vacuously", got, what, min))
		return false
	}
	r.OK(rule, c, "-", fmt.Sprintf("%d instance(s) of %s matched (floor %d)", got, what, min))
	return true
}

// Exact fails when the count differs from want.
func (r *Report) Exact(rule, what string, got, want int) bool {
	c := fmt.Sprintf("count/%s", what)
	if got != want {
		r.Fail(rule, c, "-", fmt.Sprintf("%d instance(s) of %s, expected exactly %d", got, what, want))
		return false
	}
	r.OK(rule, c, "-", fmt.Sprintf("%d instance(s) of %s as expected", got, what))
	return true
}

// Canary records that a positive control fired.
func (r *Report) Canary(rule string, fired bool, what string) {
	if fired {
		r.Canaries++
		r.OK(rule, "canary/"+what, "-", "positive control fired")
	} else {
		r.Fail(rule, "canary/"+what, "-", "positive control stayed silent: the rule cannot be trusted to detect anything")
	}
}

// Missing reports an anchor that could not be resolved.
func (r *Report) Missing(rule, anchor string) {
	r.add(rule, "anchor/"+anchor, "-", "undecided", "ANCHOR: "+anchor+" not found in the loaded program (renamed, removed or restructured); the rule cannot be evaluated")
}

// ---------------------------------------------------------------------------

type Known struct {
	Property  string `json:"property"`
	Rule      string `json:"rule"`
	Construct string `json:"construct"`
	Status    string `json:"status"` // open | fixed
	Commit    string `json:"commit,omitempty"`
	What      string `json:"what"`
}

func LoadKnown(path string) ([]Known, error) {
	b, err := os.ReadFile(path)
	if err != nil {
		return nil, err
	}
	var f struct {
		Findings []Known `json:"findings"`
	}
	if err := json.Unmarshal(b, &f); err != nil {
		return nil, err
	}
	return f.Findings, nil
}

// Result of finishing a property run.
type Result struct {
	Violations int
	KnownHits  []Known
	Lines      []string
}

type evidence struct {
	PropertyID  string                 `json:"property_id"`
	Tier        string                 `json:"tier"`
	Seed        int                    `json:"seed"`
	Level       string                 `json:"level"`
	Coverage    map[string]interface{} `json:"coverage"`
	Assumptions []string               `json:"assumptions"`
	WallS       float64                `json:"wall_s"`
	Violations  int                    `json:"violations"`
}

// Finish merges per-config reports, applies known findings, writes evidence
// and (if needed) the violations file, and returns what to print.
func Finish(property, tier string, seed int, reports []*Report, known []Known, outDir, explanation string, start time.Time, extra map[string]interface{}) (*Result, error) {
	res := &Result{}
	var all []Ob
	funcs := map[string]bool{}
	rules := map[string]string{}
	assume := map[string]bool{}
	callSites, canaries := 0, 0
	var configs []string
	for _, r := range reports {
		all = append(all, r.Obs...)
		for f := range r.Funcs {
			funcs[f] = true
		}
		for k, v := range r.Rules {
			rules[k] = v
		}
		for k := range r.Assume {
			assume[k] = true
		}
		callSites += r.CallSites
		canaries += r.Canaries
		configs = append(configs, r.Config)
	}
	sort.SliceStable(all, func(i, j int) bool {
		a, b := all[i], all[j]
		if a.Rule != b.Rule {
			return ruleLess(a.Rule, b.Rule)
		}
		if a.Construct != b.Construct {
			return a.Construct < b.Construct
		}
		return a.Config < b.Config
	})
	// known findings
	var bad []Ob
	knownPrinted := map[string]bool{}
	for i := range all {
		o := &all[i]
		if o.Verdict != "violation" {
			continue
		}
		for _, k := range known {
			if k.Status == "open" && k.Property == property && k.Rule == o.Rule && k.Construct == o.Construct {
				o.Verdict = "known-finding"
				key := k.Rule + "|" + k.Construct
				if !knownPrinted[key] {
					knownPrinted[key] = true
					res.KnownHits = append(res.KnownHits, k)
					res.Lines = append(res.Lines, fmt.Sprintf("KNOWN-FINDING: property=%s %s [%s / %s]", property, k.What, k.Rule, k.Construct))
				}
			}
		}
	}
	discharged, distinct := 0, map[string]bool{}
	for _, o := range all {
		switch o.Verdict {
		case "ok":
			discharged++
		case "violation", "undecided":
			bad = append(bad, o)
		}
		if !strings.HasPrefix(o.Construct, "floor/") && !strings.HasPrefix(o.Construct, "count/") && !strings.HasPrefix(o.Construct, "canary/") {
			distinct[o.Rule+"|"+o.Construct] = true
		}
	}
	res.Violations = len(bad)
	var fl []string
	for f := range funcs {
		fl = append(fl, f)
	}
	sort.Strings(fl)
	var rl []string
	for k, v := range rules {
		rl = append(rl, k+": "+v)
	}
	sort.Slice(rl, func(i, j int) bool {
		return ruleLess(strings.SplitN(rl[i], ":", 2)[0], strings.SplitN(rl[j], ":", 2)[0])
	})
	var al []string
	for k := range assume {
		al = append(al, k)
	}
	sort.Strings(al)
	samples := make([]interface{}, 0, len(all))
	for _, o := range all {
		samples = append(samples, o)
	}
	cov := map[string]interface{}{
		"explanation":         explanation,
		"rules":               rl,
		"rule":                "one obligation per (rule, construct, configuration); distinct_nontrivial counts distinct (rule, construct) pairs that matched a real site in /repo (floor, count and canary bookkeeping obligations excluded)",
		"functions_analysed":  fl,
		"functions":           len(fl),
		"call_sites":          callSites,
		"obligations":         len(all),
		"discharged":          discharged,
		"evaluations":         len(all),
		"distinct_nontrivial": len(distinct),
		"configs":             configs,
		"canaries_fired":      canaries,
		"known_findings":      len(res.KnownHits),
		"exhaustive":          false,
		"samples":             samples,
	}
	for k, v := range extra {
		cov[k] = v
	}
	ev := evidence{PropertyID: property, Tier: tier, Seed: seed, Level: "other", Coverage: cov, Assumptions: al,
		WallS: time.Since(start).Seconds(), Violations: len(bad)}
	if ev.Assumptions == nil {
		ev.Assumptions = []string{}
	}
	if err := os.MkdirAll(outDir, 0o755); err != nil {
		return nil, err
	}
	b, _ := json.MarshalIndent(ev, "", " ")
	if err := os.WriteFile(filepath.Join(outDir, property+".json"), append(b, '\n'), 0o644); err != nil {
		return nil, err
	}
	vpath := filepath.Join(outDir, property+".violations.json")
	if len(bad) > 0 {
		vb, _ := json.MarshalIndent(map[string]interface{}{"property": property, "tier": tier, "violations": bad}, "", " ")
		if err := os.WriteFile(vpath, append(vb, '\n'), 0o644); err != nil {
			return nil, err
		}
		for _, o := range bad {
			tag := "VIOLATED"
			if o.Verdict == "undecided" {
				tag = "UNDECIDED"
			}
			res.Lines = append(res.Lines, fmt.Sprintf("%s %s %s at %s [%s]: %s", tag, o.Rule, o.Construct, o.Pos, o.Config, o.Why))
		}
		res.Lines = append(res.Lines, fmt.Sprintf("VIOLATION property=%s replay=%s", property, vpath))
	} else {
		os.Remove(vpath)
	}
	return res, nil
}

// ruleLess orders R07.2 before R07.10.
func ruleLess(a, b string) bool {
	pa, pb := splitRule(a), splitRule(b)
	for i := 0; i < len(pa) && i < len(pb); i++ {
		if pa[i] != pb[i] {
			return pa[i] < pb[i]
		}
	}
	if len(pa) != len(pb) {
		return len(pa) < len(pb)
	}
	return a < b
}

func splitRule(s string) []int {
	var out []int
	cur, in := 0, false
	for _, c := range s {
		if c >= '0' && c <= '9' {
			cur = cur*10 + int(c-'0')
			in = true
		} else {
			if in {
				out = append(out, cur)
			}
			cur, in = 0, false
		}
	}
	if in {
		out = append(out, cur)
	}
	return out
}
