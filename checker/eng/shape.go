package eng

import (
	"go/constant"
	"go/token"
	"io/fs"
	"strings"

	"golang.org/x/tools/go/ssa"
)

// Shape helpers: arithmetic and slicing read modulo the rewrites a maintainer
// may make without changing a value (a+b = b+a, a <= b = b >= a, s[0:n] = s[:n]).

// IsSumOf: v is x+y or y+x.
func IsSumOf(v, x, y ssa.Value) bool {
	bo, ok := v.(*ssa.BinOp)
	if !ok || bo.Op != token.ADD {
		return false
	}
	return SameValue(bo.X, x) && SameValue(bo.Y, y) || SameValue(bo.X, y) && SameValue(bo.Y, x)
}

// SumWithConst: v is other+k or k+other.
func SumWithConst(v ssa.Value, k int64) (other ssa.Value, ok bool) {
	bo, isB := v.(*ssa.BinOp)
	if !isB || bo.Op != token.ADD {
		return nil, false
	}
	if c, isK := ConstInt(bo.Y); isK && c == k {
		return bo.X, true
	}
	if c, isK := ConstInt(bo.X); isK && c == k {
		return bo.Y, true
	}
	return nil, false
}

// SumWith: v is other+x or x+other.
func SumWith(v, x ssa.Value) (other ssa.Value, ok bool) {
	bo, isB := v.(*ssa.BinOp)
	if !isB || bo.Op != token.ADD {
		return nil, false
	}
	if SameValue(bo.Y, x) {
		return bo.X, true
	}
	if SameValue(bo.X, x) {
		return bo.Y, true
	}
	return nil, false
}

// Leq reads v as small <= big (a <= b or b >= a). trueMeans tells whether the
// relation holds when v is true (always true here; `a > b` and `b < a` are
// returned with trueMeans=false: small <= big holds when v is FALSE).
func Leq(v ssa.Value) (small, big ssa.Value, trueMeans bool, ok bool) {
	bo, isB := v.(*ssa.BinOp)
	if !isB {
		return nil, nil, false, false
	}
	switch bo.Op {
	case token.LEQ:
		return bo.X, bo.Y, true, true
	case token.GEQ:
		return bo.Y, bo.X, true, true
	case token.GTR: // x > y  ==  !(x <= y)
		return bo.X, bo.Y, false, true
	case token.LSS: // x < y  ==  !(y <= x)
		return bo.Y, bo.X, false, true
	}
	return nil, nil, false, false
}

// SliceLow returns the lower bound of a slice expression, nil when it is
// absent or the constant 0.
func SliceLow(sl *ssa.Slice) ssa.Value {
	if sl.Low == nil {
		return nil
	}
	if k, ok := ConstInt(sl.Low); ok && k == 0 {
		return nil
	}
	return sl.Low
}

// BitTest reads a comparison as a test of mask bits of an operand:
// (x&m) != 0, (x&m) == m  -> the bits are set when the comparison is true;
// (x&m) == 0, (x&m) != m  -> set when it is false. The AND may be written
// either way round.
func BitTest(v ssa.Value) (operand ssa.Value, mask int64, setWhenTrue bool, ok bool) {
	// a predicate helper of the module that is nothing but such a test of its
	// parameters (`func modeHas(m, bits os.FileMode) bool { return m&bits != 0 }`,
	// `m&mask == mask`): the call is the test, with the arguments in place of
	// the parameters
	if call, isCall := v.(*ssa.Call); isCall {
		h := call.Call.StaticCallee()
		if h == nil || h.Pkg == nil || !strings.HasPrefix(h.Pkg.Pkg.Path(), "github.com/tonistiigi/fsutil") || len(h.Blocks) != 1 || len(h.Params) != len(call.Call.Args) || len(h.Blocks[0].Instrs) > 8 {
			return nil, 0, false, false
		}
		ret, isRet := h.Blocks[0].Instrs[len(h.Blocks[0].Instrs)-1].(*ssa.Return)
		if !isRet || len(ret.Results) != 1 {
			return nil, 0, false, false
		}
		subst := map[ssa.Value]ssa.Value{}
		for i, q := range h.Params {
			subst[q] = call.Call.Args[i]
		}
		return bitTestIn(ret.Results[0], subst)
	}
	return bitTestIn(v, nil)
}

func bitTestIn(v ssa.Value, subst map[ssa.Value]ssa.Value) (operand ssa.Value, mask int64, setWhenTrue bool, ok bool) {
	val := func(x ssa.Value) ssa.Value {
		if y, has := subst[x]; has {
			return y
		}
		if cv, isCv := x.(*ssa.ChangeType); isCv {
			if y, has := subst[cv.X]; has {
				return y
			}
		}
		return x
	}
	cmp, isB := v.(*ssa.BinOp)
	if !isB || (cmp.Op != token.EQL && cmp.Op != token.NEQ) {
		return nil, 0, false, false
	}
	and, rhs := cmp.X, cmp.Y
	if _, isAnd := and.(*ssa.BinOp); !isAnd {
		and, rhs = cmp.Y, cmp.X
	}
	ab, isAnd := and.(*ssa.BinOp)
	if !isAnd || ab.Op != token.AND {
		return nil, 0, false, false
	}
	m, isK := ConstInt(val(ab.Y))
	operand = val(ab.X)
	if !isK {
		m, isK = ConstInt(val(ab.X))
		operand = val(ab.Y)
	}
	if !isK {
		return nil, 0, false, false
	}
	r, isR := ConstInt(val(rhs))
	if !isR {
		return nil, 0, false, false
	}
	// mode.Type()&bit tests the same bit as mode&bit when the bit is a type bit
	if call, isCall := Canon(operand).(*ssa.Call); isCall {
		if cal := call.Call.StaticCallee(); cal != nil && cal.String() == "(io/fs.FileMode).Type" && len(call.Call.Args) == 1 && m&int64(fs.ModeType) == m {
			operand = call.Call.Args[0]
		}
	}
	switch {
	case r == 0:
		return operand, m, cmp.Op == token.NEQ, true
	case r == m:
		return operand, m, cmp.Op == token.EQL, true
	}
	return nil, 0, false, false
}

// IsBoolConst: k is the boolean constant want.
func IsBoolConst(k *ssa.Const, want bool) bool {
	if k == nil || k.Value == nil || k.Value.Kind() != constant.Bool {
		return false
	}
	return constant.BoolVal(k.Value) == want
}
