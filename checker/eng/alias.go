package eng

import (
	"go/types"
	"sort"
	"strings"

	"golang.org/x/tools/go/ssa"
)

// Renamed unexported identifiers.
//
// The rules name struct fields ("fsutil.receiver.muPipes") and a few types.
// A maintainer may rename an unexported field or type without changing
// behaviour. refStructs (generated from the reference tree by cmd/refshape)
// records every named struct of the module with its fields and their types;
// when a name the rules use has disappeared and exactly matching material
// under a new name has appeared - a struct with the same field types, a field
// of the same type at the same relative position among the changed ones - the
// new name is treated as an alias of the old one everywhere the checker renders
// or looks up names. Anything ambiguous stays unresolved and the rules that
// need it fail closed.

type refField struct{ Name, Type string }

type aliasTable struct {
	typeFwd  map[string]string // actual type  -> canonical type   ("fsutil.parentDir" -> "fsutil.parent")
	typeRev  map[string]string
	fieldFwd map[string]string    // canonicalType.actualField -> canonical field name
	fieldRev map[string]string    // canonicalType.canonicalField -> actual field name
	funcFwd  map[string]string    // actual function name -> canonical function name
	globRev  map[string]string    // canonical package variable -> actual name
	movedFwd map[string]string    // "pkg.NewStruct.field" -> "pkg.OldOwner.oldField" (field regrouped into a nested struct)
	movedRev map[string][2]string // "pkg.OldOwner.oldField" -> {"pkg.NewStruct", "field"}
	notes    []string
}

var curAliases *aliasTable

// TypeStr renders a type with module-relative package names (and canonical
// type names once aliases are known).
func TypeStr(t types.Type) string { return shorten(types.TypeString(t, nil)) }

func rawTypeStr(t types.Type) string { return shortenRaw(types.TypeString(t, nil)) }

// BuildAliases compares the loaded program with the reference shapes.
func (p *Prog) BuildAliases() {
	at := &aliasTable{typeFwd: map[string]string{}, typeRev: map[string]string{}, fieldFwd: map[string]string{}, fieldRev: map[string]string{}, funcFwd: map[string]string{}, globRev: map[string]string{}, movedFwd: map[string]string{}, movedRev: map[string][2]string{}}
	curAliases = nil
	type actual struct {
		name   string
		fields []refField
	}
	act := map[string]actual{}
	addStruct := func(name string, st *types.Struct) {
		if _, dup := act[name]; dup {
			return
		}
		a := actual{name: name}
		for i := 0; i < st.NumFields(); i++ {
			a.fields = append(a.fields, refField{st.Field(i).Name(), rawTypeStr(st.Field(i).Type())})
		}
		act[name] = a
	}
	for _, pk := range p.Pkgs {
		short := Short(pk.PkgPath)
		if strings.HasPrefix(short, "cmd/") || short == "bench" {
			continue
		}
		sc := pk.Types.Scope()
		for _, n := range sc.Names() {
			tn, ok := sc.Lookup(n).(*types.TypeName)
			if !ok {
				continue
			}
			if st, ok := tn.Type().Underlying().(*types.Struct); ok {
				addStruct(short+"."+n, st)
			}
		}
		// function-local named struct types
		for _, obj := range pk.TypesInfo.Defs {
			tn, ok := obj.(*types.TypeName)
			if !ok || tn.Parent() == sc {
				continue
			}
			if st, ok := tn.Type().Underlying().(*types.Struct); ok {
				addStruct(short+"."+tn.Name(), st)
			}
		}
	}
	pkgOf := func(n string) string { return n[:strings.LastIndex(n, ".")] }
	// 1. renamed types
	var missing, fresh []string
	for n := range refStructs {
		if _, ok := act[n]; !ok {
			missing = append(missing, n)
		}
	}
	for n := range act {
		if _, ok := refStructs[n]; !ok {
			fresh = append(fresh, n)
		}
	}
	sort.Strings(missing)
	sort.Strings(fresh)
	used := map[string]bool{}
	for _, m := range missing {
		ref := refStructs[m]
		var cands []string
		for _, f := range fresh {
			if used[f] || pkgOf(f) != pkgOf(m) || len(act[f].fields) != len(ref) {
				continue
			}
			same := true
			for i, rf := range ref {
				if replaceTok(act[f].fields[i].Type, f, m) != rf.Type {
					same = false
				}
			}
			if same {
				cands = append(cands, f)
			}
		}
		if len(cands) == 1 {
			at.typeFwd[cands[0]] = m
			at.typeRev[m] = cands[0]
			used[cands[0]] = true
			at.notes = append(at.notes, "type "+cands[0]+" is treated as the renamed "+m)
		}
	}
	canonT := func(s string) string {
		for a, c := range at.typeFwd {
			s = replaceTok(s, a, c)
		}
		return s
	}
	// 2. renamed fields
	var names []string
	for n := range refStructs {
		names = append(names, n)
	}
	sort.Strings(names)
	for _, n := range names {
		ref := refStructs[n]
		an := n
		if r, ok := at.typeRev[n]; ok {
			an = r
		}
		a, ok := act[an]
		if !ok {
			continue
		}
		have := map[string]bool{}
		for _, f := range a.fields {
			have[f.Name] = true
		}
		inRef := map[string]bool{}
		for _, f := range ref {
			inRef[f.Name] = true
		}
		var news []refField
		for _, f := range a.fields {
			if !inRef[f.Name] {
				news = append(news, refField{f.Name, canonT(f.Type)})
			}
		}
		taken := map[int]bool{}
		for _, rf := range ref {
			if have[rf.Name] {
				continue
			}
			for i, nf := range news {
				if !taken[i] && nf.Type == rf.Type {
					taken[i] = true
					at.fieldFwd[n+"."+nf.Name] = rf.Name
					at.fieldRev[n+"."+rf.Name] = nf.Name
					at.notes = append(at.notes, "field "+an+"."+nf.Name+" is treated as the renamed "+n+"."+rf.Name)
					break
				}
			}
		}
	}
	// 2b. fields regrouped into a nested struct: a reference struct lost fields
	// and gained ONE field (named or embedded, by value or pointer) of a struct
	// type that is new in the module; a lost field of type X is the new
	// struct's field of that type (same name preferred, else the only one of
	// that type). A new struct used for several fields of the owner is
	// ambiguous (include/exclude twins) and left alone.
	for _, n := range names {
		ref := refStructs[n]
		an := n
		if r, ok := at.typeRev[n]; ok {
			an = r
		}
		a, ok := act[an]
		if !ok {
			continue
		}
		have := map[string]string{}
		for _, f := range a.fields {
			have[canonFieldNameIn(at, n, f.Name)] = canonT(f.Type)
		}
		var lost []refField
		for _, rf := range ref {
			// gone, or still there under its name but now a wrapper type
			// (`files map[..]..` -> `files fileTable{mu, m map[..]..}`)
			if t, ok := have[rf.Name]; !ok || t != rf.Type {
				lost = append(lost, rf)
			}
		}
		if len(lost) == 0 {
			continue
		}
		useCount := map[string]int{}
		for _, f := range a.fields {
			t := strings.TrimPrefix(f.Type, "*")
			if _, isNew := act[t]; isNew {
				if _, old := refStructs[t]; !old {
					useCount[t]++
				}
			}
		}
		for _, f := range a.fields {
			t := strings.TrimPrefix(f.Type, "*")
			inner, isNew := act[t]
			if !isNew || useCount[t] != 1 {
				continue
			}
			if _, old := refStructs[t]; old {
				continue
			}
			taken := map[string]bool{}
			for _, lf := range lost {
				if _, done := at.movedRev[n+"."+lf.Name]; done {
					continue
				}
				pick := ""
				for _, inf := range inner.fields {
					if !taken[inf.Name] && canonT(inf.Type) == lf.Type && inf.Name == lf.Name {
						pick = inf.Name
					}
				}
				if pick == "" {
					cnt := 0
					for _, inf := range inner.fields {
						if !taken[inf.Name] && canonT(inf.Type) == lf.Type {
							pick = inf.Name
							cnt++
						}
					}
					lostSame := 0
					for _, l2 := range lost {
						if l2.Type == lf.Type {
							lostSame++
						}
					}
					if cnt != 1 || lostSame != 1 {
						pick = ""
					}
				}
				if pick != "" {
					taken[pick] = true
					at.movedFwd[t+"."+pick] = n + "." + lf.Name
					at.movedRev[n+"."+lf.Name] = [2]string{t, pick}
					at.notes = append(at.notes, "field "+t+"."+pick+" (nested in "+an+"."+f.Name+") is treated as the regrouped "+n+"."+lf.Name)
				}
			}
		}
	}
	// 3. renamed unexported functions and methods: same owner (package or
	// receiver type), same signature, old name gone, new name not on the
	// reference tree
	curAliases = at // type aliases are needed to render names and signatures
	actualSig := map[string]string{}
	actualFn := map[string]*ssa.Function{}
	for _, fn := range p.ModFuncs {
		if fn.Parent() != nil || p.IsTestFile(fn.Pos()) || strings.Contains(p.Pos(fn.Pos()), ".pb.go") {
			continue
		}
		n := p.fnNameRaw(fn)
		if strings.Contains(n, "[") {
			continue
		}
		if _, dup := actualSig[n]; !dup {
			actualSig[n] = SigStr(fn.Signature)
			actualFn[n] = fn
		}
	}
	ownerOf := func(n string) string { return n[:strings.LastIndex(n, ".")] }
	baseOf := func(n string) string { return n[strings.LastIndex(n, ".")+1:] }
	var goneF, newF []string
	for n := range refSigs {
		if _, ok := actualSig[n]; !ok {
			goneF = append(goneF, n)
		}
	}
	for n := range actualSig {
		if _, ok := refSigs[n]; !ok {
			newF = append(newF, n)
		}
	}
	sort.Strings(goneF)
	sort.Strings(newF)
	takenF := map[string]bool{}
	unexp := func(n string) bool {
		b := baseOf(n)
		return b != "" && !(b[0] >= 'A' && b[0] <= 'Z')
	}
	// renamed names are left out of the callee comparison
	moved := map[string]bool{}
	for _, g := range goneF {
		moved[g] = true
	}
	for _, f := range newF {
		moved[f] = true
	}
	stable := func(xs []string) map[string]bool {
		m := map[string]bool{}
		for _, x := range xs {
			if !moved[x] {
				m[x] = true
			}
		}
		return m
	}
	sim := func(g, f string) float64 {
		a, b := stable(refCalleesFor(p.GOOS, g)), stable(p.CalleeNames(actualFn[f]))
		if len(a) == 0 && len(b) == 0 {
			return 1
		}
		n := 0
		for x := range a {
			if b[x] {
				n++
			}
		}
		m := len(a)
		if len(b) > m {
			m = len(b)
		}
		return float64(n) / float64(m)
	}
	candsOf := func(g string) []string {
		var cands []string
		for _, f := range newF {
			if !takenF[f] && unexp(f) && ownerOf(f) == ownerOf(g) && actualSig[f] == refSigs[g] {
				cands = append(cands, f)
			}
		}
		return cands
	}
	resolvedG := map[string]bool{}
	bind := func(f, g, how string) {
		at.funcFwd[f] = g
		takenF[f] = true
		resolvedG[g] = true
		at.notes = append(at.notes, "function "+f+" is treated as the renamed "+g+how)
	}
	for _, g := range goneF {
		if !unexp(g) {
			continue // a renamed exported function is an API change, not a rename
		}
		if cands := candsOf(g); len(cands) == 1 {
			// the candidate must not be wanted by another vanished function of the same shape
			rivals := 0
			for _, g2 := range goneF {
				if g2 != g && unexp(g2) && ownerOf(g2) == ownerOf(g) && refSigs[g2] == refSigs[g] {
					rivals++
				}
			}
			if rivals == 0 {
				bind(cands[0], g, "")
			}
		}
	}
	// several functions of one owner and one signature renamed together: the
	// statically resolved callees decide, when the best match is mutual and clear
	for _, g := range goneF {
		if !unexp(g) || resolvedG[g] {
			continue
		}
		best, bestS, second := "", -1.0, -1.0
		for _, f := range candsOf(g) {
			if s := sim(g, f); s > bestS {
				best, second, bestS = f, bestS, s
			} else if s > second {
				second = s
			}
		}
		if best == "" || bestS < 0.5 || bestS-second < 0.2 {
			continue
		}
		mutual := true
		for _, g2 := range goneF {
			if g2 != g && unexp(g2) && !resolvedG[g2] && ownerOf(g2) == ownerOf(g) && refSigs[g2] == refSigs[g] && sim(g2, best) >= bestS {
				mutual = false
			}
		}
		if mutual {
			bind(best, g, " (same signature as other renamed functions; recognised by what it calls and touches)")
		}
	}
	// 3b. a body moved behind a forwarder: a function of the reference tree
	// still exists but only forwards to ONE new unexported function of the same
	// owner that does what the reference function did (`MkdirAll` -> `mkdirAll(...,
	// onCreated)`), and other functions now call the new one directly. The new
	// function is the one the rules mean; the forwarder is renamed out of the way.
	{
		var names []string
		for n := range refSigs {
			if _, ok := actualFn[n]; ok {
				names = append(names, n)
			}
		}
		sort.Strings(names)
		for _, r := range names {
			F := actualFn[r]
			var G *ssa.Function
			calls, other := 0, 0
			InstrsShallow(F, func(in ssa.Instruction) {
				c, ok := in.(ssa.CallInstruction)
				if !ok {
					return
				}
				cal := c.Common().StaticCallee()
				if cal == nil || !p.InModule(cal) || cal.Parent() != nil {
					// a forwarder does nothing else: any other call (dynamic, library,
					// literal) means the function still has a body of its own
					if _, isBuiltin := c.Common().Value.(*ssa.Builtin); !isBuiltin {
						other++
					}
					return
				}
				if G == nil || G == cal {
					G = cal
					calls++
				} else {
					other++
				}
			})
			if G == nil || calls != 1 || other != 0 || len(F.AnonFuncs) > 0 || len(F.Blocks) > 4 {
				continue
			}
			gn := p.fnNameRaw(G)
			if _, old := refSigs[gn]; old || takenF[gn] || !unexp(gn) || ownerOf(gn) != ownerOf(r) || actualFn[gn] != G {
				continue
			}
			// called directly by someone else as well
			direct := false
			for _, fn := range p.ModFuncs {
				if fn == F || fn == G || fn.Parent() == G || p.IsTestFile(fn.Pos()) {
					continue
				}
				InstrsShallow(fn, func(in ssa.Instruction) {
					if c, ok := in.(ssa.CallInstruction); ok && c.Common().StaticCallee() == G {
						direct = true
					}
				})
			}
			if !direct {
				continue
			}
			if sg, sf := sim(r, gn), sim(r, r); sg >= 0.5 && sg-sf >= 0.2 {
				at.funcFwd[gn] = r
				at.funcFwd[r] = r + "$entry"
				takenF[gn] = true
				at.notes = append(at.notes, "function "+gn+" is treated as "+r+", whose body it took over ("+r+" only forwards to it)")
			}
		}
	}
	// 4. renamed unexported package variables: same package, same type, the
	// only vanished and the only new variable of that type
	actGlob := map[string]string{}
	for _, pk := range p.Pkgs {
		short := Short(pk.PkgPath)
		if strings.HasPrefix(short, "cmd/") || short == "bench" {
			continue
		}
		sc := pk.Types.Scope()
		for _, n := range sc.Names() {
			if v, ok := sc.Lookup(n).(*types.Var); ok && !p.IsTestFile(v.Pos()) {
				actGlob[short+"."+n] = TypeStr(v.Type())
			}
		}
	}
	var goneG []string
	for n := range refGlobals {
		if _, ok := actGlob[n]; !ok && unexp(n) {
			goneG = append(goneG, n)
		}
	}
	sort.Strings(goneG)
	for _, g := range goneG {
		var cands []string
		for n, t := range actGlob {
			if _, old := refGlobals[n]; !old && unexp(n) && ownerOf(n) == ownerOf(g) && t == refGlobals[g] {
				cands = append(cands, n)
			}
		}
		rivals := 0
		for _, g2 := range goneG {
			if g2 != g && ownerOf(g2) == ownerOf(g) && refGlobals[g2] == refGlobals[g] {
				rivals++
			}
		}
		if len(cands) == 1 && rivals == 0 {
			at.globRev[g] = baseOf(cands[0])
			at.notes = append(at.notes, "package variable "+cands[0]+" is treated as the renamed "+g)
		}
	}
	sort.Strings(at.notes)
	curAliases = at
	// the name table follows the aliases
	p.byName = map[string]*ssa.Function{}
	for _, fn := range p.ModFuncs {
		n := p.FnName(fn)
		if _, dup := p.byName[n]; !dup {
			p.byName[n] = fn
		}
	}
}

// AliasNotes lists the renames that were recognised (for the evidence).
func AliasNotes() []string {
	if curAliases == nil {
		return nil
	}
	return curAliases.notes
}

// canonTypeName maps actual type names in a rendered string to canonical ones.
func canonTypeName(s string) string {
	if curAliases == nil || len(curAliases.typeFwd) == 0 {
		return s
	}
	for a, c := range curAliases.typeFwd {
		if strings.Contains(s, a) {
			s = replaceTok(s, a, c)
		}
	}
	return s
}

// canonFieldName maps an actual field name of (canonical) type owner to the
// canonical field name.
func canonFieldName(owner, field string) string {
	if curAliases == nil {
		return field
	}
	if c, ok := curAliases.fieldFwd[owner+"."+field]; ok {
		return c
	}
	return field
}

// actualFieldName is the inverse of canonFieldName.
func actualFieldName(owner, field string) string {
	if curAliases == nil {
		return field
	}
	if a, ok := curAliases.fieldRev[owner+"."+field]; ok {
		return a
	}
	return field
}

// actualTypeName is the inverse of canonTypeName for one qualified type name.
func actualTypeName(qualified string) string {
	if curAliases == nil {
		return qualified
	}
	if a, ok := curAliases.typeRev[qualified]; ok {
		return a
	}
	return qualified
}

// CanonFieldName returns the canonical name of the idx-th field of (pointer
// to) struct type t.
func CanonFieldName(t types.Type, idx int) string {
	o := FieldOwnerName(t, idx)
	return o[strings.LastIndex(o, ".")+1:]
}

// CanonField maps the actual field name of canonical struct owner
// ("fsutil.receiver") to the name the rules use.
func CanonField(owner, field string) string { return canonFieldName(owner, field) }

// ParamName is the name the rules use for parameter q: the name the parameter
// at that position had on the reference tree when the function still has the
// same number of parameters, otherwise its current name. (Renaming a parameter
// changes nothing; the rules identify parameters by position.)
func (p *Prog) ParamName(q *ssa.Parameter) string {
	fn := q.Parent()
	if fn == nil {
		return q.Name()
	}
	ref, ok := refParams[p.FnName(fn)]
	if !ok || len(ref) != len(fn.Params) {
		return q.Name()
	}
	for i, x := range fn.Params {
		if x == q {
			return ref[i]
		}
	}
	return q.Name()
}

// SigStr renders a signature by its parameter and result types only:
// parameter names are not part of what a function is.
func SigStr(sig *types.Signature) string {
	var b strings.Builder
	b.WriteString("func(")
	for i := 0; i < sig.Params().Len(); i++ {
		if i > 0 {
			b.WriteString(", ")
		}
		t := sig.Params().At(i).Type()
		if sig.Variadic() && i == sig.Params().Len()-1 {
			b.WriteString("..." + TypeStr(t.(*types.Slice).Elem()))
		} else {
			b.WriteString(TypeStr(t))
		}
	}
	b.WriteString(") (")
	for i := 0; i < sig.Results().Len(); i++ {
		if i > 0 {
			b.WriteString(", ")
		}
		b.WriteString(TypeStr(sig.Results().At(i).Type()))
	}
	b.WriteString(")")
	return b.String()
}

// CalleeNames lists the statically resolved callees of fn and its closures
// (module functions by the checker's names, others by their full names).
func (p *Prog) CalleeNames(fn *ssa.Function) []string {
	if fn == nil {
		return nil
	}
	seen := map[string]bool{}
	var walk func(f *ssa.Function)
	walk = func(f *ssa.Function) {
		for _, b := range f.Blocks {
			for _, in := range b.Instrs {
				// fields touched tell apart siblings that call the same things
				// (include/exclude matchers): canonical names, so renamed fields agree
				switch fa := in.(type) {
				case *ssa.FieldAddr:
					seen["field "+FieldOwnerName(fa.X.Type(), fa.Field)] = true
				case *ssa.Field:
					seen["field "+FieldOwnerName(fa.X.Type(), fa.Field)] = true
				}
				c, ok := in.(ssa.CallInstruction)
				if !ok {
					continue
				}
				if cal := c.Common().StaticCallee(); cal != nil && cal.Parent() == nil {
					if p.InModule(cal) {
						seen[p.fnNameRaw(cal)] = true
					} else {
						seen[cal.String()] = true
					}
				} else if c.Common().IsInvoke() {
					seen["invoke "+c.Common().Method.Name()] = true
				}
			}
		}
		for _, a := range f.AnonFuncs {
			walk(a)
		}
	}
	walk(fn)
	var out []string
	for n := range seen {
		out = append(out, n)
	}
	sort.Strings(out)
	return out
}

// Global looks a package-level variable up by the name it has on the
// reference tree ("fsutil", "rand"); a renamed unexported variable is found
// under its new name.
func (p *Prog) Global(pkg, name string) *ssa.Global {
	pk := p.SPkgs[pkg]
	if pk == nil {
		return nil
	}
	if curAliases != nil {
		if a, ok := curAliases.globRev[pkg+"."+name]; ok {
			name = a
		}
	}
	g, _ := pk.Members[name].(*ssa.Global)
	return g
}

// FreeVarName is the name the rules use for a captured variable: a captured
// parameter of an enclosing function goes by that parameter's reference name.
func (p *Prog) FreeVarName(fv *ssa.FreeVar) string {
	if fv.Parent() == nil {
		return fv.Name()
	}
	for f := fv.Parent().Parent(); f != nil; f = f.Parent() {
		for _, q := range f.Params {
			if q.Name() == fv.Name() {
				return p.ParamName(q)
			}
		}
	}
	return fv.Name()
}

// refCalleesFor: the reference callees of fn on goos (entries equal to the
// linux ones are stored once; the BSDs share freebsd's).
func refCalleesFor(goos, fn string) []string {
	order := []string{goos, "linux"}
	switch goos {
	case "openbsd", "netbsd", "dragonfly":
		order = []string{goos, "freebsd", "linux"}
	}
	for _, g := range order {
		if m, ok := refCallees[g]; ok {
			if cs, ok := m[fn]; ok {
				return cs
			}
		}
	}
	return nil
}

func canonFieldNameIn(at *aliasTable, owner, field string) string {
	if c, ok := at.fieldFwd[owner+"."+field]; ok {
		return c
	}
	return field
}

// movedField maps "pkg.NewStruct.field" to the canonical "pkg.Owner.field" it
// was regrouped from ("" when it is not a regrouped field).
func movedField(full string) string {
	if curAliases == nil {
		return ""
	}
	return curAliases.movedFwd[full]
}
