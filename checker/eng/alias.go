package eng

import (
	"go/types"
	"sort"
	"strings"

	"golang.org/x/tools/go/ssa"
)

// Renamed unexported identifiers.
//
// The rules name struct fields ("fsutil.receiver.muPipes") and a few types.
// A maintainer may rename an unexported field or type without changing
// behaviour. refStructs (generated from the reference tree by cmd/refshape)
// records every named struct of the module with its fields and their types;
// when a name the rules use has disappeared and exactly matching material
// under a new name has appeared - a struct with the same field types, a field
// of the same type at the same relative position among the changed ones - the
// new name is treated as an alias of the old one everywhere the checker renders
// or looks up names. Anything ambiguous stays unresolved and the rules that
// need it fail closed.

type refField struct{ Name, Type string }

type aliasTable struct {
	typeFwd  map[string]string // actual type  -> canonical type   ("fsutil.parentDir" -> "fsutil.parent")
	typeRev  map[string]string
	fieldFwd map[string]string // canonicalType.actualField -> canonical field name
	fieldRev map[string]string // canonicalType.canonicalField -> actual field name
	funcFwd  map[string]string // actual function name -> canonical function name
	notes    []string
}

var curAliases *aliasTable

// TypeStr renders a type with module-relative package names (and canonical
// type names once aliases are known).
func TypeStr(t types.Type) string { return shorten(types.TypeString(t, nil)) }

func rawTypeStr(t types.Type) string { return shortenRaw(types.TypeString(t, nil)) }

// BuildAliases compares the loaded program with the reference shapes.
func (p *Prog) BuildAliases() {
	at := &aliasTable{typeFwd: map[string]string{}, typeRev: map[string]string{}, fieldFwd: map[string]string{}, fieldRev: map[string]string{}, funcFwd: map[string]string{}}
	curAliases = nil
	type actual struct {
		name   string
		fields []refField
	}
	act := map[string]actual{}
	addStruct := func(name string, st *types.Struct) {
		if _, dup := act[name]; dup {
			return
		}
		a := actual{name: name}
		for i := 0; i < st.NumFields(); i++ {
			a.fields = append(a.fields, refField{st.Field(i).Name(), rawTypeStr(st.Field(i).Type())})
		}
		act[name] = a
	}
	for _, pk := range p.Pkgs {
		short := Short(pk.PkgPath)
		if strings.HasPrefix(short, "cmd/") || short == "bench" {
			continue
		}
		sc := pk.Types.Scope()
		for _, n := range sc.Names() {
			tn, ok := sc.Lookup(n).(*types.TypeName)
			if !ok {
				continue
			}
			if st, ok := tn.Type().Underlying().(*types.Struct); ok {
				addStruct(short+"."+n, st)
			}
		}
		// function-local named struct types
		for _, obj := range pk.TypesInfo.Defs {
			tn, ok := obj.(*types.TypeName)
			if !ok || tn.Parent() == sc {
				continue
			}
			if st, ok := tn.Type().Underlying().(*types.Struct); ok {
				addStruct(short+"."+tn.Name(), st)
			}
		}
	}
	pkgOf := func(n string) string { return n[:strings.LastIndex(n, ".")] }
	// 1. renamed types
	var missing, fresh []string
	for n := range refStructs {
		if _, ok := act[n]; !ok {
			missing = append(missing, n)
		}
	}
	for n := range act {
		if _, ok := refStructs[n]; !ok {
			fresh = append(fresh, n)
		}
	}
	sort.Strings(missing)
	sort.Strings(fresh)
	used := map[string]bool{}
	for _, m := range missing {
		ref := refStructs[m]
		var cands []string
		for _, f := range fresh {
			if used[f] || pkgOf(f) != pkgOf(m) || len(act[f].fields) != len(ref) {
				continue
			}
			same := true
			for i, rf := range ref {
				if replaceTok(act[f].fields[i].Type, f, m) != rf.Type {
					same = false
				}
			}
			if same {
				cands = append(cands, f)
			}
		}
		if len(cands) == 1 {
			at.typeFwd[cands[0]] = m
			at.typeRev[m] = cands[0]
			used[cands[0]] = true
			at.notes = append(at.notes, "type "+cands[0]+" is treated as the renamed "+m)
		}
	}
	canonT := func(s string) string {
		for a, c := range at.typeFwd {
			s = replaceTok(s, a, c)
		}
		return s
	}
	// 2. renamed fields
	var names []string
	for n := range refStructs {
		names = append(names, n)
	}
	sort.Strings(names)
	for _, n := range names {
		ref := refStructs[n]
		an := n
		if r, ok := at.typeRev[n]; ok {
			an = r
		}
		a, ok := act[an]
		if !ok {
			continue
		}
		have := map[string]bool{}
		for _, f := range a.fields {
			have[f.Name] = true
		}
		inRef := map[string]bool{}
		for _, f := range ref {
			inRef[f.Name] = true
		}
		var news []refField
		for _, f := range a.fields {
			if !inRef[f.Name] {
				news = append(news, refField{f.Name, canonT(f.Type)})
			}
		}
		taken := map[int]bool{}
		for _, rf := range ref {
			if have[rf.Name] {
				continue
			}
			for i, nf := range news {
				if !taken[i] && nf.Type == rf.Type {
					taken[i] = true
					at.fieldFwd[n+"."+nf.Name] = rf.Name
					at.fieldRev[n+"."+rf.Name] = nf.Name
					at.notes = append(at.notes, "field "+an+"."+nf.Name+" is treated as the renamed "+n+"."+rf.Name)
					break
				}
			}
		}
	}
	// 3. renamed unexported functions and methods: same owner (package or
	// receiver type), same signature, old name gone, new name not on the
	// reference tree
	curAliases = at // type aliases are needed to render names and signatures
	actualSig := map[string]string{}
	for _, fn := range p.ModFuncs {
		if fn.Parent() != nil || p.IsTestFile(fn.Pos()) || strings.Contains(p.Pos(fn.Pos()), ".pb.go") {
			continue
		}
		n := p.fnNameRaw(fn)
		if strings.Contains(n, "[") {
			continue
		}
		if _, dup := actualSig[n]; !dup {
			actualSig[n] = TypeStr(fn.Signature)
		}
	}
	ownerOf := func(n string) string { return n[:strings.LastIndex(n, ".")] }
	baseOf := func(n string) string { return n[strings.LastIndex(n, ".")+1:] }
	var goneF, newF []string
	for n := range refSigs {
		if _, ok := actualSig[n]; !ok {
			goneF = append(goneF, n)
		}
	}
	for n := range actualSig {
		if _, ok := refSigs[n]; !ok {
			newF = append(newF, n)
		}
	}
	sort.Strings(goneF)
	sort.Strings(newF)
	takenF := map[string]bool{}
	for _, g := range goneF {
		if b := baseOf(g); b != "" && b[0] >= 'A' && b[0] <= 'Z' {
			continue // a renamed exported function is an API change, not a rename
		}
		var cands []string
		for _, f := range newF {
			if !takenF[f] && ownerOf(f) == ownerOf(g) && actualSig[f] == refSigs[g] {
				if b := baseOf(f); b != "" && b[0] >= 'A' && b[0] <= 'Z' {
					continue
				}
				cands = append(cands, f)
			}
		}
		if len(cands) == 1 {
			at.funcFwd[cands[0]] = g
			takenF[cands[0]] = true
			at.notes = append(at.notes, "function "+cands[0]+" is treated as the renamed "+g)
		}
	}
	sort.Strings(at.notes)
	curAliases = at
	// the name table follows the aliases
	p.byName = map[string]*ssa.Function{}
	for _, fn := range p.ModFuncs {
		n := p.FnName(fn)
		if _, dup := p.byName[n]; !dup {
			p.byName[n] = fn
		}
	}
}

// AliasNotes lists the renames that were recognised (for the evidence).
func AliasNotes() []string {
	if curAliases == nil {
		return nil
	}
	return curAliases.notes
}

// canonTypeName maps actual type names in a rendered string to canonical ones.
func canonTypeName(s string) string {
	if curAliases == nil || len(curAliases.typeFwd) == 0 {
		return s
	}
	for a, c := range curAliases.typeFwd {
		if strings.Contains(s, a) {
			s = replaceTok(s, a, c)
		}
	}
	return s
}

// canonFieldName maps an actual field name of (canonical) type owner to the
// canonical field name.
func canonFieldName(owner, field string) string {
	if curAliases == nil {
		return field
	}
	if c, ok := curAliases.fieldFwd[owner+"."+field]; ok {
		return c
	}
	return field
}

// actualFieldName is the inverse of canonFieldName.
func actualFieldName(owner, field string) string {
	if curAliases == nil {
		return field
	}
	if a, ok := curAliases.fieldRev[owner+"."+field]; ok {
		return a
	}
	return field
}

// actualTypeName is the inverse of canonTypeName for one qualified type name.
func actualTypeName(qualified string) string {
	if curAliases == nil {
		return qualified
	}
	if a, ok := curAliases.typeRev[qualified]; ok {
		return a
	}
	return qualified
}

// CanonFieldName returns the canonical name of the idx-th field of (pointer
// to) struct type t.
func CanonFieldName(t types.Type, idx int) string {
	o := FieldOwnerName(t, idx)
	return o[strings.LastIndex(o, ".")+1:]
}

// CanonField maps the actual field name of canonical struct owner
// ("fsutil.receiver") to the name the rules use.
func CanonField(owner, field string) string { return canonFieldName(owner, field) }

// ParamName is the name the rules use for parameter q: the name the parameter
// at that position had on the reference tree when the function still has the
// same number of parameters, otherwise its current name. (Renaming a parameter
// changes nothing; the rules identify parameters by position.)
func (p *Prog) ParamName(q *ssa.Parameter) string {
	fn := q.Parent()
	if fn == nil {
		return q.Name()
	}
	ref, ok := refParams[p.FnName(fn)]
	if !ok || len(ref) != len(fn.Params) {
		return q.Name()
	}
	for i, x := range fn.Params {
		if x == q {
			return ref[i]
		}
	}
	return q.Name()
}
