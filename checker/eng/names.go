package eng

import (
	"go/constant"
	"go/token"
	"go/types"
	"regexp"
	"sort"
	"strings"

	"golang.org/x/tools/go/ssa"
)

var typeArgsRe = regexp.MustCompile(`\[[^\[\]]*\]`)

// CalleeName names the target of a call instruction:
//
//	os.Lchown, (*os.File).Write              static, outside the module
//	fsutil.(*sender).queue                   static, inside the module
//	(fsutil.Stream).SendMsg                  interface invoke
//	builtin:close                            builtin
//	closure:fsutil.(*sender).run$1           immediately applied/deferred closure
//	field:fsutil.DiskWriterOpt.NotifyCb      function value loaded from a field
//	param:fn  freevar:fn  local:x            other function values
func (p *Prog) CalleeName(c ssa.CallInstruction) string {
	cc := c.Common()
	if cc.IsInvoke() {
		return shorten(cc.Method.FullName())
	}
	switch v := cc.Value.(type) {
	case *ssa.Builtin:
		return "builtin:" + v.Name()
	case *ssa.Function:
		return p.funcRefName(v)
	case *ssa.MakeClosure:
		if f, ok := v.Fn.(*ssa.Function); ok {
			if f.Synthetic != "" && strings.HasPrefix(f.Synthetic, "bound method") {
				return p.funcRefName(f)
			}
			return "closure:" + p.FnName(f)
		}
	}
	return p.DescribeFuncValue(cc.Value)
}

func (p *Prog) funcRefName(f *ssa.Function) string {
	if p.InModule(f) {
		if o := f.Origin(); o != nil {
			f = o
		}
		n := p.FnName(f)
		n = strings.TrimSuffix(n, "$bound")
		return n
	}
	s := f.String()
	if o := f.Origin(); o != nil {
		s = o.String()
	}
	s = strings.TrimSuffix(s, "$bound")
	for typeArgsRe.MatchString(s) {
		s = typeArgsRe.ReplaceAllString(s, "")
	}
	return s
}

// DescribeFuncValue names a dynamic function value by where it comes from.
func (p *Prog) DescribeFuncValue(v ssa.Value) string {
	switch x := v.(type) {
	case *ssa.Parameter:
		// the parameter of a helper no rule names: what its callers hand in,
		// when they all hand in the same thing (a literal's body moved into a
		// method that receives the captured callback as an argument)
		if p.Transparent(x.Parent()) {
			if rs := ResolveAll(x); len(rs) > 0 && !(len(rs) == 1 && rs[0] == ssa.Value(x)) {
				d := ""
				for _, r := range rs {
					if r == ssa.Value(x) {
						d = ""
						break
					}
					dr := p.DescribeFuncValue(r)
					if d != "" && dr != d {
						d = ""
						break
					}
					d = dr
				}
				if d != "" && !strings.HasPrefix(d, "dyn:") {
					return d
				}
			}
		}
		return "param:" + p.ParamName(x)
	case *ssa.FreeVar:
		return "freevar:" + p.FreeVarName(x)
	case *ssa.Function:
		return p.funcRefName(x)
	case *ssa.MakeClosure:
		if f, ok := x.Fn.(*ssa.Function); ok {
			if strings.HasPrefix(f.Synthetic, "bound method") {
				return p.funcRefName(f)
			}
			return "closure:" + p.FnName(f)
		}
	case *ssa.ChangeType:
		return p.DescribeFuncValue(x.X)
	case *ssa.UnOp:
		if x.Op == token.MUL {
			switch a := x.X.(type) {
			case *ssa.FieldAddr:
				// a context-object field set once, where the object is built,
				// from a parameter of the enclosing function is what a closure
				// would have captured
				if st := p.onceStoredField(x); st != nil {
					// (built inside a literal: the stored value is itself a captured parameter)
					if d := p.DescribeFuncValue(st.Val); strings.HasPrefix(d, "freevar:") {
						return d
					}
					if q, isP := st.Val.(*ssa.Parameter); isP {
						for _, a := range p.Anchors(x.Parent()) {
							for e := p.Encloser(a); e != nil; e = p.Encloser(e) {
								if q.Parent() == e {
									return "freevar:" + p.ParamName(q)
								}
							}
						}
					}
				}
				return "field:" + FieldOwnerName(a.X.Type(), a.Field)
			case *ssa.FreeVar:
				return "freevar:" + p.FreeVarName(a)
			case *ssa.Alloc:
				return "local:" + a.Comment
			case *ssa.Global:
				return "global:" + shorten(a.String())
			}
		}
	case *ssa.Field:
		return "field:" + FieldOwnerName(x.X.Type(), x.Field)
	case *ssa.Phi:
		var parts []string
		seen := map[string]bool{}
		for _, e := range x.Edges {
			d := p.DescribeFuncValue(e)
			if !seen[d] {
				seen[d] = true
				parts = append(parts, d)
			}
		}
		sort.Strings(parts)
		return "phi:" + strings.Join(parts, "|")
	case *ssa.Const:
		if x.IsNil() {
			return "nil"
		}
	case *ssa.Call:
		// the result of a transparent helper that selects the function
		// (`fn := dw.dataCallback()`): what the helper can return
		if rs := ResolveAll(x); len(rs) > 1 || (len(rs) == 1 && rs[0] != ssa.Value(x)) {
			var parts []string
			seen := map[string]bool{}
			for _, r := range rs {
				d := p.DescribeFuncValue(r)
				if ph, isPhi := r.(*ssa.Phi); isPhi {
					_ = ph
					d = strings.TrimPrefix(d, "phi:")
				}
				for _, one := range strings.Split(d, "|") {
					if !seen[one] {
						seen[one] = true
						parts = append(parts, one)
					}
				}
			}
			sort.Strings(parts)
			if len(parts) == 1 {
				return parts[0]
			}
			return "phi:" + strings.Join(parts, "|")
		}
	}
	return "dyn:" + v.Name()
}

// FieldOwnerName renders T.field for the idx-th field of (pointer to) struct type t.
func FieldOwnerName(t types.Type, idx int) string {
	if pt, ok := t.Underlying().(*types.Pointer); ok {
		t = pt.Elem()
	}
	name := shorten(types.TypeString(t, nil))
	st, ok := t.Underlying().(*types.Struct)
	if !ok || idx >= st.NumFields() {
		return name + ".?"
	}
	if _, isNamed := t.(*types.Named); !isNamed {
		name = "struct"
	}
	// strip type arguments of generic instances: stack[*currentPath] -> stack
	for typeArgsRe.MatchString(name) {
		name = typeArgsRe.ReplaceAllString(name, "")
	}
	full := name + "." + canonFieldName(name, st.Field(idx).Name())
	if m := movedField(name + "." + st.Field(idx).Name()); m != "" {
		return m // a field regrouped into this (new) nested struct
	}
	return full
}

// FieldVar returns the *types.Var of the idx-th field of (pointer to) t.
func FieldVar(t types.Type, idx int) *types.Var {
	if pt, ok := t.Underlying().(*types.Pointer); ok {
		t = pt.Elem()
	}
	st, ok := t.Underlying().(*types.Struct)
	if !ok || idx >= st.NumFields() {
		return nil
	}
	return st.Field(idx)
}

// Calls lists the call instructions (call, go, defer) of fn in block order.
func Calls(fn *ssa.Function) []ssa.CallInstruction {
	var out []ssa.CallInstruction
	Instrs(fn, func(in ssa.Instruction) {
		if c, ok := in.(ssa.CallInstruction); ok {
			out = append(out, c)
		}
	})
	return out
}

// CallsTo lists calls in fn whose CalleeName is one of names.
func (p *Prog) CallsTo(fn *ssa.Function, names ...string) []ssa.CallInstruction {
	var out []ssa.CallInstruction
	for _, c := range Calls(fn) {
		n := p.CalleeName(c)
		for _, w := range names {
			if n == w {
				out = append(out, c)
				break
			}
		}
	}
	return out
}

// IsCallTo reports whether in is a call to one of names.
func (p *Prog) IsCallTo(in ssa.Instruction, names ...string) bool {
	c, ok := in.(ssa.CallInstruction)
	if !ok {
		return false
	}
	n := p.CalleeName(c)
	for _, w := range names {
		if n == w {
			return true
		}
	}
	return false
}

// ClosuresCalling returns the closures nested in fn (any depth) that contain a
// call to one of names.
func (p *Prog) ClosuresCalling(fn *ssa.Function, names ...string) []*ssa.Function {
	var out []*ssa.Function
	for _, c := range Closures(fn) {
		if len(p.CallsTo(c, names...)) > 0 {
			out = append(out, c)
		}
	}
	return out
}

// InstrIndex returns the index of in inside its block.
func InstrIndex(in ssa.Instruction) int {
	for i, x := range in.Block().Instrs {
		if x == in {
			return i
		}
	}
	return -1
}

// dominatesLocal reports whether instruction a dominates instruction b (a is
// executed before b on every path from the entry to b) within one function.
func dominatesLocal(a, b ssa.Instruction) bool {
	if a.Parent() != b.Parent() {
		return false
	}
	if a.Block() == b.Block() {
		return InstrIndex(a) < InstrIndex(b)
	}
	return a.Block().Dominates(b.Block())
}

// ConstInt returns the integer value of a constant SSA value.
func ConstInt(v ssa.Value) (int64, bool) {
	c, ok := v.(*ssa.Const)
	if !ok || c.Value == nil {
		return 0, false
	}
	if c.Value.Kind() != constant.Int {
		return 0, false
	}
	n, ok := constant.Int64Val(c.Value)
	return n, ok
}

// ConstString returns the string value of a constant SSA value.
func ConstString(v ssa.Value) (string, bool) {
	c, ok := v.(*ssa.Const)
	if !ok || c.Value == nil || c.Value.Kind() != constant.String {
		return "", false
	}
	return constant.StringVal(c.Value), true
}

// ConstBool returns the boolean value of a constant SSA value.
func ConstBool(v ssa.Value) (bool, bool) {
	c, ok := v.(*ssa.Const)
	if !ok || c.Value == nil || c.Value.Kind() != constant.Bool {
		return false, false
	}
	return constant.BoolVal(c.Value), true
}

// Strip looks through value-preserving conversions.
func Strip(v ssa.Value) ssa.Value {
	for {
		if r := Resolve(v); r != v {
			v = r
			continue
		}
		switch x := v.(type) {
		case *ssa.ChangeType:
			v = x.X
		case *ssa.Convert:
			v = x.X
		case *ssa.ChangeInterface:
			v = x.X
		case *ssa.MakeInterface:
			v = x.X
		case *ssa.UnOp:
			// a parameter (or single-assignment local) that go/ssa keeps in a
			// cell because some literal captures it
			if st := localSingleStore(x); st != nil {
				if _, isP := st.Val.(*ssa.Parameter); isP {
					v = st.Val
					continue
				}
			}
			// ... seen from inside the literal that captures it
			if fv, isFV := x.X.(*ssa.FreeVar); isFV && x.Op == token.MUL && deepProg != nil {
				if root := deepProg.Census().Root(fv); root != nil && !deepProg.Census().CellStoredByClosure(root) {
					var val ssa.Value
					n := 0
					for _, r := range Referrers(root) {
						if st, isS := r.(*ssa.Store); isS && st.Addr == ssa.Value(root) {
							val = st.Val
							n++
						}
					}
					if q, isP := val.(*ssa.Parameter); isP && n == 1 {
						v = q
						continue
					}
				}
			}
			return v
		default:
			return v
		}
	}
}

// LoadedField: if v is a load (or Field) of struct field, returns the owner
// name "T.f", the base pointer/struct value, and true.
func LoadedField(v ssa.Value) (owner string, base ssa.Value, fv *types.Var, ok bool) {
	return LoadedFieldRaw(Resolve(v))
}

// LoadedFieldRaw is LoadedField without looking through helpers.
func LoadedFieldRaw(v ssa.Value) (owner string, base ssa.Value, fv *types.Var, ok bool) {
	switch x := v.(type) {
	case *ssa.UnOp:
		if x.Op == token.MUL {
			if fa, ok := x.X.(*ssa.FieldAddr); ok {
				return FieldOwnerName(fa.X.Type(), fa.Field), fa.X, FieldVar(fa.X.Type(), fa.Field), true
			}
		}
	case *ssa.Field:
		return FieldOwnerName(x.X.Type(), x.Field), x.X, FieldVar(x.X.Type(), x.Field), true
	}
	return "", nil, nil, false
}

// Referrers returns the referrers of v excluding DebugRefs.
func Referrers(v ssa.Value) []ssa.Instruction {
	rs := v.Referrers()
	if rs == nil {
		return nil
	}
	var out []ssa.Instruction
	for _, r := range *rs {
		if _, dbg := r.(*ssa.DebugRef); dbg {
			continue
		}
		out = append(out, r)
	}
	return out
}

// NamedConstInt returns the value of the package-level integer constant pkg.name.
func (p *Prog) NamedConstInt(pkg, name string) (int64, bool) {
	sp := p.SPkgs[pkg]
	if sp == nil {
		return 0, false
	}
	nc, ok := sp.Members[name].(*ssa.NamedConst)
	if !ok || nc.Value == nil {
		return 0, false
	}
	return ConstInt(nc.Value)
}
