// Package eng holds the generic static-analysis engines (DESIGN.md section 2).
// Everything here works on the type-checked program and its go/ssa form;
// nothing in /repo is executed.
package eng

import (
	"fmt"
	"go/ast"
	"go/token"
	"go/types"
	"os"
	"sort"
	"strconv"
	"strings"

	"golang.org/x/tools/go/packages"
	"golang.org/x/tools/go/ssa"
	"golang.org/x/tools/go/ssa/ssautil"
)

// ModulePath is the import path prefix of the code under analysis.
const ModulePath = "github.com/tonistiigi/fsutil"

// Prog is one loaded configuration (GOOS/GOARCH) of the repository.
type Prog struct {
	Dir      string
	GOOS     string
	GOARCH   string
	Fset     *token.FileSet
	Pkgs     []*packages.Package // module packages only (roots of ./...)
	SSA      *ssa.Program
	Seams    map[string]string // function-variable seams resolved to the function they always hold
	Dead     []string          // unexported functions nothing can call: not analysed
	deadDone bool
	SPkgs    map[string]*ssa.Package // by short name (fsutil, copy, types, util, cmd/send ...)
	byName   map[string]*ssa.Function
	// ModFuncs is every function (incl. closures, methods, generic instances)
	// whose package belongs to the module, sorted by name.
	ModFuncs []*ssa.Function
	allFuncs map[*ssa.Function]bool

	known       map[string]bool
	transparent map[*ssa.Function]bool
	allMod      []*ssa.Function
	cellStores  map[string][]*ssa.Store
	onceField   map[*ssa.FieldAddr]*ssa.Store
	hofApplied  map[*ssa.Function]bool // literals applied through a predicate HOF (slices.ContainsFunc ...)
	// adopted: a function whose only use is as a value in one function (a
	// former closure turned into a named method) -> that function
	adopted      map[*ssa.Function]*ssa.Function
	adoptees     map[*ssa.Function][]*ssa.Function
	adoptBinding map[*ssa.Function]ssa.Value // receiver the method value was bound to
	adoptSite    map[*ssa.Function]ssa.Instruction
	closureOrd   map[*ssa.Function]int // ordinal among the closure-like children of its encloser
}

// Short converts a full package path of the module to its short name.
func Short(path string) string {
	if path == ModulePath {
		return "fsutil"
	}
	if strings.HasPrefix(path, ModulePath+"/") {
		return strings.TrimPrefix(path, ModulePath+"/")
	}
	return path
}

// shorten replaces every occurrence of the module path in a rendered name.
func shorten(s string) string {
	return canonTypeName(shortenRaw(s))
}

func shortenRaw(s string) string {
	s = strings.ReplaceAll(s, ModulePath+"/", "")
	s = strings.ReplaceAll(s, ModulePath+".", "fsutil.")
	s = strings.ReplaceAll(s, ModulePath, "fsutil")
	return s
}

// Load type-checks ./... of dir for the given platform and builds SSA.
// It fails (error) on any load or type error and on a zero package count.
func Load(dir, goos, goarch string, tests bool) (*Prog, error) {
	env := []string{}
	for _, e := range os.Environ() {
		if strings.HasPrefix(e, "GOWORK=") || strings.HasPrefix(e, "GOOS=") || strings.HasPrefix(e, "GOARCH=") ||
			strings.HasPrefix(e, "GOFLAGS=") || strings.HasPrefix(e, "GOPROXY=") || strings.HasPrefix(e, "GOSUMDB=") ||
			strings.HasPrefix(e, "GOTOOLCHAIN=") || strings.HasPrefix(e, "CGO_ENABLED=") {
			continue
		}
		env = append(env, e)
	}
	env = append(env, "GOWORK=off", "GOFLAGS=-mod=mod", "GOPROXY=off", "GOSUMDB=off", "GOTOOLCHAIN=local",
		"GOOS="+goos, "GOARCH="+goarch, "CGO_ENABLED=0")
	cfg := &packages.Config{
		Mode:  packages.LoadAllSyntax,
		Dir:   dir,
		Env:   env,
		Tests: tests,
	}
	pkgs, err := packages.Load(cfg, "./...")
	if err != nil {
		return nil, fmt.Errorf("load %s/%s: %v", goos, goarch, err)
	}
	var roots []*packages.Package
	var errs []string
	for _, p := range pkgs {
		for _, e := range p.Errors {
			errs = append(errs, fmt.Sprintf("%s: %v", p.PkgPath, e))
		}
		if p.PkgPath == ModulePath || strings.HasPrefix(p.PkgPath, ModulePath+"/") {
			roots = append(roots, p)
		}
	}
	packages.Visit(pkgs, nil, func(p *packages.Package) {
		if p.IllTyped && len(p.Errors) == 0 && !(p.PkgPath == ModulePath || strings.HasPrefix(p.PkgPath, ModulePath+"/")) {
			// dependency that failed to type-check
			for _, e := range p.Errors {
				errs = append(errs, fmt.Sprintf("%s: %v", p.PkgPath, e))
			}
		}
	})
	if len(errs) > 0 {
		sort.Strings(errs)
		return nil, fmt.Errorf("load %s/%s: %d load/type errors, first: %s", goos, goarch, len(errs), errs[0])
	}
	if len(roots) == 0 {
		return nil, fmt.Errorf("load %s/%s: zero module packages", goos, goarch)
	}
	sprog, _ := ssautil.AllPackages(pkgs, ssa.InstantiateGenerics)
	sprog.Build()
	seams := resolveSeams(sprog, func(fn *ssa.Function) bool {
		pk := fnPkg(fn)
		return pk != nil && (pk.Path() == ModulePath || strings.HasPrefix(pk.Path(), ModulePath+"/"))
	}, func(pos token.Pos) bool { return strings.HasSuffix(sprog.Fset.Position(pos).Filename, "_test.go") })
	p := &Prog{Seams: seams, Dir: dir, GOOS: goos, GOARCH: goarch, Fset: sprog.Fset, SSA: sprog,
		SPkgs: map[string]*ssa.Package{}, byName: map[string]*ssa.Function{}, allFuncs: map[*ssa.Function]bool{}}
	for _, r := range roots {
		if tests && (strings.HasSuffix(r.ID, ".test") || strings.Contains(r.ID, " [")) {
			// test variants are loaded only so that counts can be compared
		}
		p.Pkgs = append(p.Pkgs, r)
		if sp := sprog.Package(r.Types); sp != nil {
			if _, dup := p.SPkgs[Short(r.PkgPath)]; !dup {
				p.SPkgs[Short(r.PkgPath)] = sp
			}
		}
	}
	for fn := range ssautil.AllFunctions(sprog) {
		p.allFuncs[fn] = true
		if !p.InModule(fn) {
			continue
		}
		if fn.Synthetic != "" && !strings.Contains(fn.Synthetic, "instance of") {
			// wrappers, bound methods, thunks: kept out of the named table
			// (they contain no source logic) but remain in the call graph.
			continue
		}
		p.ModFuncs = append(p.ModFuncs, fn)
	}
	sort.Slice(p.ModFuncs, func(i, j int) bool {
		a, b := p.FnName(p.ModFuncs[i]), p.FnName(p.ModFuncs[j])
		if a != b {
			return a < b
		}
		return p.ModFuncs[i].Pos() < p.ModFuncs[j].Pos()
	})
	for _, fn := range p.ModFuncs {
		n := p.FnName(fn)
		if _, dup := p.byName[n]; !dup {
			p.byName[n] = fn
		}
	}
	return p, nil
}

// InModule reports whether fn belongs to a package of the module.
func (p *Prog) InModule(fn *ssa.Function) bool {
	pk := fnPkg(fn)
	if pk == nil {
		return false
	}
	return pk.Path() == ModulePath || strings.HasPrefix(pk.Path(), ModulePath+"/")
}

func fnPkg(fn *ssa.Function) *types.Package {
	for f := fn; f != nil; f = f.Parent() {
		if f.Pkg != nil {
			return f.Pkg.Pkg
		}
		if o := f.Origin(); o != nil && o.Pkg != nil {
			return o.Pkg.Pkg
		}
		if f.Object() != nil && f.Object().Pkg() != nil {
			return f.Object().Pkg()
		}
	}
	return nil
}

// IsTestFile reports whether pos lies in a _test.go file.
func (p *Prog) IsTestFile(pos token.Pos) bool {
	if !pos.IsValid() {
		return false
	}
	return strings.HasSuffix(p.Fset.Position(pos).Filename, "_test.go")
}

// FnName renders a function as pkgshort.Name, pkgshort.(*T).m, with $n for
// closures: fsutil.(*sender).run$3.
func (p *Prog) FnName(fn *ssa.Function) string {
	n := p.fnNameRaw(fn)
	if curAliases != nil && len(curAliases.funcFwd) > 0 {
		if fn != nil && fn.Parent() == nil {
			if c, ok := curAliases.funcFwd[n]; ok {
				return c
			}
			for _, suf := range []string{"$bound", "$thunk"} {
				if strings.HasSuffix(n, suf) {
					if c, ok := curAliases.funcFwd[strings.TrimSuffix(n, suf)]; ok {
						return c + suf
					}
				}
			}
		}
	}
	return n
}

func (p *Prog) fnNameRaw(fn *ssa.Function) string {
	if fn == nil {
		return "<nil>"
	}
	if enc := p.Encloser(fn); enc != nil {
		// closure (or a method that took a closure's place): encloser's name +
		// ordinal among the encloser's closure-like children in source order
		if o, ok := p.closureOrd[fn]; ok {
			return p.FnName(enc) + "$" + strconv.Itoa(o)
		}
		name := fn.Name() // e.g. run$3
		if i := strings.LastIndex(name, "$"); i >= 0 && fn.Parent() != nil {
			return p.FnName(fn.Parent()) + name[i:]
		}
	}
	pk := fnPkg(fn)
	s := fn.RelString(pk) // (*sender).run  or Send
	s = shorten(s)
	// a method of a renamed type is named after the canonical type
	if recv := fn.Signature.Recv(); recv != nil && curAliases != nil && len(curAliases.typeFwd) > 0 {
		t := recv.Type()
		if pt, ok := t.(*types.Pointer); ok {
			t = pt.Elem()
		}
		if nt, ok := t.(*types.Named); ok && nt.Obj().Pkg() != nil {
			q := Short(nt.Obj().Pkg().Path()) + "." + nt.Obj().Name()
			if cq := canonTypeName(q); cq != q {
				s = replaceTok(s, nt.Obj().Name(), cq[strings.LastIndex(cq, ".")+1:])
			}
		}
	}
	if pk != nil {
		return Short(pk.Path()) + "." + s
	}
	return s
}

// Fn looks a module function up by FnName; nil if absent.
func (p *Prog) Fn(name string) *ssa.Function { return p.byName[name] }

// Closures returns all (transitively) nested anonymous functions of fn in
// source order.
func Closures(fn *ssa.Function) []*ssa.Function {
	var out []*ssa.Function
	seen := map[*ssa.Function]bool{fn: true}
	var rec func(f *ssa.Function)
	rec = func(f *ssa.Function) {
		kids := append([]*ssa.Function(nil), f.AnonFuncs...)
		if deepProg != nil {
			// a method whose only use is as a value created in f stands where
			// a function literal stood
			kids = append(kids, deepProg.adoptees[f]...)
			sort.SliceStable(kids, func(i, j int) bool { return deepProg.closureOrd[kids[i]] < deepProg.closureOrd[kids[j]] })
		}
		for _, a := range kids {
			if seen[a] {
				continue
			}
			seen[a] = true
			out = append(out, a)
			rec(a)
		}
		// literals written in a helper no rule names belong to the function
		// the helper was taken out of (`WriteTar` -> `writeTar(..., progress)`)
		if deepProg != nil {
			InstrsShallow(f, func(in ssa.Instruction) {
				if c, ok := in.(*ssa.Call); ok {
					if callee := EffCallee(c); callee != nil && !seen[callee] && deepProg.transparent[callee] && callee.Parent() == nil {
						seen[callee] = true
						rec(callee)
					}
				}
			})
		}
	}
	rec(fn)
	return out
}

// Encloser is the function a closure was written in: its parent, or for a
// method that took a closure's place the function that creates the method
// value.
func (p *Prog) Encloser(fn *ssa.Function) *ssa.Function {
	if fn == nil {
		return nil
	}
	if par := fn.Parent(); par != nil {
		return par
	}
	return p.adopted[fn]
}

// Pos renders a position relative to the repository root, file:line.
func (p *Prog) Pos(pos token.Pos) string {
	if !pos.IsValid() {
		return "-"
	}
	ps := p.Fset.Position(pos)
	f := strings.TrimPrefix(ps.Filename, p.Dir+"/")
	return fmt.Sprintf("%s:%d", f, ps.Line)
}

// InstrPos finds the best source position for an instruction.
func (p *Prog) InstrPos(in ssa.Instruction) string {
	if in == nil {
		return "-"
	}
	if in.Pos().IsValid() {
		return p.Pos(in.Pos())
	}
	// fall back to operands, then to neighbours in the block
	for _, op := range in.Operands(nil) {
		if *op != nil {
			if (*op).Pos().IsValid() {
				return p.Pos((*op).Pos())
			}
		}
	}
	b := in.Block()
	if b != nil {
		idx := -1
		for i, x := range b.Instrs {
			if x == in {
				idx = i
			}
		}
		for i := idx; i >= 0; i-- {
			if b.Instrs[i].Pos().IsValid() {
				return p.Pos(b.Instrs[i].Pos())
			}
		}
		for i := idx; i >= 0 && i < len(b.Instrs); i++ {
			if b.Instrs[i].Pos().IsValid() {
				return p.Pos(b.Instrs[i].Pos())
			}
		}
	}
	if in.Parent() != nil {
		return p.Pos(in.Parent().Pos())
	}
	return "-"
}

// File returns the syntax tree of the module file with the given
// repository-relative name (types/stat_vtproto.pb.go), or nil.
func (p *Prog) File(rel string) (*ast.File, *packages.Package) {
	for _, pk := range p.Pkgs {
		for i, f := range pk.Syntax {
			_ = i
			name := strings.TrimPrefix(p.Fset.Position(f.Pos()).Filename, p.Dir+"/")
			if name == rel {
				return f, pk
			}
		}
	}
	return nil, nil
}

// Pkg returns the go/packages package with the given short name.
func (p *Prog) Pkg(short string) *packages.Package {
	for _, pk := range p.Pkgs {
		if Short(pk.PkgPath) == short && !strings.Contains(pk.ID, "[") && !strings.HasSuffix(pk.ID, ".test") {
			return pk
		}
	}
	return nil
}
