package eng

import (
	"go/types"
	"sort"

	"golang.org/x/tools/go/callgraph"
	"golang.org/x/tools/go/callgraph/cha"
	"golang.org/x/tools/go/callgraph/vta"
	"golang.org/x/tools/go/ssa"
	"golang.org/x/tools/go/ssa/ssautil"
)

// Graph is a module-level call graph (engine E7). An edge f->g exists when f
// calls g statically, creates a closure g, mentions g as a function value, or
// invokes an interface method that g may implement (VTA, or CHA on request).
type Graph struct {
	p     *Prog
	Succ  map[*ssa.Function]map[*ssa.Function]bool
	vtaCG *callgraph.Graph
	chaCG *callgraph.Graph
}

var graphCache = map[*Prog]*Graph{}

// CallGraph builds the VTA-refined call graph once per program.
func (p *Prog) CallGraph() *Graph {
	if g, ok := graphCache[p]; ok {
		return g
	}
	g := &Graph{p: p, Succ: map[*ssa.Function]map[*ssa.Function]bool{}}
	g.chaCG = cha.CallGraph(p.SSA)
	g.vtaCG = vta.CallGraph(ssautil.AllFunctions(p.SSA), g.chaCG)
	add := func(a, b *ssa.Function) {
		if a == nil || b == nil {
			return
		}
		if g.Succ[a] == nil {
			g.Succ[a] = map[*ssa.Function]bool{}
		}
		g.Succ[a][b] = true
	}
	for fn, node := range g.vtaCG.Nodes {
		if fn == nil {
			continue
		}
		for _, e := range node.Out {
			add(fn, e.Callee.Func)
		}
	}
	// closures and function values count as potential calls
	for fn := range p.allFuncs {
		fn := fn
		if !p.InModule(fn) {
			continue
		}
		InstrsShallow(fn, func(in ssa.Instruction) {
			for _, op := range in.Operands(nil) {
				if *op == nil {
					continue
				}
				switch v := (*op).(type) {
				case *ssa.Function:
					add(fn, v)
				case *ssa.MakeClosure:
					if f, ok := v.Fn.(*ssa.Function); ok {
						add(fn, f)
					}
				}
			}
			if mc, ok := in.(*ssa.MakeClosure); ok {
				if f, ok := mc.Fn.(*ssa.Function); ok {
					add(fn, f)
				}
			}
		})
	}
	graphCache[p] = g
	return g
}

// Reachable returns the module functions reachable from roots.
func (g *Graph) Reachable(roots ...*ssa.Function) map[*ssa.Function]bool {
	seen := map[*ssa.Function]bool{}
	type item struct {
		f   *ssa.Function
		ext int
	}
	var work []item
	for _, r := range roots {
		if r != nil {
			work = append(work, item{r, 0})
		}
	}
	for len(work) > 0 {
		it := work[len(work)-1]
		work = work[:len(work)-1]
		if seen[it.f] {
			continue
		}
		seen[it.f] = true
		for s := range g.Succ[it.f] {
			// never traverse through code outside the module: VTA merges all
			// callbacks handed to e.g. errgroup.Go or filepath.WalkDir.
			// Closures are linked to the function that creates them instead.
			if !g.p.InModule(s) && !g.p.analysable(s) {
				continue
			}
			if !seen[s] {
				work = append(work, item{s, 0})
			}
		}
	}
	out := map[*ssa.Function]bool{}
	for f := range seen {
		if g.p.transparent[f] {
			continue // scanned as part of each function that calls it
		}
		if g.p.InModule(f) || g.p.analysable(f) {
			out[f] = true
		}
	}
	return out
}

// Callees returns the possible targets of one call site (VTA, or CHA).
func (g *Graph) Callees(site ssa.CallInstruction, useCHA bool) []*ssa.Function {
	cg := g.vtaCG
	if useCHA {
		cg = g.chaCG
	}
	n := cg.Nodes[site.Parent()]
	if n == nil {
		return nil
	}
	var out []*ssa.Function
	seen := map[*ssa.Function]bool{}
	for _, e := range n.Out {
		if e.Site == site && !seen[e.Callee.Func] {
			seen[e.Callee.Func] = true
			out = append(out, e.Callee.Func)
		}
	}
	sort.Slice(out, func(i, j int) bool { return out[i].String() < out[j].String() })
	return out
}

// Callers lists the call sites in module functions whose static callee or
// possible invoke target is fn.
func (g *Graph) Callers(fn *ssa.Function) []ssa.CallInstruction {
	var out []ssa.CallInstruction
	n := g.vtaCG.Nodes[fn]
	if n == nil {
		return nil
	}
	for _, e := range n.In {
		if e.Site != nil && g.p.InModule(e.Caller.Func) {
			out = append(out, e.Site)
		}
	}
	sort.Slice(out, func(i, j int) bool { return out[i].Pos() < out[j].Pos() })
	return out
}

// SortedFuncs returns the keys of a function set ordered by name.
func (p *Prog) SortedFuncs(m map[*ssa.Function]bool) []*ssa.Function {
	var out []*ssa.Function
	for f := range m {
		out = append(out, f)
	}
	sort.Slice(out, func(i, j int) bool {
		a, b := p.FnName(out[i]), p.FnName(out[j])
		if a != b {
			return a < b
		}
		return out[i].Pos() < out[j].Pos()
	})
	return out
}

// Implements reports whether concrete type t (or *t) has all methods of iface.
func Implements(t types.Type, iface *types.Interface) bool {
	return types.Implements(t, iface)
}
