package eng

import (
	"fmt"
	"go/token"

	"golang.org/x/tools/go/ssa"
)

// Memory cells.
//
// A piece of loop state - a counter, a mode flag, a buffer - may be kept in a
// local variable, in a variable captured by a closure, or in a field of a
// state object that is created once and handed to helpers or goroutines.
// The three spellings behave alike, so the rules that follow such state name
// it by a canonical cell identity: the allocation it lives in plus the path
// of fields below it. An address whose base cannot be traced to a single
// allocation has no identity ("") and the rules that need one stay undecided.

// CellID returns the identity of the cell that addr points to.
func (p *Prog) CellID(addr ssa.Value) string { return p.cellID(addr, 0, nil) }

// CellIDCtx is CellID for an address computed inside transparent helpers
// entered through the given chain of calls.
func (p *Prog) CellIDCtx(addr ssa.Value, stack []*ssa.Call) string { return p.cellID(addr, 0, stack) }

func (p *Prog) cellID(addr ssa.Value, d int, stack []*ssa.Call) string {
	if addr == nil || d > 8 {
		return ""
	}
	switch a := stripConv(addr).(type) {
	case *ssa.Alloc:
		return allocID(a)
	case *ssa.FreeVar:
		if r := p.Census().Root(a); r != nil {
			return allocID(r)
		}
	case *ssa.FieldAddr:
		if base := p.objID(a.X, d+1, stack); base != "" {
			return base + "." + CanonFieldName(a.X.Type(), a.Field)
		}
	case *ssa.Parameter:
		if rs := ResolveAllCtx(a, stack); len(rs) == 1 && rs[0] != ssa.Value(a) {
			return p.cellID(rs[0], d+1, callerStack(a, stack))
		}
	}
	return ""
}

// callerStack: the chain of calls that remains once a parameter of the
// innermost helper has been replaced by the argument at its call.
func callerStack(q *ssa.Parameter, stack []*ssa.Call) []*ssa.Call {
	if n := len(stack); n > 0 && EffCallee(stack[n-1]) == q.Parent() {
		return stack[:n-1]
	}
	return nil
}

func allocID(a *ssa.Alloc) string {
	fn := "?"
	if a.Parent() != nil {
		fn = a.Parent().String()
	}
	return fmt.Sprintf("%s:%s(%s)", fn, a.Name(), a.Comment)
}

// objID identifies the object a pointer value points to.
func (p *Prog) objID(v ssa.Value, d int, stack []*ssa.Call) string {
	if v == nil || d > 8 {
		return ""
	}
	switch x := stripConv(v).(type) {
	case *ssa.Alloc:
		return allocID(x)
	case *ssa.FreeVar:
		if r := p.Census().Root(x); r != nil {
			return allocID(r)
		}
	case *ssa.Parameter:
		if rs := ResolveAllCtx(x, stack); len(rs) == 1 && rs[0] != ssa.Value(x) {
			return p.objID(rs[0], d+1, callerStack(x, stack))
		}
	case *ssa.FieldAddr:
		// the address of a struct embedded by value (`&d.lower`): the object is that field
		return p.cellID(x, d+1, stack)
	case *ssa.UnOp:
		if x.Op != token.MUL {
			return ""
		}
		// the pointer kept in a variable: when the variable is assigned once,
		// the object is what was assigned
		var root *ssa.Alloc
		switch ad := x.X.(type) {
		case *ssa.Alloc:
			root = ad
		case *ssa.FreeVar:
			root = p.Census().Root(ad)
		}
		if root != nil {
			if sts := p.allocStores(root); len(sts) == 1 {
				if id := p.objID(sts[0].Val, d+1, nil); id != "" {
					return id
				}
			}
			return "*" + allocID(root)
		}
		if id := p.cellID(x.X, d+1, stack); id != "" {
			return "*" + id
		}
	}
	return ""
}

// allocStores lists every store to a local, from its owner and from the
// closures that capture it.
func (p *Prog) allocStores(root *ssa.Alloc) []*ssa.Store {
	var out []*ssa.Store
	fns := map[*ssa.Function]bool{}
	if root.Parent() != nil {
		fns[root.Parent()] = true
	}
	for _, f := range p.Census().CellStorers(root) {
		fns[f] = true
	}
	for f := range fns {
		InstrsShallow(f, func(in ssa.Instruction) {
			s, ok := in.(*ssa.Store)
			if !ok {
				return
			}
			switch ad := s.Addr.(type) {
			case *ssa.Alloc:
				if ad == root {
					out = append(out, s)
				}
			case *ssa.FreeVar:
				if p.Census().Root(ad) == root {
					out = append(out, s)
				}
			}
		})
	}
	return out
}

// CellStores lists every store of the module to the cell (by identity).
func (p *Prog) CellStores(id string) []*ssa.Store {
	if id == "" {
		return nil
	}
	if p.cellStores == nil {
		p.cellStores = map[string][]*ssa.Store{}
		for _, fn := range p.AllModFuncs() {
			InstrsShallow(fn, func(in ssa.Instruction) {
				if s, ok := in.(*ssa.Store); ok {
					if k := p.CellID(s.Addr); k != "" {
						p.cellStores[k] = append(p.cellStores[k], s)
					}
				}
			})
		}
	}
	return p.cellStores[id]
}

// LoadedCell: v is a load of a cell; its identity ("" otherwise).
func (p *Prog) LoadedCell(v ssa.Value) string {
	if u, ok := stripConv(v).(*ssa.UnOp); ok && u.Op == token.MUL {
		return p.CellID(u.X)
	}
	return ""
}

// ObjID identifies the object a pointer value points to ("" when it cannot
// be traced to one allocation).
func (p *Prog) ObjID(v ssa.Value) string { return p.objID(v, 0, nil) }

// stripConv removes type conversions only (no look through helpers: a cell
// is identified by where it is, not by what it holds).
func stripConv(v ssa.Value) ssa.Value {
	for {
		switch x := v.(type) {
		case *ssa.ChangeType:
			v = x.X
		case *ssa.Convert:
			v = x.X
		case *ssa.ChangeInterface:
			v = x.X
		case *ssa.MakeInterface:
			v = x.X
		default:
			return v
		}
	}
}

// AllocStores lists every store to a local, from its owner and from the
// literals that capture it.
func (p *Prog) AllocStores(root *ssa.Alloc) []*ssa.Store { return p.allocStores(root) }
