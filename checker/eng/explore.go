package eng

import (
	"go/token"
	"go/types"
	"sort"
	"strings"

	"golang.org/x/tools/go/ssa"
)

// ---------------------------------------------------------------------------
// Path explorer: a predicate-sensitive forward search over the SSA control
// flow graph of one function (engines E1 DOM, E2 GUARD, E3 PSENS, E4 BARRIER,
// and the reachability half of E8 ERRDISC).
//
// A state is a partial valuation of "keys". A key is a structural rendering
// of an SSA value: registers are opaque names (t12) unless their defining
// instruction is transparent (field address, load, comparison, conversion,
// extract, pure observer call, phi along a known edge), so two evaluations of
// `fs.excludeMatcher != nil` or of `fi.IsDir()` share one key although go/ssa
// performs no CSE. Memory is modelled per path for address keys (last stored
// value), invalidated by stores to possibly aliasing addresses and by calls
// that may write the location (see stable()).
// ---------------------------------------------------------------------------

// State is the per-path abstract state.
type State struct {
	Facts map[string]bool   // key of a boolean value -> its truth
	alias map[string]string // register name -> key
	mem   map[string]string // address key -> key of the value last stored
	// pin: assumed predicates. "Whenever a condition with this key is
	// evaluated it has this value" - an oracle for the whole run, never
	// invalidated (shared, not copied).
	pin map[string]bool
	// phiSrc: key of the operand that flowed into a phi on this path (for
	// rules that ask "which value reached this use"); not used for facts.
	phiSrc map[string]string
	// tuple: keys of the results of an inlined helper call (call register ->
	// element keys), consumed by Extract.
	tuple map[string][]string
	// armed: targets and barriers are active (false only while running up to
	// a From instruction that lies inside an inlined helper).
	armed bool
}

// fact looks a key up in the pinned assumptions, then in the path facts.
func (s *State) fact(k string) (bool, bool) {
	if v, ok := s.pin[k]; ok {
		return v, true
	}
	v, ok := s.Facts[k]
	return v, ok
}

func newState() *State {
	return &State{Facts: map[string]bool{}, alias: map[string]string{}, mem: map[string]string{}, phiSrc: map[string]string{}, tuple: map[string][]string{}, armed: true}
}

func (s *State) clone() *State {
	n := &State{Facts: make(map[string]bool, len(s.Facts)), alias: make(map[string]string, len(s.alias)), mem: make(map[string]string, len(s.mem)), pin: s.pin, phiSrc: make(map[string]string, len(s.phiSrc))}
	for k, v := range s.phiSrc {
		n.phiSrc[k] = v
	}
	n.tuple = make(map[string][]string, len(s.tuple))
	for k, v := range s.tuple {
		n.tuple[k] = v
	}
	n.armed = s.armed
	for k, v := range s.Facts {
		n.Facts[k] = v
	}
	for k, v := range s.alias {
		n.alias[k] = v
	}
	for k, v := range s.mem {
		n.mem[k] = v
	}
	return n
}

func (s *State) hash() string {
	var parts []string
	for k, v := range s.Facts {
		if v {
			parts = append(parts, "F"+k+"=1")
		} else {
			parts = append(parts, "F"+k+"=0")
		}
	}
	for k, v := range s.alias {
		parts = append(parts, "A"+k+"="+v)
	}
	for k, v := range s.mem {
		parts = append(parts, "M"+k+"="+v)
	}
	for k, v := range s.phiSrc {
		parts = append(parts, "P"+k+"="+v)
	}
	for k, v := range s.tuple {
		parts = append(parts, "T"+k+"="+strings.Join(v, ","))
	}
	if !s.armed {
		parts = append(parts, "unarmed")
	}
	sort.Strings(parts)
	return strings.Join(parts, ";")
}

// Hit is one target reached by the explorer.
type Hit struct {
	Instr ssa.Instruction
	Trace []int // block indices from the start to the hit
	St    *State
}

// Explorer configuration; zero value explores the whole function from the
// entry with no assumptions.
type Explorer struct {
	P  *Prog
	Fn *ssa.Function
	// From: start right after this instruction (nil: function entry).
	From ssa.Instruction
	// Assume: initial facts (key -> truth). Keys come from KeyAtEntry or Key*.
	Assume map[string]bool
	// Track decides which unknown branch conditions are recorded as facts in
	// addition to the assumed keys and error nil-tests. nil: none.
	Track func(key string) bool
	// Barrier stops a path at (before executing) the instruction.
	Barrier func(in ssa.Instruction, st *State) bool
	// Target records a hit; the path continues unless StopAtTarget.
	Target       func(in ssa.Instruction, st *State) bool
	StopAtTarget bool
	// Init, when set, is the path state to resume from (a Hit.St of an
	// earlier run that stopped at From).
	Init *State
	// MaxStates bounds the search; exceeding it sets Exhausted.
	MaxStates int

	Hits      []Hit
	Exhausted bool
	States    int

	census   *Census
	pinned   map[string]bool
	valPin   map[string]bool // register name -> assumed truth
	regBlock map[string]*ssa.BasicBlock
	allocs   map[string]*ssa.Alloc
	regFns   map[*ssa.Function]bool
	// NoInline disables the inlining of transparent helpers.
	NoInline bool
	// Debug, when non-nil, collects the distinct state hashes per block.
	Debug map[int]map[string]bool
}

// KeyAtEntry renders v structurally with an empty path state. Use it to name
// the conditions a rule assumes.
func (x *Explorer) KeyAtEntry(v ssa.Value) string {
	x.init()
	if in, ok := v.(ssa.Instruction); ok && (in.Parent() == x.Fn || x.P.Transparent(in.Parent())) {
		// value pin: "whenever this instruction is evaluated it yields the
		// assumed truth"; the fact is recorded under the key the value has
		// at that moment (memory-dependent keys differ from the entry form).
		return "@" + x.rn(v)
	}
	return x.render(v, newState(), 0)
}

// StructKeyAtEntry renders v structurally with an empty path state (for
// comparing two expressions).
func (x *Explorer) StructKeyAtEntry(v ssa.Value) string {
	x.init()
	return x.render(v, newState(), 0)
}

// SourceKey is KeyOf, except that for a phi it returns the key of the operand
// that flowed into it on this path.
func (x *Explorer) SourceKey(v ssa.Value, st *State) string {
	// the result of an inlined helper: the helper's own value that was returned
	if _, isPhi := v.(*ssa.Phi); !isPhi {
		if o, ok := st.phiSrc[x.key(v, st)]; ok {
			return o
		}
	}
	for i := 0; i < 4; i++ {
		p, ok := v.(*ssa.Phi)
		if !ok {
			break
		}
		if k, ok := st.phiSrc[x.rn(p)]; ok {
			return k
		}
		break
	}
	return x.key(v, st)
}

// KeyOf renders v in the given state.
func (x *Explorer) KeyOf(v ssa.Value, st *State) string {
	return x.key(v, st)
}

var helperIDs = map[*ssa.Function]int{}

// rn is the path-unique name of a register: tN inside the explored function,
// tN_hK inside helper K inlined into it.
func (x *Explorer) rn(v ssa.Value) string {
	f := v.Parent()
	if f == nil || f == x.Fn && !x.P.Transparent(f) {
		return v.Name()
	}
	id, ok := helperIDs[f]
	if !ok {
		id = len(helperIDs) + 1
		helperIDs[f] = id
	}
	return v.Name() + "_h" + itoa(id)
}

// RegKey is the Assume key that pins the truth of the boolean register v
// (a value of the explored function or of a helper it walks through).
func (x *Explorer) RegKey(v ssa.Value) string { return "@" + x.rn(v) }

// addRegs indexes the registers of fn (for dominance pruning).
func (x *Explorer) addRegs(fn *ssa.Function) {
	if x.regFns[fn] {
		return
	}
	x.regFns[fn] = true
	for _, b := range fn.Blocks {
		for _, in := range b.Instrs {
			if v, ok := in.(ssa.Value); ok {
				x.regBlock[x.rn(v)] = b
				if a, isA := in.(*ssa.Alloc); isA {
					x.allocs[x.rn(v)] = a
				}
			}
		}
	}
	for _, l := range fn.Locals {
		x.allocs[x.rn(l)] = l
	}
}

var regsCache = map[string][]string{}

// regsOf extracts the register tokens (t<digits>) of a key.
func regsOf(k string) []string {
	if r, ok := regsCache[k]; ok {
		return r
	}
	var out []string
	for i := 0; i < len(k); i++ {
		if k[i] == 't' && (i == 0 || !isIdent(k[i-1])) {
			j := i + 1
			for j < len(k) && k[j] >= '0' && k[j] <= '9' {
				j++
			}
			// helper-qualified registers: t12_h3
			if j > i+1 && j+2 < len(k) && k[j] == '_' && k[j+1] == 'h' && k[j+2] >= '0' && k[j+2] <= '9' {
				j += 2
				for j < len(k) && k[j] >= '0' && k[j] <= '9' {
					j++
				}
			}
			if j > i+1 && (j >= len(k) || !isIdent(k[j])) {
				out = append(out, k[i:j])
			}
			i = j
		}
	}
	regsCache[k] = out
	return out
}

func (x *Explorer) init() {
	if x.census == nil {
		x.census = x.P.Census()
	}
	if x.regBlock == nil {
		x.regBlock = map[string]*ssa.BasicBlock{}
		x.allocs = map[string]*ssa.Alloc{}
		x.regFns = map[*ssa.Function]bool{}
		x.addRegs(x.Fn)
	}
	if x.MaxStates == 0 {
		x.MaxStates = 400000
	}
}

const maxKeyLen = 220

func (x *Explorer) key(v ssa.Value, st *State) string {
	switch c := v.(type) {
	case *ssa.Const:
		if c.IsNil() {
			return "nil"
		}
		if c.Value == nil {
			return "zero"
		}
		return "c:" + c.Value.ExactString()
	case *ssa.Parameter:
		if c.Parent() != nil && c.Parent() != x.Fn {
			if a, ok := st.alias[x.rn(c)]; ok {
				return a
			}
			return "p:" + x.rn(c)
		}
		return "p:" + c.Name()
	case *ssa.FreeVar:
		if c.Parent() != nil && c.Parent() != x.Fn {
			// free variable of an inlined function literal: the captured cell
			if a, ok := st.alias[x.rn(c)]; ok {
				return a
			}
			return "fv:" + x.rn(c)
		}
		return "fv:" + c.Name()
	case *ssa.Global:
		return "g:" + shorten(c.String())
	case *ssa.Function:
		return "fn:" + x.P.FnName(c)
	case *ssa.Builtin:
		return "bi:" + c.Name()
	}
	if a, ok := st.alias[x.rn(v)]; ok {
		return a
	}
	switch v.(type) {
	case *ssa.Alloc, *ssa.MakeClosure, *ssa.MakeMap, *ssa.MakeChan, *ssa.MakeSlice:
		return "new:" + x.rn(v)
	}
	return x.rn(v)
}

// render computes the structural key of v, recursing into operands (depth
// bounded) and ignoring aliases: used for KeyAtEntry only.
func (x *Explorer) render(v ssa.Value, st *State, depth int) string {
	if _, isInstr := v.(ssa.Instruction); !isInstr || depth > 12 {
		return x.key(v, st)
	}
	tmp := newState()
	// define operands first
	var rec func(v ssa.Value, d int)
	seen := map[ssa.Value]bool{}
	rec = func(v ssa.Value, d int) {
		in, ok := v.(ssa.Instruction)
		if !ok || seen[v] || d > 12 {
			return
		}
		seen[v] = true
		if _, isPhi := v.(*ssa.Phi); isPhi {
			return
		}
		for _, op := range in.Operands(nil) {
			if *op != nil {
				rec(*op, d+1)
			}
		}
		x.define(in, tmp)
	}
	rec(v, 0)
	return x.key(v, tmp)
}

var pureInvoke = map[string]bool{
	"(io/fs.FileInfo).IsDir": true, "(io/fs.FileInfo).Mode": true, "(io/fs.FileInfo).Size": true,
	"(io/fs.FileInfo).ModTime": true, "(io/fs.FileInfo).Name": true, "(io/fs.FileInfo).Sys": true,
	"(io/fs.DirEntry).IsDir": true, "(io/fs.DirEntry).Type": true, "(io/fs.DirEntry).Name": true,
	"(io/fs.FileMode).IsDir": true, "(io/fs.FileMode).IsRegular": true, "(io/fs.FileMode).Perm": true, "(io/fs.FileMode).Type": true,
	"fsutil.fileCanRequestData": true,
	"os.IsNotExist":             true, "os.IsPermission": true, "os.IsExist": true, "os.IsPathSeparator": true,
	"errors.Is": true, "github.com/pkg/errors.Is": true,
	"fsutil.isNotExist": true, "fsutil.isNotFound": true,
	"(*github.com/moby/patternmatcher.Pattern).Exclusion":         true,
	"(*github.com/moby/patternmatcher.PatternMatcher).Exclusions": true,
}

// memory-dependent observers: key carries a '*' so that it is invalidated
// like a load.
var memPure = map[string]bool{
	"types.(*Stat).IsDir":      true,
	"fsutil.(*StatInfo).IsDir": true, "fsutil.(*StatInfo).Mode": true, "fsutil.(*StatInfo).Sys": true,
	"fsutil.(*StatInfo).Size": true,
}

var pureStringPkgs = map[string]bool{"strings": true, "path": true, "path/filepath": true}
var impureInStringPkgs = map[string]bool{"Walk": true, "WalkDir": true, "Glob": true, "EvalSymlinks": true, "Abs": true}

func isPureStringFunc(name string) bool {
	i := strings.LastIndex(name, ".")
	if i < 0 || strings.HasPrefix(name, "(") {
		return false
	}
	return pureStringPkgs[name[:i]] && !impureInStringPkgs[name[i+1:]]
}

var errNew = map[string]bool{
	"errors.New": true, "fmt.Errorf": true,
	"github.com/pkg/errors.New": true, "github.com/pkg/errors.Errorf": true,
	"(context.Context).Err": true,
}
var errWrap = map[string]bool{
	"github.com/pkg/errors.Wrap": true, "github.com/pkg/errors.Wrapf": true,
	"github.com/pkg/errors.WithStack": true, "github.com/pkg/errors.WithMessage": true,
	"github.com/pkg/errors.WithMessagef": true,
}

// define records the alias of an instruction value in st.
func (x *Explorer) define(in ssa.Instruction, st *State) {
	v, ok := in.(ssa.Value)
	if !ok {
		return
	}
	set := func(k string) {
		if len(k) > maxKeyLen {
			delete(st.alias, x.rn(v))
			return
		}
		st.alias[x.rn(v)] = k
	}
	switch i := in.(type) {
	case *ssa.Alloc:
		// a fresh variable holds the zero value
		if pt, ok := i.Type().Underlying().(*types.Pointer); ok {
			z := ""
			switch e := pt.Elem().Underlying().(type) {
			case *types.Basic:
				switch {
				case e.Info()&types.IsBoolean != 0:
					z = "c:false"
				case e.Info()&types.IsString != 0:
					z = `c:""`
				case e.Info()&types.IsNumeric != 0:
					z = "c:0"
				}
			case *types.Pointer, *types.Interface, *types.Map, *types.Slice, *types.Chan, *types.Signature:
				z = "nil"
			}
			if z != "" {
				st.mem["new:"+x.rn(i)] = z
			}
		}
	case *ssa.FieldAddr:
		fv := FieldVar(i.X.Type(), i.Field)
		n := "?"
		if fv != nil {
			n = fv.Name()
		}
		set(x.key(i.X, st) + "." + n)
	case *ssa.Field:
		fv := FieldVar(i.X.Type(), i.Field)
		n := "?"
		if fv != nil {
			n = fv.Name()
		}
		set(x.key(i.X, st) + "." + n)
	case *ssa.IndexAddr:
		set(x.key(i.X, st) + "[" + x.key(i.Index, st) + "]")
	case *ssa.Index:
		set("idx(" + x.key(i.X, st) + "," + x.key(i.Index, st) + ")")
	case *ssa.Lookup:
		if b, ok := i.X.Type().Underlying().(*types.Basic); ok && b.Info()&types.IsString != 0 {
			set("idx(" + x.key(i.X, st) + "," + x.key(i.Index, st) + ")")
		}
	case *ssa.UnOp:
		switch i.Op {
		case token.MUL:
			ka := x.key(i.X, st)
			if m, ok := st.mem[ka]; ok {
				set(m)
			} else if x.stableAddr(i.X) {
				set("^" + ka)
			} else {
				set("*" + ka)
			}
		case token.NOT:
			k := x.key(i.X, st)
			if strings.HasPrefix(k, "!") {
				set(k[1:])
			} else {
				set("!" + k)
			}
		case token.SUB, token.XOR:
			set(i.Op.String() + "(" + x.key(i.X, st) + ")")
		}
	case *ssa.BinOp:
		a, b := x.key(i.X, st), x.key(i.Y, st)
		switch i.Op {
		case token.EQL:
			set(eqKey(a, b))
		case token.NEQ:
			set("!" + eqKey(a, b))
		case token.LSS:
			set("(" + a + "<" + b + ")")
		case token.GTR:
			set("(" + b + "<" + a + ")")
		case token.GEQ:
			set("!(" + a + "<" + b + ")")
		case token.LEQ:
			set("!(" + b + "<" + a + ")")
		default:
			if isNumeric(i.Type()) && (strings.Contains(a, "t") || strings.Contains(b, "t")) && len(a)+len(b) > 60 {
				return
			}
			set("(" + a + i.Op.String() + b + ")")
		}
	case *ssa.Convert:
		set(x.key(i.X, st))
	case *ssa.ChangeType:
		set(x.key(i.X, st))
	case *ssa.ChangeInterface:
		set(x.key(i.X, st))
	case *ssa.MakeInterface:
		set("mi(" + x.key(i.X, st) + ")")
	case *ssa.Extract:
		if tv, ok := i.Tuple.(ssa.Value); ok {
			if el, has := st.tuple[x.rn(tv)]; has && i.Index < len(el) {
				set(el[i.Index])
				return
			}
		}
		k := x.key(i.Tuple, st) + "#" + itoa(i.Index)
		set(k)
		// an assumption stated about this result by its register name
		// ("(t2#1==nil) is false") also holds for the structural key the
		// result of a pure call is known by
		if reg := x.rn(i.Tuple) + "#" + itoa(i.Index); k != reg && len(st.pin) > 0 && len(k) <= maxKeyLen {
			for pk, pv := range st.pin {
				if mentions(pk, reg) {
					st.Facts[replaceTok(pk, reg, k)] = pv
				}
			}
		}
	case *ssa.Call:
		name := x.P.CalleeName(i)
		cc := i.Common()
		argKeys := func() string {
			var ks []string
			if cc.IsInvoke() {
				ks = append(ks, x.key(cc.Value, st))
			}
			for _, a := range cc.Args {
				ks = append(ks, x.key(a, st))
			}
			return strings.Join(ks, ",")
		}
		switch {
		case pureInvoke[name] || isPureStringFunc(name):
			set("pure:" + name + "(" + argKeys() + ")")
		case memPure[name]:
			set("*pure:" + name + "(" + argKeys() + ")")
		case name == "builtin:len" || name == "builtin:cap":
			set(name[8:] + "(" + argKeys() + ")")
		case errNew[name]:
			set("nonnil:" + x.rn(v))
		case errWrap[name]:
			if len(cc.Args) > 0 {
				set("wrap(" + x.key(cc.Args[0], st) + ")")
			}
		}
	}
}

func isNumeric(t types.Type) bool {
	b, ok := t.Underlying().(*types.Basic)
	return ok && b.Info()&types.IsNumeric != 0
}

func itoa(i int) string {
	if i < 10 {
		return string(rune('0' + i))
	}
	return itoa(i/10) + string(rune('0'+i%10))
}

func eqKey(a, b string) string {
	// constants / nil last
	ca := a == "nil" || strings.HasPrefix(a, "c:")
	cb := b == "nil" || strings.HasPrefix(b, "c:")
	if (ca && !cb) || (ca == cb && a > b) {
		a, b = b, a
	}
	return "(" + a + "==" + b + ")"
}

// stableAddr: loads from this address are not changed by calls made from the
// function under exploration (see file comment).
func (x *Explorer) stableAddr(a ssa.Value) bool {
	switch v := a.(type) {
	case *ssa.FreeVar:
		return !x.census.CellStoredOutsideOwnerExcept(v, x.Fn)
	case *ssa.Alloc:
		return !x.census.CellStoredByClosure(v)
	case *ssa.Global:
		if v.Pkg != nil && !strings.HasPrefix(v.Pkg.Pkg.Path(), ModulePath) {
			return true
		}
		return !x.census.GlobalStored(v)
	case *ssa.FieldAddr:
		fv := FieldVar(v.X.Type(), v.Field)
		if fv == nil || !x.census.FieldImmutable(fv) {
			return false
		}
		return x.stableBase(v.X)
	}
	return false
}

func (x *Explorer) stableBase(b ssa.Value) bool {
	switch v := b.(type) {
	case *ssa.Parameter, *ssa.FreeVar:
		return true
	case *ssa.Alloc:
		return true
	case *ssa.FieldAddr:
		return x.stableAddr(v)
	case *ssa.UnOp:
		if v.Op == token.MUL {
			return x.stableAddr(v.X)
		}
	case *ssa.Call, *ssa.Extract, *ssa.TypeAssert, *ssa.Phi, *ssa.MakeInterface, *ssa.ChangeType:
		return true // the pointer value itself is a register
	}
	return false
}

// replaceTok replaces the delimited occurrences of tok in key by repl.
func replaceTok(key, tok, repl string) string {
	var sb strings.Builder
	for i := 0; i < len(key); {
		j := strings.Index(key[i:], tok)
		if j < 0 {
			sb.WriteString(key[i:])
			break
		}
		j += i
		end := j + len(tok)
		okL := j == 0 || !isIdent(key[j-1])
		okR := end >= len(key) || !isIdent(key[end])
		if okL && okR {
			sb.WriteString(key[i:j])
			sb.WriteString(repl)
			i = end
		} else {
			sb.WriteString(key[i : j+1])
			i = j + 1
		}
	}
	return sb.String()
}

// mentions reports whether key contains tok delimited by non-identifier chars.
func mentions(key, tok string) bool {
	for i := 0; ; {
		j := strings.Index(key[i:], tok)
		if j < 0 {
			return false
		}
		j += i
		end := j + len(tok)
		okL := j == 0 || !isIdent(key[j-1])
		okR := end >= len(key) || !isIdent(key[end])
		if okL && okR {
			return true
		}
		i = j + 1
		if i >= len(key) {
			return false
		}
	}
}

func isIdent(c byte) bool {
	return c == '_' || (c >= '0' && c <= '9') || (c >= 'a' && c <= 'z') || (c >= 'A' && c <= 'Z')
}

func (st *State) dropIf(pred func(k string) bool) {
	for k := range st.Facts {
		if pred(k) {
			delete(st.Facts, k)
		}
	}
	for r, k := range st.alias {
		if pred(k) {
			delete(st.alias, r)
		}
	}
	for a, k := range st.mem {
		if pred(k) || pred(a) {
			delete(st.mem, a)
		}
	}
}

// callInvalidates classifies a call for memory invalidation.
func (x *Explorer) callWritesMemory(c ssa.CallInstruction) bool {
	name := x.P.CalleeName(c)
	if pureInvoke[name] || memPure[name] || isPureStringFunc(name) || errNew[name] || errWrap[name] {
		return false
	}
	if strings.HasPrefix(name, "builtin:") {
		switch name {
		case "builtin:len", "builtin:cap", "builtin:close", "builtin:panic", "builtin:print", "builtin:println", "builtin:min", "builtin:max":
			return false
		}
		return true
	}
	cc := c.Common()
	if cc.IsInvoke() {
		return true
	}
	if f := cc.StaticCallee(); f != nil && !x.P.InModule(f) {
		// external function: writes our memory only through pointer or
		// function-typed arguments
		for _, a := range cc.Args {
			switch a.Type().Underlying().(type) {
			case *types.Pointer, *types.Signature, *types.Interface, *types.Map, *types.Slice:
				if _, isStr := a.Type().Underlying().(*types.Basic); isStr {
					continue
				}
				// error / context / string-like immutable interfaces are fine
				if isImmutableArgType(a.Type()) {
					continue
				}
				return true
			}
		}
		return false
	}
	return true
}

func isImmutableArgType(t types.Type) bool {
	s := types.TypeString(t, nil)
	switch s {
	case "error", "context.Context", "io/fs.FileInfo", "io/fs.DirEntry", "os.FileInfo", "*time.Time", "[]byte", "[]string", "[]interface{}", "[]any", "interface{}", "any":
		return true
	}
	return false
}

// Truth evaluates a boolean SSA value in st.
func (x *Explorer) Truth(v ssa.Value, st *State) (val, known bool) {
	k := x.key(v, st)
	if val, known = truthOfKey(k, st); known {
		return
	}
	// value-or-error results: (call#0 == nil) follows from what the path
	// knows about (call#1 == nil)
	if strings.HasPrefix(k, "(t") && strings.HasSuffix(k, "#0==nil)") {
		reg := k[1 : len(k)-len("#0==nil)")]
		if !strings.ContainsAny(reg, "(#=") && x.nnsReg(reg) {
			if errNil, known := truthOfKey("("+reg+"#1==nil)", st); known {
				if errNil {
					return false, true
				}
				if x.libReg(reg) {
					return true, true
				}
			}
		}
	}
	// the register itself: its value cannot change although the key it was
	// aliased to (a memory-dependent expression) may have been invalidated
	if _, isInstr := v.(ssa.Instruction); isInstr {
		if f, ok := st.fact("r:" + x.rn(v)); ok {
			return f, true
		}
	}
	// `for range s` over a nil slice or map has no iteration: the lowered
	// loop test `index < len(s)` is false
	if bo, ok := v.(*ssa.BinOp); ok && bo.Op == token.LSS && bo.Block() != nil && bo.Block().Comment == "rangeindex.loop" {
		if lc, ok := bo.Y.(*ssa.Call); ok {
			if bi, ok := lc.Call.Value.(*ssa.Builtin); ok && bi.Name() == "len" && len(lc.Call.Args) == 1 {
				ak := x.key(lc.Call.Args[0], st)
				if ak == "nil" {
					return false, true
				}
				if isNil, known := truthOfKey(eqKey(ak, "nil"), st); known && isNil {
					return false, true
				}
			}
		}
	}
	return false, false
}

// CellTruth: the truth of the boolean last stored through addr on this path
// (known only while the explorer still tracks the cell's content).
func (x *Explorer) CellTruth(addr ssa.Value, st *State) (val, known bool) {
	m, ok := st.mem[x.key(addr, st)]
	if !ok {
		return false, false
	}
	return truthOfKey(m, st)
}

func truthOfKey(k string, st *State) (val, known bool) {
	neg := false
	for strings.HasPrefix(k, "!") {
		neg = !neg
		k = k[1:]
	}
	res := func(b bool) (bool, bool) { return b != neg, true }
	switch k {
	case "c:true":
		return res(true)
	case "c:false":
		return res(false)
	}
	if f, ok := st.fact(k); ok {
		return res(f)
	}
	// an error predicate (os.IsNotExist, errors.Is ...) is false for a nil error
	if arg, ok := errPredArg(k); ok {
		if arg == "nil" {
			return res(false)
		}
		if isNil, known := truthOfKey(eqKey(arg, "nil"), st); known && isNil {
			return res(false)
		}
	}
	// (a==b) with decidable operands
	if strings.HasPrefix(k, "(") && strings.HasSuffix(k, ")") {
		if a, b, ok := splitEq(k); ok {
			if a == b && !strings.Contains(a, "*") {
				return res(true)
			}
			ca := a == "nil" || strings.HasPrefix(a, "c:")
			cb := b == "nil" || strings.HasPrefix(b, "c:")
			if ca && cb {
				return res(a == b)
			}
			// a boolean compared with a constant: (x == true) is x, (x == false) is !x
			if b == "c:true" || b == "c:false" {
				if tv, known := truthOfKey(a, st); known {
					return res(tv == (b == "c:true"))
				}
			}
			if b == "nil" {
				if nonNilKey(a, st) {
					return res(false)
				}
			}
		}
	}
	return false, false
}

var errPreds = []string{"pure:os.IsNotExist(", "pure:os.IsExist(", "pure:os.IsPermission(", "pure:os.IsTimeout(", "pure:errors.Is(", "pure:github.com/pkg/errors.Is("}

// errPredArg: k is pure:<error predicate>(ERR[,...]); returns the key of ERR.
func errPredArg(k string) (string, bool) {
	if !strings.HasPrefix(k, "pure:") || !strings.HasSuffix(k, ")") {
		return "", false
	}
	for _, p := range errPreds {
		if strings.HasPrefix(k, p) {
			inner := k[len(p) : len(k)-1]
			depth := 0
			for i := 0; i < len(inner); i++ {
				switch inner[i] {
				case '(':
					depth++
				case ')':
					depth--
				case ',':
					if depth == 0 {
						return inner[:i], true
					}
				}
			}
			return inner, true
		}
	}
	return "", false
}

func splitEq(k string) (a, b string, ok bool) {
	// k = "(" a "==" b ")" where a,b may contain nested parens
	inner := k[1 : len(k)-1]
	depth := 0
	for i := 0; i+1 < len(inner); i++ {
		switch inner[i] {
		case '(':
			depth++
		case ')':
			depth--
		case '=':
			if depth == 0 && inner[i+1] == '=' {
				return inner[:i], inner[i+2:], true
			}
		}
	}
	return "", "", false
}

func nonNilKey(k string, st *State) bool {
	if strings.HasPrefix(k, "mi(") || strings.HasPrefix(k, "nonnil:") || strings.HasPrefix(k, "fn:") || strings.HasPrefix(k, "new:") {
		return true
	}
	if strings.HasPrefix(k, "wrap(") && strings.HasSuffix(k, ")") {
		return nonNilKey(k[5:len(k)-1], st)
	}
	if strings.HasPrefix(k, "^g:") || strings.HasPrefix(k, "*g:") {
		// a package-level error sentinel (filepath.SkipDir, io.EOF ...)
		return true
	}
	if f, ok := st.fact(eqKey(k, "nil")); ok && !f {
		return true
	}
	return false
}

// NonNil reports whether v is provably non-nil in st.
func (x *Explorer) NonNil(v ssa.Value, st *State) bool {
	return nonNilKey(x.key(v, st), st)
}

// IsNil reports whether v is provably nil in st.
func (x *Explorer) IsNil(v ssa.Value, st *State) bool {
	k := x.key(v, st)
	if k == "nil" {
		return true
	}
	if f, ok := st.fact(eqKey(k, "nil")); ok && f {
		return true
	}
	return false
}

// ErrorResultIndex returns the index of the last result of type error, or -1.
func ErrorResultIndex(fn *ssa.Function) int {
	res := fn.Signature.Results()
	for i := res.Len() - 1; i >= 0; i-- {
		if types.TypeString(res.At(i).Type(), nil) == "error" {
			return i
		}
	}
	return -1
}

// IsSuccessReturn: a return whose error result is not provably non-nil.
// Functions without an error result: every return is a success return.
func (x *Explorer) IsSuccessReturn(in ssa.Instruction, st *State) bool {
	r, ok := in.(*ssa.Return)
	if !ok {
		return false
	}
	idx := ErrorResultIndex(x.Fn)
	if idx < 0 || idx >= len(r.Results) {
		return true
	}
	return !x.NonNil(r.Results[idx], st)
}

func isErrorType(t types.Type) bool { return types.TypeString(t, nil) == "error" }

// frame is one activation on the inlining stack.
type frame struct {
	fn   *ssa.Function
	call ssa.CallInstruction // call site in the caller (nil for the explored function)
	ret  *ssa.BasicBlock     // caller block to resume in
	idx  int                 // index of the instruction after the call
}

type workItem struct {
	block  *ssa.BasicBlock
	start  int
	pred   *ssa.BasicBlock
	st     *State
	trace  []int
	frames []frame
}

const maxInlineDepth = 4

func frameKey(fr []frame) string {
	if len(fr) == 0 {
		return ""
	}
	var sb strings.Builder
	for _, f := range fr {
		sb.WriteString(itoa(helperIDs[f.fn]))
		sb.WriteByte('@')
		sb.WriteString(itoa(f.ret.Index))
		sb.WriteByte('.')
		sb.WriteString(itoa(f.idx))
		sb.WriteByte('/')
	}
	return sb.String()
}

// inlinable: a static call to a transparent helper (a module function no rule
// knows by name), not already on the stack.
func (x *Explorer) inlinable(c ssa.CallInstruction, frames []frame) *ssa.Function {
	if x.NoInline || len(frames) >= maxInlineDepth {
		return nil
	}
	if _, isCall := c.(*ssa.Call); !isCall {
		return nil
	}
	f := EffCallee(c.(*ssa.Call)) // (a literal applied through a predicate HOF is entered like a helper)
	if f == nil {
		// a helper calling its function parameter: the literal written at the helper's call
		f, _ = boundLiteral(c.(*ssa.Call), frames)
	}
	if f == nil || !x.P.Transparent(f) || f == x.Fn {
		return nil
	}
	for _, fr := range frames {
		if fr.fn == f {
			return nil
		}
	}
	return f
}

// Run explores and fills Hits.
func (x *Explorer) Run() []Hit {
	x.init()
	x.Hits = nil
	if len(x.Fn.Blocks) == 0 {
		return nil
	}
	st0 := newState()
	if x.Init != nil {
		st0 = x.Init.clone()
	}
	st0.pin = map[string]bool{}
	x.pinned = st0.pin
	x.valPin = map[string]bool{}
	for k, v := range x.Assume {
		neg := false
		for strings.HasPrefix(k, "!") {
			neg = !neg
			k = k[1:]
		}
		if strings.HasPrefix(k, "@") {
			x.valPin[k[1:]] = v != neg
			continue
		}
		st0.pin[k] = v != neg
	}
	var work []workItem
	fromInHelper := x.From != nil && x.From.Parent() != x.Fn
	switch {
	case x.From != nil && !fromInHelper:
		// a value pin on the start instruction itself
		if v, ok := x.From.(ssa.Value); ok {
			if want, pinned := x.valPin[x.rn(v)]; pinned {
				st0.Facts[x.rn(v)] = want
				st0.Facts["r:"+x.rn(v)] = want
			}
		}
		b := x.From.Block()
		work = append(work, workItem{block: b, start: InstrIndex(x.From) + 1, st: st0, trace: []int{b.Index}})
	case fromInHelper:
		// the start lies inside an inlined helper: run from the entry of the
		// explored function with targets and barriers disarmed until the
		// start instruction has executed, so that the helper returns into
		// its real caller context.
		st0.armed = false
		work = append(work, workItem{block: x.Fn.Blocks[0], st: st0, trace: []int{0}})
	default:
		work = append(work, workItem{block: x.Fn.Blocks[0], st: st0, trace: []int{0}})
	}
	visited := map[string]bool{}
	for len(work) > 0 {
		it := work[len(work)-1]
		work = work[:len(work)-1]
		x.States++
		if x.States > x.MaxStates {
			x.Exhausted = true
			return x.Hits
		}
		st := it.st
		b := it.block
		top := len(it.frames) == 0
		if it.start == 0 {
			x.enterBlock(b, it.pred, st)
			h := frameKey(it.frames) + itoa(b.Index) + "|" + st.hash()
			if visited[h] {
				continue
			}
			visited[h] = true
			if x.Debug != nil {
				di := b.Index + 1000*len(it.frames)
				if x.Debug[di] == nil {
					x.Debug[di] = map[string]bool{}
				}
				x.Debug[di][h] = true
			}
		}
		stopped := false
		for idx := it.start; idx < len(b.Instrs); idx++ {
			in := b.Instrs[idx]
			if _, isPhi := in.(*ssa.Phi); isPhi {
				continue
			}
			_, isRet := in.(*ssa.Return)
			visible := st.armed && (top || !isRet)
			if visible && x.Barrier != nil && x.Barrier(in, st) {
				stopped = true
				break
			}
			if visible && x.Target != nil && x.Target(in, st) {
				x.Hits = append(x.Hits, Hit{Instr: in, Trace: append([]int(nil), it.trace...), St: st.clone()})
				if x.StopAtTarget {
					stopped = true
					break
				}
			}
			switch i := in.(type) {
			case *ssa.Store:
				x.doStore(i, st)
			case *ssa.MapUpdate:
				st.dropIf(func(k string) bool { return strings.Contains(k, "*map") })
			case *ssa.Panic:
				stopped = true
			case *ssa.Return:
				stopped = true
				if !top {
					// return into the caller: the call now looks like an
					// ordinary call whose results carry the facts learnt
					// inside; everything else about the helper is forgotten
					fr := it.frames[len(it.frames)-1]
					ns := st
					hid := "_h" + itoa(helperIDs[fr.fn])
					inHelper := func(k string) bool { return hasHelperReg(k, hid) }
					origin := map[string]string{}
					cvRet := fr.call.Value()
					pruned := false
					if cc, isCall := fr.call.(*ssa.Call); isCall {
						if hf, _ := hofLiteral(cc); hf != nil && (cvRet == nil || !isBoolType(cvRet.Type())) {
							cvRet = nil // e.g. slices.IndexFunc: the result is an index, not the literal's verdict
						}
					}
					if cv := cvRet; cv != nil {
						res := func(r ssa.Value, name string) string {
							k := x.key(r, st)
							if len(k) <= maxKeyLen && !inHelper(k) {
								// what this path knows about the result stays attached to the
								// call's register: the key may mention memory and be forgotten
								// at the next store, the value of the register is not
								if tv, known := truthOfKey(k, st); known && isBoolType(r.Type()) {
									ns.Facts["r:"+name] = tv
								}
								return k
							}
							if len(k) <= maxKeyLen {
								if o, ok := st.phiSrc[k]; ok {
									origin[name] = o
								} else {
									origin[name] = k
								}
								for _, src := range []map[string]bool{st.pin, st.Facts} {
									for fk, fv := range src {
										if mentions(fk, k) {
											nk := replaceTok(fk, k, name)
											if !inHelper(nk) {
												ns.Facts[nk] = fv
											}
										}
									}
								}
								if nonNilKey(k, st) {
									ns.Facts[eqKey(name, "nil")] = false
								}
								if tv, known := truthOfKey(k, st); known {
									ns.Facts[name] = tv
									ns.Facts["r:"+name] = tv
								}
							}
							return name
						}
						// an assumption about the nil-ness of the helper's
						// result ("this call failed"): paths through the helper
						// that return otherwise are not the ones asked about
						contradicts := func(r ssa.Value, name string) bool {
							want, pinned := st.pin[eqKey(name, "nil")]
							if !pinned {
								return false
							}
							k := x.key(r, st)
							switch {
							case k == "nil":
								return !want
							case nonNilKey(k, st):
								return want
							}
							if isNil, known := truthOfKey(eqKey(k, "nil"), st); known {
								return isNil != want
							}
							return false
						}
						// the result keeps the key it has in the caller's terms
						// (a pure library call of the helper's arguments): the
						// assumption made under the call's name holds for it
						carryPin := func(name, k string) {
							if k == name || len(k) > maxKeyLen {
								return
							}
							if want, pinned := st.pin[eqKey(name, "nil")]; pinned {
								ns.Facts[eqKey(k, "nil")] = want
							}
						}
						switch len(i.Results) {
						case 0:
						case 1:
							if contradicts(i.Results[0], x.rn(cv)) {
								pruned = true
								break
							}
							k := res(i.Results[0], x.rn(cv))
							if k != x.rn(cv) {
								ns.alias[x.rn(cv)] = k
								carryPin(x.rn(cv), k)
							}
						default:
							var ks []string
							for ri, r := range i.Results {
								if contradicts(r, x.rn(cv)+"#"+itoa(ri)) {
									pruned = true
								}
								k := res(r, x.rn(cv)+"#"+itoa(ri))
								carryPin(x.rn(cv)+"#"+itoa(ri), k)
								ks = append(ks, k)
							}
							ns.tuple[x.rn(cv)] = ks
						}
					}
					if pruned {
						break
					}
					// what a cell of the caller was assigned inside (a literal applied on
					// the spot setting a captured `ok`, `err`): keep what this path knows
					for a, k := range ns.mem {
						if !inHelper(k) || inHelper(a) {
							continue
						}
						if tv, known := truthOfKey(k, ns); known {
							if tv {
								ns.mem[a] = "c:true"
							} else {
								ns.mem[a] = "c:false"
							}
						} else if isNil, known := truthOfKey(eqKey(k, "nil"), ns); known {
							if isNil {
								ns.mem[a] = "nil"
							} else {
								nk := "set:" + a
								ns.mem[a] = nk
								ns.Facts[eqKey(nk, "nil")] = false
							}
						}
					}
					ns.dropIf(inHelper)
					for r := range ns.alias {
						if inHelper(r) {
							delete(ns.alias, r)
						}
					}
					for r := range ns.phiSrc {
						if inHelper(r) || inHelper(ns.phiSrc[r]) {
							delete(ns.phiSrc, r)
						}
					}
					for r, ks := range ns.tuple {
						bad := inHelper(r)
						for _, k := range ks {
							if inHelper(k) {
								bad = true
							}
						}
						if bad {
							delete(ns.tuple, r)
						}
					}
					for r, o := range origin {
						ns.phiSrc[r] = o
					}
					// an assumption about the result of the helper call itself
					// ("isNotFound(err) says no"): paths on which the helper
					// found otherwise are not the ones asked about
					if cv := fr.call.Value(); cv != nil && len(x.valPin) > 0 {
						if want, pinned := x.valPin[x.rn(cv)]; pinned {
							k := x.key(cv, ns)
							if got, known := truthOfKey(k, ns); known && got != want {
								break
							}
							if got, known := ns.fact("r:" + x.rn(cv)); known && got != want {
								break
							}
							ns.Facts["r:"+x.rn(cv)] = want
							neg := false
							for strings.HasPrefix(k, "!") {
								neg = !neg
								k = k[1:]
							}
							if len(k) <= maxKeyLen {
								ns.Facts[k] = want != neg
							}
						}
					}
					work = append(work, workItem{block: fr.ret, start: fr.idx, st: ns, trace: it.trace, frames: it.frames[:len(it.frames)-1]})
				}
			case *ssa.RunDefers:
				// deferred closures may store to captured cells; named
				// error results keep their nil-ness (checked separately by
				// DeferNilness).
				plain := true // every deferred call is a library call that is handed no function (mu.Unlock, f.Close)
				InstrsShallow(b.Parent(), func(di ssa.Instruction) {
					if d, isD := di.(*ssa.Defer); isD && !runsNoModuleCode(x.P, d) {
						plain = false
					}
				})
				for a := range st.mem {
					if !strings.HasPrefix(a, "new:") {
						continue
					}
					if al := x.allocByName(a[4:]); al != nil && x.census.CellStoredByClosure(al) && !isErrorType(al.Type().(*types.Pointer).Elem()) {
						if plain && !x.census.Escaped(al) {
							continue
						}
						delete(st.mem, a)
					}
				}
			case *ssa.If:
				x.branch(i, b, st, it.trace, &work, it.frames)
				stopped = true
			case *ssa.Jump:
				if len(b.Succs) == 1 {
					work = append(work, workItem{block: b.Succs[0], pred: b, st: st, trace: x.appendTr(it.trace, b.Succs[0], top), frames: it.frames})
				}
				stopped = true
			default:
				if c, ok := in.(ssa.CallInstruction); ok {
					if callee := x.inlinable(c, it.frames); callee != nil {
						// enter the helper: bind parameters to argument keys
						x.addRegs(callee)
						args := c.Common().Args
						hofF, hofMC := hofLiteral(c.(*ssa.Call))
						if hofF != nil {
							// the literal's parameters are elements of the sequence: unknown.
							// The sequence may be empty: the HOF then reports "none" without
							// running the literal at all
							args = nil
							if cv := c.Value(); cv != nil && isBoolType(cv.Type()) {
								ns := st.clone()
								ns.Facts[x.rn(cv)] = false
								ns.Facts["r:"+x.rn(cv)] = false
								if in == x.From {
									ns.armed = true
								}
								work = append(work, workItem{block: b, start: idx + 1, st: ns, trace: it.trace, frames: it.frames})
							}
						}
						for pi, p := range callee.Params {
							if hofF != nil {
								delete(st.alias, x.rn(p))
								continue
							}
							if pi < len(args) {
								k := x.key(args[pi], st)
								if len(k) <= maxKeyLen {
									st.alias[x.rn(p)] = k
								} else {
									delete(st.alias, x.rn(p))
								}
							}
						}
						mc, isMC := c.Common().Value.(*ssa.MakeClosure)
						if hofMC != nil {
							mc, isMC = hofMC, true
						} else if _, bmc := boundLiteral(c.(*ssa.Call), it.frames); bmc != nil {
							mc, isMC = bmc, true
						}
						if isMC {
							// `func() {...}()`: free variables are the captured cells
							for fi, fv := range callee.FreeVars {
								if fi < len(mc.Bindings) {
									k := x.key(mc.Bindings[fi], st)
									if len(k) <= maxKeyLen {
										st.alias[x.rn(fv)] = k
									} else {
										delete(st.alias, x.rn(fv))
									}
								}
							}
						}
						nf := append(append([]frame(nil), it.frames...), frame{fn: callee, call: c, ret: b, idx: idx + 1})
						if in == x.From {
							st.armed = true
						}
						work = append(work, workItem{block: callee.Blocks[0], st: st, trace: it.trace, frames: nf})
						stopped = true
						break
					}
					if _, isDefer := in.(*ssa.Defer); !isDefer {
						if _, isGo := in.(*ssa.Go); !isGo && x.callWritesMemory(c) {
							x.invalidateOnCall(c, st)
						}
					}
				}
				x.define(in, st)
				if v, ok := in.(ssa.Value); ok && len(x.valPin) > 0 {
					if want, pinned := x.valPin[x.rn(v)]; pinned {
						k := x.key(v, st)
						if got, known := truthOfKey(k, st); known {
							if got != want {
								stopped = true // contradiction: infeasible path
							}
						} else {
							neg := false
							for strings.HasPrefix(k, "!") {
								neg = !neg
								k = k[1:]
							}
							st.Facts[k] = want != neg
						}
						st.Facts["r:"+x.rn(v)] = want
					}
				}
			}
			if in == x.From {
				st.armed = true
			}
			if stopped {
				break
			}
		}
		_ = stopped
	}
	return x.Hits
}

// hasHelperReg: key mentions a register of the helper with suffix hid (_hK).
func hasHelperReg(k, hid string) bool {
	for i := 0; ; {
		j := strings.Index(k[i:], hid)
		if j < 0 {
			return false
		}
		j += i + len(hid)
		if j >= len(k) || k[j] < '0' || k[j] > '9' {
			return true
		}
		i = j
	}
}

// appendTr extends the block trace (only blocks of the explored function are
// listed; helper blocks would be meaningless in a report).
func (x *Explorer) appendTr(t []int, b *ssa.BasicBlock, top bool) []int {
	if !top {
		return t
	}
	return appendTrace(t, b.Index)
}

// nnsReg: the (qualified) register is a call to a module function returning
// (T, error) with T non-nil on success.
func (x *Explorer) nnsReg(reg string) bool {
	b, ok := x.regBlock[reg]
	if !ok {
		return false
	}
	base := reg
	if i := strings.Index(reg, "_h"); i > 0 {
		base = reg[:i]
	}
	return x.P.nonNilOnSuccessReg(b.Parent(), base)
}

// libReg: reg is the result of a library call of the value-or-error table
// (nil value together with an error).
func (x *Explorer) libReg(reg string) bool {
	b, ok := x.regBlock[reg]
	if !ok {
		return false
	}
	base := reg
	if i := strings.Index(reg, "_h"); i > 0 {
		base = reg[:i]
	}
	found := false
	InstrsShallow(b.Parent(), func(in ssa.Instruction) {
		if call, ok := in.(*ssa.Call); ok && call.Name() == base {
			if callee := call.Call.StaticCallee(); callee != nil && libValueOrError[callee.String()] {
				found = true
			}
		}
	})
	return found
}

func appendTrace(t []int, b int) []int {
	n := make([]int, len(t)+1)
	copy(n, t)
	n[len(t)] = b
	return n
}

func (x *Explorer) allocByName(name string) *ssa.Alloc {
	return x.allocs[name]
}

// loopHead: b is entered by a back edge (it dominates one of its predecessors).
func loopHead(b *ssa.BasicBlock) bool {
	for _, p := range b.Preds {
		if b.Dominates(p) {
			return true
		}
	}
	return false
}

func (x *Explorer) enterBlock(b, pred *ssa.BasicBlock, st *State) {
	// 1. phi transfer, computed from the incoming state
	type upd struct {
		name  string
		key   string
		ok    bool
		facts map[string]bool
	}
	var upds []upd
	if pred != nil {
		pi := -1
		for i, p := range b.Preds {
			if p == pred {
				pi = i
				break
			}
		}
		for _, in := range b.Instrs {
			phi, ok := in.(*ssa.Phi)
			if !ok {
				break
			}
			u := upd{name: x.rn(phi)}
			// (a numeric phi at the head of a loop is a counter: its key would
			// grow with every iteration. A numeric phi that merely lies inside a
			// loop body - `action := a; if c { action = f() }` - is an ordinary
			// join and takes the key of the value that flowed in)
			if pi >= 0 && (!isNumeric(phi.Type()) || !InCycle(b) || !loopHead(b)) {
				k := x.key(phi.Edges[pi], st)
				if !mentions(k, x.rn(phi)) && len(k) <= maxKeyLen {
					u.key, u.ok = k, true
					if len(regsOf(k)) > 0 {
						// the incoming value mentions registers that may
						// not dominate the blocks after the join: transfer
						// what is known about it to the phi's own name.
						u.facts = map[string]bool{}
						for _, src := range []map[string]bool{st.pin, st.Facts} {
							for fk, fv := range src {
								if mentions(fk, k) {
									u.facts[replaceTok(fk, k, x.rn(phi))] = fv
								}
							}
						}
						if nonNilKey(k, st) {
							u.facts[eqKey(x.rn(phi), "nil")] = false
						}
						if tv, known := truthOfKey(k, st); known {
							u.facts[x.rn(phi)] = tv
						}
					}
				}
			}
			upds = append(upds, u)
		}
	}
	// 1b. registers whose definition does not dominate this block are dead
	// here (SSA): forget what is known about them so that paths merge.
	dead := func(k string) bool {
		for _, r := range regsOf(k) {
			if db, ok := x.regBlock[r]; ok && db.Parent() == b.Parent() && db != b && !db.Dominates(b) {
				return true
			}
		}
		return false
	}
	for r, k := range st.alias {
		if db, ok := x.regBlock[r]; (ok && db.Parent() == b.Parent() && db != b && !db.Dominates(b)) || dead(k) {
			delete(st.alias, r)
		}
	}
	for k := range st.Facts {
		if dead(k) {
			delete(st.Facts, k)
		}
	}
	for a, k := range st.mem {
		if dead(a) || dead(k) {
			delete(st.mem, a)
		}
	}
	for r := range st.phiSrc {
		base := r
		if i := strings.IndexByte(base, '#'); i >= 0 {
			base = base[:i]
		}
		if db, ok := x.regBlock[base]; ok && db.Parent() == b.Parent() && (db == b || !db.Dominates(b)) {
			delete(st.phiSrc, r)
		}
	}
	// 2. registers defined in this block get fresh meaning
	defs := map[string]bool{}
	for _, in := range b.Instrs {
		if v, ok := in.(ssa.Value); ok {
			defs[x.rn(v)] = true
		}
	}
	if len(defs) > 0 && (len(st.alias) > 0 || len(st.Facts) > 0 || len(st.mem) > 0) {
		// cheap pre-test: only do the work if any is mentioned
		st.dropIf(func(k string) bool {
			if !strings.Contains(k, "t") {
				return false
			}
			for d := range defs {
				if mentions(k, d) {
					return true
				}
			}
			return false
		})
		for d := range defs {
			delete(st.alias, d)
		}
	}
	for _, u := range upds {
		if !u.ok {
			delete(st.phiSrc, u.name)
			continue
		}
		st.phiSrc[u.name] = u.key
		if u.facts != nil {
			for fk, fv := range u.facts {
				st.Facts[fk] = fv
			}
			continue
		}
		st.alias[u.name] = u.key
	}
}

func (x *Explorer) doStore(s *ssa.Store, st *State) {
	ka := x.key(s.Addr, st)
	kv := x.key(s.Val, st)
	if isBoolType(s.Val.Type()) {
		// a boolean whose truth is known on this path is stored as that truth:
		// the cell then outlives the registers the value was computed from
		// (a literal applied on the spot assigning a captured `ok`)
		if tv, known := truthOfKey(kv, st); known {
			if tv {
				kv = "c:true"
			} else {
				kv = "c:false"
			}
		}
	}
	// classify the address
	var field string
	if fa, ok := s.Addr.(*ssa.FieldAddr); ok {
		if fv := FieldVar(fa.X.Type(), fa.Field); fv != nil {
			field = "." + fv.Name()
		}
	}
	_, isAlloc := s.Addr.(*ssa.Alloc)
	_, isFV := s.Addr.(*ssa.FreeVar)
	_, isGlobal := s.Addr.(*ssa.Global)
	// a field or element of a local object: only that object is affected
	localRoot := ""
	if !isAlloc {
		var a ssa.Value = s.Addr
		for {
			switch y := a.(type) {
			case *ssa.FieldAddr:
				a = y.X
				continue
			case *ssa.IndexAddr:
				a = y.X
				continue
			case *ssa.Alloc:
				// (an object of the function the store is written in: the
				// explored function or a helper walked through)
				if y.Parent() == x.Fn || y.Parent() == s.Parent() {
					localRoot = x.rn(y)
				}
			}
			break
		}
	}
	affected := func(k string) bool {
		if !strings.ContainsAny(k, "*^") {
			return false
		}
		if strings.Contains(k, "*"+ka) || strings.Contains(k, "^"+ka) {
			return true
		}
		if isAlloc || isFV || isGlobal {
			return false
		}
		if localRoot != "" {
			return mentions(k, localRoot)
		}
		if field != "" {
			return mentions(k, field[1:]) && strings.Contains(k, field)
		}
		// store through an arbitrary pointer / index: everything loaded may
		// have changed, except package variables of other packages
		if strings.Contains(k, "*") {
			return true
		}
		rest := strings.ReplaceAll(k, "^g:", "")
		return strings.Contains(rest, "^")
	}
	st.dropIf(affected)
	for a := range st.mem {
		if a == ka {
			continue
		}
		if isAlloc || isFV || isGlobal {
			continue
		}
		if localRoot != "" {
			if mentions(a, localRoot) && a != "new:"+localRoot {
				if field == "" || strings.HasSuffix(a, field) {
					delete(st.mem, a)
				}
			}
			continue
		}
		if field != "" {
			if strings.HasSuffix(a, field) {
				delete(st.mem, a)
			}
			continue
		}
		if !strings.HasPrefix(a, "new:") && !strings.HasPrefix(a, "fv:") {
			delete(st.mem, a)
		}
	}
	if len(kv) <= maxKeyLen && !mentions(kv, "*"+ka) {
		st.mem[ka] = kv
	} else {
		delete(st.mem, ka)
	}
}

func (x *Explorer) invalidateOnCall(c ssa.CallInstruction, st *State) {
	st.dropIf(func(k string) bool { return strings.Contains(k, "*") })
	for a := range st.mem {
		keep := false
		if strings.HasPrefix(a, "new:") {
			if al := x.allocByName(a[4:]); al != nil && !x.census.CellStoredByClosure(al) {
				keep = true
			} else if al != nil && isErrorType(al.Type().(*types.Pointer).Elem()) {
				keep = true
			} else if al != nil && !x.census.Escaped(al) && runsNoModuleCode(x.P, c) {
				// written by literals of this function only: a library call that is
				// handed no function cannot run them
				keep = true
			}
		}
		if strings.HasPrefix(a, "fv:") {
			// captured cell of an enclosing function: written here only
			keep = true
			for _, fvv := range x.Fn.FreeVars {
				if "fv:"+fvv.Name() == a && x.census.CellStoredOutsideOwnerExcept(fvv, x.Fn) {
					keep = false
				}
			}
		}
		if !keep {
			delete(st.mem, a)
		}
	}
}

func (x *Explorer) branch(i *ssa.If, b *ssa.BasicBlock, st *State, trace []int, work *[]workItem, frames []frame) {
	k := x.key(i.Cond, st)
	val, known := x.Truth(i.Cond, st)
	neg := false
	base := k
	for strings.HasPrefix(base, "!") {
		neg = !neg
		base = base[1:]
	}
	push := func(succ int, truth bool, record bool) {
		ns := st
		if record {
			ns = st.clone()
			ns.Facts[base] = truth != neg
			if arg, ok := errPredArg(base); ok && truth != neg && arg != "nil" {
				// the predicate holds: the error is not nil
				if ek := eqKey(arg, "nil"); len(ek) <= maxKeyLen && !strings.Contains(ek, "*") {
					ns.Facts[ek] = false
				}
			}
			if _, isInstr := i.Cond.(ssa.Instruction); isInstr && strings.Contains(base, "*") {
				ns.Facts["r:"+x.rn(i.Cond)] = truth
			}
			// (call#k == nil) learnt true for the error result of a module
			// function whose other result is non-nil on success
			if truth != neg && strings.HasSuffix(base, "==nil)") && strings.HasPrefix(base, "(t") {
				if i := strings.Index(base, "#"); i > 0 {
					reg := base[1:i]
					if x.nnsReg(reg) {
						ns.Facts["("+reg+"#0==nil)"] = false
					}
				}
			}
		} else if !known {
			ns = st.clone()
		}
		*work = append(*work, workItem{block: b.Succs[succ], pred: b, st: ns, trace: x.appendTr(trace, b.Succs[succ], len(frames) == 0), frames: frames})
	}
	if known {
		if val {
			push(0, true, false)
		} else {
			push(1, false, false)
		}
		return
	}
	record := x.shouldTrack(base, i.Cond)
	// push false first so that the true edge is explored first (DFS order)
	push(1, false, record)
	push(0, true, record)
}

func (x *Explorer) shouldTrack(base string, cond ssa.Value) bool {
	if len(base) > maxKeyLen {
		return false
	}
	if x.Track != nil && x.Track(base) {
		return true
	}
	// a plain boolean register (phi, extract, call result) tested twice
	// must answer the same both times
	if len(regsOf(base)) == 1 && !strings.ContainsAny(base, "*^(") {
		return true
	}
	// comparisons over registers, parameters, constants and stable loads
	// (no '*' = no memory that a call or store could change in between)
	if !strings.Contains(base, "*") && len(base) <= 120 {
		return true
	}
	// pure observers (fi.IsDir(), fi.Mode() tests ...) answer the same on
	// every evaluation: remember the first answer
	if strings.HasPrefix(base, "pure:") || strings.HasPrefix(base, "(pure:") || strings.HasPrefix(base, "((pure:") {
		return true
	}
	// error nil tests
	c := cond
	for {
		if u, ok := c.(*ssa.UnOp); ok && u.Op == token.NOT {
			c = u.X
			continue
		}
		break
	}
	if bo, ok := c.(*ssa.BinOp); ok && (bo.Op == token.EQL || bo.Op == token.NEQ) {
		if isErrorType(bo.X.Type()) || isErrorType(bo.Y.Type()) {
			return true
		}
	}
	return false
}

// ---------------------------------------------------------------------------
// Convenience wrappers
// ---------------------------------------------------------------------------

// BlockTrace renders a block trace for reports.
func BlockTrace(fn *ssa.Function, tr []int) string {
	var sb strings.Builder
	for i, b := range tr {
		if i > 0 {
			sb.WriteString(">")
		}
		sb.WriteString(itoa(b))
		if b < len(fn.Blocks) && fn.Blocks[b].Comment != "" {
			sb.WriteString("(" + fn.Blocks[b].Comment + ")")
		}
		if i > 40 {
			sb.WriteString(">…")
			break
		}
	}
	return sb.String()
}

// nonNilOnSuccessReg: register reg of fn is a call to a module function that
// returns (T, error) with T provably non-nil on every success return.
func (p *Prog) nonNilOnSuccessReg(fn *ssa.Function, reg string) bool {
	key := fn
	m, ok := nnsRegCache[key]
	if !ok {
		m = map[string]bool{}
		InstrsShallow(fn, func(in ssa.Instruction) {
			call, ok := in.(*ssa.Call)
			if !ok {
				return
			}
			callee := call.Call.StaticCallee()
			if callee == nil {
				return
			}
			if !p.InModule(callee) {
				if libValueOrError[callee.String()] {
					m[call.Name()] = true
				}
				return
			}
			if p.NonNilOnSuccess(callee) {
				m[call.Name()] = true
			}
		})
		nnsRegCache[key] = m
	}
	return m[reg]
}

// libValueOrError: library functions that return a usable value exactly when
// they return no error, and nil together with an error (their documented and,
// under the Go 1 promise, stable behaviour).
var libValueOrError = map[string]bool{
	"os.Lstat": true, "os.Stat": true, "os.Open": true, "os.OpenFile": true, "os.Create": true,
	"github.com/moby/patternmatcher.New": true,
}

var nnsRegCache = map[*ssa.Function]map[string]bool{}
var nnsCache = map[*ssa.Function]int{}

// NonNilOnSuccess: fn returns (T, error), T a pointer/interface/map, and on
// every return whose error is not provably non-nil, result 0 is provably
// non-nil.
func (p *Prog) NonNilOnSuccess(fn *ssa.Function) bool {
	if v, ok := nnsCache[fn]; ok {
		return v == 1
	}
	nnsCache[fn] = 2 // in progress: pessimistic
	res := fn.Signature.Results()
	if res.Len() != 2 || !isErrorType(res.At(1).Type()) || len(fn.Blocks) == 0 {
		return false
	}
	switch res.At(0).Type().Underlying().(type) {
	case *types.Pointer, *types.Interface, *types.Map, *types.Slice, *types.Chan, *types.Signature:
	default:
		return false
	}
	x := &Explorer{P: p, Fn: fn, MaxStates: 20000}
	bad := false
	x.Target = func(in ssa.Instruction, st *State) bool {
		r, ok := in.(*ssa.Return)
		if !ok || len(r.Results) != 2 {
			return false
		}
		if x.NonNil(r.Results[1], st) {
			return false
		}
		if !x.NonNil(r.Results[0], st) {
			bad = true
		}
		return false
	}
	x.Run()
	if bad || x.Exhausted {
		return false
	}
	nnsCache[fn] = 1
	return true
}

func isBoolType(t types.Type) bool {
	b, ok := t.Underlying().(*types.Basic)
	return ok && b.Kind() == types.Bool
}

// boundLiteral: c (inside the innermost inlined helper) calls a function
// parameter of that helper, and the argument written at the helper's call is
// a function literal: returns the literal and its MakeClosure.
func boundLiteral(c *ssa.Call, frames []frame) (*ssa.Function, *ssa.MakeClosure) {
	if len(frames) == 0 || c.Call.StaticCallee() != nil || c.Call.IsInvoke() {
		return nil, nil
	}
	fr := frames[len(frames)-1]
	v := c.Call.Value
	if u, ok := v.(*ssa.UnOp); ok {
		if st := localSingleStore(u); st != nil {
			v = st.Val
		}
	}
	q, ok := v.(*ssa.Parameter)
	if !ok || q.Parent() != fr.fn {
		return nil, nil
	}
	hc, isCall := fr.call.(*ssa.Call)
	if !isCall || hc.Call.StaticCallee() != fr.fn {
		return nil, nil
	}
	for i, fp := range fr.fn.Params {
		if fp == q && i < len(hc.Call.Args) {
			if mc, isMC := hc.Call.Args[i].(*ssa.MakeClosure); isMC {
				if f, isF := mc.Fn.(*ssa.Function); isF && f.Parent() != nil {
					return f, mc
				}
			}
		}
	}
	return nil, nil
}

// runsNoModuleCode: c is a static call of a function outside the module that
// receives no function value and no interface or pointer through which module
// code could be reached by a callback (conservatively: no function-typed
// argument, callee not in the module).
func runsNoModuleCode(p *Prog, c ssa.CallInstruction) bool {
	callee := c.Common().StaticCallee()
	if callee == nil || p.InModule(callee) {
		return false
	}
	for _, a := range c.Common().Args {
		switch a.Type().Underlying().(type) {
		case *types.Signature, *types.Interface:
			return false
		}
	}
	return true
}

// Dump lists the facts, pins and tuples of a state (debugging aid).
func (st *State) Dump() string {
	var sb strings.Builder
	for k, v := range st.pin {
		sb.WriteString("   pin " + k + "=" + b2s(v) + "\n")
	}
	for k, v := range st.Facts {
		sb.WriteString("   fact " + k + "=" + b2s(v) + "\n")
	}
	for k, v := range st.tuple {
		sb.WriteString("   tuple " + k + "=" + strings.Join(v, ",") + "\n")
	}
	for k, v := range st.alias {
		sb.WriteString("   alias " + k + "=" + v + "\n")
	}
	return sb.String()
}

func b2s(b bool) string {
	if b {
		return "true"
	}
	return "false"
}
