package eng

import (
	"go/token"
	"go/types"
	"strings"

	"golang.org/x/tools/go/ssa"
)

// Lock identity: the struct field holding the mutex (*types.Var, origin) or
// the package variable (*ssa.Global).
type LockID interface{}

// Locks is the result of the must-hold lockset analysis of one function
// (engine E5). Held(in) is the set of mutexes locked on every path from the
// entry to in. Lock/RLock generate, Unlock/RUnlock kill, a deferred unlock
// keeps the lock to the exit.
type Locks struct {
	may   bool
	fn    *ssa.Function
	in    map[*ssa.BasicBlock]map[LockID]bool
	p     *Prog
	all   map[LockID]bool
	entry map[LockID]bool
}

var lockDepth int

func lockTarget(v ssa.Value) LockID {
	switch a := v.(type) {
	case *ssa.FieldAddr:
		if fv := FieldVar(a.X.Type(), a.Field); fv != nil {
			return fv.Origin()
		}
	case *ssa.Global:
		return a
	case *ssa.UnOp:
		if a.Op == token.MUL {
			return lockTarget(a.X)
		}
	}
	return nil
}

// lockOp classifies a call: +1 lock, -1 unlock, 0 other.
func (p *Prog) lockOp(in ssa.Instruction) (LockID, int) {
	c, ok := in.(*ssa.Call)
	if !ok {
		return nil, 0
	}
	switch p.CalleeName(c) {
	case "(*sync.Mutex).Lock", "(*sync.RWMutex).Lock", "(*sync.RWMutex).RLock":
		if len(c.Call.Args) > 0 {
			return lockTarget(c.Call.Args[0]), +1
		}
	case "(*sync.Mutex).Unlock", "(*sync.RWMutex).Unlock", "(*sync.RWMutex).RUnlock":
		if len(c.Call.Args) > 0 {
			return lockTarget(c.Call.Args[0]), -1
		}
	}
	return nil, 0
}

// LockAnalysis runs the must-hold dataflow for fn.
func (p *Prog) LockAnalysis(fn *ssa.Function) *Locks { return p.lockAnalysis(fn, false) }

// MayLockAnalysis runs the may-hold variant: Held(in) is the set of mutexes
// locked on SOME path from the entry to in (used for "nothing blocks while a
// mutex is held").
func (p *Prog) MayLockAnalysis(fn *ssa.Function) *Locks { return p.lockAnalysis(fn, true) }

func (p *Prog) lockAnalysis(fn *ssa.Function, may bool) *Locks {
	l := &Locks{may: may, fn: fn, p: p, in: map[*ssa.BasicBlock]map[LockID]bool{}, all: map[LockID]bool{}}
	for _, b := range fn.Blocks {
		for _, in := range b.Instrs {
			if id, op := p.lockOp(in); op != 0 && id != nil {
				l.all[id] = true
			}
		}
	}
	if len(fn.Blocks) == 0 {
		return l
	}
	top := func() map[LockID]bool {
		m := map[LockID]bool{}
		for k := range l.all {
			m[k] = true
		}
		return m
	}
	out := map[*ssa.BasicBlock]map[LockID]bool{}
	for _, b := range fn.Blocks {
		if may {
			l.in[b] = map[LockID]bool{}
			out[b] = map[LockID]bool{}
		} else {
			l.in[b] = top()
			out[b] = top()
		}
	}
	// a transparent helper starts with what every caller holds at the call
	entry := map[LockID]bool{}
	if p.Transparent(fn) && lockDepth < 4 {
		lockDepth++
		var sites []*ssa.Call
		for _, cs := range p.StaticCallSites(fn) {
			// a literal handed to a helper that calls it (`withLock(func() {...})`)
			// starts with what the helper holds where it calls its parameter
			if inner := p.paramCallSites(cs, fn); len(inner) > 0 {
				sites = append(sites, inner...)
			} else {
				sites = append(sites, cs)
			}
		}
		for i, cs := range sites {
			held := p.lockAnalysis(cs.Parent(), may).Held(cs)
			if i == 0 || may {
				for k := range held {
					entry[k] = true
					l.all[k] = true
				}
			} else {
				for k := range entry {
					if !held[k] {
						delete(entry, k)
					}
				}
			}
		}
		lockDepth--
	}
	if !may {
		for _, b := range fn.Blocks {
			for k := range entry {
				l.in[b][k] = true
				out[b][k] = true
			}
		}
	}
	l.entry = entry
	l.in[fn.Blocks[0]] = map[LockID]bool{}
	for k := range entry {
		l.in[fn.Blocks[0]][k] = true
	}
	changed := true
	for changed {
		changed = false
		for _, b := range fn.Blocks {
			var inSet map[LockID]bool
			if b == fn.Blocks[0] {
				inSet = map[LockID]bool{}
				for k := range entry {
					inSet[k] = true
				}
			} else if len(b.Preds) == 0 {
				inSet = map[LockID]bool{} // recover block etc.
			} else if may {
				inSet = map[LockID]bool{}
				for _, pr := range b.Preds {
					for k := range out[pr] {
						inSet[k] = true
					}
				}
			} else {
				inSet = top()
				for _, pr := range b.Preds {
					for k := range inSet {
						if !out[pr][k] {
							delete(inSet, k)
						}
					}
				}
			}
			l.in[b] = inSet
			cur := map[LockID]bool{}
			for k := range inSet {
				cur[k] = true
			}
			for _, in := range b.Instrs {
				if id, op := p.lockOp(in); id != nil {
					if op > 0 {
						cur[id] = true
					} else if op < 0 {
						delete(cur, id)
					}
				}
			}
			if !sameSet(cur, out[b]) {
				out[b] = cur
				changed = true
			}
		}
	}
	return l
}

func sameSet(a, b map[LockID]bool) bool {
	if len(a) != len(b) {
		return false
	}
	for k := range a {
		if !b[k] {
			return false
		}
	}
	return true
}

// Held returns the locks held immediately before in executes.
func (l *Locks) Held(in ssa.Instruction) map[LockID]bool {
	b := in.Block()
	cur := map[LockID]bool{}
	for k := range l.in[b] {
		cur[k] = true
	}
	for _, x := range b.Instrs {
		if x == in {
			break
		}
		if id, op := l.p.lockOp(x); id != nil {
			if op > 0 {
				cur[id] = true
			} else if op < 0 {
				delete(cur, id)
			}
		}
	}
	return cur
}

// HeldAtExit reports the locks still held at some return of fn (a lock-holding
// exit), ignoring locks released by a deferred unlock.
func (l *Locks) HeldAtExit() map[LockID][]ssa.Instruction {
	deferred := map[LockID]bool{}
	InstrsShallow(l.fn, func(in ssa.Instruction) {
		d, ok := in.(*ssa.Defer)
		if !ok {
			return
		}
		switch l.p.CalleeName(d) {
		case "(*sync.Mutex).Unlock", "(*sync.RWMutex).Unlock", "(*sync.RWMutex).RUnlock":
			if len(d.Call.Args) > 0 {
				if id := lockTarget(d.Call.Args[0]); id != nil {
					deferred[id] = true
				}
			}
		}
	})
	out := map[LockID][]ssa.Instruction{}
	InstrsShallow(l.fn, func(in ssa.Instruction) {
		if _, ok := in.(*ssa.Return); !ok {
			return
		}
		for id := range l.Held(in) {
			if l.entry[id] {
				continue // held by whoever entered this helper or literal: theirs to release
			}
			if !deferred[id] {
				out[id] = append(out[id], in)
			}
		}
	})
	return out
}

// FieldAccess is one use of a struct field together with the instructions
// that touch the value behind it (load, store, map operations).
type FieldAccess struct {
	Addr  *ssa.FieldAddr
	Uses  []ssa.Instruction
	Fn    *ssa.Function
	Fresh bool // object under construction in this function
}

// FieldAccesses enumerates every access to field f in module functions.
func (p *Prog) FieldAccesses(f *types.Var) []FieldAccess {
	c := p.Census()
	var out []FieldAccess
	for _, fa := range c.FieldAddrs(f) {
		acc := FieldAccess{Addr: fa, Fn: fa.Parent(), Fresh: rootIsFreshAlloc(fa, fa.Parent())}
		acc.Uses = append(acc.Uses, fa)
		for _, r := range Referrers(fa) {
			acc.Uses = append(acc.Uses, r)
			if ld, ok := r.(*ssa.UnOp); ok && ld.Op == token.MUL {
				// users of the loaded value: map lookups, updates, deletes, ranges
				for _, r2 := range Referrers(ld) {
					switch r2.(type) {
					case *ssa.Lookup, *ssa.MapUpdate, *ssa.Range, *ssa.Call:
						acc.Uses = append(acc.Uses, r2)
					}
				}
			}
		}
		out = append(out, acc)
	}
	return out
}

// GlobalAccesses enumerates loads and stores of a package variable.
func (p *Prog) GlobalAccesses(g *ssa.Global) []ssa.Instruction {
	var out []ssa.Instruction
	for _, fn := range p.AllModFuncs() {
		if fn.Name() == "init" {
			continue
		}
		InstrsShallow(fn, func(in ssa.Instruction) {
			for _, op := range in.Operands(nil) {
				if *op == ssa.Value(g) {
					out = append(out, in)
				}
			}
		})
	}
	return out
}

// StructField finds field `name` of named struct type `typ` in package short.
func (p *Prog) StructField(short, typ, name string) *types.Var {
	pk := p.Pkg(short)
	if pk == nil {
		return nil
	}
	canonOwner := short + "." + typ
	if curAliases != nil {
		if mv, ok := curAliases.movedRev[canonOwner+"."+name]; ok {
			// regrouped into a nested struct: look the field up there
			t := mv[0]
			return p.StructField(t[:strings.LastIndex(t, ".")], t[strings.LastIndex(t, ".")+1:], mv[1])
		}
	}
	if a := actualTypeName(canonOwner); a != canonOwner {
		typ = a[strings.LastIndex(a, ".")+1:]
	}
	name = actualFieldName(canonOwner, name)
	obj := pk.Types.Scope().Lookup(typ)
	if obj == nil {
		return nil
	}
	st, ok := obj.Type().Underlying().(*types.Struct)
	if !ok {
		return nil
	}
	for i := 0; i < st.NumFields(); i++ {
		if st.Field(i).Name() == name {
			return st.Field(i)
		}
	}
	return nil
}

// StructFields lists all fields of a named struct type.
func (p *Prog) StructFields(short, typ string) []*types.Var {
	pk := p.Pkg(short)
	if pk == nil {
		return nil
	}
	if a := actualTypeName(short + "." + typ); a != short+"."+typ {
		typ = a[strings.LastIndex(a, ".")+1:]
	}
	obj := pk.Types.Scope().Lookup(typ)
	if obj == nil {
		return nil
	}
	st, ok := obj.Type().Underlying().(*types.Struct)
	if !ok {
		return nil
	}
	var out []*types.Var
	for i := 0; i < st.NumFields(); i++ {
		out = append(out, st.Field(i))
	}
	return out
}

// paramCallSites: call c hands literal lit to a module helper through a
// call-only function parameter; returns the calls of that parameter inside
// the helper.
func (p *Prog) paramCallSites(c *ssa.Call, lit *ssa.Function) []*ssa.Call {
	if !p.appliesLiteral(c, lit) {
		return nil
	}
	h := c.Call.StaticCallee()
	var out []*ssa.Call
	for i, a := range c.Call.Args {
		mc, isMC := a.(*ssa.MakeClosure)
		if !isMC || mc.Fn != ssa.Value(lit) || i >= len(h.Params) {
			continue
		}
		q := h.Params[i]
		InstrsShallow(h, func(in ssa.Instruction) {
			call, ok := in.(*ssa.Call)
			if !ok || call.Call.StaticCallee() != nil || call.Call.IsInvoke() {
				return
			}
			v := call.Call.Value
			if u, isU := v.(*ssa.UnOp); isU {
				if st := localSingleStore(u); st != nil {
					v = st.Val
				}
			}
			if v == ssa.Value(q) {
				out = append(out, call)
			}
		})
	}
	return out
}
