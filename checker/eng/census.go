package eng

import (
	"go/token"
	"go/types"

	"golang.org/x/tools/go/ssa"
)

// Census is a whole-module index of memory writes: which struct fields are
// only written while the object is being constructed, which captured local
// cells are written by closures, which package variables are reassigned.
// It backs the "stable load" classification of the explorer and the
// shared-state rules (E5, E6).
type Census struct {
	p *Prog
	// field (origin var) -> stores outside constructor literals
	fieldStores map[*types.Var][]*ssa.Store
	// field -> all address-of instructions
	fieldAddrs map[*types.Var][]*ssa.FieldAddr
	// field whose address escapes (passed to a call, stored, captured)
	fieldEscapes map[*types.Var][]ssa.Instruction
	// captured cells
	root     map[*ssa.FreeVar]*ssa.Alloc
	storers  map[*ssa.Alloc]map[*ssa.Function]bool
	escaped  map[*ssa.Alloc]bool
	gstores  map[*ssa.Global][]*ssa.Store
	captured map[*ssa.Alloc]bool
}

func originVar(v *types.Var) *types.Var {
	if v == nil {
		return nil
	}
	return v.Origin()
}

// Census builds (once) and returns the index.
func (p *Prog) Census() *Census {
	if c, ok := censusCache[p]; ok {
		return c
	}
	c := &Census{p: p,
		fieldStores: map[*types.Var][]*ssa.Store{}, fieldAddrs: map[*types.Var][]*ssa.FieldAddr{},
		fieldEscapes: map[*types.Var][]ssa.Instruction{},
		root:         map[*ssa.FreeVar]*ssa.Alloc{}, storers: map[*ssa.Alloc]map[*ssa.Function]bool{},
		escaped: map[*ssa.Alloc]bool{}, gstores: map[*ssa.Global][]*ssa.Store{}, captured: map[*ssa.Alloc]bool{}}
	// 1. closure bindings: resolve every free variable to its root Alloc
	parentBinding := map[*ssa.FreeVar]ssa.Value{}
	for _, fn := range p.AllModFuncs() {
		InstrsShallow(fn, func(in ssa.Instruction) {
			mc, ok := in.(*ssa.MakeClosure)
			if !ok {
				return
			}
			cf, ok := mc.Fn.(*ssa.Function)
			if !ok {
				return
			}
			for i, b := range mc.Bindings {
				if i < len(cf.FreeVars) {
					parentBinding[cf.FreeVars[i]] = b
				}
			}
		})
	}
	var resolve func(fv *ssa.FreeVar, d int) *ssa.Alloc
	resolve = func(fv *ssa.FreeVar, d int) *ssa.Alloc {
		if d > 10 {
			return nil
		}
		switch b := parentBinding[fv].(type) {
		case *ssa.Alloc:
			return b
		case *ssa.FreeVar:
			return resolve(b, d+1)
		}
		return nil
	}
	for fv := range parentBinding {
		if a := resolve(fv, 0); a != nil {
			c.root[fv] = a
			c.captured[a] = true
		}
	}
	addStorer := func(a *ssa.Alloc, f *ssa.Function) {
		if c.storers[a] == nil {
			c.storers[a] = map[*ssa.Function]bool{}
		}
		c.storers[a][f] = true
	}
	// 2. scan all instructions
	for _, fn := range p.AllModFuncs() {
		fn := fn
		InstrsShallow(fn, func(in ssa.Instruction) {
			switch i := in.(type) {
			case *ssa.FieldAddr:
				fv := originVar(FieldVar(i.X.Type(), i.Field))
				if fv == nil {
					return
				}
				c.fieldAddrs[fv] = append(c.fieldAddrs[fv], i)
				for _, r := range Referrers(i) {
					switch rr := r.(type) {
					case *ssa.Store:
						if rr.Addr == i {
							if !rootIsFreshAlloc(i, fn) {
								c.fieldStores[fv] = append(c.fieldStores[fv], rr)
							}
						} else {
							c.fieldEscapes[fv] = append(c.fieldEscapes[fv], r)
						}
					case *ssa.UnOp, *ssa.FieldAddr, *ssa.IndexAddr:
						// load or nested address
					default:
						c.fieldEscapes[fv] = append(c.fieldEscapes[fv], r)
					}
				}
			case *ssa.Store:
				switch a := i.Addr.(type) {
				case *ssa.Alloc:
					addStorer(a, fn)
				case *ssa.FreeVar:
					if r := c.root[a]; r != nil {
						addStorer(r, fn)
					}
				case *ssa.Global:
					if fn.Name() != "init" {
						c.gstores[a] = append(c.gstores[a], i)
					}
				}
			}
		})
	}
	// 3. escapes of cells: the address used as an ordinary value
	checkEscape := func(cell ssa.Value, a *ssa.Alloc) {
		for _, r := range Referrers(cell) {
			switch rr := r.(type) {
			case *ssa.Store:
				if rr.Addr != cell {
					c.escaped[a] = true
				}
			case *ssa.UnOp:
				if rr.Op != token.MUL {
					c.escaped[a] = true
				}
			case *ssa.MakeClosure, *ssa.FieldAddr, *ssa.IndexAddr:
			default:
				// passed to a call, converted, sent ...
				if _, isCall := r.(ssa.CallInstruction); isCall {
					// method call on the cell (x.f() with pointer receiver)
					c.escaped[a] = true
				} else {
					c.escaped[a] = true
				}
			}
		}
	}
	for a := range c.captured {
		checkEscape(a, a)
	}
	for fv, a := range c.root {
		checkEscape(fv, a)
	}
	censusCache[p] = c
	return c
}

var censusCache = map[*Prog]*Census{}

func rootIsFreshAlloc(a ssa.Value, fn *ssa.Function) bool {
	for {
		switch x := a.(type) {
		case *ssa.FieldAddr:
			a = x.X
		case *ssa.IndexAddr:
			a = x.X
		case *ssa.Alloc:
			return x.Parent() == fn
		default:
			return false
		}
	}
}

// FieldImmutable: the field is only ever stored through a freshly allocated
// object in the allocating function and its address never escapes.
func (c *Census) FieldImmutable(f *types.Var) bool {
	f = originVar(f)
	return len(c.fieldStores[f]) == 0 && len(c.fieldEscapes[f]) == 0
}

// FieldStores returns the non-constructor stores to f.
func (c *Census) FieldStores(f *types.Var) []*ssa.Store { return c.fieldStores[originVar(f)] }

// FieldAddrs returns every address-of instruction of f in the module.
func (c *Census) FieldAddrs(f *types.Var) []*ssa.FieldAddr { return c.fieldAddrs[originVar(f)] }

// FieldEscapes returns the uses of &x.f other than load/store/nested address.
func (c *Census) FieldEscapes(f *types.Var) []ssa.Instruction { return c.fieldEscapes[originVar(f)] }

// Root resolves a free variable to the local it captures.
func (c *Census) Root(fv *ssa.FreeVar) *ssa.Alloc { return c.root[fv] }

// CellStoredByClosure: some function other than the owner of the local stores
// to it, or its address escapes.
func (c *Census) CellStoredByClosure(a *ssa.Alloc) bool {
	if c.escaped[a] {
		return true
	}
	for f := range c.storers[a] {
		if f != a.Parent() {
			return true
		}
	}
	return false
}

// CellStoredOutsideOwnerExcept: a function other than the owner and `self`
// stores to the captured cell.
func (c *Census) CellStoredOutsideOwnerExcept(fv *ssa.FreeVar, self *ssa.Function) bool {
	a := c.root[fv]
	if a == nil {
		return true
	}
	if c.escaped[a] {
		return true
	}
	for f := range c.storers[a] {
		if f != a.Parent() && f != self {
			return true
		}
	}
	return false
}

// CellStoredOutsideOwner: as above with no exception for the current function.
func (c *Census) CellStoredOutsideOwner(fv *ssa.FreeVar) bool {
	return c.CellStoredOutsideOwnerExcept(fv, fv.Parent())
}

// CellStorers lists the functions that store to a captured local.
func (c *Census) CellStorers(a *ssa.Alloc) []*ssa.Function {
	var out []*ssa.Function
	for f := range c.storers[a] {
		out = append(out, f)
	}
	return out
}

// GlobalStored: the package variable is assigned outside init.
func (c *Census) GlobalStored(g *ssa.Global) bool { return len(c.gstores[g]) > 0 }

// Escaped: the address of the local is used as an ordinary value somewhere
// (passed to a call, stored, converted): anything may write it.
func (c *Census) Escaped(a *ssa.Alloc) bool { return c.escaped[a] }
