package eng

import (
	"go/token"
	"go/types"
	"strings"

	"golang.org/x/tools/go/ssa"
	"golang.org/x/tools/go/ssa/ssautil"
)

// resolveSeams makes calls through test seams static again.
//
// A package-level variable of function type that the package initialiser sets
// once to a named function, that no non-test code assigns and whose address is
// never taken (`var lchown = os.Lchown`) always holds that function in the
// production program. Calls through it are rewritten, in the SSA form the
// rules read, into direct calls of the function: every engine (callee names,
// call graph, inlining of transparent helpers) then sees what really runs.
// It returns what it resolved, for the evidence.
func resolveSeams(sprog *ssa.Program, inModule func(*ssa.Function) bool, isTest func(token.Pos) bool) map[string]string {
	type use struct {
		stores  []*ssa.Store
		escapes bool
	}
	uses := map[*ssa.Global]*use{}
	get := func(g *ssa.Global) *use {
		u := uses[g]
		if u == nil {
			u = &use{}
			uses[g] = u
		}
		return u
	}
	isFuncVar := func(g *ssa.Global) bool {
		pt, ok := g.Type().Underlying().(*types.Pointer)
		if !ok {
			return false
		}
		_, isSig := pt.Elem().Underlying().(*types.Signature)
		return isSig
	}
	var fns []*ssa.Function
	for fn := range ssautil.AllFunctions(sprog) {
		if inModule(fn) && !(fn.Pos().IsValid() && isTest(fn.Pos())) {
			fns = append(fns, fn)
		}
	}
	for _, fn := range fns {
		for _, b := range fn.Blocks {
			for _, in := range b.Instrs {
				for _, op := range in.Operands(nil) {
					g, ok := (*op).(*ssa.Global)
					if !ok || !isFuncVar(g) {
						continue
					}
					switch x := in.(type) {
					case *ssa.UnOp:
						if x.Op == token.MUL {
							continue
						}
						get(g).escapes = true
					case *ssa.Store:
						if x.Addr == ssa.Value(g) {
							get(g).stores = append(get(g).stores, x)
						} else {
							get(g).escapes = true
						}
					default:
						get(g).escapes = true
					}
				}
			}
		}
	}
	target := map[*ssa.Global]*ssa.Function{}
	for g, u := range uses {
		if u.escapes || len(u.stores) != 1 {
			continue
		}
		st := u.stores[0]
		if st.Parent().Name() != "init" || st.Parent().Pkg == nil || st.Parent().Pkg != g.Pkg {
			continue
		}
		v := st.Val
		if ct, ok := v.(*ssa.ChangeType); ok {
			v = ct.X
		}
		f, ok := v.(*ssa.Function)
		if !ok || f.Signature.Recv() != nil {
			continue
		}
		target[g] = f
	}
	out := map[string]string{}
	// the interface form of the same idiom: `var fsys dirFS = osDirFS{}` with a
	// stateless (field-less) implementation; dynamic calls through the variable
	// always reach that implementation's methods
	impl := map[*ssa.Global]types.Type{}
	iuses := map[*ssa.Global]*use{}
	for _, fn := range fns {
		for _, b := range fn.Blocks {
			for _, in := range b.Instrs {
				for _, op := range in.Operands(nil) {
					g, ok := (*op).(*ssa.Global)
					if !ok {
						continue
					}
					pt, isP := g.Type().Underlying().(*types.Pointer)
					if !isP || !types.IsInterface(pt.Elem()) {
						continue
					}
					u := iuses[g]
					if u == nil {
						u = &use{}
						iuses[g] = u
					}
					switch x := in.(type) {
					case *ssa.UnOp:
						if x.Op != token.MUL {
							u.escapes = true
						}
					case *ssa.Store:
						if x.Addr == ssa.Value(g) {
							u.stores = append(u.stores, x)
						} else {
							u.escapes = true
						}
					default:
						u.escapes = true
					}
				}
			}
		}
	}
	for g, u := range iuses {
		if u.escapes || len(u.stores) != 1 {
			continue
		}
		st := u.stores[0]
		if st.Parent().Name() != "init" || st.Parent().Pkg != g.Pkg {
			continue
		}
		mi, ok := st.Val.(*ssa.MakeInterface)
		if !ok {
			continue
		}
		sty, isStruct := mi.X.Type().Underlying().(*types.Struct)
		if !isStruct || sty.NumFields() != 0 {
			continue
		}
		impl[g] = mi.X.Type()
	}
	for _, fn := range fns {
		for _, b := range fn.Blocks {
			for _, in := range b.Instrs {
				c, ok := in.(ssa.CallInstruction)
				if !ok || !c.Common().IsInvoke() {
					continue
				}
				ld, ok := c.Common().Value.(*ssa.UnOp)
				if !ok || ld.Op != token.MUL {
					continue
				}
				g, ok := ld.X.(*ssa.Global)
				if !ok || impl[g] == nil {
					continue
				}
				m := sprog.LookupMethod(impl[g], c.Common().Method.Pkg(), c.Common().Method.Name())
				if m == nil || len(m.Params) == 0 {
					continue
				}
				cc := c.Common()
				cc.Args = append([]ssa.Value{ssa.NewConst(nil, impl[g])}, cc.Args...)
				cc.Value = m
				cc.Method = nil
				out[strings.TrimPrefix(g.String(), "github.com/tonistiigi/")+"."+m.Name()] = m.String()
			}
		}
	}
	if len(target) == 0 {
		return out
	}
	for _, fn := range fns {
		for _, b := range fn.Blocks {
			for _, in := range b.Instrs {
				c, ok := in.(ssa.CallInstruction)
				if !ok || c.Common().IsInvoke() {
					continue
				}
				ld, ok := c.Common().Value.(*ssa.UnOp)
				if !ok || ld.Op != token.MUL {
					continue
				}
				g, ok := ld.X.(*ssa.Global)
				if !ok || target[g] == nil {
					continue
				}
				c.Common().Value = target[g]
				out[strings.TrimPrefix(g.String(), "github.com/tonistiigi/")] = target[g].String()
			}
		}
	}
	return out
}
