package eng

import (
	"go/token"

	"golang.org/x/tools/go/ssa"
)

// InCycle reports whether block b can reach itself (lies in a loop).
func InCycle(b *ssa.BasicBlock) bool {
	seen := map[*ssa.BasicBlock]bool{}
	work := append([]*ssa.BasicBlock(nil), b.Succs...)
	for len(work) > 0 {
		x := work[len(work)-1]
		work = work[:len(work)-1]
		if x == b {
			return true
		}
		if seen[x] {
			continue
		}
		seen[x] = true
		work = append(work, x.Succs...)
	}
	return false
}

// SelectArm returns the block executed only when arm k of sel was chosen
// (the true successor of the `index == k` test), or nil.
func SelectArm(sel *ssa.Select, k int) *ssa.BasicBlock {
	for _, r := range Referrers(sel) {
		ex, ok := r.(*ssa.Extract)
		if !ok || ex.Index != 0 {
			continue
		}
		for _, r2 := range Referrers(ex) {
			bo, ok := r2.(*ssa.BinOp)
			if !ok || bo.Op != token.EQL {
				continue
			}
			if n, ok := ConstInt(bo.Y); !ok || int(n) != k {
				continue
			}
			for _, r3 := range Referrers(bo) {
				if iff, ok := r3.(*ssa.If); ok {
					s := iff.Block().Succs[0]
					if len(s.Preds) == 1 {
						return s
					}
				}
			}
		}
	}
	return nil
}

// DefaultArm returns the block executed when a non-blocking select took its
// default (index == -1 ... i.e. no test matched): for go/ssa the last
// select.next block.
func DefaultArm(sel *ssa.Select) *ssa.BasicBlock {
	if sel.Blocking {
		return nil
	}
	// follow the false edges of the index tests
	n := len(sel.States)
	var last *ssa.BasicBlock
	for k := 0; k < n; k++ {
		for _, r := range Referrers(sel) {
			ex, ok := r.(*ssa.Extract)
			if !ok || ex.Index != 0 {
				continue
			}
			for _, r2 := range Referrers(ex) {
				bo, ok := r2.(*ssa.BinOp)
				if !ok || bo.Op != token.EQL {
					continue
				}
				if v, ok := ConstInt(bo.Y); ok && int(v) == k {
					for _, r3 := range Referrers(bo) {
						if iff, ok := r3.(*ssa.If); ok {
							last = iff.Block().Succs[1]
						}
					}
				}
			}
		}
	}
	return last
}

// ChanOfState describes the channel operand of a select state / receive /
// send: "ctx.Done", "field:T.f", "param:x", "freevar:x", "local".
func (p *Prog) ChanDesc(v ssa.Value) string {
	switch x := v.(type) {
	case *ssa.Call:
		n := p.CalleeName(x)
		if n == "(context.Context).Done" {
			return "ctx.Done"
		}
		return "call:" + n
	case *ssa.Parameter:
		return "param:" + p.ParamName(x)
	case *ssa.FreeVar:
		return "freevar:" + p.FreeVarName(x)
	case *ssa.ChangeType:
		return p.ChanDesc(x.X)
	case *ssa.UnOp:
		if x.Op == token.MUL {
			switch a := x.X.(type) {
			case *ssa.FieldAddr:
				return "field:" + FieldOwnerName(a.X.Type(), a.Field)
			case *ssa.FreeVar:
				return "freevar:" + p.FreeVarName(a)
			case *ssa.Alloc:
				return "local:" + a.Comment
			}
		}
	case *ssa.Extract:
		return "tuple"
	case *ssa.MakeChan:
		return "make"
	}
	return "dyn:" + v.Name()
}
