package eng

import (
	"go/ast"
	"go/token"
	"go/types"
	"golang.org/x/tools/go/callgraph/cha"
	"sort"
	"strings"

	"golang.org/x/tools/go/ssa"
)

// Transparent helpers.
//
// A rule anchors in functions it names ("fsutil.(*sender).queue"). A module
// function that no rule names - typically a helper a maintainer extracted from
// an anchored function - carries no obligations of its own; its body is part of
// the behaviour of its callers. Such functions are *transparent*: instruction
// scans descend into them, the explorer inlines them (bounded depth, never
// recursively), provenance slices pass through their parameters and results,
// and their lockset starts from what every caller holds. This keeps the rules
// about behaviour on all paths rather than about which function a statement
// happens to be written in.

// SetKnown registers the function names the rules refer to and recomputes the
// list of anchor-level functions.
func (p *Prog) SetKnown(known map[string]bool) {
	p.BuildAliases()
	p.known = known
	p.transparent = map[*ssa.Function]bool{}
	p.hofApplied = map[*ssa.Function]bool{}
	siteCache = map[*ssa.Function][]*ssa.Call{}
	p.pruneDead()
	p.allMod = p.ModFuncs
	// static call sites and value uses per function
	static := map[*ssa.Function]int{}
	valueUse := map[*ssa.Function]bool{}
	immediate := map[*ssa.Function]bool{}
	for _, fn := range p.allMod {
		InstrsShallow(fn, func(in ssa.Instruction) {
			var callee *ssa.Function
			if c, ok := in.(ssa.CallInstruction); ok {
				callee = c.Common().StaticCallee()
				if _, viaClosure := c.Common().Value.(*ssa.MakeClosure); viaClosure {
					if _, isCall := in.(*ssa.Call); isCall {
						callee = nil // counted at the MakeClosure
					}
				}
				if callee != nil {
					if _, isCall := in.(*ssa.Call); isCall {
						static[callee]++
					} else {
						valueUse[callee] = true // go / defer: not inlined
					}
				}
			}
			if mc, isMC := in.(*ssa.MakeClosure); isMC {
				// a function literal that is only ever applied on the spot
				// (`func() {...}()`) is a block with its own scope, not a value
				if f, ok := mc.Fn.(*ssa.Function); ok {
					refs := Referrers(mc)
					onlyCalled := len(refs) > 0
					viaHOF := false
					for _, r := range refs {
						cl, isCall := r.(*ssa.Call)
						if isCall {
							if lf, lmc := hofLiteral(cl); lf == f && lmc == mc {
								viaHOF = true
								continue
							}
							applied := false
							for _, hm := range p.helperLiterals(cl) {
								if hm == mc {
									applied = true
								}
							}
							if applied {
								viaHOF = true
								continue
							}
						}
						if !isCall || cl.Call.Value != ssa.Value(mc) {
							onlyCalled = false
						}
					}
					if onlyCalled {
						static[f] += len(refs)
						immediate[f] = true
						if viaHOF {
							p.hofApplied[f] = true
						}
					} else {
						valueUse[f] = true
					}
				}
				return
			}
			for _, op := range in.Operands(nil) {
				if *op == nil {
					continue
				}
				if f, ok := (*op).(*ssa.Function); ok && f != callee {
					valueUse[f] = true
				}
			}
		})
	}
	cand := map[*ssa.Function]bool{}
	for _, fn := range p.allMod {
		if fn.Parent() != nil && !immediate[fn] || fn.Synthetic != "" && fn.Origin() == nil || len(fn.Blocks) == 0 {
			continue
		}
		if p.IsTestFile(fn.Pos()) || fn.Name() == "init" || fn.Name() == "main" {
			continue
		}
		if pos := p.Pos(fn.Pos()); len(pos) > 6 && (containsStr(pos, ".pb.go:")) {
			continue // generated codec: analysed by the table engine, opaque elsewhere
		}
		name := p.FnName(fn)
		if o := fn.Origin(); o != nil {
			name = p.FnName(o)
		}
		if known[name] || static[fn] == 0 || valueUse[fn] {
			continue
		}
		if ast.IsExported(fn.Name()) && fn.Parent() == nil {
			// part of the API: callable from outside in contexts of its own.
			// An exported function that is NOT on the reference tree (a new entry
			// point that an existing one now forwards to: `Send` -> `SendWithOpt`)
			// is analysed where the existing API calls it; the properties speak
			// of the API they were written for.
			if _, old := refSigs[p.fnNameRaw(fn)]; old || len(refSigs) == 0 {
				continue
			}
		}
		cand[fn] = true
	}
	// drop recursive candidates
	var reaches func(from, to *ssa.Function, seen map[*ssa.Function]bool) bool
	reaches = func(from, to *ssa.Function, seen map[*ssa.Function]bool) bool {
		if seen[from] {
			return false
		}
		seen[from] = true
		found := false
		InstrsShallow(from, func(in ssa.Instruction) {
			if found {
				return
			}
			if c, ok := in.(*ssa.Call); ok {
				if f := EffCallee(c); f != nil && cand[f] {
					if f == from && from == to {
						// a function that calls itself (the retry of an
						// operation): walked through once, the inner call
						// stays a call - every walker skips a helper that is
						// already on its stack
						return
					}
					if f == to || reaches(f, to, seen) {
						found = true
					}
				}
			}
		})
		return found
	}
	for fn := range cand {
		if !reaches(fn, fn, map[*ssa.Function]bool{}) {
			p.transparent[fn] = true
		}
	}
	var anchors []*ssa.Function
	for _, fn := range p.allMod {
		if !p.transparent[fn] {
			anchors = append(anchors, fn)
		}
	}
	p.ModFuncs = anchors
	deepProg = p
	p.adopt(known, static)
}

// adopt finds the functions that stand where a function literal could stand:
// an unexported module function or method no rule names, never called
// statically, whose only use in the module is one function value (usually a
// bound method value `w.visit`) created in one function. It is treated as a
// closure of that function: listed by Closures, named encloser$k with k its
// place among the encloser's literals and adopted methods in source order, its
// receiver standing for the value the method value was bound to.
func (p *Prog) adopt(known map[string]bool, static map[*ssa.Function]int) {
	p.adopted = map[*ssa.Function]*ssa.Function{}
	p.adoptees = map[*ssa.Function][]*ssa.Function{}
	p.adoptBinding = map[*ssa.Function]ssa.Value{}
	p.adoptSite = map[*ssa.Function]ssa.Instruction{}
	p.closureOrd = map[*ssa.Function]int{}
	type use struct {
		in   ssa.Instruction
		recv ssa.Value
	}
	uses := map[*ssa.Function][]use{}
	boundTarget := func(w *ssa.Function) *ssa.Function {
		if !strings.HasPrefix(w.Synthetic, "bound method wrapper") {
			return nil
		}
		var t *ssa.Function
		InstrsShallow(w, func(in ssa.Instruction) {
			if c, ok := in.(*ssa.Call); ok && c.Call.StaticCallee() != nil {
				t = c.Call.StaticCallee()
			}
		})
		return t
	}
	for _, fn := range p.allMod {
		InstrsShallow(fn, func(in ssa.Instruction) {
			if mc, ok := in.(*ssa.MakeClosure); ok {
				if w, ok := mc.Fn.(*ssa.Function); ok {
					if t := boundTarget(w); t != nil && len(mc.Bindings) == 1 {
						uses[t] = append(uses[t], use{mc, mc.Bindings[0]})
					}
				}
				return
			}
			var callee ssa.Value
			if c, ok := in.(ssa.CallInstruction); ok {
				callee = c.Common().Value
			}
			for _, op := range in.Operands(nil) {
				if *op == nil || *op == callee {
					continue
				}
				if f, ok := (*op).(*ssa.Function); ok && f.Parent() == nil && p.InModule(f) {
					uses[f] = append(uses[f], use{in, nil})
				}
			}
		})
	}
	for f, us := range uses {
		if len(us) != 1 || static[f] != 0 || p.transparent[f] || len(f.Blocks) == 0 || p.IsTestFile(f.Pos()) {
			continue
		}
		if ast.IsExported(f.Name()) || known[p.fnNameRaw(f)] || known[p.FnName(f)] {
			continue
		}
		host := us[0].in.Parent()
		if host == nil || host == f || p.IsTestFile(host.Pos()) {
			continue
		}
		p.adopted[f] = host
		p.adoptees[host] = append(p.adoptees[host], f)
		p.adoptBinding[f] = us[0].recv
		p.adoptSite[f] = us[0].in
	}
	// ordinals: literals and adopted functions of one encloser in source order
	hosts := map[*ssa.Function]bool{}
	for h := range p.adoptees {
		hosts[h] = true
	}
	for h := range hosts {
		type kid struct {
			f   *ssa.Function
			pos token.Pos
		}
		var kids []kid
		for _, a := range h.AnonFuncs {
			kids = append(kids, kid{a, a.Pos()})
		}
		for _, a := range p.adoptees[h] {
			kids = append(kids, kid{a, p.adoptSite[a].Pos()})
		}
		sort.SliceStable(kids, func(i, j int) bool { return kids[i].pos < kids[j].pos })
		for i, k := range kids {
			p.closureOrd[k.f] = i + 1
		}
	}
	// the name table follows
	p.byName = map[string]*ssa.Function{}
	for _, fn := range p.allMod {
		n := p.FnName(fn)
		if _, dup := p.byName[n]; !dup {
			p.byName[n] = fn
		}
	}
}

// Transparent reports whether fn is a helper no rule knows by name.
func (p *Prog) Transparent(fn *ssa.Function) bool {
	return fn != nil && p.transparent[fn]
}

// TransparentNames lists the transparent helpers (for the evidence).
func (p *Prog) TransparentNames() []string {
	var out []string
	for _, fn := range p.allMod {
		if p.transparent[fn] {
			out = append(out, p.FnName(fn))
		}
	}
	return out
}

// AllModFuncs returns every module function including transparent helpers.
func (p *Prog) AllModFuncs() []*ssa.Function {
	if p.allMod != nil {
		return p.allMod
	}
	return p.ModFuncs
}

// InstrsShallow iterates over the instructions of fn only.
func InstrsShallow(fn *ssa.Function, f func(ssa.Instruction)) {
	for _, b := range fn.Blocks {
		for _, in := range b.Instrs {
			f(in)
		}
	}
}

var deepProg *Prog

// Instrs iterates over the instructions of fn and, at each static call of a
// transparent helper, over the helper's instructions as well, as if the helper
// were expanded at that call (depth-bounded; helpers are never recursive).
func Instrs(fn *ssa.Function, f func(ssa.Instruction)) {
	var rec func(g *ssa.Function, d int)
	onStack := map[*ssa.Function]bool{}
	rec = func(g *ssa.Function, d int) {
		onStack[g] = true
		defer delete(onStack, g)
		for _, b := range g.Blocks {
			for _, in := range b.Instrs {
				f(in)
				if deepProg == nil || d >= maxInlineDepth {
					continue
				}
				if c, ok := in.(*ssa.Call); ok {
					if callee := EffCallee(c); callee != nil && callee != fn && !onStack[callee] && deepProg.transparent[callee] {
						rec(callee, d+1)
					}
					for _, mc := range deepProg.helperLiterals(c) {
						if lit := mc.Fn.(*ssa.Function); deepProg.transparent[lit] {
							rec(lit, d+1)
						}
					}
				}
			}
		}
	}
	rec(fn, 0)
}

// Dominates reports whether instruction a is executed before b on every path
// from the entry of a's function to b. b may lie in a transparent helper (then
// every call of the helper must be dominated), a may lie in one (then it must
// lie on every path through the helper, and the helper call must dominate b).
func Dominates(a, b ssa.Instruction) bool {
	return dominatesDeep(a, b, 0)
}

func dominatesDeep(a, b ssa.Instruction, d int) bool {
	if a.Parent() == b.Parent() {
		return dominatesLocal(a, b)
	}
	p := deepProg
	if p == nil || d > maxInlineDepth {
		return false
	}
	if p.transparent[b.Parent()] {
		sites := p.scopedSitesOf(b.Parent())
		if len(sites) == 0 {
			return false
		}
		for _, s := range sites {
			if !dominatesDeep(a, s, d+1) {
				return false
			}
		}
		return true
	}
	if p.transparent[a.Parent()] && !p.hofApplied[a.Parent()] {
		for _, r := range returnsOf(a.Parent()) {
			if !dominatesLocal(a, r) {
				return false
			}
		}
		for _, s := range p.scopedSitesOf(a.Parent()) {
			if dominatesDeep(s, b, d+1) {
				return true
			}
		}
	}
	return false
}

// Anchors returns the non-transparent functions from which fn is reached
// through chains of static calls of transparent helpers (fn itself if it is
// not transparent).
func (p *Prog) Anchors(fn *ssa.Function) []*ssa.Function {
	if !p.transparent[fn] {
		return []*ssa.Function{fn}
	}
	out := map[*ssa.Function]bool{}
	seen := map[*ssa.Function]bool{}
	var rec func(g *ssa.Function)
	rec = func(g *ssa.Function) {
		if seen[g] {
			return
		}
		seen[g] = true
		for _, caller := range p.allMod {
			calls := false
			InstrsShallow(caller, func(in ssa.Instruction) {
				if c, ok := in.(*ssa.Call); ok && (EffCallee(c) == g || p.appliesLiteral(c, g)) {
					calls = true
				}
			})
			if !calls {
				continue
			}
			if p.transparent[caller] {
				rec(caller)
			} else {
				out[caller] = true
			}
		}
	}
	rec(fn)
	return p.SortedFuncs(out)
}

// StaticCallSites lists the static call instructions of fn in the module.
func (p *Prog) StaticCallSites(fn *ssa.Function) []*ssa.Call {
	var out []*ssa.Call
	for _, caller := range p.AllModFuncs() {
		InstrsShallow(caller, func(in ssa.Instruction) {
			if c, ok := in.(*ssa.Call); ok && (EffCallee(c) == fn || p.appliesLiteral(c, fn)) {
				out = append(out, c)
			}
		})
	}
	return out
}

func containsStr(s, sub string) bool {
	for i := 0; i+len(sub) <= len(s); i++ {
		if s[i:i+len(sub)] == sub {
			return true
		}
	}
	return false
}

// RegName is the explorer's name of register v when the exploration starts in
// an anchor function: tN for the anchor's own registers, tN_hK for those of a
// transparent helper inlined into it.
func (p *Prog) RegName(v ssa.Value) string {
	f := v.Parent()
	if f == nil || !p.transparent[f] {
		return v.Name()
	}
	id, ok := helperIDs[f]
	if !ok {
		id = len(helperIDs) + 1
		helperIDs[f] = id
	}
	return v.Name() + "_h" + itoa(id)
}

// Scope, when set, is the anchor function a rule is currently analysing: a
// parameter of a helper shared by several anchors then stands for the
// arguments at the call sites reached from that anchor only.
var Scope *ssa.Function

// inScope: call site s is reached (through helpers) from the current scope.
func (p *Prog) inScope(s *ssa.Call) bool {
	if Scope == nil {
		return true
	}
	for _, a := range p.Anchors(s.Parent()) {
		if a == Scope {
			return true
		}
	}
	return false
}

var siteCache = map[*ssa.Function][]*ssa.Call{}

func (p *Prog) sitesOf(fn *ssa.Function) []*ssa.Call {
	if s, ok := siteCache[fn]; ok {
		return s
	}
	s := p.StaticCallSites(fn)
	siteCache[fn] = s
	return s
}

// scopedSitesOf: the call sites of fn reached from the anchor under analysis
// (all of them when no scope is declared or none lies in it).
func (p *Prog) scopedSitesOf(fn *ssa.Function) []*ssa.Call {
	sites := p.sitesOf(fn)
	if Scope == nil {
		return sites
	}
	var scoped []*ssa.Call
	for _, s := range sites {
		if p.inScope(s) {
			scoped = append(scoped, s)
		}
	}
	if len(scoped) > 0 {
		return scoped
	}
	return sites
}

// returnsOf lists the return instructions of fn.
func returnsOf(fn *ssa.Function) []*ssa.Return {
	var out []*ssa.Return
	InstrsShallow(fn, func(in ssa.Instruction) {
		if r, ok := in.(*ssa.Return); ok && r.Block() != fn.Recover {
			out = append(out, r) // (the recover block only runs after a recovered panic)
		}
	})
	return out
}

// ResolveAll looks through transparent helpers: a helper parameter stands for
// the arguments at the helper's static call sites, the value of a helper call
// for the results the helper returns. A value that is neither is returned
// unchanged. (Depth-bounded; used by the provenance and identity rules.)
func ResolveAll(v ssa.Value) []ssa.Value { return ResolveAllCtx(v, nil) }

// ResolveAllCtx is ResolveAll for a value seen inside transparent helpers
// entered through the given chain of calls (outermost first): a parameter of
// the innermost helper stands for the argument of that very call.
func ResolveAllCtx(v ssa.Value, stack []*ssa.Call) []ssa.Value {
	p := deepProg
	if p == nil {
		return []ssa.Value{v}
	}
	var out []ssa.Value
	type visit struct {
		v   ssa.Value
		via *ssa.Call
	}
	seen := map[visit]bool{}
	// ctx: the helper calls whose results are being followed; a parameter of
	// such a helper stands for the argument of that very call
	var rec func(v ssa.Value, d int, ctx []*ssa.Call)
	rec = func(v ssa.Value, d int, ctx []*ssa.Call) {
		var via *ssa.Call
		if len(ctx) > 0 {
			via = ctx[len(ctx)-1]
		}
		if seen[visit{v, via}] {
			return
		}
		seen[visit{v, via}] = true
		if d > 8 {
			out = append(out, v)
			return
		}
		switch x := v.(type) {
		case *ssa.Parameter:
			fn := x.Parent()
			if b := p.adoptBinding[fn]; b != nil && len(fn.Params) > 0 && fn.Params[0] == x {
				// the receiver of a method used as a bound method value at one place
				rec(b, d+1, nil)
				return
			}
			if p.transparent[fn] && !p.hofApplied[fn] {
				idx := -1
				for i, q := range fn.Params {
					if q == x {
						idx = i
					}
				}
				if via != nil && EffCallee(via) == fn && !p.hofApplied[fn] && idx >= 0 && idx < len(via.Call.Args) {
					rec(via.Call.Args[idx], d+1, ctx[:len(ctx)-1])
					return
				}
				sites := p.sitesOf(fn)
				if Scope != nil {
					var scoped []*ssa.Call
					for _, s := range sites {
						if p.inScope(s) {
							scoped = append(scoped, s)
						}
					}
					if len(scoped) > 0 {
						sites = scoped
					}
				}
				if idx >= 0 && len(sites) > 0 {
					for _, s := range sites {
						if idx < len(s.Call.Args) {
							rec(s.Call.Args[idx], d+1, nil)
						}
					}
					return
				}
			}
		case *ssa.Call:
			if callee := x.Call.StaticCallee(); callee != nil && p.transparent[callee] && callee.Signature.Results().Len() == 1 {
				rets := returnsOf(callee)
				if len(rets) > 0 {
					for _, r := range rets {
						rec(r.Results[0], d+1, append(append([]*ssa.Call(nil), ctx...), x))
					}
					return
				}
			}
		case *ssa.Extract:
			if call, ok := x.Tuple.(*ssa.Call); ok {
				if callee := call.Call.StaticCallee(); callee != nil && p.transparent[callee] {
					rets := returnsOf(callee)
					if len(rets) > 0 {
						for _, r := range rets {
							if x.Index < len(r.Results) {
								rec(r.Results[x.Index], d+1, append(append([]*ssa.Call(nil), ctx...), call))
							}
						}
						return
					}
				}
			}
		case *ssa.UnOp:
			// a result spilled to a local around rundefers (`*t0 = v;
			// rundefers; t9 = *t0; return t9`): the value stored in this block
			if len(ctx) > 0 {
				if sv := spilledValue(x); sv != nil {
					rec(sv, d+1, ctx)
					return
				}
				// a named result assigned once (`id, ok = m[k]` ... `return id, true`)
				if st := localSingleStore(x); st != nil {
					rec(st.Val, d+1, ctx)
					return
				}
			}
			// a field of a context object that is written once, where the
			// object is built (`c := &creator{fi: fi, ...}; c.create()`):
			// the value it was built with
			if st := p.onceStoredField(x); st != nil {
				rec(st.Val, d+1, nil)
				return
			}
		}
		out = append(out, v)
	}
	rec(v, 0, stack)
	return out
}

// InstrsCtx is Instrs that also tells the callback through which chain of
// helper calls (outermost first) the instruction is reached.
func InstrsCtx(fn *ssa.Function, f func(in ssa.Instruction, stack []*ssa.Call)) {
	var rec func(g *ssa.Function, stack []*ssa.Call)
	rec = func(g *ssa.Function, stack []*ssa.Call) {
		for _, b := range g.Blocks {
			for _, in := range b.Instrs {
				f(in, stack)
				if deepProg == nil || len(stack) >= maxInlineDepth {
					continue
				}
				if c, ok := in.(*ssa.Call); ok {
					onStack := false
					for _, sc := range stack {
						if EffCallee(sc) == EffCallee(c) {
							onStack = true
						}
					}
					if callee := EffCallee(c); callee != nil && callee != fn && !onStack && deepProg.transparent[callee] {
						rec(callee, append(append([]*ssa.Call(nil), stack...), c))
					}
					for _, mc := range deepProg.helperLiterals(c) {
						if lit := mc.Fn.(*ssa.Function); deepProg.transparent[lit] {
							rec(lit, append(append([]*ssa.Call(nil), stack...), c))
						}
					}
				}
			}
		}
	}
	rec(fn, nil)
}

// Resolve is ResolveAll when the resolution is unique (ignoring zero-value
// constants returned on a helper's failure exits), otherwise v itself.
func Resolve(v ssa.Value) ssa.Value {
	all := ResolveAll(v)
	if len(all) == 1 {
		return all[0]
	}
	var nz []ssa.Value
	for _, a := range all {
		if c, ok := a.(*ssa.Const); ok && (c.Value == nil || c.IsNil() || isZeroConst(c)) {
			continue
		}
		nz = append(nz, a)
	}
	if len(nz) == 1 {
		return nz[0]
	}
	return v
}

// ResolveNZ is ResolveAll without the zero-value constants a helper returns
// on its failure exits (kept when nothing else remains).
func ResolveNZ(v ssa.Value) []ssa.Value {
	all := ResolveAll(v)
	if len(all) <= 1 {
		return all
	}
	var nz []ssa.Value
	for _, a := range all {
		if c, ok := a.(*ssa.Const); ok && (c.Value == nil || c.IsNil() || isZeroConst(c)) {
			continue
		}
		nz = append(nz, a)
	}
	if len(nz) == 0 {
		return all
	}
	return nz
}

func isZeroConst(c *ssa.Const) bool {
	if c.Value == nil {
		return true
	}
	s := c.Value.ExactString()
	return s == "0" || s == `""` || s == "false"
}

// Canon follows a value back through conversions, transparent helpers and
// single-assignment local cells (a named result or a `var x = v` local stored
// exactly once, the store dominating the load) to the value it stands for.
func Canon(v ssa.Value) ssa.Value {
	for i := 0; i < 12; i++ {
		v = Strip(v)
		ld, ok := v.(*ssa.UnOp)
		if !ok || ld.Op != token.MUL {
			return v
		}
		st := localSingleStore(ld)
		if st == nil {
			st = cellSingleStore(ld)
		}
		if st == nil {
			return v
		}
		v = st.Val
	}
	return v
}

// cellSingleStore: ld loads a local or captured variable whose address goes
// nowhere and that is assigned at exactly one place in its owner and all the
// literals capturing it - before the load in the same function, in an
// enclosing function (the value a literal finds when it runs), or in a literal
// applied on the spot (`withLock(func() { v, ok = m[k] })`) by a call that
// comes before the load. Returns that store.
func cellSingleStore(ld *ssa.UnOp) *ssa.Store {
	p := deepProg
	if p == nil || ld.Op != token.MUL {
		return nil
	}
	var root *ssa.Alloc
	switch a := ld.X.(type) {
	case *ssa.Alloc:
		root = a
	case *ssa.FreeVar:
		root = p.Census().Root(a)
	}
	if root == nil || p.Census().Escaped(root) {
		return nil
	}
	var st *ssa.Store
	n := 0
	for _, s := range p.allocStores(root) {
		if self, ok := s.Val.(*ssa.UnOp); ok && self.Op == token.MUL && p.CellID(self.X) == allocID(root) {
			continue
		}
		st = s
		n++
	}
	if n != 1 {
		return nil
	}
	switch {
	case st.Parent() == ld.Parent():
		if !dominatesLocal(st, ld) {
			return nil
		}
	case p.transparent[st.Parent()] && st.Parent().Parent() != nil:
		// assigned in an applied literal: every application comes before the load
		sites := p.sitesOf(st.Parent())
		if len(sites) == 0 {
			return nil
		}
		for _, site := range sites {
			if !Dominates(site, ld) {
				return nil
			}
		}
	default:
		// assigned in a function enclosing the one that loads it
		enc := false
		for e := p.Encloser(ld.Parent()); e != nil; e = p.Encloser(e) {
			if e == st.Parent() {
				enc = true
			}
		}
		if !enc {
			return nil
		}
	}
	return st
}

// localSingleStore: ld loads a local that does not escape and is assigned
// exactly once (a named result or a `var x = v` local), the store dominating
// the load; returns that store.
func localSingleStore(ld *ssa.UnOp) *ssa.Store {
	if ld.Op != token.MUL {
		return nil
	}
	al, ok := ld.X.(*ssa.Alloc)
	if !ok {
		return nil
	}
	var st *ssa.Store
	n := 0
	for _, r := range Referrers(al) {
		switch x := r.(type) {
		case *ssa.Store:
			if x.Addr != ssa.Value(al) {
				return nil // the address escapes
			}
			if self, ok := x.Val.(*ssa.UnOp); ok && self.Op == token.MUL && self.X == ssa.Value(al) {
				continue // `return id` of a named result: *id = *id
			}
			st = x
			n++
		case *ssa.UnOp:
		case *ssa.MakeClosure:
			// captured by a literal (go/ssa then keeps even a parameter in a
			// cell): still the one value, as long as no literal assigns it
			// and its address goes nowhere else
			if deepProg == nil || deepProg.Census().CellStoredByClosure(al) {
				return nil
			}
		default:
			return nil
		}
	}
	if n != 1 || !dominatesLocal(st, ld) {
		return nil
	}
	return st
}

// SameValue: both operands stand for the same SSA value.
func SameValue(a, b ssa.Value) bool {
	if a == nil || b == nil {
		return false
	}
	return a == b || Canon(a) == Canon(b)
}

// LiftTo maps an instruction inside a transparent helper to the call
// instructions in fn through which it is reached (in itself when it already
// lies in fn).
func LiftTo(fn *ssa.Function, in ssa.Instruction) []ssa.Instruction {
	p := deepProg
	var out []ssa.Instruction
	var rec func(i ssa.Instruction, d int)
	rec = func(i ssa.Instruction, d int) {
		if i.Parent() == fn {
			out = append(out, i)
			return
		}
		if p == nil || d > maxInlineDepth || !p.transparent[i.Parent()] {
			return
		}
		for _, s := range p.sitesOf(i.Parent()) {
			rec(s, d+1)
		}
	}
	rec(in, 0)
	return out
}

// spilledValue: ld loads a non-escaping local that was stored earlier in the
// same block (the shape go/ssa gives to results of functions with defers);
// returns the stored value.
func spilledValue(ld *ssa.UnOp) ssa.Value {
	if ld.Op != token.MUL {
		return nil
	}
	al, ok := ld.X.(*ssa.Alloc)
	if !ok || al.Heap {
		return nil
	}
	for _, r := range Referrers(al) {
		switch x := r.(type) {
		case *ssa.Store:
			if x.Addr != ssa.Value(al) {
				return nil
			}
		case *ssa.UnOp:
		default:
			return nil
		}
	}
	var last ssa.Value
	for _, in := range ld.Block().Instrs {
		if in == ssa.Instruction(ld) {
			break
		}
		if st, ok := in.(*ssa.Store); ok && st.Addr == ssa.Value(al) {
			last = st.Val
		}
	}
	return last
}

// onceStoredField: ld loads a field of an unexported struct type of the
// module; the field is stored at exactly one place in the whole module, its
// address is never taken otherwise, and that one store writes the very cell
// that is loaded (same object by CellID). Returns the store.
func (p *Prog) onceStoredField(ld *ssa.UnOp) *ssa.Store {
	if ld.Op != token.MUL {
		return nil
	}
	fa, ok := ld.X.(*ssa.FieldAddr)
	if !ok {
		return nil
	}
	if st, done := p.onceField[fa]; done {
		return st
	}
	if p.onceField == nil {
		p.onceField = map[*ssa.FieldAddr]*ssa.Store{}
	}
	p.onceField[fa] = nil
	fv := FieldVar(fa.X.Type(), fa.Field)
	if fv == nil || fv.Pkg() == nil || !p.inModulePkg(fv.Pkg().Path()) {
		return nil
	}
	owner := FieldOwnerName(fa.X.Type(), fa.Field)
	if i := strings.LastIndex(owner, "."); i > 0 {
		tn := owner[:i]
		if j := strings.LastIndex(tn, "."); j >= 0 {
			tn = tn[j+1:]
		}
		if tn == "" || (tn[0] >= 'A' && tn[0] <= 'Z') {
			return nil // exported types are built by callers too
		}
	}
	cs := p.Census()
	if len(cs.FieldEscapes(fv)) > 0 {
		return nil
	}
	var stores []*ssa.Store
	for _, a := range cs.FieldAddrs(fv) {
		for _, r := range Referrers(a) {
			if s, ok := r.(*ssa.Store); ok && s.Addr == ssa.Value(a) {
				stores = append(stores, s)
			}
		}
	}
	if len(stores) != 1 || !rootIsFreshAlloc(stores[0].Addr, stores[0].Parent()) {
		return nil // not a field set once where the object is built
	}
	id := p.CellID(fa)
	if id == "" || id != p.CellID(stores[0].Addr) {
		return nil
	}
	p.onceField[fa] = stores[0]
	return stores[0]
}

func (p *Prog) inModulePkg(path string) bool {
	return path == ModulePath || strings.HasPrefix(path, ModulePath+"/")
}

// ClosureFn is the function a MakeClosure makes a value of: the literal, or
// the method itself when mc is the bound method value of an adopted method.
func (p *Prog) ClosureFn(mc *ssa.MakeClosure) *ssa.Function {
	f, _ := mc.Fn.(*ssa.Function)
	if f == nil {
		return nil
	}
	if strings.HasPrefix(f.Synthetic, "bound method wrapper") {
		for t, site := range p.adoptSite {
			if site == ssa.Instruction(mc) {
				return t
			}
		}
	}
	return f
}

// Predicate higher-order functions of the standard library whose function
// argument, when it is a function literal written at the call, is applied on
// the spot to the elements of the first argument: the literal is a block of
// the caller (like `func() {...}()`), run zero or more times.
var predicateHOFs = map[string]int{ // callee (type arguments stripped) -> index of the function argument
	"slices.ContainsFunc": 1,
	"slices.IndexFunc":    1,
}

// hofLiteral: c applies a function literal through a predicate HOF; returns
// the literal and its MakeClosure.
func hofLiteral(c *ssa.Call) (*ssa.Function, *ssa.MakeClosure) {
	callee := c.Call.StaticCallee()
	if callee == nil {
		return nil, nil
	}
	name := callee.String()
	if o := callee.Origin(); o != nil {
		name = o.String()
	}
	idx, ok := predicateHOFs[name]
	if !ok || idx >= len(c.Call.Args) {
		return nil, nil
	}
	mc, isMC := c.Call.Args[idx].(*ssa.MakeClosure)
	if !isMC {
		return nil, nil
	}
	f, _ := mc.Fn.(*ssa.Function)
	if f == nil || f.Parent() == nil {
		return nil, nil
	}
	return f, mc
}

// EffCallee is the function whose body runs at call c as far as the checker
// is concerned: the static callee, or the literal a predicate HOF applies.
func EffCallee(c *ssa.Call) *ssa.Function {
	if f, _ := hofLiteral(c); f != nil {
		return f
	}
	return c.Call.StaticCallee()
}

// AppliedByHOF reports whether fn is a literal applied through a predicate HOF.
func (p *Prog) AppliedByHOF(fn *ssa.Function) bool { return p.hofApplied[fn] }

// callOnlyParam: q is a function-typed parameter that its function does
// nothing with but call it (directly, or from a cell go/ssa keeps it in).
func callOnlyParam(q *ssa.Parameter) bool {
	if _, isSig := q.Type().Underlying().(*types.Signature); !isSig {
		return false
	}
	okUse := func(v ssa.Value) bool {
		for _, r := range Referrers(v) {
			c, isCall := r.(*ssa.Call)
			if !isCall || c.Call.Value != v {
				return false
			}
			for _, a := range c.Call.Args {
				if a == v {
					return false
				}
			}
		}
		return true
	}
	for _, r := range Referrers(q) {
		switch x := r.(type) {
		case *ssa.Call:
			if x.Call.Value != ssa.Value(q) {
				return false
			}
			for _, a := range x.Call.Args {
				if a == ssa.Value(q) {
					return false
				}
			}
		case *ssa.Store:
			// spilled to a local cell: every load of the cell is only called
			al, isAl := x.Addr.(*ssa.Alloc)
			if !isAl || x.Val != ssa.Value(q) {
				return false
			}
			for _, r2 := range Referrers(al) {
				switch y := r2.(type) {
				case *ssa.Store:
					if y != x {
						return false
					}
				case *ssa.UnOp:
					if !okUse(y) {
						return false
					}
				default:
					return false
				}
			}
		default:
			return false
		}
	}
	return true
}

// helperLiterals: the function literals written at call c as arguments for
// call-only function parameters of a module function (`retry(func() error
// {...})`, `withLock(func() {...})`): the callee applies them, zero or more
// times, while it runs.
func (p *Prog) helperLiterals(c *ssa.Call) []*ssa.MakeClosure {
	callee := c.Call.StaticCallee()
	if callee == nil || c.Call.IsInvoke() || !p.InModule(callee) || len(callee.Blocks) == 0 {
		return nil
	}
	var out []*ssa.MakeClosure
	off := 0
	if callee.Signature.Recv() != nil {
		off = 0 // receiver is Params[0] and Args[0] alike
	}
	for i, a := range c.Call.Args {
		mc, isMC := a.(*ssa.MakeClosure)
		if !isMC || i+off >= len(callee.Params) {
			continue
		}
		if f, ok := mc.Fn.(*ssa.Function); !ok || f.Parent() == nil {
			continue
		}
		if callOnlyParam(callee.Params[i+off]) {
			out = append(out, mc)
		}
	}
	return out
}

// AppliedLiterals lists every literal applied at call c: through a predicate
// HOF of the standard library or through a call-only parameter of a module helper.
func (p *Prog) AppliedLiterals(c *ssa.Call) []*ssa.Function {
	var out []*ssa.Function
	if f, _ := hofLiteral(c); f != nil {
		out = append(out, f)
	}
	for _, mc := range p.helperLiterals(c) {
		out = append(out, mc.Fn.(*ssa.Function))
	}
	return out
}

func (p *Prog) appliesLiteral(c *ssa.Call, lit *ssa.Function) bool {
	if lit.Parent() == nil {
		return false
	}
	for _, mc := range p.helperLiterals(c) {
		if mc.Fn == ssa.Value(lit) {
			return true
		}
	}
	return false
}

// pruneDead takes unexported top-level functions and methods that nothing
// can call out of the analysed program: no static call, no use as a value, no
// dynamic call that class-hierarchy analysis could dispatch to them (debug
// formatters kept for a rainy day, helpers left behind by a refactoring). What
// cannot run cannot break a property; analysing it would attribute accesses to
// "a new function" nobody executes. The names are listed in the evidence.
func (p *Prog) pruneDead() {
	if p.deadDone {
		return
	}
	p.deadDone = true
	used := map[*ssa.Function]bool{}
	for fn := range p.allFuncs {
		if !p.InModule(fn) {
			continue
		}
		InstrsShallow(fn, func(in ssa.Instruction) {
			for _, op := range in.Operands(nil) {
				if *op == nil {
					continue
				}
				if f, ok := (*op).(*ssa.Function); ok && f != fn {
					used[f] = true
					if o := f.Origin(); o != nil {
						used[o] = true
					}
				}
			}
		})
	}
	cg := cha.CallGraph(p.SSA)
	var keep []*ssa.Function
	for _, fn := range p.ModFuncs {
		dead := fn.Parent() == nil && !ast.IsExported(fn.Name()) && fn.Name() != "init" && fn.Name() != "main" &&
			fn.Synthetic == "" && !used[fn] && !p.IsTestFile(fn.Pos()) && !containsStr(p.Pos(fn.Pos()), ".pb.go:")
		if dead {
			if n := cg.Nodes[fn]; n != nil && len(n.In) > 0 {
				dead = false
			}
		}
		if dead && fn.Signature.Recv() != nil {
			// a method that satisfies an interface method by name may be reached by reflection-free dynamic dispatch CHA did not see (embedded in an exported type): keep methods with exported names
			dead = !ast.IsExported(fn.Name())
		}
		if dead {
			p.Dead = append(p.Dead, p.fnNameRaw(fn))
			continue
		}
		keep = append(keep, fn)
	}
	// literals of dead functions go with them
	isDead := map[string]bool{}
	for _, d := range p.Dead {
		isDead[d] = true
	}
	if len(p.Dead) > 0 {
		var keep2 []*ssa.Function
		for _, fn := range keep {
			root := fn
			for root.Parent() != nil {
				root = root.Parent()
			}
			if root != fn && isDead[p.fnNameRaw(root)] {
				continue
			}
			keep2 = append(keep2, fn)
		}
		keep = keep2
	}
	p.ModFuncs = keep
}

// EffCallee2 is EffCallee for any call instruction (nil for go/defer of dynamic values).
func EffCallee2(c ssa.CallInstruction) *ssa.Function {
	if cl, ok := c.(*ssa.Call); ok {
		return EffCallee(cl)
	}
	return c.Common().StaticCallee()
}
