package eng

import (
	"golang.org/x/tools/go/ssa"
)

// Transparent helpers.
//
// A rule anchors in functions it names ("fsutil.(*sender).queue"). A module
// function that no rule names - typically a helper a maintainer extracted from
// an anchored function - carries no obligations of its own; its body is part of
// the behaviour of its callers. Such functions are *transparent*: instruction
// scans descend into them, the explorer inlines them (bounded depth, never
// recursively), provenance slices pass through their parameters and results,
// and their lockset starts from what every caller holds. This keeps the rules
// about behaviour on all paths rather than about which function a statement
// happens to be written in.

// SetKnown registers the function names the rules refer to and recomputes the
// list of anchor-level functions.
func (p *Prog) SetKnown(known map[string]bool) {
	p.known = known
	p.transparent = map[*ssa.Function]bool{}
	p.allMod = p.ModFuncs
	// static call sites and value uses per function
	static := map[*ssa.Function]int{}
	valueUse := map[*ssa.Function]bool{}
	for _, fn := range p.allMod {
		InstrsShallow(fn, func(in ssa.Instruction) {
			var callee *ssa.Function
			if c, ok := in.(ssa.CallInstruction); ok {
				callee = c.Common().StaticCallee()
				if callee != nil {
					if _, isCall := in.(*ssa.Call); isCall {
						static[callee]++
					} else {
						valueUse[callee] = true // go / defer: not inlined
					}
				}
			}
			for _, op := range in.Operands(nil) {
				if *op == nil {
					continue
				}
				if f, ok := (*op).(*ssa.Function); ok && f != callee {
					valueUse[f] = true
				}
			}
		})
	}
	cand := map[*ssa.Function]bool{}
	for _, fn := range p.allMod {
		if fn.Parent() != nil || fn.Synthetic != "" && fn.Origin() == nil || len(fn.Blocks) == 0 {
			continue
		}
		if p.IsTestFile(fn.Pos()) || fn.Name() == "init" || fn.Name() == "main" {
			continue
		}
		if pos := p.Pos(fn.Pos()); len(pos) > 6 && (containsStr(pos, ".pb.go:")) {
			continue // generated codec: analysed by the table engine, opaque elsewhere
		}
		name := p.FnName(fn)
		if o := fn.Origin(); o != nil {
			name = p.FnName(o)
		}
		if known[name] || static[fn] == 0 || valueUse[fn] {
			continue
		}
		cand[fn] = true
	}
	// drop recursive candidates
	var reaches func(from, to *ssa.Function, seen map[*ssa.Function]bool) bool
	reaches = func(from, to *ssa.Function, seen map[*ssa.Function]bool) bool {
		if seen[from] {
			return false
		}
		seen[from] = true
		found := false
		InstrsShallow(from, func(in ssa.Instruction) {
			if found {
				return
			}
			if c, ok := in.(*ssa.Call); ok {
				if f := c.Call.StaticCallee(); f != nil && cand[f] {
					if f == to || reaches(f, to, seen) {
						found = true
					}
				}
			}
		})
		return found
	}
	for fn := range cand {
		if !reaches(fn, fn, map[*ssa.Function]bool{}) {
			p.transparent[fn] = true
		}
	}
	var anchors []*ssa.Function
	for _, fn := range p.allMod {
		if !p.transparent[fn] {
			anchors = append(anchors, fn)
		}
	}
	p.ModFuncs = anchors
	deepProg = p
}

// Transparent reports whether fn is a helper no rule knows by name.
func (p *Prog) Transparent(fn *ssa.Function) bool {
	return fn != nil && p.transparent[fn]
}

// TransparentNames lists the transparent helpers (for the evidence).
func (p *Prog) TransparentNames() []string {
	var out []string
	for _, fn := range p.allMod {
		if p.transparent[fn] {
			out = append(out, p.FnName(fn))
		}
	}
	return out
}

// AllModFuncs returns every module function including transparent helpers.
func (p *Prog) AllModFuncs() []*ssa.Function {
	if p.allMod != nil {
		return p.allMod
	}
	return p.ModFuncs
}

// InstrsShallow iterates over the instructions of fn only.
func InstrsShallow(fn *ssa.Function, f func(ssa.Instruction)) {
	for _, b := range fn.Blocks {
		for _, in := range b.Instrs {
			f(in)
		}
	}
}

var deepProg *Prog

// Instrs iterates over the instructions of fn and, at each static call of a
// transparent helper, over the helper's instructions as well (depth-bounded,
// each helper once per scan).
func Instrs(fn *ssa.Function, f func(ssa.Instruction)) {
	seen := map[*ssa.Function]bool{fn: true}
	var rec func(g *ssa.Function, d int)
	rec = func(g *ssa.Function, d int) {
		for _, b := range g.Blocks {
			for _, in := range b.Instrs {
				f(in)
				if deepProg == nil || d >= maxInlineDepth {
					continue
				}
				if c, ok := in.(*ssa.Call); ok {
					if callee := c.Call.StaticCallee(); callee != nil && deepProg.transparent[callee] && !seen[callee] {
						seen[callee] = true
						rec(callee, d+1)
					}
				}
			}
		}
	}
	rec(fn, 0)
}

// Anchors returns the non-transparent functions from which fn is reached
// through chains of static calls of transparent helpers (fn itself if it is
// not transparent).
func (p *Prog) Anchors(fn *ssa.Function) []*ssa.Function {
	if !p.transparent[fn] {
		return []*ssa.Function{fn}
	}
	out := map[*ssa.Function]bool{}
	seen := map[*ssa.Function]bool{}
	var rec func(g *ssa.Function)
	rec = func(g *ssa.Function) {
		if seen[g] {
			return
		}
		seen[g] = true
		for _, caller := range p.allMod {
			calls := false
			InstrsShallow(caller, func(in ssa.Instruction) {
				if c, ok := in.(*ssa.Call); ok && c.Call.StaticCallee() == g {
					calls = true
				}
			})
			if !calls {
				continue
			}
			if p.transparent[caller] {
				rec(caller)
			} else {
				out[caller] = true
			}
		}
	}
	rec(fn)
	return p.SortedFuncs(out)
}

// StaticCallSites lists the static call instructions of fn in the module.
func (p *Prog) StaticCallSites(fn *ssa.Function) []*ssa.Call {
	var out []*ssa.Call
	for _, caller := range p.AllModFuncs() {
		InstrsShallow(caller, func(in ssa.Instruction) {
			if c, ok := in.(*ssa.Call); ok && c.Call.StaticCallee() == fn {
				out = append(out, c)
			}
		})
	}
	return out
}

func containsStr(s, sub string) bool {
	for i := 0; i+len(sub) <= len(s); i++ {
		if s[i:i+len(sub)] == sub {
			return true
		}
	}
	return false
}
