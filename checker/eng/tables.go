package eng

import (
	"fmt"
	"go/ast"
	"go/token"
	"go/types"
	"reflect"
	"sort"
	"strconv"
	"strings"
)

// Engine E13: codec table extraction. Each generated codec function is read
// as a table field -> (number, wire type); the tables of one message must
// agree with each other, with the struct tags and with the embedded file
// descriptor.

// FieldWire is one row of a codec table.
type FieldWire struct {
	Name   string // Go field name
	Number int
	Wire   int // protobuf wire type 0,1,2,5
	Pos    token.Pos
	Proto  string // proto field name (struct tags only)
}

func kindToWire(kind string) int {
	switch kind {
	case "varint", "zigzag32", "zigzag64":
		return 0
	case "fixed64":
		return 1
	case "bytes":
		return 2
	case "fixed32":
		return 5
	}
	return -1
}

// TagTable reads the `protobuf:"kind,number,..."` struct tags of a message.
func (p *Prog) TagTable(short, typ string) (map[string]FieldWire, error) {
	pk := p.Pkg(short)
	if pk == nil {
		return nil, fmt.Errorf("package %s not loaded", short)
	}
	obj := pk.Types.Scope().Lookup(typ)
	if obj == nil {
		return nil, fmt.Errorf("type %s.%s not found", short, typ)
	}
	st, ok := obj.Type().Underlying().(*types.Struct)
	if !ok {
		return nil, fmt.Errorf("%s.%s is not a struct", short, typ)
	}
	out := map[string]FieldWire{}
	for i := 0; i < st.NumFields(); i++ {
		f := st.Field(i)
		if !f.Exported() {
			continue
		}
		tag := reflect.StructTag(st.Tag(i)).Get("protobuf")
		if tag == "" {
			return nil, fmt.Errorf("exported field %s.%s has no protobuf tag", typ, f.Name())
		}
		parts := strings.Split(tag, ",")
		if len(parts) < 2 {
			return nil, fmt.Errorf("malformed protobuf tag on %s.%s", typ, f.Name())
		}
		n, err := strconv.Atoi(parts[1])
		if err != nil {
			return nil, fmt.Errorf("malformed field number on %s.%s", typ, f.Name())
		}
		proto := ""
		for _, pt := range parts {
			if strings.HasPrefix(pt, "name=") {
				proto = strings.TrimPrefix(pt, "name=")
			}
		}
		out[f.Name()] = FieldWire{Name: f.Name(), Number: n, Wire: kindToWire(parts[0]), Pos: f.Pos(), Proto: proto}
	}
	return out, nil
}

// funcDecl finds method `recvType.name` in file rel.
func (p *Prog) FuncDecl(rel, recvType, name string) *ast.FuncDecl {
	f, _ := p.File(rel)
	if f == nil {
		return nil
	}
	for _, d := range f.Decls {
		fd, ok := d.(*ast.FuncDecl)
		if !ok || fd.Name.Name != name || fd.Recv == nil || len(fd.Recv.List) == 0 {
			continue
		}
		t := fd.Recv.List[0].Type
		if s, ok := t.(*ast.StarExpr); ok {
			t = s.X
		}
		if id, ok := t.(*ast.Ident); ok && id.Name == recvType {
			return fd
		}
	}
	return nil
}

func recvName(fd *ast.FuncDecl) string {
	if fd.Recv != nil && len(fd.Recv.List) > 0 && len(fd.Recv.List[0].Names) > 0 {
		return fd.Recv.List[0].Names[0].Name
	}
	return ""
}

// exportedSelectorsOn lists the exported fields selected on identifier recv
// inside n, in source order.
func exportedSelectorsOn(n ast.Node, recv string) []*ast.SelectorExpr {
	var out []*ast.SelectorExpr
	ast.Inspect(n, func(x ast.Node) bool {
		se, ok := x.(*ast.SelectorExpr)
		if !ok {
			return true
		}
		if id, ok := se.X.(*ast.Ident); ok && id.Name == recv && ast.IsExported(se.Sel.Name) {
			out = append(out, se)
		}
		return true
	})
	return out
}

func intLit(e ast.Expr) (int, bool) {
	bl, ok := e.(*ast.BasicLit)
	if !ok || bl.Kind != token.INT {
		return 0, false
	}
	v, err := strconv.ParseInt(bl.Value, 0, 64)
	if err != nil {
		return 0, false
	}
	return int(v), true
}

// MarshalTable reads a vtprotobuf MarshalToSizedBuffer* method: every
// top-level `if` statement handles one field and ends by writing that field's
// tag byte `dAtA[i] = 0x..` (nested map-entry tags come first).
func (p *Prog) MarshalTable(rel, typ, method string) (map[string]FieldWire, error) {
	fd := p.FuncDecl(rel, typ, method)
	if fd == nil {
		return nil, fmt.Errorf("%s.%s not found in %s", typ, method, rel)
	}
	recv := recvName(fd)
	out := map[string]FieldWire{}
	for _, st := range fd.Body.List {
		ifs, ok := st.(*ast.IfStmt)
		if !ok {
			continue
		}
		sels := exportedSelectorsOn(ifs, recv)
		if len(sels) == 0 {
			continue // m == nil, unknownFields
		}
		name := sels[0].Sel.Name
		for _, s := range sels {
			if s.Sel.Name != name {
				return nil, fmt.Errorf("%s.%s: one if statement mentions two fields (%s, %s)", typ, method, name, s.Sel.Name)
			}
		}
		last, pos := -1, token.NoPos
		ast.Inspect(ifs.Body, func(x ast.Node) bool {
			as, ok := x.(*ast.AssignStmt)
			if !ok || len(as.Lhs) != 1 || len(as.Rhs) != 1 || as.Tok != token.ASSIGN {
				return true
			}
			ix, ok := as.Lhs[0].(*ast.IndexExpr)
			if !ok {
				return true
			}
			if id, ok := ix.X.(*ast.Ident); !ok || id.Name != "dAtA" {
				return true
			}
			if v, ok := intLit(as.Rhs[0]); ok {
				last, pos = v, as.Pos()
			}
			return true
		})
		if last < 0 {
			return nil, fmt.Errorf("%s.%s: no tag byte written for field %s", typ, method, name)
		}
		if _, dup := out[name]; dup {
			return nil, fmt.Errorf("%s.%s: field %s handled twice", typ, method, name)
		}
		out[name] = FieldWire{Name: name, Number: last >> 3, Wire: last & 7, Pos: pos}
	}
	return out, nil
}

// UnmarshalTable reads a vtprotobuf Unmarshal* method: `switch fieldNum`
// with one case per field, a `wireType != W` test and assignments to m.<Field>.
func (p *Prog) UnmarshalTable(rel, typ, method string) (map[string]FieldWire, error) {
	fd := p.FuncDecl(rel, typ, method)
	if fd == nil {
		return nil, fmt.Errorf("%s.%s not found in %s", typ, method, rel)
	}
	recv := recvName(fd)
	out := map[string]FieldWire{}
	var sw *ast.SwitchStmt
	ast.Inspect(fd.Body, func(x ast.Node) bool {
		s, ok := x.(*ast.SwitchStmt)
		if ok && sw == nil {
			if id, ok := s.Tag.(*ast.Ident); ok && id.Name == "fieldNum" {
				sw = s
				return false
			}
		}
		return true
	})
	if sw == nil {
		return nil, fmt.Errorf("%s.%s: no switch on fieldNum", typ, method)
	}
	for _, cc := range sw.Body.List {
		cl := cc.(*ast.CaseClause)
		if cl.List == nil {
			continue // default
		}
		if len(cl.List) != 1 {
			return nil, fmt.Errorf("%s.%s: case with several values", typ, method)
		}
		num, ok := intLit(cl.List[0])
		if !ok {
			return nil, fmt.Errorf("%s.%s: non-literal case", typ, method)
		}
		wire := -1
		for _, st := range cl.Body {
			ifs, ok := st.(*ast.IfStmt)
			if !ok {
				continue
			}
			if be, ok := ifs.Cond.(*ast.BinaryExpr); ok && be.Op == token.NEQ {
				if id, ok := be.X.(*ast.Ident); ok && id.Name == "wireType" {
					if w, ok := intLit(be.Y); ok {
						wire = w
						break
					}
				}
			}
		}
		if wire < 0 {
			return nil, fmt.Errorf("%s.%s: case %d has no wireType test", typ, method, num)
		}
		name := ""
		for _, st := range cl.Body {
			for _, s := range exportedSelectorsOn(st, recv) {
				if name == "" {
					name = s.Sel.Name
				} else if name != s.Sel.Name {
					return nil, fmt.Errorf("%s.%s: case %d touches two fields (%s, %s)", typ, method, num, name, s.Sel.Name)
				}
			}
		}
		if name == "" {
			return nil, fmt.Errorf("%s.%s: case %d assigns no field", typ, method, num)
		}
		if _, dup := out[name]; dup {
			return nil, fmt.Errorf("%s.%s: field %s decoded by two cases", typ, method, name)
		}
		out[name] = FieldWire{Name: name, Number: num, Wire: wire, Pos: cl.Pos()}
	}
	return out, nil
}

// Mentions lists the exported fields selected on the receiver (or on any
// identifier in `on`) inside a method.
func (p *Prog) Mentions(rel, typ, method string, on ...string) (map[string]bool, error) {
	fd := p.FuncDecl(rel, typ, method)
	if fd == nil {
		return nil, fmt.Errorf("%s.%s not found in %s", typ, method, rel)
	}
	ids := append([]string{recvName(fd)}, on...)
	out := map[string]bool{}
	for _, id := range ids {
		for _, s := range exportedSelectorsOn(fd.Body, id) {
			out[s.Sel.Name] = true
		}
	}
	return out, nil
}

// ---------------------------------------------------------------------------
// file descriptor decoding (protobuf wire format, ~60 lines)

type pbField struct {
	num  int
	wire int
	v    uint64
	b    []byte
}

func pbDecode(b []byte) ([]pbField, error) {
	var out []pbField
	for i := 0; i < len(b); {
		tag, n := pbVarint(b[i:])
		if n <= 0 {
			return nil, fmt.Errorf("bad varint")
		}
		i += n
		f := pbField{num: int(tag >> 3), wire: int(tag & 7)}
		switch f.wire {
		case 0:
			v, n := pbVarint(b[i:])
			if n <= 0 {
				return nil, fmt.Errorf("bad varint")
			}
			f.v = v
			i += n
		case 1:
			i += 8
		case 5:
			i += 4
		case 2:
			l, n := pbVarint(b[i:])
			if n <= 0 || i+n+int(l) > len(b) {
				return nil, fmt.Errorf("bad length")
			}
			i += n
			f.b = b[i : i+int(l)]
			i += int(l)
		default:
			return nil, fmt.Errorf("unsupported wire type %d", f.wire)
		}
		if i > len(b) {
			return nil, fmt.Errorf("truncated")
		}
		out = append(out, f)
	}
	return out, nil
}

func pbVarint(b []byte) (uint64, int) {
	var v uint64
	for i := 0; i < len(b) && i < 10; i++ {
		v |= uint64(b[i]&0x7f) << (7 * uint(i))
		if b[i] < 0x80 {
			return v, i + 1
		}
	}
	return 0, 0
}

// protoTypeWire maps FieldDescriptorProto.Type to a wire type.
func protoTypeWire(t uint64) int {
	switch t {
	case 1, 6, 16: // double, fixed64, sfixed64
		return 1
	case 2, 7, 15: // float, fixed32, sfixed32
		return 5
	case 9, 11, 12: // string, message, bytes
		return 2
	case 10:
		return 3
	default: // int32/64, uint32/64, bool, enum, sint*
		return 0
	}
}

// DescField is a field of a message in the embedded descriptor.
type DescField struct {
	JSONName string
	Name     string
	Number   int
	Wire     int
	Repeated bool
}

// DescriptorTable decodes the rawDesc byte literal of a generated .pb.go file
// and returns message -> fields (nested messages as Outer.Inner).
func (p *Prog) DescriptorTable(rel string) (map[string][]DescField, error) {
	f, _ := p.File(rel)
	if f == nil {
		return nil, fmt.Errorf("%s not loaded", rel)
	}
	var raw []byte
	found := false
	for _, d := range f.Decls {
		gd, ok := d.(*ast.GenDecl)
		if !ok || gd.Tok != token.VAR {
			continue
		}
		for _, sp := range gd.Specs {
			vs := sp.(*ast.ValueSpec)
			for i, n := range vs.Names {
				if !strings.HasSuffix(n.Name, "_rawDesc") || i >= len(vs.Values) {
					continue
				}
				cl, ok := vs.Values[i].(*ast.CompositeLit)
				if !ok {
					continue
				}
				found = true
				for _, e := range cl.Elts {
					v, ok := intLit(e)
					if !ok {
						return nil, fmt.Errorf("%s: non-literal byte in rawDesc", rel)
					}
					raw = append(raw, byte(v))
				}
			}
		}
	}
	if !found {
		return nil, fmt.Errorf("%s: no *_rawDesc byte literal", rel)
	}
	top, err := pbDecode(raw)
	if err != nil {
		return nil, fmt.Errorf("%s: rawDesc: %v", rel, err)
	}
	out := map[string][]DescField{}
	var msg func(prefix string, b []byte) error
	msg = func(prefix string, b []byte) error {
		fs, err := pbDecode(b)
		if err != nil {
			return err
		}
		name := ""
		for _, f := range fs {
			if f.num == 1 && f.wire == 2 {
				name = string(f.b)
			}
		}
		full := prefix + name
		for _, f := range fs {
			switch {
			case f.num == 2 && f.wire == 2: // field
				ff, err := pbDecode(f.b)
				if err != nil {
					return err
				}
				df := DescField{}
				var typ uint64
				for _, x := range ff {
					switch x.num {
					case 1:
						df.Name = string(x.b)
					case 3:
						df.Number = int(x.v)
					case 4:
						df.Repeated = x.v == 3
					case 5:
						typ = x.v
					case 10:
						df.JSONName = string(x.b)
					}
				}
				df.Wire = protoTypeWire(typ)
				out[full] = append(out[full], df)
			case f.num == 3 && f.wire == 2: // nested type
				if err := msg(full+".", f.b); err != nil {
					return err
				}
			}
		}
		return nil
	}
	for _, f := range top {
		if f.num == 4 && f.wire == 2 {
			if err := msg("", f.b); err != nil {
				return nil, fmt.Errorf("%s: rawDesc: %v", rel, err)
			}
		}
	}
	for k := range out {
		sort.Slice(out[k], func(i, j int) bool { return out[k][i].Number < out[k][j].Number })
	}
	return out, nil
}

// TagBytesOf lists, in source order, every tag byte written inside the
// if-statement of `field` in a marshal method.
func (p *Prog) TagBytesOf(rel, typ, method, field string) []int {
	fd := p.FuncDecl(rel, typ, method)
	if fd == nil {
		return nil
	}
	recv := recvName(fd)
	var out []int
	for _, st := range fd.Body.List {
		ifs, ok := st.(*ast.IfStmt)
		if !ok {
			continue
		}
		sels := exportedSelectorsOn(ifs, recv)
		if len(sels) == 0 || sels[0].Sel.Name != field {
			continue
		}
		ast.Inspect(ifs.Body, func(x ast.Node) bool {
			as, ok := x.(*ast.AssignStmt)
			if !ok || len(as.Lhs) != 1 || len(as.Rhs) != 1 {
				return true
			}
			if ix, ok := as.Lhs[0].(*ast.IndexExpr); ok {
				if id, ok := ix.X.(*ast.Ident); ok && id.Name == "dAtA" {
					if v, ok := intLit(as.Rhs[0]); ok {
						out = append(out, v)
					}
				}
			}
			return true
		})
	}
	return out
}
