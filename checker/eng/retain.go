package eng

import (
	"fmt"
	"go/token"
	"go/types"
	"strings"

	"golang.org/x/tools/go/ssa"
)

// Leak is one place where a tracked byte slice may be retained (engine E10).
type Leak struct {
	At   ssa.Instruction
	Why  string
	Path []string // call chain
}

// Retain analyses whether a slice value may outlive the call it is handed to.
type Retain struct {
	P      *Prog
	UseCHA bool
	memo   map[string]*[]Leak
	// Sinks records the external functions that received the slice and were
	// trusted, for the evidence.
	Sinks map[string]bool
	// Visited module functions
	Funcs map[string]bool
}

func NewRetain(p *Prog) *Retain {
	return &Retain{P: p, memo: map[string]*[]Leak{}, Sinks: map[string]bool{}, Funcs: map[string]bool{}}
}

// trustedSink: external callees allowed to receive the slice.
func trustedSink(name string) (bool, string) {
	switch {
	case strings.HasSuffix(name, ").Write") && !strings.Contains(name, "fsutil"):
		return true, "io.Writer contract: Write must not retain p"
	case strings.HasPrefix(name, "fmt.") || name == "github.com/pkg/errors.Errorf" || name == "github.com/pkg/errors.Wrapf" || name == "github.com/pkg/errors.Wrap":
		return true, "formatting copies its operands into a new string"
	case name == "bytes.Equal" || name == "bytes.Compare" || strings.HasPrefix(name, "encoding/binary.") || strings.HasPrefix(name, "(encoding/binary."):
		return true, "reads or fills the slice without keeping it"
	case strings.HasPrefix(name, "io.ReadFull") || name == "io.ReadAtLeast":
		return true, "fills the slice"
	case strings.HasPrefix(name, "google.golang.org/protobuf/encoding/protowire.") || strings.HasPrefix(name, "github.com/planetscale/vtprotobuf/protohelpers."):
		return true, "pure wire helpers"
	}
	return false, ""
}

// analysable: the function body is module code (including synthetic wrappers
// of module types).
func (p *Prog) analysable(fn *ssa.Function) bool {
	if fn == nil || len(fn.Blocks) == 0 {
		return false
	}
	if p.InModule(fn) {
		return true
	}
	if fn.Signature.Recv() != nil {
		t := fn.Signature.Recv().Type()
		if pt, ok := t.(*types.Pointer); ok {
			t = pt.Elem()
		}
		if n, ok := t.(*types.Named); ok && n.Obj().Pkg() != nil {
			pp := n.Obj().Pkg().Path()
			return pp == ModulePath || strings.HasPrefix(pp, ModulePath+"/")
		}
	}
	return false
}

// Value analyses all uses of v (a slice value inside its function).
func (r *Retain) Value(v ssa.Value) []Leak {
	var leaks []Leak
	r.walk(v, map[ssa.Value]bool{}, &leaks, nil)
	return leaks
}

func (r *Retain) param(fn *ssa.Function, idx int, chain []string) []Leak {
	key := fmt.Sprintf("%p/%d", fn, idx)
	if m, ok := r.memo[key]; ok {
		if m == nil {
			return nil // in progress: optimistic
		}
		return *m
	}
	r.memo[key] = nil
	r.Funcs[r.P.FnName(fn)] = true
	var leaks []Leak
	if idx < len(fn.Params) {
		r.walk(fn.Params[idx], map[ssa.Value]bool{}, &leaks, append(chain, r.P.FnName(fn)))
	}
	r.memo[key] = &leaks
	return leaks
}

func (r *Retain) walk(v ssa.Value, seen map[ssa.Value]bool, leaks *[]Leak, chain []string) {
	if seen[v] {
		return
	}
	seen[v] = true
	add := func(at ssa.Instruction, why string) {
		*leaks = append(*leaks, Leak{At: at, Why: why, Path: append([]string(nil), chain...)})
	}
	for _, ref := range Referrers(v) {
		switch x := ref.(type) {
		case *ssa.Slice:
			if x.X == v {
				r.walk(x, seen, leaks, chain)
			}
		case *ssa.Phi, *ssa.ChangeType, *ssa.MakeInterface, *ssa.ChangeInterface:
			r.walk(x.(ssa.Value), seen, leaks, chain)
		case *ssa.Convert:
			if b, ok := x.Type().Underlying().(*types.Basic); ok && b.Info()&types.IsString != 0 {
				continue // string(b) copies
			}
			r.walk(x, seen, leaks, chain)
		case *ssa.TypeAssert:
			r.walk(x, seen, leaks, chain)
		case *ssa.Extract:
			r.walk(x, seen, leaks, chain)
		case *ssa.BinOp, *ssa.Index, *ssa.Lookup, *ssa.Range, *ssa.DebugRef, *ssa.If:
			// comparisons and element reads do not retain
		case *ssa.UnOp:
			// load through the value (not applicable to slices) - ignore
		case *ssa.IndexAddr:
			// &v[i]: element pointer; allowed if only loaded/stored through
			for _, r2 := range Referrers(x) {
				switch y := r2.(type) {
				case *ssa.UnOp:
				case *ssa.Store:
					if y.Addr != ssa.Value(x) {
						add(y, "a pointer into the buffer is stored")
					}
				default:
					add(r2, "a pointer into the buffer escapes")
				}
			}
		case *ssa.Store:
			if x.Val != v {
				continue
			}
			switch a := x.Addr.(type) {
			case *ssa.Alloc:
				if !r.P.Census().captured[a] {
					// local spill: follow loads
					for _, r2 := range Referrers(a) {
						if ld, ok := r2.(*ssa.UnOp); ok && ld.Op == token.MUL {
							r.walk(ld, seen, leaks, chain)
						}
					}
					continue
				}
				add(x, "the buffer is stored in a variable captured by a closure")
			case *ssa.IndexAddr:
				// element of a local varargs array: follow the array
				if base, ok := a.X.(*ssa.Alloc); ok && base.Comment == "varargs" {
					for _, r2 := range Referrers(base) {
						if sl, ok := r2.(*ssa.Slice); ok {
							r.walk(sl, seen, leaks, chain)
						}
					}
					continue
				}
				add(x, "the buffer is stored into an array/slice element")
			case *ssa.FieldAddr:
				add(x, "the buffer is stored in field "+FieldOwnerName(a.X.Type(), a.Field))
			default:
				add(x, "the buffer is stored through a pointer")
			}
		case *ssa.MapUpdate:
			if x.Value == v || x.Key == v {
				add(x, "the buffer is stored in a map")
			}
		case *ssa.Send:
			if x.X == v {
				add(x, "the buffer is sent on a channel")
			}
		case *ssa.MakeClosure:
			add(x, "the buffer is captured by a closure")
		case *ssa.Go:
			add(x, "the buffer is handed to a new goroutine")
		case *ssa.Return:
			add(x, "the buffer is returned to the caller")
		case *ssa.Select:
			add(x, "the buffer is sent in a select")
		case *ssa.Call, *ssa.Defer:
			r.call(x.(ssa.CallInstruction), v, seen, leaks, chain)
		default:
			add(ref, fmt.Sprintf("unmodelled use %T of the buffer", ref))
		}
	}
}

func (r *Retain) call(c ssa.CallInstruction, v ssa.Value, seen map[ssa.Value]bool, leaks *[]Leak, chain []string) {
	add := func(why string) {
		*leaks = append(*leaks, Leak{At: c, Why: why, Path: append([]string(nil), chain...)})
	}
	cc := c.Common()
	name := r.P.CalleeName(c)
	if strings.HasPrefix(name, "builtin:") {
		switch name {
		case "builtin:len", "builtin:cap", "builtin:copy":
			return
		case "builtin:append":
			// append(v, ...) may alias v; append(x, v...) copies v
			if len(cc.Args) > 0 && cc.Args[0] == v {
				if val := c.Value(); val != nil {
					r.walk(val, seen, leaks, chain)
				}
			}
			return
		}
		add("unmodelled builtin " + name)
		return
	}
	// which argument positions carry v?
	var idxs []int
	off := 0
	if cc.IsInvoke() {
		off = 1
		if cc.Value == v {
			add("the buffer is used as the receiver of an interface call")
			return
		}
	}
	for i, a := range cc.Args {
		if a == v {
			idxs = append(idxs, i)
		}
	}
	if len(idxs) == 0 {
		return
	}
	var targets []*ssa.Function
	if f := cc.StaticCallee(); f != nil {
		targets = []*ssa.Function{f}
	} else {
		targets = r.P.CallGraph().Callees(c, r.UseCHA)
		if len(targets) == 0 {
			add("call through " + name + " has no resolvable target")
			return
		}
	}
	for _, t := range targets {
		tn := r.P.funcRefNameFull(t)
		if r.P.analysable(t) {
			for _, i := range idxs {
				pi := i
				if cc.IsInvoke() {
					pi = i + off // receiver is Params[0] of the target
				}
				for _, l := range r.param(t, pi, chain) {
					*leaks = append(*leaks, l)
				}
			}
			continue
		}
		if ok, why := trustedSink(tn); ok {
			r.Sinks[tn+" ("+why+")"] = true
			continue
		}
		add("the buffer is passed to " + tn + ", which is outside the module and not a listed non-retaining sink")
	}
}

// funcRefNameFull names any function (module or not) for sink matching.
func (p *Prog) funcRefNameFull(f *ssa.Function) string {
	if p.InModule(f) {
		return p.FnName(f)
	}
	s := f.String()
	for typeArgsRe.MatchString(s) {
		s = typeArgsRe.ReplaceAllString(s, "")
	}
	return shorten(s)
}
