package eng

import (
	"go/constant"
	"go/token"
	"go/types"

	"golang.org/x/tools/go/ssa"
)

// Bit-level reading of pure bit-manipulation functions.
//
// For a straight-line function of one integer parameter built from shifts by
// constants, masks and ors (the decoding of a device number into major and
// minor), BitMap tells for every bit of the result where it comes from:
// input bit i (>= 0), constant 0 (BitZero), constant 1 (BitOne) or something
// this analysis does not follow (BitUnknown). Two spellings of the same
// arithmetic have the same map.
const (
	BitZero    = -1
	BitOne     = -2
	BitUnknown = -3
)

func bitWidth(t types.Type) (int, bool) {
	b, ok := t.Underlying().(*types.Basic)
	if !ok {
		return 0, false
	}
	switch b.Kind() {
	case types.Int8, types.Uint8:
		return 8, b.Kind() == types.Int8
	case types.Int16, types.Uint16:
		return 16, b.Kind() == types.Int16
	case types.Int32, types.Uint32:
		return 32, b.Kind() == types.Int32
	case types.Int64, types.Uint64, types.Int, types.Uint, types.Uintptr, types.UntypedInt:
		return 64, b.Kind() == types.Int64 || b.Kind() == types.Int
	}
	return 0, false
}

// BitMap returns the provenance of the bits of fn's (first) result in terms
// of the bits of its first parameter.
func BitMap(fn *ssa.Function) ([]int, bool) {
	if fn == nil || len(fn.Params) == 0 || len(fn.Blocks) != 1 {
		return nil, false
	}
	var ret *ssa.Return
	for _, in := range fn.Blocks[0].Instrs {
		if r, ok := in.(*ssa.Return); ok {
			ret = r
		}
	}
	if ret == nil || len(ret.Results) == 0 {
		return nil, false
	}
	param := fn.Params[len(fn.Params)-1]
	if fn.Signature.Recv() != nil && len(fn.Params) > 1 {
		param = fn.Params[1]
	} else if fn.Signature.Recv() == nil {
		param = fn.Params[0]
	}
	var eval func(v ssa.Value, d int) []int
	resize := func(bits []int, w int, signed bool) []int {
		out := make([]int, w)
		for i := range out {
			switch {
			case i < len(bits):
				out[i] = bits[i]
			case signed && len(bits) > 0:
				out[i] = bits[len(bits)-1]
			default:
				out[i] = BitZero
			}
		}
		return out
	}
	unknown := func(w int) []int {
		out := make([]int, w)
		for i := range out {
			out[i] = BitUnknown
		}
		return out
	}
	eval = func(v ssa.Value, d int) []int {
		w, _ := bitWidth(v.Type())
		if w == 0 {
			return nil
		}
		if d > 40 {
			return unknown(w)
		}
		switch x := v.(type) {
		case *ssa.Parameter:
			if x != param {
				return unknown(w)
			}
			out := make([]int, w)
			for i := range out {
				out[i] = i
			}
			return out
		case *ssa.Const:
			out := make([]int, w)
			if x.Value == nil || x.Value.Kind() != constant.Int {
				return unknown(w)
			}
			u, exact := constant.Uint64Val(x.Value)
			if !exact {
				if s, ok := constant.Int64Val(x.Value); ok {
					u = uint64(s)
				} else {
					return unknown(w)
				}
			}
			for i := range out {
				if u>>uint(i)&1 == 1 {
					out[i] = BitOne
				} else {
					out[i] = BitZero
				}
			}
			return out
		case *ssa.Convert:
			in := eval(x.X, d+1)
			if in == nil {
				return unknown(w)
			}
			_, signed := bitWidth(x.X.Type())
			return resize(in, w, signed)
		case *ssa.ChangeType:
			in := eval(x.X, d+1)
			if in == nil {
				return unknown(w)
			}
			return resize(in, w, false)
		case *ssa.BinOp:
			a := eval(x.X, d+1)
			if a == nil {
				return unknown(w)
			}
			a = resize(a, w, false)
			if x.Op == token.SHL || x.Op == token.SHR {
				k, ok := ConstInt(x.Y)
				if !ok || k < 0 || k > 64 {
					return unknown(w)
				}
				_, signed := bitWidth(x.X.Type())
				out := make([]int, w)
				for i := range out {
					j := i - int(k)
					if x.Op == token.SHR {
						j = i + int(k)
					}
					switch {
					case j >= 0 && j < w:
						out[i] = a[j]
					case x.Op == token.SHR && signed:
						out[i] = a[w-1]
					default:
						out[i] = BitZero
					}
				}
				return out
			}
			b := eval(x.Y, d+1)
			if b == nil {
				return unknown(w)
			}
			b = resize(b, w, false)
			out := make([]int, w)
			for i := range out {
				p, q := a[i], b[i]
				switch x.Op {
				case token.AND:
					switch {
					case p == BitZero || q == BitZero:
						out[i] = BitZero
					case p == BitOne:
						out[i] = q
					case q == BitOne:
						out[i] = p
					case p == q:
						out[i] = p
					default:
						out[i] = BitUnknown
					}
				case token.OR:
					switch {
					case p == BitOne || q == BitOne:
						out[i] = BitOne
					case p == BitZero:
						out[i] = q
					case q == BitZero:
						out[i] = p
					case p == q:
						out[i] = p
					default:
						out[i] = BitUnknown
					}
				case token.AND_NOT:
					switch {
					case p == BitZero || q == BitOne:
						out[i] = BitZero
					case q == BitZero:
						out[i] = p
					default:
						out[i] = BitUnknown
					}
				case token.XOR:
					switch {
					case p == BitZero:
						out[i] = q
					case q == BitZero:
						out[i] = p
					default:
						out[i] = BitUnknown
					}
				default:
					out[i] = BitUnknown
				}
			}
			return out
		}
		return unknown(w)
	}
	out := eval(ret.Results[0], 0)
	return out, out != nil
}
