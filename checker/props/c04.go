package props

import (
	"fmt"
	"go/constant"
	"go/token"
	"go/types"
	"strings"

	"fsverif/eng"

	"golang.org/x/tools/go/ssa"
)

func init() {
	register("C04", "Structural clauses behind termination and honest results under faults, decided on all paths: every blocking channel operation of the transfer code is a select with a context/close-channel arm (or a range over a channel closed by one deferred close), a failed source access or diff is reported to the peer with an ERR packet before the goroutine returns (the receiver's deferred ERR send and the writer's deferred cancel test the named result of the function that installs them and cannot be skipped when it is non-nil), the receive loops return success only on the FIN arm (end of stream before FIN is an error), the receiver sends FIN only after a checked diff and a checked wait for the writers, no protocol or source-access error is dropped or survived, every goroutine is started through an errgroup whose Wait precedes the return, and walkers poll the context before each callback. In the walking code (filter, fs, hard-link filter, follow-links, stat, tar writer) no error of a stat, readlink, xattr listing, nested walk or constructor is dropped or survived (tolerated: not-found of a followed path, ENOTSUP of xattr listing, the error handed to the caller's callback); a deferred function replaces a walk callback's error result by SkipDir or nil only on the true edge of a predicate on that very error; DiskWriter.HandleChange retries itself only when the failed Mkdir reported EEXIST. Walk callbacks never go on after a non-nil error argument; no error result in packages fsutil and util is left unread (best-effort sends, closes and tabled callees excepted). The file ids both ends key their tables by are the zero-based positions in the STAT sequence (counter from 0, one increment per announced entry, registration with the pre-increment value; shared with C06/C07): two ends that agree with each other on any other numbering hand a conforming peer a neighbouring file's bytes. The file the disk writer creates for content that arrives later stays empty until that content is written (no Truncate, write or seek on the placeholder), so that what an aborted run leaves behind differs in size from the source. Does not decide time bounds, SIGKILL/crash recovery, convergence of a later transfer, or behaviour when the stream's own SendMsg/RecvMsg never return.", runC04)
}

func runC04(c *Ctx) {
	r04_1(c, "R04.1")
	r04_2(c, "R04.2")
	r04_3(c, "R04.3")
	r04_4send(c, "R04.4a")
	r04_4recv(c, "R04.4b")
	r04_5(c, "R04.5")
	r04_6(c, "R04.6")
	r04_7(c, "R04.7")
	r04_8(c, "R04.8")
	r04_9(c, "R04.9")
	r04_10(c, "R04.10")
	r04_11(c, "R04.11")
	// convergence after an aborted run: a placeholder or partial file left
	// behind differs from the source in size or mtime, and the differ must see
	// that whatever content comparison is configured (shared with C02)
	r02_1(c, "R04.12")
	// a failing exit of the walker feeding the diff wakes whoever is parked on
	// its queue (shared with C08)
	r08_4(c, "R04.13")
	// ... and link members carry their real size, or a stale link left by an
	// aborted run compares equal (shared with C01/C02/C09/C17)
	c.R.Rule("R04.14", "the stat of every non-directory carries its on-disk size, recorded after the inode bookkeeping")
	statSizeAlways(c, "R04.14")
	r04_15(c, "R04.15")
	errDisciplineAll(c, "R04.16", 1, "fsutil", "util")
	r04_17(c, "R04.17")
	// success with the wrong bytes on disk: a request names the entry it is
	// made for only if ids are zero-based STAT positions on both ends (shared
	// with C06/C07)
	idNumbering(c, "R04.18", "R04.19", "R04.20")
	r04_21(c, "R04.21")
}

// transferFuncs: non-test functions of packages fsutil and copy.
func transferFuncs(c *Ctx, pkgs ...string) []*ssa.Function {
	want := map[string]bool{}
	for _, p := range pkgs {
		want[p] = true
	}
	var out []*ssa.Function
	for _, fn := range c.P.ModFuncs {
		if !want[fnPkgShort(c, fn)] || c.P.IsTestFile(fn.Pos()) {
			continue
		}
		out = append(out, fn)
	}
	return out
}

// sentOnFields: channel fields / cells that are ever sent on.
func sentOnChans(c *Ctx) map[string]bool {
	out := map[string]bool{}
	for _, fn := range c.P.ModFuncs {
		eng.Instrs(fn, func(in ssa.Instruction) {
			switch x := in.(type) {
			case *ssa.Send:
				out[c.P.ChanDesc(x.Chan)] = true
			case *ssa.Select:
				for _, st := range x.States {
					if st.Dir == types.SendOnly {
						out[c.P.ChanDesc(st.Chan)] = true
					}
				}
			}
		})
	}
	return out
}

func closedChans(c *Ctx) map[string]bool {
	out := map[string]bool{}
	for _, fn := range c.P.ModFuncs {
		for _, call := range c.P.CallsTo(fn, "builtin:close") {
			out[c.P.ChanDesc(call.Common().Args[0])] = true
		}
	}
	return out
}

// R04.1 census of blocking channel operations.
func r04_1(c *Ctx, rule string) {
	c.R.Rule(rule, "every blocking channel operation in packages fsutil and copy is a select with a ctx.Done() or close-only-channel arm, or a range over a channel with a paired deferred close")
	sent := sentOnChans(c)
	closed := closedChans(c)
	selects, blocking, polling, ranges, bareSend, bareRecv := 0, 0, 0, 0, 0, 0
	perFn := map[string]int{}
	for _, fn := range transferFuncs(c, "fsutil", "copy") {
		fn := fn
		eng.Instrs(fn, func(in ssa.Instruction) {
			name := c.name(fn)
			switch x := in.(type) {
			case *ssa.Select:
				selects++
				perFn[name+"/select"]++
				con := fmt.Sprintf("%s/select#%d", name, perFn[name+"/select"])
				c.R.Analysed(name)
				if !x.Blocking {
					polling++
					c.R.OK(rule, con, c.pos(x), "non-blocking (has default)")
					return
				}
				blocking++
				ok := false
				var arms []string
				for _, st := range x.States {
					d := c.P.ChanDesc(st.Chan)
					arms = append(arms, d)
					if st.Dir != types.RecvOnly {
						continue
					}
					if d == "ctx.Done" {
						ok = true
					}
					if strings.HasPrefix(d, "field:") && !sent[d] && closed[d] {
						ok = true // close-only channel
					}
				}
				c.R.Check(ok, rule, con, c.pos(x), "blocking select with an interrupt arm ("+strings.Join(arms, ", ")+")",
					"blocking select without a ctx.Done() or close-only-channel arm ("+strings.Join(arms, ", ")+"): cannot be interrupted when the peer or the consumer is gone")
			case *ssa.Send:
				bareSend++
				perFn[name+"/send"]++
				c.R.Fail(rule, fmt.Sprintf("%s/send#%d", name, perFn[name+"/send"]), c.pos(x),
					"bare channel send on "+c.P.ChanDesc(x.Chan)+": blocks forever once the consumers have returned (buffer full after their exit)")
			case *ssa.UnOp:
				if x.Op != token.ARROW {
					return
				}
				d := c.P.ChanDesc(x.X)
				if rangeLikeRecv(x) {
					ranges++
					perFn[name+"/range"]++
					c.R.OK(rule, fmt.Sprintf("%s/range#%d", name, perFn[name+"/range"]), c.pos(x), "range over "+d+" (close pairing decided by R04.2)")
					return
				}
				bareRecv++
				perFn[name+"/recv"]++
				c.R.Fail(rule, fmt.Sprintf("%s/recv#%d", name, perFn[name+"/recv"]), c.pos(x), "bare channel receive on "+d+": not interruptible")
			}
		})
	}
	c.R.Floor(rule, "select statements", selects, 14)
	c.R.Floor(rule, "blocking selects", blocking, 6)
	c.R.Floor(rule, "range-over-channel loops", ranges, 1)
	_ = polling
}

// R04.2 range/close pairing.
func r04_2(c *Ctx, rule string) {
	c.R.Rule(rule, "each channel ranged over is closed by exactly one close, a defer that is the first call of a goroutine body started once")
	n := 0
	seen := map[string]bool{}
	for _, fn := range transferFuncs(c, "fsutil", "copy") {
		fn := fn
		eng.Instrs(fn, func(in ssa.Instruction) {
			u, ok := in.(*ssa.UnOp)
			if !ok || u.Op != token.ARROW || !rangeLikeRecv(u) {
				return
			}
			d := c.P.ChanDesc(u.X)
			if seen[d] {
				return
			}
			seen[d] = true
			n++
			var closes []ssa.CallInstruction
			for _, g := range c.P.ModFuncs {
				for _, call := range c.P.CallsTo(g, "builtin:close") {
					if c.P.ChanDesc(call.Common().Args[0]) == d {
						closes = append(closes, call)
					}
				}
			}
			con := "range " + d
			if len(closes) != 1 {
				c.R.Fail(rule, con+"/close-count", c.pos(u), fmt.Sprintf("%d close sites for the ranged channel, expected exactly 1 (0: the workers never finish; >1: double close panics)", len(closes)))
				return
			}
			cl := closes[0]
			_, isDefer := cl.(*ssa.Defer)
			// the goroutine body: the function holding the close, or the one
			// caller of the helper it was moved to
			tops := c.tops(cl)
			var g *ssa.Function
			if len(tops) == 1 {
				g = tops[0]
			}
			first, inEntry, startedOnce := false, true, false
			if g != nil && isDefer {
				// no return of the goroutine body is reachable before the defer is installed
				ok, _, und := c.Precedes(g, nil, nil, func(x ssa.Instruction) bool { return x == ssa.Instruction(cl) }, isReturn)
				first = ok && !und
			}
			if g != nil && g.Parent() != nil {
				par := g.Parent()
				k := 0
				eng.Instrs(par, func(x ssa.Instruction) {
					if mc, ok := x.(*ssa.MakeClosure); ok && c.P.ClosureFn(mc) == g {
						for _, r := range eng.Referrers(mc) {
							if c.P.IsCallTo(r, "(*golang.org/x/sync/errgroup.Group).Go") && !eng.InCycle(r.Block()) {
								k++
							}
						}
					}
				})
				startedOnce = k == 1
			}
			if g == nil {
				g = cl.Parent()
			}
			c.R.Check(isDefer && first && inEntry && startedOnce, rule, con+"/deferred-close", c.pos(cl),
				"closed by a defer at the start of "+c.name(g)+", which is started once",
				"the ranged channel is not closed by a deferred close at the very start of a goroutine started exactly once: on an early error return the workers ranging over it never finish")
		})
	}
	c.R.Floor(rule, "ranged channels", n, 1)
}

// R04.3 a local failure is reported to the peer.
func r04_3(c *Ctx, rule string) {
	c.R.Rule(rule, "sender: a failure of walk or sendFile reaches no return without an ERR packet; receiver: the ERR-sending defer is installed before anything can return in the diff goroutine")
	srun := c.Fn(rule, "fsutil.(*sender).run")
	if srun != nil {
		n := 0
		for _, lit := range eng.Closures(srun) {
			for _, call := range c.P.CallsTo(lit, "fsutil.(*sender).walk", "fsutil.(*sender).sendFile") {
				n++
				c.R.Analysed(c.name(lit))
				key, used, has := c.errValueOf(call)
				con := c.siteName(call) + "/err-packet"
				if !has || !used {
					c.R.Fail(rule, con, c.pos(call), "the error of "+c.P.CalleeName(call)+" is dropped")
					continue
				}
				x := c.explorer(lit)
				x.From = call
				x.Assume = map[string]bool{"(" + key + "==nil)": false}
				x.Barrier = func(in ssa.Instruction, st *eng.State) bool { return c.sendsPacket(in, "PACKET_ERR") }
				x.Target = func(in ssa.Instruction, st *eng.State) bool { return isReturn(in) }
				x.StopAtTarget = true
				hits := x.Run()
				if x.Exhausted {
					c.R.Undecided(rule, con, c.pos(call), "state limit")
					continue
				}
				if len(hits) > 0 {
					c.R.Fail(rule, con, c.pos(hits[0].Instr), "a failure of "+c.P.CalleeName(call)+" (walking or reading the source) makes this goroutine return without sending PACKET_ERR: the receiver keeps waiting for data and the sender for FIN")
				} else {
					c.R.OK(rule, con, c.pos(call), "a failure is followed by SendMsg(ERR) on every path to a return")
				}
			}
		}
		c.R.Floor(rule, "source-access calls in the sender's goroutines", n, 2)
	}
	rrun := c.Fn(rule, "fsutil.(*receiver).run")
	if rrun != nil {
		lit := c.ClosureCalling(rule, rrun, "fsutil.doubleWalkDiff")
		if lit != nil {
			def, dlit := c.actingDefer(lit, func(x ssa.Instruction) bool { return c.sendsPacket(x, "PACKET_ERR") })
			con := c.name(lit) + "/err-defer"
			if def == nil {
				c.R.Fail(rule, con, c.P.Pos(lit.Pos()), "the diff goroutine has no deferred function that sends PACKET_ERR: a local failure (disk write, validator) is not reported to the sender")
			} else {
				ok := true
				eng.Instrs(lit, func(in ssa.Instruction) {
					if isReturn(in) && in.Block().Comment != "recover" && !eng.Dominates(def, in) {
						ok = false
					}
				})
				c.R.Check(ok, rule, con+"/dominates-returns", c.pos(def), "the ERR-sending defer dominates every return", "a return of the diff goroutine is not dominated by the ERR-sending defer")
				// inside the deferred literal: ERR is sent when the result is non-nil
				hit, und, cellKey := c.deferActsOnOwnResult(def, dlit, func(in ssa.Instruction) bool { return c.sendsPacket(in, "PACKET_ERR") })
				c.R.Check(!und && hit != nil && cellKey != "", rule, con+"/sends-on-error", c.P.Pos(dlit.Pos()), "with a non-nil result the deferred function sends PACKET_ERR", "the deferred function does not send PACKET_ERR when the goroutine's own (named) result is non-nil: it tests no error variable or another one")
				// and the named result really is what the goroutine returns
				// (of the function that installs the defer: the goroutine body itself or the method it was moved to)
				dsig := def.Parent().Signature
				c.R.Check(dsig.Results().Len() == 1 && dsig.Results().At(0).Name() != "", rule, con+"/named-result", c.P.Pos(lit.Pos()), "the goroutine has a named error result the defer observes", "the diff goroutine has no named result for the defer to observe")
			}
		}
	}
}

// actingDefer finds the defer statement of fn whose deferred function - a
// literal, or a function of the module called directly (`defer
// x.onFailure(&retErr)`) - performs isAction (helpers it walks through
// included). It returns the statement and the body analysed.
func (c *Ctx) actingDefer(fn *ssa.Function, isAction func(ssa.Instruction) bool) (*ssa.Defer, *ssa.Function) {
	var def *ssa.Defer
	var body *ssa.Function
	eng.Instrs(fn, func(in ssa.Instruction) {
		d, ok := in.(*ssa.Defer)
		if !ok {
			return
		}
		var f *ssa.Function
		if mc, isMC := d.Call.Value.(*ssa.MakeClosure); isMC {
			f = c.P.ClosureFn(mc)
		} else if g := d.Call.StaticCallee(); g != nil && c.P.InModule(g) {
			f = g
		}
		if f == nil {
			return
		}
		acts := false
		eng.Instrs(f, func(x ssa.Instruction) {
			if isAction(x) {
				acts = true
			}
		})
		if acts {
			def, body = d, f
		}
	})
	return def, body
}

// deferActsOnOwnResult decides, for the deferred function body installed by
// def, that with a non-nil named error result of the installing function the
// action isT is reached and cannot be skipped: what the body tests is the
// named result of the function that installs the defer (not some other error
// variable in scope - an outer err is nil for good at that point), read when
// the deferred function runs - through the captured variable, or through its
// address handed to the deferred call - and with every nil test of that value
// pinned to "non-nil" no return of the body is reachable without passing isT.
// The value may travel into a helper as an argument before it is tested. The
// result cell is written by the installing function, so its loads carry
// register keys: the nil tests are pinned by register. Returns (hit,
// undecided, cell name); hit is nil when the action can be skipped or the
// result is not tested at all.
func (c *Ctx) deferActsOnOwnResult(def *ssa.Defer, body *ssa.Function, isT func(ssa.Instruction) bool) (*eng.Hit, bool, string) {
	resName := ""
	if rs := def.Parent().Signature.Results(); rs.Len() == 1 {
		resName = rs.At(0).Name()
	}
	isResult := func(v ssa.Value) bool {
		a, ok := v.(*ssa.Alloc)
		return ok && a.Parent() == def.Parent() && resName != "" && a.Comment == resName
	}
	// the cell inside the body: a free variable bound to the result, or a
	// pointer parameter handed its address
	var cell ssa.Value
	if mc, ok := def.Call.Value.(*ssa.MakeClosure); ok {
		for i, fv := range body.FreeVars {
			if isErrorPtr(fv.Type()) && i < len(mc.Bindings) && isResult(mc.Bindings[i]) {
				cell = fv
			}
		}
	} else if len(body.Params) == len(def.Call.Args) {
		for i, a := range def.Call.Args {
			if isErrorPtr(a.Type()) && isResult(a) {
				cell = body.Params[i]
			}
		}
	}
	if cell == nil {
		return nil, false, ""
	}
	isCellLoad := func(v ssa.Value) bool {
		ld, ok := v.(*ssa.UnOp)
		return ok && ld.Op == token.MUL && ld.X == cell
	}
	hit, und := c.ReachableUnder(body, nil, nil, isT)
	if hit == nil || und {
		return hit, und, cell.Name()
	}
	defer c.scope(body)()
	y := c.explorer(body)
	pins := map[string]bool{}
	eng.Instrs(body, func(in ssa.Instruction) {
		b, ok := in.(*ssa.BinOp)
		if !ok || (b.Op != token.NEQ && b.Op != token.EQL) {
			return
		}
		for i, o := range []ssa.Value{b.X, b.Y} {
			k, isK := []ssa.Value{b.Y, b.X}[i].(*ssa.Const)
			if !isK || !k.IsNil() {
				continue
			}
			if isCellLoad(o) || c.DerivesFrom(o, isCellLoad, 3) {
				pins[y.RegKey(b)] = b.Op == token.NEQ
			}
		}
	})
	if len(pins) == 0 {
		return nil, false, cell.Name()
	}
	y.Assume = pins
	y.Barrier = func(in ssa.Instruction, st *eng.State) bool { return isT(in) }
	y.Target = func(in ssa.Instruction, st *eng.State) bool {
		r, ok := in.(*ssa.Return)
		return ok && r.Parent() == body
	}
	y.StopAtTarget = true
	skips := y.Run()
	if y.Exhausted {
		return nil, true, cell.Name()
	}
	if len(skips) > 0 {
		return nil, false, cell.Name()
	}
	return hit, false, cell.Name()
}

func isErrorPtr(t types.Type) bool {
	p, ok := t.(*types.Pointer)
	return ok && types.TypeString(p.Elem(), nil) == "error"
}

// packetTypeTest finds `p.Type == <const>` in fn and returns its key.
func packetTypeTestKey(c *Ctx, fn *ssa.Function, typeName string) (string, *ssa.BinOp) {
	want, ok := c.packetConst(typeName)
	if !ok {
		return "", nil
	}
	x := c.explorer(fn)
	var key string
	var site *ssa.BinOp
	eng.Instrs(fn, func(in ssa.Instruction) {
		bo, ok := in.(*ssa.BinOp)
		if !ok || bo.Op != token.EQL || !isFieldLoad(bo.X, "types.Packet.Type") {
			return
		}
		if k, ok := eng.ConstInt(bo.Y); ok && k == want && site == nil {
			key, site = x.KeyAtEntry(bo), bo
		}
	})
	return key, site
}

// R04.4 sender: success only as the FIN echo.
func r04_4send(c *Ctx, rule string) {
	c.R.Rule(rule, "the sender's receive loop returns success only as the result of echoing FIN on the FIN arm")
	run := c.Fn(rule, "fsutil.(*sender).run")
	if run == nil {
		return
	}
	loop := c.ClosureCalling(rule, run, "(fsutil.Stream).RecvMsg")
	if loop == nil {
		return
	}
	base := c.name(loop)
	x := c.explorer(loop)
	echo := 0
	finCalls := map[string]bool{}
	eng.Instrs(loop, func(in ssa.Instruction) {
		if call, ok := in.(*ssa.Call); ok && c.sendsPacket(call, "PACKET_FIN") {
			for _, k := range c.sendResultKeys(loop, call, func(ci ssa.CallInstruction) bool { return c.sendsPacket(ci, "PACKET_FIN") }) {
				finCalls[k] = true
			}
		}
	})
	x.Target = func(in ssa.Instruction, st *eng.State) bool {
		if !x.IsSuccessReturn(in, st) {
			return false
		}
		r := in.(*ssa.Return)
		if len(r.Results) == 1 && finCalls[unwrapKey(x.SourceKey(r.Results[0], st))] {
			echo++
			return false
		}
		return true
	}
	x.StopAtTarget = true
	hits := x.Run()
	switch {
	case x.Exhausted:
		c.R.Undecided(rule, base+"/success-returns", c.P.Pos(loop.Pos()), "state limit")
	case len(hits) > 0:
		c.R.Fail(rule, base+"/success-returns", c.pos(hits[0].Instr), "the sender's receive loop can return success other than by echoing FIN (e.g. on end of stream): Send would report success without the receiver's acknowledgement")
	default:
		c.R.OK(rule, base+"/success-returns", c.P.Pos(loop.Pos()), "the only possibly-nil return is `return conn.SendMsg(FIN)`")
	}
	c.R.Check(echo > 0, rule, base+"/fin-echo-live", c.P.Pos(loop.Pos()), "the FIN echo return is reachable", "the FIN echo is not reachable: Send can never succeed")
	key, site := packetTypeTestKey(c, loop, "PACKET_FIN")
	if site == nil {
		c.R.Fail(rule, base+"/fin-arm", c.P.Pos(loop.Pos()), "no test p.Type == PACKET_FIN in the sender's receive loop")
	} else {
		c.ObUnreachable(rule, base+"/fin-arm", loop, map[string]bool{key: false}, func(in ssa.Instruction) bool { return c.sendsPacket(in, "PACKET_FIN") }, "the FIN echo", "the received packet is not FIN")
	}
	for _, call := range c.P.CallsTo(loop, "(fsutil.Stream).RecvMsg") {
		c.ObErrChecked(rule+"/recv-checked", call)
	}
}

// R04.4 receiver: success only on the FIN arm at end of stream.
func r04_4recv(c *Ctx, rule string) {
	c.R.Rule(rule, "the receiver's receive loop returns nil only on the FIN arm when the drain read returned io.EOF; the main-loop RecvMsg error is always returned")
	loop := recvLoop(c, rule)
	if loop == nil {
		return
	}
	base := c.name(loop)
	isSucc := func(x *eng.Explorer) func(ssa.Instruction, *eng.State) bool {
		return func(in ssa.Instruction, st *eng.State) bool { return x.IsSuccessReturn(in, st) }
	}
	key, site := packetTypeTestKey(c, loop, "PACKET_FIN")
	if site == nil {
		c.R.Fail(rule, base+"/fin-arm", c.P.Pos(loop.Pos()), "no test p.Type == PACKET_FIN in the receiver's receive loop")
		return
	}
	{
		x := c.explorer(loop)
		x.Assume = map[string]bool{key: false}
		x.Target = isSucc(x)
		x.StopAtTarget = true
		hits := x.Run()
		switch {
		case x.Exhausted:
			c.R.Undecided(rule, base+"/success-needs-fin", c.pos(site), "state limit")
		case len(hits) > 0:
			c.R.Fail(rule, base+"/success-needs-fin", c.pos(hits[0].Instr), "the receive loop can return success without having received FIN back from the sender (e.g. nil on end of stream in the main loop): Receive would report success for a partial tree")
		default:
			c.R.OK(rule, base+"/success-needs-fin", c.pos(site), "no success return is reachable unless a FIN packet was received")
		}
	}
	// EOF test
	x0 := c.explorer(loop)
	var eofKeys []string
	eng.Instrs(loop, func(in ssa.Instruction) {
		bo, ok := in.(*ssa.BinOp)
		if !ok || (bo.Op != token.EQL && bo.Op != token.NEQ) {
			return
		}
		isEOF := func(v ssa.Value) bool {
			u, ok := v.(*ssa.UnOp)
			if !ok || u.Op != token.MUL {
				return false
			}
			g, ok := u.X.(*ssa.Global)
			return ok && g.String() == "io.EOF"
		}
		if isEOF(bo.Y) || isEOF(bo.X) {
			k := x0.KeyAtEntry(bo)
			if bo.Op == token.NEQ {
				k = "!" + k
			}
			eofKeys = append(eofKeys, k)
		}
	})
	if len(eofKeys) == 0 {
		// errors.Is form
		for _, call := range c.P.CallsTo(loop, "errors.Is", "github.com/pkg/errors.Is") {
			if cl, ok := call.(*ssa.Call); ok {
				eofKeys = append(eofKeys, x0.KeyAtEntry(cl))
			}
		}
	}
	if len(eofKeys) == 0 {
		c.R.Fail(rule, base+"/success-needs-eof", c.P.Pos(loop.Pos()), "no io.EOF test in the receive loop: success cannot be tied to a clean end of stream")
	} else {
		assume := map[string]bool{}
		for _, k := range eofKeys {
			assume[k] = false
		}
		x := c.explorer(loop)
		x.Assume = assume
		x.Target = isSucc(x)
		x.StopAtTarget = true
		hits := x.Run()
		c.R.Check(len(hits) == 0 && !x.Exhausted, rule, base+"/success-needs-eof", c.P.Pos(loop.Pos()),
			"no success return is reachable unless a read returned io.EOF", "the receive loop can return success although no read returned io.EOF")
		// every RecvMsg error other than EOF is fatal
		n := 0
		for _, call := range c.P.CallsTo(loop, "(fsutil.Stream).RecvMsg") {
			n++
			k, used, has := c.errValueOf(call)
			con := c.siteName(call) + "/error-fatal"
			if !has || !used {
				c.R.Fail(rule, con, c.pos(call), "RecvMsg error dropped")
				continue
			}
			ex := c.explorer(loop)
			ex.From = call
			as := map[string]bool{"(" + k + "==nil)": false}
			for kk, v := range assume {
				as[kk] = v
			}
			ex.Assume = as
			ex.Target = isSucc(ex)
			ex.StopAtTarget = true
			hh := ex.Run()
			c.R.Check(len(hh) == 0 && !ex.Exhausted, rule, con, c.pos(call), "a RecvMsg error other than io.EOF reaches no success return", "a RecvMsg error other than io.EOF can end in a success return")
		}
		c.R.Floor(rule, "RecvMsg sites in the receiver's loop", n, 2)
		// main loop: EOF is an error too. The main-loop RecvMsg is the one
		// whose message argument is not freshly allocated inside the FIN arm:
		// identify it as the RecvMsg that is NOT dominated by the FIN test's true edge.
		// whose message argument is not freshly allocated inside the FIN arm:
		// the RecvMsg that can be reached while no FIN has been received.
		for _, call := range c.P.CallsTo(loop, "(fsutil.Stream).RecvMsg") {
			call := call
			if hit, und := c.ReachableUnder(loop, map[string]bool{key: false}, nil, func(in ssa.Instruction) bool { return in == ssa.Instruction(call) }); hit == nil && !und {
				continue // only executed on the FIN arm: the drain read
			}
			k, _, _ := c.errValueOf(call)
			ex := c.explorer(loop)
			ex.From = call
			ex.Assume = map[string]bool{"(" + k + "==nil)": false}
			ex.Barrier = func(in ssa.Instruction, st *eng.State) bool {
				return in != ssa.Instruction(call) && c.P.IsCallTo(in, "(fsutil.Stream).RecvMsg")
			}
			ex.Target = isSucc(ex)
			ex.StopAtTarget = true
			hh := ex.Run()
			c.R.Check(len(hh) == 0 && !ex.Exhausted, rule, c.siteName(call)+"/eof-before-fin-is-error", c.pos(call),
				"any error of the main-loop RecvMsg, io.EOF included, is returned", "an error of the main-loop RecvMsg (end of stream before FIN) can end in a success return")
		}
	}
}

// R04.5 receiver FIN only after diff and writers.
func r04_5(c *Ctx, rule string) {
	c.R.Rule(rule, "receiver: SendMsg(FIN) is preceded on every path by a checked doubleWalkDiff and a checked DiskWriter.Wait; Wait begins with a checked errgroup Wait")
	run := c.Fn(rule, "fsutil.(*receiver).run")
	if run == nil {
		return
	}
	lit := c.ClosureCalling(rule, run, "fsutil.doubleWalkDiff")
	if lit == nil {
		return
	}
	isFIN := func(in ssa.Instruction) bool { return c.sendsPacket(in, "PACKET_FIN") }
	nFin := 0
	eng.Instrs(lit, func(in ssa.Instruction) {
		if isFIN(in) {
			nFin++
		}
	})
	c.R.Floor(rule, "SendMsg(FIN) sites in the receiver's diff goroutine", nFin, 1)
	// all FIN sends of the receiver are in this literal
	total := 0
	for fn := range c.P.CallGraph().Reachable(run) {
		if fnPkgShort(c, fn) != "fsutil" {
			continue
		}
		eng.Instrs(fn, func(in ssa.Instruction) {
			if isFIN(in) {
				total++
			}
		})
	}
	c.R.Check(total == nFin, rule, c.name(run)+"/fin-sites", c.P.Pos(run.Pos()), "the receiver sends FIN only from the diff goroutine", fmt.Sprintf("the receiver sends FIN from %d site(s) outside the diff goroutine", total-nFin))
	c.ObPrecedes(rule, c.name(lit)+"/diff-before-fin", lit, nil, c.checkedCallPred("fsutil.doubleWalkDiff"), isFIN, "a checked doubleWalkDiff", "SendMsg(FIN)")
	c.ObPrecedes(rule, c.name(lit)+"/wait-before-fin", lit, nil, c.checkedCallPred("fsutil.(*DiskWriter).Wait"), isFIN, "a checked DiskWriter.Wait", "SendMsg(FIN)")
	// the success return of the goroutine needs them too
	c.ObSuccessNeeds(rule, c.name(lit)+"/success-needs-wait", lit, nil, nil, c.checkedCallPred("fsutil.(*DiskWriter).Wait"), "a checked DiskWriter.Wait")
	wait := c.Fn(rule, "fsutil.(*DiskWriter).Wait")
	if wait != nil {
		c.ObSuccessNeeds(rule, c.name(wait)+"/eg-wait-first", wait, nil, nil, c.checkedCallPred("(*golang.org/x/sync/errgroup.Group).Wait"), "a checked wait for the writer goroutines")
		egw := c.checkedCallPred("(*golang.org/x/sync/errgroup.Group).Wait")
		c.ObPrecedes(rule, c.name(wait)+"/eg-wait-before-dirtimes", wait, nil, egw, c.callPred("path/filepath.WalkDir", "path/filepath.Walk"), "the wait for the writer goroutines", "the directory-time fix-up walk")
	}
}

// bestEffort: protocol calls whose error is deliberately ignored.
func (c *Ctx) bestEffortSend(call ssa.CallInstruction) (bool, string) {
	if c.sendsPacket(call, "PACKET_ERR") {
		return true, "SendMsg(ERR) is best effort: the original error is what is returned"
	}
	if c.sendsPacket(call, "PACKET_FIN") && strings.HasPrefix(c.name(c.owner(call)), "fsutil.(*receiver).run$") {
		return true, "receiver SendMsg(FIN): a failure shows up as the following RecvMsg error"
	}
	return false, ""
}

// mustCheck: callee classes of R04.6.
var r046Callees = []string{
	"(fsutil.Stream).SendMsg", "(fsutil.Stream).RecvMsg", "fsutil.(*syncStream).SendMsg",
	"fsutil.(*dynamicWalker).update", "fsutil.(*Validator).HandleChange", "fsutil.(*Hardlinks).HandleChange",
	"(fsutil.FS).Walk", "(io/fs.DirEntry).Info", "io.CopyBuffer", "io.Copy",
	"fsutil.(*sender).walk", "fsutil.(*sender).sendFile", "fsutil.(*sender).queue",
	"fsutil.doubleWalkDiff", "fsutil.(*DiskWriter).Wait", "fsutil.(*DiskWriter).processChange",
	"fsutil.nextPath", "fsutil.sameFile", "freevar:changeFn", "freevar:a", "freevar:b",
	"(*golang.org/x/sync/errgroup.Group).Wait", "fsutil.(*receiver).run", "fsutil.(*sender).run",
	"fsutil.(*wrappedWriteCloser).Wait", "fsutil.NewDiskWriter", "fsutil.newHashWriter",
	"field:fsutil.DiskWriterOpt.NotifyCb", "fsutil.Walk", "param:fn",
}

// source-access calls of the walking code whose error must be returned
var r046WalkCallees = []string{
	"(io/fs.DirEntry).Info", "os.Lstat", "os.Stat", "os.Readlink", "os.ReadDir", "os.Open",
	"fsutil.mkstat", "fsutil.loadXattr", "github.com/containerd/continuity/sysx.LListxattr",
	"(fsutil.FS).Walk", "fsutil.NewFS", "fsutil.NewFilterFS",
}

type tolerated struct {
	why   string
	preds []string // tolerance predicates; none (and no via): the site is not decided
	via   []string // calls through which a success return stays allowed (a checked fallback)
}

var r046WalkExceptions = map[string]tolerated{
	"fsutil.Walk$1/(io/fs.DirEntry).Info":                               {why: "the error is handed to the caller's callback as its error argument (filepath.WalkFunc convention)", preds: nil},
	"fsutil.(*symlinkResolver).readSymlink/(fsutil.FS).Walk":            {why: "a followed path that does not exist contributes nothing", preds: []string{"fsutil.isNotFound"}},
	"fsutil.(*symlinkResolver).readSymlink/fsutil.statFile":             {why: "a followed path that does not exist contributes nothing", preds: []string{"fsutil.isNotFound"}},
	"fsutil.(*symlinkResolver).readSymlink/fsutil.readDir":              {why: "a wildcard in a directory that does not exist matches nothing", preds: []string{"fsutil.isNotFound"}},
	"fsutil.loadXattr/github.com/containerd/continuity/sysx.LListxattr": {why: "ENOTSUP means the filesystem has no xattrs", preds: []string{"errors.Is", "github.com/pkg/errors.Is"}},
}

func r04_6(c *Ctx, rule string) {
	c.R.Rule(rule, "no error of a protocol, source-access or pipeline call in the transfer code is dropped or survived (E8); best-effort sites are listed")
	send := c.Fn(rule, "fsutil.Send")
	recv := c.Fn(rule, "fsutil.Receive")
	if send == nil || recv == nil {
		return
	}
	reach := c.P.CallGraph().Reachable(send, recv)
	want := map[string]bool{}
	for _, n := range r046Callees {
		want[n] = true
	}
	// transfer files only
	files := map[string]bool{"send.go": true, "receive.go": true, "diskwriter.go": true, "diff_containerd.go": true, "diff.go": true}
	n, be := 0, 0
	for _, fn := range c.P.SortedFuncs(reach) {
		if fnPkgShort(c, fn) != "fsutil" || c.P.IsTestFile(fn.Pos()) {
			continue
		}
		pos := c.P.Pos(fn.Pos())
		if i := strings.Index(pos, ":"); i > 0 && !files[pos[:i]] {
			continue
		}
		c.R.Analysed(c.name(fn))
		for _, call := range eng.Calls(fn) {
			name := c.P.CalleeName(call)
			isDataCb := strings.Contains(name, "DiskWriterOpt.AsyncDataCb") || strings.Contains(name, "DiskWriterOpt.SyncDataCb")
			_, isFwd := c.sendForwarderArg(call)
			if !want[name] && !isDataCb && !isFwd {
				continue
			}
			if name == "param:fn" && c.name(fn) != "fsutil.getWalkerFn$1" {
				continue
			}
			if name == "(fsutil.Stream).RecvMsg" && strings.HasPrefix(c.name(fn), "fsutil.(*receiver).run$") {
				// (fn is an anchor: a call inside a helper is visited from its callers)
				continue // decided precisely by R04.4b (io.EOF after FIN is success by design)
			}
			if ok, why := c.bestEffortSend(call); ok {
				be++
				c.R.OK(rule, c.siteName(call)+"/best-effort", c.pos(call), why)
				continue
			}
			if _, isDefer := call.(*ssa.Defer); isDefer {
				continue
			}
			n++
			c.ObErrChecked(rule, call)
		}
	}
	c.R.Floor(rule, "must-check call sites in the transfer code", n, 40)
	// the walking code (source access proper): a failed stat of an entry is
	// never turned into "no such entry" - the sender would announce a tree
	// with the entry missing and report success
	wfiles := map[string]bool{"filter.go": true, "fs.go": true, "followlinks.go": true, "hardlinks.go": true, "stat.go": true, "stat_unix.go": true, "tarwriter.go": true}
	wwant := map[string]bool{}
	for _, n := range r046WalkCallees {
		wwant[n] = true
	}
	nw := 0
	for _, fn := range transferFuncs(c, "fsutil") {
		if fnPkgShort(c, fn) != "fsutil" || c.P.IsTestFile(fn.Pos()) {
			continue
		}
		pos := c.P.Pos(fn.Pos())
		if i := strings.Index(pos, ":"); i < 0 || !wfiles[pos[:i]] {
			continue
		}
		for _, call := range eng.Calls(fn) {
			name := c.P.CalleeName(call)
			// (also: the caller's callback, and every error-returning
			// function of the walking code itself)
			own := false
			if f := call.Common().StaticCallee(); f != nil && fnPkgShort(c, f) == "fsutil" {
				fp := c.P.Pos(f.Pos())
				if i := strings.Index(fp, ":"); i > 0 && wfiles[fp[:i]] {
					_, _, own = c.errValueOf(call)
				}
				// (a function that is handed an error and returns one
				// transforms errors, it is not a source of failures)
				for _, q := range f.Params {
					if types.TypeString(q.Type(), nil) == "error" {
						own = false
					}
				}
			}
			if !wwant[name] && !own && name != "param:fn" && name != "freevar:fn" && name != "local:fn" {
				continue
			}
			if strings.HasSuffix(name, ").Close") {
				continue
			}
			if _, isDefer := call.(*ssa.Defer); isDefer {
				continue
			}
			if t, ok := tabled(c, r046WalkExceptions, call); ok {
				if len(t.preds) == 0 {
					c.R.OK(rule, c.siteName(call)+"/tabled", c.pos(call), "tabled: "+t.why)
				} else {
					nw++
					c.ObErrCheckedTolerating(rule, call, t.why, t.preds...)
				}
				continue
			}
			nw++
			c.ObErrChecked(rule, call)
		}
	}
	c.R.Floor(rule, "must-check source-access sites in the walking code", nw, 10)
	c.R.Floor(rule, "best-effort send sites", be, 3)
	// the one swallowed source error, by design (C11): FS.Open in sendFile
	sf := c.Fn(rule, "fsutil.(*sender).sendFile")
	if sf != nil {
		opens := c.P.CallsTo(sf, "(fsutil.FS).Open")
		c.R.Exact(rule, "FS.Open sites in sendFile (error deliberately turned into empty content, see C11)", len(opens), 1)
	}
}

// R04.7 goroutines are owned.
func r04_7(c *Ctx, rule string) {
	c.R.Rule(rule, "no bare go statement in non-test code; every errgroup.Go on a locally created group is followed by the group's Wait on every path to a return")
	countGo := func(fns []*ssa.Function) []ssa.Instruction {
		var out []ssa.Instruction
		for _, fn := range fns {
			eng.Instrs(fn, func(in ssa.Instruction) {
				if _, ok := in.(*ssa.Go); ok {
					out = append(out, in)
				}
			})
		}
		return out
	}
	gos := countGo(transferFuncs(c, "fsutil", "copy", "util", "types"))
	for i, g := range gos {
		c.R.Fail(rule, fmt.Sprintf("%s/go#%d", c.name(g.Parent()), i+1), c.pos(g), "bare go statement: the goroutine is not joined by any errgroup, so Send/Receive can return while it still runs")
	}
	if len(gos) == 0 {
		c.R.OK(rule, "go-statements", "-", "no bare go statement in packages fsutil, copy, util, types")
	}
	// positive control: errgroup.Group.Go itself contains a go statement
	var egGo *ssa.Function
	for _, fn := range transferFuncs(c, "fsutil") {
		for _, call := range c.P.CallsTo(fn, "(*golang.org/x/sync/errgroup.Group).Go") {
			if f := call.Common().StaticCallee(); f != nil {
				egGo = f
			}
		}
	}
	fired := false
	if egGo != nil {
		fired = len(countGo([]*ssa.Function{egGo})) > 0
	}
	c.R.Canary(rule, fired, "go statement inside errgroup.Group.Go")
	n := 0
	for _, fn := range transferFuncs(c, "fsutil", "copy") {
		for _, call := range c.P.CallsTo(fn, "(*golang.org/x/sync/errgroup.Group).Go") {
			n++
			con := c.siteName(call) + "/joined"
			grp := call.Common().Args[0]
			local := c.DerivesFrom(grp, func(v ssa.Value) bool {
				return c.isCallValueTo(v, "golang.org/x/sync/errgroup.WithContext")
			}, 4) && !c.DerivesFrom(grp, func(v ssa.Value) bool { _, _, _, ok := eng.LoadedField(v); return ok }, 2)
			if !local {
				owner, _, _, isField := eng.LoadedField(grp)
				c.R.Check(isField && owner == "fsutil.DiskWriter.eg", rule, con, c.pos(call), "group stored in DiskWriter.eg; joined by DiskWriter.Wait (R04.5)", "goroutine started on a group that is neither local nor DiskWriter.eg: nothing is known to join it")
				continue
			}
			x := c.explorer(fn)
			x.From = call
			x.Barrier = func(in ssa.Instruction, st *eng.State) bool {
				return c.P.IsCallTo(in, "(*golang.org/x/sync/errgroup.Group).Wait")
			}
			x.Target = func(in ssa.Instruction, st *eng.State) bool { return isReturn(in) }
			x.StopAtTarget = true
			hits := x.Run()
			c.R.Check(len(hits) == 0 && !x.Exhausted, rule, con, c.pos(call), "the group's Wait precedes every return after this Go", "a return is reachable after starting this goroutine without waiting for the group")
		}
	}
	c.R.Floor(rule, "errgroup.Go sites", n, 8)
}

// R04.8 context polled in walkers.
func r04_8(c *Ctx, rule string) {
	c.R.Rule(rule, "the user callback of fs.Walk and filterFS.Walk is only called on the default arm of a select on ctx.Done()")
	n := 0
	for _, name := range []string{"fsutil.(*fs).Walk", "fsutil.(*filterFS).Walk"} {
		w := c.Fn(rule, name)
		if w == nil {
			continue
		}
		for _, lit := range eng.Closures(w) {
			for _, call := range c.P.CallsTo(lit, "freevar:fn") {
				n++
				ok := false
				eng.Instrs(lit, func(in ssa.Instruction) {
					sel, isSel := in.(*ssa.Select)
					if !isSel || sel.Blocking {
						return
					}
					hasCtx := false
					for _, st := range sel.States {
						if c.P.ChanDesc(st.Chan) == "ctx.Done" {
							hasCtx = true
						}
					}
					if !hasCtx {
						return
					}
					if d := eng.DefaultArm(sel); d != nil && (d == call.Block() || d.Dominates(call.Block()) || (len(d.Instrs) > 0 && eng.Dominates(d.Instrs[0], call))) {
						ok = true // (the call may sit in a helper entered from the default arm)
					}
				})
				c.R.Analysed(c.name(lit))
				c.R.Check(ok, rule, c.siteName(call)+"/ctx-polled", c.pos(call), "called on the default arm of a ctx.Done() poll", "the walk callback is invoked without first polling ctx.Done(): a cancelled walk keeps reporting entries")
			}
		}
	}
	c.R.Floor(rule, "walk callback sites", n, 3)
	// nextPath and getWalkerFn's send are selects with ctx.Done (covered by R04.1)
}

// R04.9: a failing change cancels the writers; Receive cancels its context on return.
func r04_9(c *Ctx, rule string) {
	c.R.Rule(rule, "DiskWriter.HandleChange installs, before any filesystem mutation, a deferred function that calls the writer's cancel when the change fails; Receive defers the cancel of the context it derives")
	hc := c.Fn(rule, "fsutil.(*DiskWriter).HandleChange")
	if hc != nil {
		def, lit := c.actingDefer(hc, c.callPred("field:fsutil.DiskWriter.cancel"))
		con := c.name(hc) + "/cancel-on-failure"
		if def == nil {
			c.R.Fail(rule, con, c.P.Pos(hc.Pos()), "HandleChange has no deferred function that cancels the writer context on failure: after a failed change the asynchronous writers keep waiting for data that will never be requested")
		} else {
			ok, _, _ := c.Precedes(hc, nil, nil, func(in ssa.Instruction) bool { return in == ssa.Instruction(def) }, c.callPred(append(append([]string{}, hcMutatorsC04...), "fsutil.(*DiskWriter).processChange", "fsutil.(*DiskWriter).requestAsyncFileData")...))
			c.R.Check(ok, rule, con+"/installed-first", c.pos(def), "installed before any mutation or hand-off", "a mutation or hand-off of HandleChange is reachable before the cancel-on-failure defer is installed")
			hit, und, cell := c.deferActsOnOwnResult(def, lit, c.callPred("field:fsutil.DiskWriter.cancel"))
			c.R.Check(!und && hit != nil && cell != "", rule, con+"/cancels", c.P.Pos(lit.Pos()), "with a non-nil result the deferred function calls cancel", "the deferred function does not call cancel when the change failed (its own named result is non-nil): it tests no error variable or another one")
			// the cancel really cancels the context the writers run under
			nd := c.Fn(rule, "fsutil.NewDiskWriter")
			if nd != nil {
				okc := false
				for _, s := range fieldStoresIn(nd, "fsutil.DiskWriter.cancel") {
					if c.DerivesFrom(s.Val, func(v ssa.Value) bool { return c.isCallValueTo(v, "context.WithCancel") }, 3) {
						okc = true
					}
				}
				okg := false
				for _, call := range c.P.CallsTo(nd, "golang.org/x/sync/errgroup.WithContext") {
					if c.DerivesFrom(call.Common().Args[0], func(v ssa.Value) bool { return c.isCallValueTo(v, "context.WithCancel") }, 3) {
						okg = true
					}
				}
				c.R.Check(okc && okg, rule, c.name(nd)+"/cancel-wiring", c.P.Pos(nd.Pos()), "DiskWriter.cancel cancels the context the writer group derives from", "DiskWriter.cancel is not the cancel function of the context the writer group runs under")
			}
		}
	}
	rc := c.Fn(rule, "fsutil.Receive")
	if rc != nil {
		ok := false
		eng.Instrs(rc, func(in ssa.Instruction) {
			if d, isD := in.(*ssa.Defer); isD {
				if c.DerivesFrom(d.Call.Value, func(v ssa.Value) bool { return c.isCallValueTo(v, "context.WithCancel") }, 3) && d.Block().Index == 0 {
					ok = true
				}
			}
		})
		c.R.Check(ok, rule, c.name(rc)+"/defer-cancel", c.P.Pos(rc.Pos()), "Receive defers the cancel of its derived context", "Receive does not cancel its derived context on return: goroutines selecting on it outlive the call")
	}
}

var hcMutatorsC04 = []string{"os.RemoveAll", "fsutil.rewriteMetadata", "os.Mkdir", "fsutil.handleTarTypeBlockCharFifo", "os.Symlink", "os.Link", "os.OpenFile", "fsutil.renameFile"}

// R04.10: goroutines of a group run under the group's context.
func r04_10(c *Ctx, rule string) {
	c.R.Rule(rule, "in a function that derives an errgroup context and starts goroutines on that group, the parent context is not used again (by the function or its literals): every select, poll and callee of those goroutines observes the group's cancellation")
	n := 0
	for _, fn := range transferFuncs(c, "fsutil", "copy") {
		if fn.Parent() != nil {
			continue
		}
		var wc *ssa.Call
		for _, call := range c.P.CallsTo(fn, "golang.org/x/sync/errgroup.WithContext") {
			wc, _ = call.(*ssa.Call)
		}
		if wc == nil || len(c.P.CallsTo(fn, "(*golang.org/x/sync/errgroup.Group).Go")) == 0 {
			continue
		}
		n++
		c.R.Analysed(c.name(fn))
		parent := wc.Call.Args[0]
		// the parent context value: a parameter, possibly spilled to a captured cell
		var cells []ssa.Value
		cells = append(cells, parent)
		if u, ok := parent.(*ssa.UnOp); ok && u.Op == token.MUL {
			cells = append(cells, u.X)
		}
		if p, ok := parent.(*ssa.Parameter); ok {
			for _, r := range eng.Referrers(p) {
				if s, isS := r.(*ssa.Store); isS && s.Val == ssa.Value(p) {
					cells = append(cells, s.Addr)
				}
			}
		}
		// `g, ctx := errgroup.WithContext(ctx)` re-assigns the same variable:
		// a cell that is stored the derived context afterwards holds the
		// group context from then on.
		rebound := func(cell ssa.Value) bool {
			for _, r := range eng.Referrers(cell) {
				if s, isS := r.(*ssa.Store); isS && s.Addr == cell {
					if e, isE := s.Val.(*ssa.Extract); isE && e.Tuple == ssa.Value(wc) {
						return true
					}
				}
			}
			return false
		}
		preCells := append([]ssa.Value(nil), cells...) // before the derivation every cell holds the parent
		var kept []ssa.Value
		for _, v := range cells {
			if _, isAlloc := v.(*ssa.Alloc); isAlloc && rebound(v) {
				continue
			}
			kept = append(kept, v)
		}
		cells = kept
		bad := 0
		check := func(f *ssa.Function, v ssa.Value) {
			for _, r := range eng.Referrers(v) {
				switch x := r.(type) {
				case *ssa.Store:
					if x.Addr == v || x.Val == v && f == fn && !eng.Dominates(wc, x) {
						continue // the spill of the parameter itself
					}
				case *ssa.MakeClosure, *ssa.DebugRef:
					continue
				}
				if r == ssa.Instruction(wc) {
					continue
				}
				if u, isU := r.(*ssa.UnOp); isU && u.Op == token.MUL {
					// a load of the cell: who uses the loaded value?
					for _, r2 := range eng.Referrers(u) {
						if r2 == ssa.Instruction(wc) {
							continue
						}
						if f == fn && !eng.Dominates(wc, r2) {
							continue
						}
						bad++
						c.R.Fail(rule, fmt.Sprintf("%s/parent-context-use#%d", c.name(fn), bad), c.pos(r2), "the parent context of "+c.name(fn)+" is used in "+c.name(f)+" after the group context was derived: this wait/poll/callee does not see the group's cancellation (a failed sibling goroutine) and can block forever")
					}
					continue
				}
				if f == fn && !eng.Dominates(wc, r) {
					continue
				}
				bad++
				c.R.Fail(rule, fmt.Sprintf("%s/parent-context-use#%d", c.name(fn), bad), c.pos(r), "the parent context of "+c.name(fn)+" is used in "+c.name(f)+" after the group context was derived")
			}
		}
		for _, v := range cells {
			check(fn, v)
		}
		// captured in literals
		for _, lit := range eng.Closures(fn) {
			for _, fv := range lit.FreeVars {
				root := c.P.Census().Root(fv)
				for _, v := range cells {
					if al, isA := v.(*ssa.Alloc); isA && root == al {
						check(lit, fv)
					}
				}
			}
		}
		// before the group context exists the parent context must not be handed
		// to module code that keeps it (a writer, a walker): what that code
		// starts or waits for would not see the group's cancellation
		isParentVal := func(v ssa.Value) bool {
			v = eng.Strip(v)
			for _, cv := range preCells {
				if v == cv {
					return true
				}
				if u, ok := v.(*ssa.UnOp); ok && u.Op == token.MUL && u.X == cv {
					return true
				}
			}
			if v == parent {
				return true
			}
			return false
		}
		eng.InstrsShallow(fn, func(in ssa.Instruction) {
			call, ok := in.(ssa.CallInstruction)
			if !ok || in == ssa.Instruction(wc) || eng.Dominates(wc, in) {
				return
			}
			callee := call.Common().StaticCallee()
			if callee == nil || !c.P.InModule(callee) {
				return
			}
			for _, a := range call.Common().Args {
				if types.TypeString(a.Type(), nil) == "context.Context" && isParentVal(a) {
					bad++
					c.R.Fail(rule, fmt.Sprintf("%s/parent-context-use#%d", c.name(fn), bad), c.pos(in), "the parent context of "+c.name(fn)+" is handed to "+c.P.CalleeName(call)+" before the group context is derived: whatever that call sets up (writers, waits) does not see the group's cancellation when a sibling goroutine fails")
				}
			}
		})
		if bad == 0 {
			c.R.OK(rule, c.name(fn)+"/group-context-only", c.pos(wc), "after deriving the group context the parent context is not used again")
		}
	}
	c.R.Floor(rule, "functions deriving a group context and starting goroutines on it", n, 3)
}

// blockingPrimitives: calls that may block the caller indefinitely and carry
// no context. Each site must be tabled.
var blockingPrimitives = map[string]bool{
	"(*sync.WaitGroup).Wait": true, "(*sync.Cond).Wait": true, "time.Sleep": true,
	"(*golang.org/x/sync/errgroup.Group).Wait": true, "(*golang.org/x/sync/errgroup.Group).SetLimit": true,
	"(*golang.org/x/sync/semaphore.Weighted).Acquire": true, "(*sync.Once).Do": false,
}

var blockingAllowed = map[string]string{
	"fsutil.(*sender).run/(*golang.org/x/sync/errgroup.Group).Wait":      "joins the sender's goroutines, all of which observe the group context (R04.1, R04.10)",
	"fsutil.(*receiver).run/(*golang.org/x/sync/errgroup.Group).Wait":    "joins the receiver's goroutines",
	"fsutil.doubleWalkDiff/(*golang.org/x/sync/errgroup.Group).Wait":     "joins the two walkers and the comparing loop",
	"fsutil.(*DiskWriter).Wait/(*golang.org/x/sync/errgroup.Group).Wait": "joins the asynchronous writers; called by the diff goroutine only after the diff ended",
}

// R04.11: census of context-free blocking primitives.
func r04_11(c *Ctx, rule string) {
	c.R.Rule(rule, "context-free blocking primitives (WaitGroup/Cond/errgroup Wait, Sleep, semaphore Acquire, errgroup SetLimit - which makes Group.Go block its caller) occur only at tabled sites")
	n := 0
	for _, fn := range transferFuncs(c, "fsutil", "copy", "util") {
		for _, call := range eng.Calls(fn) {
			name := c.P.CalleeName(call)
			if !blockingPrimitives[name] {
				continue
			}
			n++
			key := c.name(fn) + "/" + name
			if why, ok := blockingAllowed[key]; ok {
				c.R.OK(rule, c.siteName(call), c.pos(call), "tabled: "+why)
				continue
			}
			extra := ""
			if strings.HasSuffix(name, "SetLimit") {
				extra = ": with a limit Group.Go blocks its caller until a slot is free; here the caller is the goroutine that must keep consuming the stream, so the transfer deadlocks once the limit is reached"
			}
			c.R.Fail(rule, c.siteName(call), c.pos(call), "context-free blocking call "+name+" in "+c.name(fn)+" is not in the table of joins"+extra)
		}
	}
	c.R.Floor(rule, "blocking primitive sites", n, 4)
}

// unwrapKey strips the nil-preserving error wrappers (errors.Wrap(err, ...) is
// nil exactly when err is) from an explorer key.
func unwrapKey(k string) string {
	for strings.HasPrefix(k, "wrap(") && strings.HasSuffix(k, ")") {
		k = k[len("wrap(") : len(k)-1]
	}
	return k
}

// R04.15: a walk callback honours the error it is handed.
//
// filepath.WalkDir, FS.Walk and fsutil.Walk report a failure to read an entry
// by calling the callback with a non-nil error (and possibly a nil entry). A
// callback that goes on as if nothing happened either drops the failure or
// dereferences the missing entry. For every function literal of the shape
// func(string, DirEntry|FileInfo, error) error: with the error argument
// non-nil (and none of the "tolerable error" predicates true) no success
// return is reachable.
func r04_15(c *Ctx, rule string) {
	c.R.Rule(rule, "every walk callback (func(path, entry, err) error literal) of the module: with a non-nil error argument that no tolerance predicate accepts, no success return is reachable")
	n := 0
	for _, fn := range c.P.AllModFuncs() {
		if fn.Parent() == nil && c.P.Encloser(fn) == nil {
			continue
		}
		sig := fn.Signature
		if sig.Params().Len() != 3 || sig.Results().Len() != 1 {
			continue
		}
		if eng.TypeStr(sig.Params().At(0).Type()) != "string" || eng.TypeStr(sig.Params().At(2).Type()) != "error" || eng.TypeStr(sig.Results().At(0).Type()) != "error" {
			continue
		}
		if t := eng.TypeStr(sig.Params().At(1).Type()); t != "io/fs.DirEntry" && t != "io/fs.FileInfo" && t != "os.DirEntry" && t != "os.FileInfo" {
			continue
		}
		if strings.HasPrefix(c.name(fn), "cmd/") {
			continue
		}
		if c.P.IsTestFile(fn.Pos()) || len(fn.Blocks) == 0 {
			continue
		}
		var ep *ssa.Parameter
		for _, q := range fn.Params {
			if eng.TypeStr(q.Type()) == "error" {
				ep = q
			}
		}
		if ep == nil {
			continue
		}
		n++
		c.R.Analysed(c.name(fn))
		con := c.name(fn) + "/error-argument-honoured"
		x := c.explorer(fn)
		as := map[string]bool{}
		isEP := func(v ssa.Value) bool {
			v = eng.Strip(v)
			if v == ssa.Value(ep) {
				return true
			}
			if mi, ok := v.(*ssa.MakeInterface); ok {
				return eng.Strip(mi.X) == ssa.Value(ep)
			}
			return false
		}
		eng.Instrs(fn, func(in ssa.Instruction) {
			switch v := in.(type) {
			case *ssa.BinOp:
				if (v.Op == token.EQL || v.Op == token.NEQ) && isEP(v.X) {
					if k, isC := v.Y.(*ssa.Const); isC && k.IsNil() {
						as[x.KeyAtEntry(v)] = v.Op == token.NEQ
					}
				}
			case *ssa.Call:
				// tolerance predicates: errors.Is(err, X), os.IsNotExist(err), a module helper of the error
				if b, ok := v.Type().Underlying().(*types.Basic); ok && b.Kind() == types.Bool {
					for _, a := range v.Call.Args {
						if isEP(a) {
							as[x.KeyAtEntry(v)] = false
						}
					}
				}
			}
		})
		if len(as) == 0 {
			// handed on as it is (`return fn(p, e, err)`)? then the callee decides
			forwards := false
			eng.Instrs(fn, func(in ssa.Instruction) {
				if call, ok := in.(ssa.CallInstruction); ok {
					for _, a := range call.Common().Args {
						if isEP(a) {
							forwards = true
						}
					}
				}
			})
			c.R.Check(forwards, rule, con, c.P.Pos(fn.Pos()), "the error argument is handed on", "the walk callback never looks at its error argument: a failure to read an entry is dropped, or the missing entry is dereferenced")
			continue
		}
		// handing the error on (`return fn(path, info, err)`) leaves the decision to the callee
		handsOn := func(in ssa.Instruction) bool {
			call, ok := in.(ssa.CallInstruction)
			if !ok {
				return false
			}
			if rs := call.Common().Signature().Results(); rs.Len() == 1 {
				if b, isB := rs.At(0).Type().Underlying().(*types.Basic); isB && b.Kind() == types.Bool {
					return false
				}
			}
			for _, a := range call.Common().Args {
				if eng.TypeStr(a.Type()) == "error" && c.DerivesFrom(a, func(y ssa.Value) bool { return y == ssa.Value(ep) }, 4) {
					return true
				}
			}
			return false
		}
		hit, und := c.SuccessAvoiding(fn, nil, as, nil, handsOn)
		switch {
		case und:
			c.R.Undecided(rule, con, c.P.Pos(fn.Pos()), "state limit")
		case hit != nil:
			c.R.Fail(rule, con, c.pos(hit.Instr), "the walk callback can return success although it was handed an error that none of its tolerance tests accepts; path "+eng.BlockTrace(fn, hit.Trace))
		default:
			c.R.OK(rule, con, c.P.Pos(fn.Pos()), "a non-nil error argument leads to a failing return (or a tolerated case)")
		}
	}
	c.R.Floor(rule, "walk callbacks in the module", n, 11)
}

// dropOK: callees whose error may be left unread anywhere in the analysed
// packages, with the reason. (Sites where an unread error would break a
// property have rules of their own: R01.8, R04.3, R04.6, R13.x, R19.6.)
var dropOK = map[string]string{
	"(*os.File).Close":                     "closing on a path that already returns an error, or after the data was synced by a checked Close elsewhere (checked closes: R01.8, R19.6)",
	"(io.Closer).Close":                    "as (*os.File).Close",
	"os.Remove":                            "removal of something that may not exist (the listing file's previous entry, R19.6)",
	"path/filepath.Match":                  "a malformed pattern matches nothing",
	"io.WriteString":                       "formatting helpers (fmt.Formatter implementations) have nowhere to report to",
	"syscall.CloseHandle":                  "windows: closing a handle on the way out",
	"golang.org/x/sys/windows.CloseHandle": "windows: closing a handle on the way out",
	"github.com/containerd/continuity/sysx.LSetxattr": "xattrs are applied best effort in the disk writer (R01.2)",
}

// errDisciplineAll is the drop half of E8 over whole packages: every call
// whose callee returns an error has that error read by something (a test, a
// return, a wrap, a store). A deleted `if err != nil { return err }` leaves
// the error unread. Best-effort ERR/FIN sends, closes and the callees in
// dropOK are exempt. (Whether a read error can still end in success is
// decided by the rules that know the site: E8 proper in R01.8, R04.6, R13.x.)
func errDisciplineAll(c *Ctx, rule string, floor int, pkgs ...string) {
	c.R.Rule(rule, "packages "+strings.Join(pkgs, ", ")+": no error result is left unread (dropped), except best-effort ERR/FIN sends, closes and the tabled callees")
	n := 0
	for _, fn := range transferFuncs(c, pkgs...) {
		if c.P.IsTestFile(fn.Pos()) || strings.Contains(c.P.Pos(fn.Pos()), ".pb.go") || strings.HasPrefix(c.name(fn), "cmd/") {
			continue
		}
		for _, call := range eng.Calls(fn) {
			if _, isDefer := call.(*ssa.Defer); isDefer {
				continue
			}
			if _, isGo := call.(*ssa.Go); isGo {
				continue
			}
			_, used, has := c.errValueOf(call)
			if !has {
				continue
			}
			name := c.P.CalleeName(call)
			if errWrapNames[name] || strings.HasPrefix(name, "builtin:") {
				continue
			}
			n++
			con := c.siteName(call) + "/error-read"
			switch {
			case used:
				c.R.OK(rule, con, c.pos(call), "the error is read")
			case dropOK[name] != "":
				c.R.OK(rule, con, c.pos(call), "unread by design: "+dropOK[name])
			case strings.HasSuffix(name, ").Close"):
				c.R.OK(rule, con, c.pos(call), "unread by design: "+dropOK["(*os.File).Close"])
			default:
				if ok, why := c.bestEffortSend(call); ok {
					c.R.OK(rule, con, c.pos(call), "unread by design: "+why)
					continue
				}
				c.R.Fail(rule, con, c.pos(call), "the error result of "+name+" is never read: a failure here goes unnoticed (an `if err != nil` was removed, or the result is assigned and overwritten)")
			}
		}
	}
	c.R.Floor(rule, "error-returning call sites", n, floor)
}

var errWrapNames = map[string]bool{
	"github.com/pkg/errors.Wrap": true, "github.com/pkg/errors.Wrapf": true, "github.com/pkg/errors.WithStack": true,
	"github.com/pkg/errors.WithMessage": true, "github.com/pkg/errors.Errorf": true, "github.com/pkg/errors.New": true,
	"errors.New": true, "fmt.Errorf": true, "(context.Context).Err": true,
}

// rangeLikeRecv: a receive that is ended by the channel being closed:
// `for v := range ch` or its spelling `v, ok := <-ch; if !ok { break }`
// inside a loop (go/ssa lowers the former to the latter).
func rangeLikeRecv(u *ssa.UnOp) bool {
	if u.Op != token.ARROW || !u.CommaOk {
		return false
	}
	if strings.HasPrefix(u.Block().Comment, "rangechan") {
		return true
	}
	if !eng.InCycle(u.Block()) {
		return false
	}
	for _, r := range eng.Referrers(u) {
		e, ok := r.(*ssa.Extract)
		if !ok || e.Index != 1 {
			continue
		}
		for _, r2 := range eng.Referrers(e) {
			switch y := r2.(type) {
			case *ssa.If:
				return true
			case *ssa.UnOp:
				if y.Op == token.NOT {
					for _, r3 := range eng.Referrers(y) {
						if _, isIf := r3.(*ssa.If); isIf {
							return true
						}
					}
				}
			}
		}
	}
	return false
}

// onTrueEdgeOf reports whether block b is only entered over the true edge of
// an If whose condition is the (possibly negated: then the false edge) result
// of a call accepted by pred: the successor on that edge has the If's block as
// its only predecessor and dominates b.
func onTrueEdgeOf(b *ssa.BasicBlock, pred func(*ssa.Call) bool) bool {
	for _, blk := range b.Parent().Blocks {
		if len(blk.Instrs) == 0 {
			continue
		}
		iff, ok := blk.Instrs[len(blk.Instrs)-1].(*ssa.If)
		if !ok {
			continue
		}
		cond, edge := iff.Cond, 0
		for {
			u, isNot := cond.(*ssa.UnOp)
			if !isNot || u.Op != token.NOT {
				break
			}
			cond, edge = u.X, 1-edge
		}
		call, isCall := cond.(*ssa.Call)
		if !isCall || !pred(call) {
			continue
		}
		t := blk.Succs[edge]
		if len(t.Preds) == 1 && (t == b || t.Dominates(b)) {
			return true
		}
	}
	return false
}

// R04.17: errors are only ever rewritten to "skip" or retried under a test of
// that very error.
func r04_17(c *Ctx, rule string) {
	c.R.Rule(rule, "a deferred function that overwrites the named error result of a walk callback with a value not derived from it (SkipDir, nil) does so only on the true edge of a predicate call on that result (not-exist test); the recursive retry in DiskWriter.HandleChange after a failed Mkdir is entered only on the true edge of errors.Is(err, EEXIST)")
	n := 0
	for _, fn := range transferFuncs(c, "fsutil") {
		for _, in := range allInstrsShallow(fn) {
			def, ok := in.(*ssa.Defer)
			if !ok {
				continue
			}
			mc, ok := def.Call.Value.(*ssa.MakeClosure)
			if !ok {
				continue
			}
			lit := c.P.ClosureFn(mc)
			rs := fn.Signature.Results()
			if lit == nil || rs.Len() != 1 || rs.At(0).Name() == "" {
				continue
			}
			for i, fv := range lit.FreeVars {
				if !isErrorPtr(fv.Type()) || i >= len(mc.Bindings) {
					continue
				}
				a, isA := mc.Bindings[i].(*ssa.Alloc)
				if !isA || a.Parent() != fn || a.Comment != rs.At(0).Name() {
					continue
				}
				for _, li := range allInstrsShallow(lit) {
					st, isS := li.(*ssa.Store)
					if !isS || st.Addr != ssa.Value(fv) {
						continue
					}
					isOld := func(v ssa.Value) bool {
						ld, isL := v.(*ssa.UnOp)
						return isL && ld.Op == token.MUL && ld.X == ssa.Value(fv)
					}
					// the new value comes from a function of the module that is
					// handed the old one (`retErr = skipIfNotExist(retErr)`):
					// whatever that function returns instead of its argument it
					// returns on the true edge of a predicate on its argument
					if hc, isC := st.Val.(*ssa.Call); isC {
						if h := hc.Common().StaticCallee(); h != nil && c.P.InModule(h) && len(h.Params) == len(hc.Call.Args) {
							var ep *ssa.Parameter
							for i, a := range hc.Call.Args {
								if isOld(a) {
									ep = h.Params[i]
								}
							}
							if ep != nil {
								for _, hi := range allInstrsShallow(h) {
									r, isR := hi.(*ssa.Return)
									if !isR || len(r.Results) != 1 {
										continue
									}
									if c.DerivesFrom(r.Results[0], func(v ssa.Value) bool { return v == ssa.Value(ep) }, 4) {
										continue
									}
									n++
									ok := onTrueEdgeOf(r.Block(), func(call *ssa.Call) bool {
										for _, arg := range call.Call.Args {
											if arg == ssa.Value(ep) {
												return true
											}
										}
										return false
									})
									c.R.Check(ok, rule, c.name(h)+"/result-replaced@"+blockName(r), c.pos(r), "the error is replaced only on the true edge of a predicate on that very error", "a function that rewrites a walk callback's error result returns another value without a dominating test of its argument: every failure (cancellation, a failed send, a failed stat) is swallowed as if the entry had vanished")
								}
								continue
							}
						}
					}
					// a value made from the old error (wrapping) keeps it
					if c.DerivesFrom(st.Val, isOld, 4) {
						continue
					}
					n++
					ok := onTrueEdgeOf(st.Block(), func(call *ssa.Call) bool {
						for _, arg := range call.Call.Args {
							if ld, isL := arg.(*ssa.UnOp); isL && ld.Op == token.MUL && ld.X == ssa.Value(fv) {
								return true
							}
						}
						return false
					})
					c.R.Check(ok, rule, c.name(lit)+"/result-overwrite@"+blockName(st), c.pos(st), "the result is replaced only on the true edge of a predicate on that very error", "a deferred function replaces the callback's error result by another value without a dominating test of that error: every failure (cancellation, a failed send, a failed stat) is swallowed as if the entry had vanished")
				}
			}
		}
	}
	c.R.Floor(rule, "guarded overwrites of a callback's error result", n, 1)
	// the Mkdir retry
	if hc := c.Fn(rule, "fsutil.(*DiskWriter).HandleChange"); hc != nil {
		eexist := func(p *ssa.Call) bool {
			n := c.P.CalleeName(p)
			if n == "os.IsExist" {
				return true
			}
			if (n != "errors.Is" && n != "github.com/pkg/errors.Is") || len(p.Call.Args) != 2 {
				return false
			}
			mi, isMI := p.Call.Args[1].(*ssa.MakeInterface)
			if !isMI {
				return false
			}
			k, isK := mi.X.(*ssa.Const)
			if !isK || k.Value == nil {
				return false
			}
			for _, imp := range hc.Pkg.Pkg.Imports() {
				if imp.Path() != "syscall" {
					continue
				}
				if o, isC := imp.Scope().Lookup("EEXIST").(*types.Const); isC {
					return constant.Compare(o.Val(), token.EQL, k.Value)
				}
			}
			return false
		}
		var retries []ssa.CallInstruction
		var tests []*ssa.Call
		for _, call := range eng.Calls(hc) {
			if call.Common().StaticCallee() == hc {
				retries = append(retries, call)
			}
			if cv, ok := call.(*ssa.Call); ok && eexist(cv) {
				tests = append(tests, cv)
			}
		}
		switch {
		case len(retries) == 0:
			c.R.OK(rule, c.name(hc)+"/no-retry", c.P.Pos(hc.Pos()), "HandleChange does not call itself")
		case len(tests) == 0:
			c.R.OK(rule, c.name(hc)+"/retry-guard-not-interpreted", c.P.Pos(hc.Pos()), "HandleChange calls itself under a guard this rule does not interpret (no errors.Is(err, EEXIST) / os.IsExist test)")
		default:
			// with every already-exists test false, no retry is reachable
			// (the test may sit in a helper and travel as a flag)
			x := c.explorer(hc)
			x.Assume = map[string]bool{}
			for _, t := range tests {
				x.Assume[x.RegKey(t)] = false
			}
			x.Target = func(in ssa.Instruction, st *eng.State) bool {
				ci, ok := in.(ssa.CallInstruction)
				return ok && ci.Common().StaticCallee() == hc
			}
			x.StopAtTarget = true
			hits := x.Run()
			con := c.name(hc) + "/retry-only-on-EEXIST"
			switch {
			case x.Exhausted:
				c.R.Undecided(rule, con, c.P.Pos(hc.Pos()), "state limit exceeded while exploring "+c.name(hc))
			case len(hits) > 0:
				c.R.Fail(rule, con, c.pos(hits[0].Instr), "HandleChange calls itself again although the error is not EEXIST: a persistent failure (ENOSPC, EACCES) recurses without end; path "+eng.BlockTrace(hc, hits[0].Trace))
			default:
				c.R.OK(rule, con, c.pos(retries[0]), "the change is retried only when the directory already existed")
			}
		}
	}
}

func allInstrsShallow(fn *ssa.Function) []ssa.Instruction {
	var out []ssa.Instruction
	for _, b := range fn.Blocks {
		out = append(out, b.Instrs...)
	}
	return out
}

// R04.21: what an aborted run leaves behind looks unfinished.
//
// The disk writer creates a regular file, applies the source's metadata -
// the mtime included - and only then asks for the content. If the run dies in
// between, the next run's differ (size, mtime, mode, owner) must see that the
// file is not the source's: it does, because the placeholder is empty. Sizing
// the placeholder up front (Truncate, a preallocating write, a seek) makes a
// zero-filled file that compares equal, and every later transfer succeeds
// over it. The file HandleChange creates is therefore only ever closed there,
// or handed to the synchronous data callback.
func r04_21(c *Ctx, rule string) {
	c.R.Rule(rule, "DiskWriter.HandleChange: the file it creates for a regular entry is only closed or handed to processChange (the synchronous data path); no other method of the *os.File (Truncate, Write, Seek, ...) is called on the placeholder whose content arrives later")
	hc := c.Fn(rule, "fsutil.(*DiskWriter).HandleChange")
	if hc == nil {
		return
	}
	n := 0
	for _, open := range c.P.CallsTo(hc, "os.OpenFile", "os.Create") {
		v := open.Value()
		if v == nil {
			continue
		}
		n++
		var files []ssa.Value
		for _, r := range eng.Referrers(v) {
			if e, ok := r.(*ssa.Extract); ok && e.Index == 0 {
				files = append(files, e)
			}
		}
		bad := ""
		var where ssa.Instruction
		seen := map[ssa.Value]bool{}
		var visit func(f ssa.Value, d int)
		visit = func(f ssa.Value, d int) {
			if seen[f] || d > 4 {
				return
			}
			seen[f] = true
			for _, r := range eng.Referrers(f) {
				switch u := r.(type) {
				case *ssa.MakeInterface:
					visit(u, d+1)
				case *ssa.ChangeInterface:
					visit(u, d+1)
				case *ssa.Phi:
					visit(u, d+1)
				case ssa.CallInstruction:
					cc := u.Common()
					name := c.P.CalleeName(u)
					isRecv := len(cc.Args) > 0 && cc.Args[0] == f && strings.HasPrefix(name, "(*os.File).")
					if cc.IsInvoke() && cc.Value == f {
						isRecv = true
						name = "(interface)." + cc.Method.Name()
					}
					switch {
					case isRecv && strings.HasSuffix(name, ".Close"):
					case !isRecv && name == "fsutil.(*DiskWriter).processChange":
					case isRecv:
						bad, where = name, u
					case c.P.Transparent(cc.StaticCallee()):
						// handed to a helper no rule names: not interpreted
					default:
						if bad == "" && name != "" && !strings.HasPrefix(name, "github.com/pkg/errors.") {
							bad, where = "argument of "+name, u
						}
					}
				}
			}
		}
		for _, f := range files {
			visit(f, 0)
		}
		con := c.siteName(open) + "/placeholder-stays-empty"
		if bad != "" {
			c.R.Fail(rule, con, c.pos(where), "the file created for a regular entry is touched before its content arrives ("+bad+"): a run that dies between the creation and the first chunk leaves a file with the final size and the source's mtime, which the next run's differ takes for the finished file - both ends report success over zero bytes")
		} else {
			c.R.OK(rule, con, c.pos(open), "the created file is only closed or handed to the synchronous data path")
		}
	}
	c.R.Floor(rule, "file creations in HandleChange", n, 1)
}
