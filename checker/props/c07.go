package props

import (
	"fmt"
	"go/token"
	"strings"

	"fsverif/eng"

	"golang.org/x/tools/go/ssa"
)

func init() {
	register("C07", "Structural clauses of the receiver's side of the wire protocol, decided on all paths of the receive loop and the request callback: the receiver's id counter advances by one on every loop iteration that handled a STAT carrying a stat and on no other (so it equals the sender's running index whatever the stream contains), ids are registered pre-increment only for selected regular files, a request is issued exactly once per path under one lock region with the pipe registered before REQ is sent, DATA payloads are written synchronously into non-retaining sinks (no-retain analysis over all VTA targets), FIN is sent only after diff and writers completed, and end of stream before FIN is an error. The equality that decides whether an existing entry is requested again compares each stat field of one side with the same field of the other side. Without the metadata-only option no announced entry is passed over (every STAT carrying a stat reaches the differ before the next packet is read). When the destination already has an entry at a path, what is received is written into a new entry that is renamed into place, never into the old file (whose tail would survive). Does not decide behaviour for every chunking/interleaving nor that the requested set is exactly the needed set.", runC07)
}

func runC07(c *Ctx) {
	r07_1(c, "R07.1")
	r07_2(c, "R07.2")
	r07_3(c, "R07.3")
	r02_3(c, "R07.4a")
	r02_5(c, "R07.4b")
	r07_5(c, "R07.5")
	// "never requests ... special files": the requestable predicate is the
	// full-type-mask test both ends share (shared with C06)
	r06_2(c, "R07.10")
	r04_5(c, "R07.6a")
	r04_4recv(c, "R07.6b")
	// the goroutine that forwards STATs to the writer must never wait on a
	// context-free primitive (a limited writer group would stall the stream; shared with C04)
	r04_11(c, "R07.7")
	// liveness under backpressure: nothing waits for the peer while holding a
	// mutex the receive loop needs (shared with C08)
	r08_9(c, "R07.8")
	// end of stream or ERR before FIN must end Receive: the writers' waits see
	// the group's cancellation only if the writer was built on the group context
	// (shared with C04)
	r04_10(c, "R07.9")
	// "never requests unchanged files, requests each file it needs": the
	// equality that decides whether an entry is requested compares each stat
	// field of one side with the same field of the other (shared with C02)
	r02_1(c, "R07.11")
	r07_12(c, "R07.12")
	r07_13(c, "R07.13")
}

// R07.13: without the metadata-only option nothing announced is passed over.
//
// The receive loop may leave an announced entry out of the stream it hands to
// the differ only in metadata-only mode (the listing file's own name, entries
// the selector rejected). With the option unset, every STAT that carries a
// stat is forwarded - or ends the loop with an error - before the next packet
// is read: what is not forwarded is never requested, and on a re-sync the
// destination's copy is deleted as stale, with Receive reporting success.
func r07_13(c *Ctx, rule string) {
	c.R.Rule(rule, "receive loop: with ReceiveOpt.MetadataOnly unset, every path from a STAT carrying a stat to the next RecvMsg passes the hand-over of that entry to the differ's walker (dynamicWalker.update)")
	loop := recvLoop(c, rule)
	if loop == nil {
		return
	}
	nilTest := statNilTest(c, loop)
	recv := mainRecv(c, loop)
	if nilTest == nil || recv == nil {
		c.R.Missing(rule, "test `p.Stat == nil` / main-loop RecvMsg in the receive loop")
		return
	}
	withStat := nilTest.Block().Succs[1]
	if len(withStat.Instrs) == 0 {
		c.R.Undecided(rule, c.name(loop)+"/forwarded-without-option", c.pos(nilTest), "empty successor block")
		return
	}
	x := c.explorer(loop)
	isOptionSet := func(v ssa.Value) bool {
		bo, ok := v.(*ssa.BinOp)
		if !ok || bo.Op != token.NEQ {
			return false
		}
		k, isK := bo.Y.(*ssa.Const)
		return isK && k.IsNil() && isFieldLoad(bo.X, "fsutil.receiver.metadataOnly")
	}
	as := map[string]bool{}
	for _, k := range c.trueCellKeys(loop, x, isOptionSet) {
		as[k] = false
	}
	eng.Instrs(loop, func(in ssa.Instruction) {
		if bo, ok := in.(*ssa.BinOp); ok && (bo.Op == token.NEQ || bo.Op == token.EQL) {
			if k, isK := bo.Y.(*ssa.Const); isK && k.IsNil() && isFieldLoad(bo.X, "fsutil.receiver.metadataOnly") {
				as[x.RegKey(bo)] = bo.Op == token.EQL
			}
		}
	})
	con := c.name(loop) + "/forwarded-without-option"
	if len(as) == 0 {
		c.R.OK(rule, con, c.pos(nilTest), "the loop does not read the metadata-only option in a shape this rule interprets: not decided")
		return
	}
	ex := c.explorer(loop)
	ex.From = withStat.Instrs[0]
	ex.Assume = as
	ex.Barrier = func(in ssa.Instruction, st *eng.State) bool {
		return c.P.IsCallTo(in, "fsutil.(*dynamicWalker).update")
	}
	ex.Target = func(in ssa.Instruction, st *eng.State) bool { return in == ssa.Instruction(recv) }
	ex.StopAtTarget = true
	hits := ex.Run()
	switch {
	case ex.Exhausted:
		c.R.Undecided(rule, con, c.pos(nilTest), "state limit")
	case len(hits) > 0:
		c.R.Fail(rule, con, c.pos(hits[0].Instr), "with the metadata-only option unset an announced entry can be passed over (the loop reads the next packet without having handed the entry to the differ): it is never requested, an existing copy is deleted as stale on the next sync, and Receive succeeds; path "+eng.BlockTrace(loop, hits[0].Trace))
	default:
		c.R.OK(rule, con, c.pos(nilTest), "without the option every STAT carrying a stat is forwarded (or fatal) before the next receive")
	}
}

// R07.12: what is stored under a path is what was received for it.
//
// The file writer opens without O_TRUNC and writes from offset 0: that is the
// whole content only because the file it writes into was created empty a
// moment ago, under a temporary name when the destination already has an
// entry at that path. With an old entry found by Lstat, no success return is
// reachable after a creation call without the checked rename of what was
// created onto the destination (re-using the old file keeps its tail).
func r07_12(c *Ctx, rule string) {
	c.R.Rule(rule, "DiskWriter.HandleChange: when Lstat found an entry at the destination path, every creation call is followed by a checked renameFile before any success return (the new entry is built aside and moved into place, never written into the old one)")
	hc := c.Fn(rule, "fsutil.(*DiskWriter).HandleChange")
	if hc == nil {
		return
	}
	var lstat ssa.CallInstruction
	for _, call := range c.P.CallsTo(hc, "os.Lstat") {
		lstat = call
	}
	if lstat == nil {
		c.R.Missing(rule, "os.Lstat of the destination path in HandleChange")
		return
	}
	key, _, has := c.errValueOf(lstat)
	if !has {
		c.R.Undecided(rule, c.name(hc)+"/old-entry-test", c.pos(lstat), "the error result of os.Lstat is not read in a shape this rule interprets")
		return
	}
	creates := map[ssa.Instruction]bool{}
	for _, call := range c.P.CallsTo(hc, hcCreates...) {
		creates[call] = true
	}
	n := len(creates)
	// explored from the entry, so that what the function remembers about the
	// Lstat (its `rename` flag) is known where the flag is tested
	const created = "u:created"
	ex := c.explorer(hc)
	ex.Assume = map[string]bool{"(" + key + "==nil)": true}
	// (a creation that failed made nothing: the EEXIST retry of Mkdir is not a success after a creation)
	for call := range creates {
		if k2, _, has2 := c.errValueOf(call.(ssa.CallInstruction)); has2 {
			ex.Assume["("+k2+"==nil)"] = true
		}
	}
	var first ssa.Instruction
	ex.Barrier = func(in ssa.Instruction, st *eng.State) bool {
		if c.P.IsCallTo(in, "fsutil.renameFile") {
			return true
		}
		if creates[in] {
			st.Facts[created] = true
			first = in
		}
		return false
	}
	ex.Target = func(in ssa.Instruction, st *eng.State) bool {
		return st.Facts[created] && ex.IsSuccessReturn(in, st)
	}
	ex.StopAtTarget = true
	hits := ex.Run()
	con := c.name(hc) + "/old-entry-replaced-by-rename"
	switch {
	case ex.Exhausted:
		c.R.Undecided(rule, con, c.P.Pos(hc.Pos()), "state limit")
	case len(hits) > 0:
		c.R.Fail(rule, con, c.pos(hits[0].Instr), "with an old entry at the destination path (Lstat succeeded) a success return is reachable after a creation call without renameFile: the new entry was made at the destination itself - a regular file is then written into the old file from offset 0 without truncation and the old tail survives; path "+eng.BlockTrace(hc, hits[0].Trace))
	default:
		p := c.P.Pos(hc.Pos())
		if first != nil {
			p = c.pos(first)
		}
		c.R.OK(rule, con, p, "with an old entry present every success return after a creation call passes renameFile")
	}
	c.R.Floor(rule, "creation calls in HandleChange", n, 5)
}

// recvLoop returns the receive-loop literal of receiver.run.
func recvLoop(c *Ctx, rule string) *ssa.Function {
	run := c.Fn(rule, "fsutil.(*receiver).run")
	if run == nil {
		return nil
	}
	return c.ClosureCalling(rule, run, "(fsutil.Stream).RecvMsg")
}

// statNilTest finds `if p.Stat == nil` in the receive loop.
func statNilTest(c *Ctx, loop *ssa.Function) *ssa.If {
	var out *ssa.If
	eng.Instrs(loop, func(in ssa.Instruction) {
		iff, ok := in.(*ssa.If)
		if !ok || out != nil {
			return
		}
		// (the test may be wrapped in a predicate helper)
		bo, ok := eng.Resolve(iff.Cond).(*ssa.BinOp)
		if !ok || bo.Op != token.EQL {
			return
		}
		if c0, isC := bo.Y.(*ssa.Const); !isC || !c0.IsNil() {
			return
		}
		if isFieldLoad(bo.X, "types.Packet.Stat") {
			out = iff
		}
	})
	return out
}

// idCounter finds the loop-carried id counter of the receive loop: the value
// stored in receiver.files.
func idCounter(c *Ctx, loop *ssa.Function) (*ssa.Phi, *ssa.MapUpdate) {
	var phi *ssa.Phi
	var upd *ssa.MapUpdate
	eng.Instrs(loop, func(in ssa.Instruction) {
		mu, ok := in.(*ssa.MapUpdate)
		if !ok {
			return
		}
		if !isFieldLoad(mu.Map, "fsutil.receiver.files") {
			return
		}
		upd = mu
		if p, ok := eng.Strip(mu.Value).(*ssa.Phi); ok {
			phi = p
		}
	})
	return phi, upd
}

// R07.1: the receiver counts every STAT the sender counts.
func r07_1(c *Ctx, rule string) {
	c.R.Rule(rule, "every back edge of the receive loop leaving the 'STAT with a stat' region carries the id counter + 1, every edge from outside the STAT arm carries it unchanged")
	loop := recvLoop(c, rule)
	if loop == nil {
		return
	}
	defer c.scope(loop)()
	phi, upd := idCounter(c, loop)
	if upd == nil {
		c.R.Missing(rule, "update of receiver.files in the receive loop")
		return
	}
	if phi == nil {
		// (the id may reach the update through a helper's parameter, or be
		// what the method of a counter object returns)
		if cell := c.P.LoadedCell(eng.Strip(upd.Value)); cell != "" {
			r07_1mem(c, rule, loop, upd, cell)
			return
		}
		c.R.Undecided(rule, c.name(loop)+"/id-counter", c.pos(upd), "the value stored in receiver.files is neither a loop-carried SSA phi nor a load of a counter variable that can be traced to one allocation; this rule cannot interpret the shape")
		return
	}
	nilTest := statNilTest(c, loop)
	if nilTest == nil {
		c.R.Missing(rule, "test `p.Stat == nil` in the receive loop")
		return
	}
	withStat := nilTest.Block().Succs[1]
	endMarker := nilTest.Block().Succs[0]
	if len(withStat.Preds) != 1 {
		c.R.Undecided(rule, c.name(loop)+"/stat-region", c.pos(nilTest), "the non-nil-stat successor has several predecessors; region not delimited by dominance")
		return
	}
	header := phi.Block()
	n := 0
	for i, pred := range header.Preds {
		e := phi.Edges[i]
		con := fmt.Sprintf("%s/id-counter/edge#%d", c.name(loop), i)
		last := pred.Instrs[len(pred.Instrs)-1]
		inStat := withStat == pred || withStat.Dominates(pred)
		inEnd := len(endMarker.Preds) == 1 && (endMarker == pred || endMarker.Dominates(pred))
		isInc := false
		if bo, ok := e.(*ssa.BinOp); ok && bo.Op == token.ADD && bo.X == ssa.Value(phi) {
			if k, ok := eng.ConstInt(bo.Y); ok && k == 1 {
				isInc = true
			}
		}
		_, isConst := e.(*ssa.Const)
		switch {
		case !header.Dominates(pred) || pred == header && false:
			// entry edge
			k, ok := eng.ConstInt(e)
			c.R.Check(isConst && ok && k == 0, rule, con, c.pos(last), "entry edge: counter starts at 0", "the id counter does not start at 0")
		case inStat:
			n++
			c.R.Check(isInc, rule, con, c.pos(last), "edge from the STAT-with-stat region carries counter+1",
				"a path that handled a STAT carrying a stat returns to the loop head without advancing the id counter: every later id is off by one against the sender's running STAT index")
		case inEnd:
			c.R.OK(rule, con, c.pos(last), "end-of-stats marker: no later STAT, either value is fine")
		default:
			c.R.Check(e == ssa.Value(phi), rule, con, c.pos(last), "edge from outside the STAT arm carries the counter unchanged",
				"the id counter changes on a loop iteration that did not handle a STAT")
		}
	}
	c.R.Floor(rule, "loop edges leaving the STAT-with-stat region", n, 2)
}

// counterIncs splits the stores to the counter cell into increments by one
// (`cell = cell + 1`) and the rest.
func counterIncs(c *Ctx, fn *ssa.Function, cell string) (incs, others []*ssa.Store) {
	all := append([]*ssa.Store(nil), c.P.CellStores(cell)...)
	// (a store inside a helper shared with other anchors - the method of a
	// small counter type - names this cell only when read in fn's context)
	if fn != nil {
		have := map[*ssa.Store]bool{}
		for _, s := range all {
			have[s] = true
		}
		eng.Instrs(fn, func(in ssa.Instruction) {
			if s, ok := in.(*ssa.Store); ok && !have[s] && c.P.CellID(s.Addr) == cell {
				have[s] = true
				all = append(all, s)
			}
		})
	}
	for _, s := range all {
		isInc := false
		if bo, ok := s.Val.(*ssa.BinOp); ok && bo.Op == token.ADD && c.P.LoadedCell(bo.X) == cell {
			if k, ok := eng.ConstInt(bo.Y); ok && k == 1 {
				isInc = true
			}
		}
		if isInc {
			incs = append(incs, s)
		} else {
			others = append(others, s)
		}
	}
	return
}

// r07_1mem is R07.1 for a counter kept in memory (a captured variable or a
// field of the loop's state object) instead of an SSA register: the same
// clauses, stated over paths between two receives.
func r07_1mem(c *Ctx, rule string, loop *ssa.Function, upd *ssa.MapUpdate, cell string) {
	base := c.name(loop) + "/id-counter"
	nilTest := statNilTest(c, loop)
	recv := mainRecv(c, loop)
	if nilTest == nil || recv == nil {
		c.R.Missing(rule, "test `p.Stat == nil` / main-loop RecvMsg in the receive loop")
		return
	}
	cond, _ := nilTest.Cond.(ssa.Instruction)
	inLoop := map[ssa.Instruction]bool{}
	eng.Instrs(loop, func(in ssa.Instruction) { inLoop[in] = true })
	incs, others := counterIncs(c, loop, cell)
	initOK := true
	for _, s := range others {
		if k, ok := eng.ConstInt(s.Val); !ok || k != 0 || (inLoop[s] && eng.InCycle(s.Block())) {
			initOK = false // (an initialisation in the loop's function but before the loop is fine)
		}
	}
	c.R.Check(initOK, rule, base+"/initial", c.pos(upd), "the counter starts at 0 and is only ever advanced by one", "the id counter does not start at 0, or is assigned something other than counter+1")
	isInc := func(in ssa.Instruction) bool {
		for _, s := range incs {
			if in == ssa.Instruction(s) {
				return true
			}
		}
		return false
	}
	isRecv := func(in ssa.Instruction) bool { return in == ssa.Instruction(recv) }
	withStat := nilTest.Block().Succs[1]
	n := 0
	for i, s := range incs {
		if !inLoop[s] {
			c.R.Fail(rule, fmt.Sprintf("%s/inc#%d/in-loop", base, i+1), c.pos(s), "the id counter is advanced outside the receive loop")
			continue
		}
		n++
		con := fmt.Sprintf("%s/inc#%d", base, i+1)
		c.R.Check(len(withStat.Instrs) > 0 && eng.Dominates(withStat.Instrs[0], s), rule, con+"/in-stat-region", c.pos(s), "the counter advances only where a STAT carrying a stat is handled",
			"the id counter changes on a loop iteration that did not handle a STAT")
		ok, hit, und := c.Precedes(loop, s, nil, isRecv, isInc)
		switch {
		case und:
			c.R.Undecided(rule, con+"/once", c.pos(s), "state limit")
		case !ok:
			c.R.Fail(rule, con+"/once", c.pos(hit.Instr), "the id counter is advanced twice for one STAT: every later id is off by one against the sender's running STAT index; path "+eng.BlockTrace(loop, hit.Trace))
		default:
			c.R.OK(rule, con+"/once", c.pos(s), "no second increment before the next receive")
		}
	}
	c.R.Floor(rule, "increments of the id counter in the receive loop", n, 1)
	if cond != nil {
		x := c.explorer(loop)
		as := map[string]bool{x.KeyAtEntry(nilTest.Cond): false}
		if r := eng.Resolve(nilTest.Cond); r != nilTest.Cond {
			as[x.KeyAtEntry(r)] = false
		}
		ok, hit, und := c.Precedes(loop, cond, as, isInc, isRecv)
		switch {
		case und:
			c.R.Undecided(rule, base+"/every-stat-counted", c.pos(nilTest), "state limit")
		case !ok:
			c.R.Fail(rule, base+"/every-stat-counted", c.pos(hit.Instr), "a path that handled a STAT carrying a stat returns to the loop head without advancing the id counter: every later id is off by one against the sender's running STAT index; path "+eng.BlockTrace(loop, hit.Trace))
		default:
			c.R.OK(rule, base+"/every-stat-counted", c.pos(nilTest), "every path from a STAT carrying a stat to the next receive advances the counter")
		}
	}
}

// R07.2: ids registered pre-increment, only for selected regular files.
func r07_2(c *Ctx, rule string) {
	c.R.Rule(rule, "receiver.files[path] is assigned the pre-increment counter, only when the entry is selected (not metadata-only) and fileCanRequestData(mode)")
	loop := recvLoop(c, rule)
	if loop == nil {
		return
	}
	phi, upd := idCounter(c, loop)
	if upd == nil {
		c.R.Missing(rule, "update of receiver.files in the receive loop")
		return
	}
	con := c.name(loop) + "/files-update"
	defer c.scope(loop)()
	if cell := c.P.LoadedCell(eng.Strip(upd.Value)); phi == nil && cell != "" {
		// counter kept in memory: the stored id is a load of the counter that no increment of this iteration precedes
		incs, _ := counterIncs(c, loop, cell)
		recv := mainRecv(c, loop)
		ld, _ := eng.Strip(upd.Value).(ssa.Instruction)
		pre := recv != nil && ld != nil && len(incs) > 0
		for _, s := range incs {
			ok, _, und := c.Precedes(loop, s, nil, func(in ssa.Instruction) bool { return in == ssa.Instruction(recv) }, func(in ssa.Instruction) bool { return in == ld })
			if und || !ok {
				pre = false
			}
		}
		c.R.Check(pre, rule, con+"/value", c.pos(upd), "the stored id is the loop counter before its increment", "the id stored in receiver.files is not the pre-increment counter")
	} else {
		c.R.Check(phi != nil && eng.Strip(upd.Value) == ssa.Value(phi), rule, con+"/value", c.pos(upd), "the stored id is the loop counter before its increment", "the id stored in receiver.files is not the pre-increment counter")
	}
	// key is p.Stat.Path
	c.R.Check(isFieldLoad(upd.Key, "types.Stat.Path") || isStoredToField(loop, upd.Key, "types.Stat.Path"), rule, con+"/key", c.pos(upd), "keyed by the stat's path", "receiver.files is not keyed by the stat's path")
	isUpd := func(in ssa.Instruction) bool { return in == ssa.Instruction(upd) }
	x := c.explorer(loop)
	// (a) not requestable (the shared predicate, FileMode.IsRegular or the mask test written out)
	reqs := c.requestableTests(loop, x)
	if len(reqs) == 0 {
		c.R.Missing(rule, "call of fileCanRequestData in the receive loop")
	} else {
		for _, t := range reqs {
			// its argument must be the stat's mode
			c.R.Check(c.DerivesFrom(t.arg, func(v ssa.Value) bool { return isFieldLoad(v, "types.Stat.Mode") }, 4), rule, con+"/predicate-arg", c.pos(t.site),
				"fileCanRequestData is applied to the stat's mode", "fileCanRequestData is not applied to the received stat's mode")
		}
		c.ObUnreachable(rule, con+"/guard-regular", loop, reqPins(reqs, false), isUpd, "the registration of a requestable id", "fileCanRequestData(mode) is false")
		c.ObReachable(rule, con+"/guard-regular-live", loop, reqPins(reqs, true), isUpd, "the registration of a requestable id", "fileCanRequestData(mode) is true")
	}
	// (b) metadata-only selector said no
	var sel *ssa.Call
	for _, call := range c.P.CallsTo(loop, "field:fsutil.receiver.metadataOnly") {
		if cl, ok := call.(*ssa.Call); ok {
			sel = cl
		}
	}
	if sel == nil {
		c.R.Missing(rule, "call of receiver.metadataOnly in the receive loop")
	} else {
		ex := c.explorer(loop)
		ex.From = sel
		ex.Assume = map[string]bool{x.KeyAtEntry(sel): false}
		ex.Barrier = func(in ssa.Instruction, st *eng.State) bool { return c.P.IsCallTo(in, "(fsutil.Stream).RecvMsg") }
		ex.Target = func(in ssa.Instruction, st *eng.State) bool { return isUpd(in) }
		ex.StopAtTarget = true
		hits := ex.Run()
		switch {
		case ex.Exhausted:
			c.R.Undecided(rule, con+"/guard-selected", c.pos(sel), "state limit")
		case len(hits) > 0:
			c.R.Fail(rule, con+"/guard-selected", c.pos(hits[0].Instr), "an id is registered for an entry the metadata-only selector rejected: its content would be requested; path "+eng.BlockTrace(loop, hits[0].Trace))
		default:
			c.R.OK(rule, con+"/guard-selected", c.pos(sel), "no id is registered in the iteration where the selector rejected the entry")
		}
	}
}

// R07.3: exactly one request, pipe before REQ.
func r07_3(c *Ctx, rule string) {
	c.R.Rule(rule, "in asyncDataFunc the lookup, the fatal miss and the delete of receiver.files share one lock region; the pipe is registered before the single REQ is sent, with the looked-up id")
	fn := c.Fn(rule, "fsutil.(*receiver).asyncDataFunc")
	if fn == nil {
		return
	}
	// the lookup of receiver.files
	var look *ssa.Lookup
	eng.Instrs(fn, func(in ssa.Instruction) {
		if l, ok := in.(*ssa.Lookup); ok && l.CommaOk && isFieldLoad(l.X, "fsutil.receiver.files") {
			look = l
		}
	})
	if look == nil {
		c.R.Missing(rule, "comma-ok lookup of receiver.files in asyncDataFunc")
		return
	}
	var idVal, okVal ssa.Value
	for _, r := range eng.Referrers(look) {
		if e, ok := r.(*ssa.Extract); ok {
			if e.Index == 0 {
				idVal = e
			} else {
				okVal = e
			}
		}
	}
	if idVal == nil || okVal == nil {
		c.R.Missing(rule, "id / ok results of the receiver.files lookup")
		return
	}
	base := c.name(fn)
	x := c.explorer(fn)
	okKey := x.KeyAtEntry(okVal)
	isREQ := func(in ssa.Instruction) bool { return c.sendsPacket(in, "PACKET_REQ") }
	isDelete := func(in ssa.Instruction) bool {
		if !c.P.IsCallTo(in, "builtin:delete") {
			return false
		}
		return isFieldLoad(in.(ssa.CallInstruction).Common().Args[0], "fsutil.receiver.files")
	}
	isPipeReg := func(in ssa.Instruction) bool {
		mu, ok := in.(*ssa.MapUpdate)
		return ok && isFieldLoad(mu.Map, "fsutil.receiver.pipes")
	}
	// fatal miss
	hit, und := c.SuccessAvoiding(fn, look, map[string]bool{okKey: false}, nil, nil)
	switch {
	case und:
		c.R.Undecided(rule, base+"/unknown-path-fatal", c.pos(look), "state limit")
	case hit != nil:
		c.R.Fail(rule, base+"/unknown-path-fatal", c.pos(hit.Instr), "a path that was never announced (lookup miss) still lets the callback succeed; path "+eng.BlockTrace(fn, hit.Trace))
	default:
		c.R.OK(rule, base+"/unknown-path-fatal", c.pos(look), "a lookup miss reaches no success return")
	}
	c.ObUnreachable(rule, base+"/unknown-path-no-req", fn, map[string]bool{okKey: false}, isREQ, "SendMsg(REQ)", "the path is not in receiver.files")
	// delete before REQ (single use)
	c.ObPrecedes(rule, base+"/delete-before-req", fn, nil, isDelete, isREQ, "delete(receiver.files, p)", "SendMsg(REQ)")
	// no unlock between lookup and delete
	mu := c.P.StructField("fsutil", "receiver", "mu")
	{
		ex := c.explorer(fn)
		ex.From = look
		ex.Assume = map[string]bool{okKey: true}
		ex.Barrier = func(in ssa.Instruction, st *eng.State) bool { return isDelete(in) }
		ex.Target = func(in ssa.Instruction, st *eng.State) bool {
			if !c.P.IsCallTo(in, "(*sync.RWMutex).Unlock", "(*sync.Mutex).Unlock", "(*sync.RWMutex).RUnlock") {
				return false
			}
			return true
		}
		ex.StopAtTarget = true
		hits := ex.Run()
		c.R.Check(len(hits) == 0 && !ex.Exhausted && mu != nil, rule, base+"/one-lock-region", c.pos(look),
			"no unlock between the successful lookup and the delete", "the mutex is released between looking the id up and deleting it: two callbacks for one path could both obtain the id")
	}
	// pipe registered before REQ
	c.ObPrecedes(rule, base+"/pipe-before-req", fn, nil, isPipeReg, isREQ, "receiver.pipes[id] = writer", "SendMsg(REQ)")
	// ids agree
	nReq := 0
	eng.Instrs(fn, func(in ssa.Instruction) {
		if !isREQ(in) {
			return
		}
		nReq++
		pl, _ := c.packetOf(in.(ssa.CallInstruction))
		c.R.Check(pl != nil && eng.SameValue(pl.Fields["ID"], idVal), rule, base+"/req-id", c.pos(in), "REQ carries the looked-up id", "the REQ packet's ID is not the id looked up for the path")
		c.ObErrChecked(rule+"/req-checked", in.(ssa.CallInstruction))
	})
	eng.Instrs(fn, func(in ssa.Instruction) {
		if isPipeReg(in) {
			c.R.Check(eng.SameValue(in.(*ssa.MapUpdate).Key, idVal), rule, base+"/pipe-key", c.pos(in), "pipe registered under the looked-up id", "the pipe is registered under a different key than the id requested")
		}
	})
	// the only REQ site of the package
	total := 0
	for _, f := range c.P.ModFuncs {
		if fnPkgShort(c, f) != "fsutil" || c.P.IsTestFile(f.Pos()) {
			continue
		}
		eng.Instrs(f, func(in ssa.Instruction) {
			if isREQ(in) {
				total++
			}
		})
	}
	c.R.Exact(rule, "SendMsg(REQ) sites in package fsutil", total, 1)
	c.R.Exact(rule, "SendMsg(REQ) sites in asyncDataFunc", nReq, 1)
}

// R07.5: stores exactly the payload, synchronously, into non-retaining sinks.
func r07_5(c *Ctx, rule string) {
	c.R.Rule(rule, "the DATA arm writes p.Data / closes the pipe directly in the receive goroutine, and p.Data flows only into non-retaining sinks over all VTA targets of Write (the buffer is reused by ResetVT)")
	loop := recvLoop(c, rule)
	if loop == nil {
		return
	}
	base := c.name(loop)
	// direct calls on the looked-up pipe
	nW, nC := 0, 0
	for _, call := range eng.Calls(loop) {
		n := c.P.CalleeName(call)
		if n != "(io.Writer).Write" && n != "(io.Closer).Close" {
			continue
		}
		recv := call.Common().Value
		fromPipes := c.DerivesFrom(recv, func(v ssa.Value) bool {
			l, ok := v.(*ssa.Lookup)
			return ok && isFieldLoad(l.X, "fsutil.receiver.pipes")
		}, 3)
		if !fromPipes {
			continue
		}
		_, isCall := call.(*ssa.Call)
		if n == "(io.Writer).Write" {
			nW++
			c.R.Check(isCall, rule, c.siteName(call)+"/synchronous", c.pos(call), "written in the receive goroutine", "the payload is written by a go/defer statement, after the buffer may have been reused")
			arg := call.Common().Args[0]
			c.R.Check(isFieldLoad(arg, "types.Packet.Data"), rule, c.siteName(call)+"/payload", c.pos(call), "the bytes written are exactly p.Data", "the bytes written to the pipe are not the packet's Data field")
			c.ObErrChecked(rule+"/checked", call)
		} else {
			nC++
			c.R.Check(isCall, rule, c.siteName(call)+"/synchronous", c.pos(call), "closed in the receive goroutine", "the pipe is closed asynchronously")
			c.ObErrChecked(rule+"/checked", call)
		}
	}
	c.R.Floor(rule, "pipe Write sites in the DATA arm", nW, 1)
	c.R.Floor(rule, "pipe Close sites in the DATA arm", nC, 1)
	// Close only for the empty payload, Write only for a non-empty one: the
	// two sites are on opposite edges of a len(p.Data)==0 test.
	// no-retain of every load of Packet.Data in the loop
	ret := eng.NewRetain(c.P)
	loads := fieldLoadsIn(loop, "types.Packet.Data")
	for i, ld := range loads {
		leaks := ret.Value(ld)
		con := fmt.Sprintf("%s/p.Data#%d/no-retain", base, i+1)
		if len(leaks) == 0 {
			c.R.OK(rule, con, c.pos(ld.(ssa.Instruction)), "the payload slice reaches only copying or non-retaining sinks")
		}
		for _, l := range leaks {
			c.R.Fail(rule, con, c.pos(l.At), "the reused receive buffer may be retained: "+l.Why+" (via "+strings.Join(l.Path, " -> ")+")")
		}
	}
	c.R.Floor(rule, "loads of Packet.Data in the receive loop", len(loads), 2)
	var sinks []string
	for s := range ret.Sinks {
		sinks = append(sinks, s)
	}
	for f := range ret.Funcs {
		c.R.Analysed(f)
	}
	c.R.Assumption("trusted non-retaining sinks reached by the payload: " + strings.Join(sortedStrings(sinks), "; "))
	// the writer chain must contain the module writers (vacuity guard)
	need := []string{"fsutil.(*lazyFileWriter).Write"}
	for _, n := range need {
		c.R.Check(ret.Funcs[n], rule, base+"/write-targets/"+n, "-", "reached by the payload through the VTA call graph", "the no-retain analysis did not reach "+n+": the call graph no longer resolves the pipe's writer chain")
	}
}

// isStoredToField: v is the very value this function stores into field owner
// (`p.Stat.Path = path` ... `files[path] = id`): the field holds it, reading it
// back or using the local is the same.
func isStoredToField(fn *ssa.Function, v ssa.Value, owner string) bool {
	sv := eng.Strip(v)
	for _, st := range fieldStoresIn(fn, owner) {
		if st.Parent() == fn && eng.Strip(st.Val) == sv {
			return true
		}
	}
	return false
}
