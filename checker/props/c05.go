package props

import (
	"fmt"
	"go/token"
	"strings"

	"fsverif/eng"

	"golang.org/x/tools/go/ssa"
)

func init() {
	register("C05", "Structural clauses behind truthful change notifications, decided on all paths of the disk writer: a notification is only reachable after the checked mutation it reports (remove; metadata and rename; data callback completion or digest finalisation); with a notify callback set, no success return is reachable after a mutating call without a notification or the hand-off to the asynchronous writer (the directory-over-directory shortcut violates this: open known finding F6); the digest hashes the caller's header of the stat as sent and exactly the bytes that also go to the file (one multi-writer, fields private to constructor and Close, digest taken before close); delete suppression below a removed directory uses a separator-terminated prefix. The file writer behind the digest hands every chunk through to the file (no success return of lazyFileWriter.Write without a write of the whole slice). What the writer's Close produces (the digest, the close error) is stored before the channel that signals completion is closed (shared with C08). A special file is created with the type bits of the stat the notification carries (shared with C01). The file ids both ends key their tables by are the zero-based positions in the STAT sequence (counter from 0, one increment per announced entry, registration with the pre-increment value; shared with C06/C07): two ends that agree with each other on any other numbering hand a conforming peer a neighbouring file's bytes. Does not decide 'exactly once' nor that applying the events to a model reproduces the tree.", runC05)
}

func runC05(c *Ctx) {
	r05_0(c, "R05.0")
	r05_1(c, "R05.1")
	r05_2(c, "R05.2")
	r05_3(c, "R05.3")
	r05_4(c, "R05.4")
	r05_5(c, "R05.5")
	// the receiver's filter is applied to a clone made for the comparison,
	// never to the stat as sent, which is what is hashed and reported (shared with C02)
	r02_3(c, "R05.6")
	// the digest is read by the notification after the writer's completion
	// was signalled: everything Close produces (digest, close error) is
	// published before the signal (shared with C08)
	r08_4(c, "R05.7")
	// what is created is what the notification describes: a special file is
	// made with the type bits of the stat as sent (shared with C01)
	r01_4(c, "R05.8")
	// the bytes hashed under an entry's header are that entry's: ids are
	// zero-based STAT positions on both ends (shared with C06/C07)
	idNumbering(c, "R05.9", "R05.10", "R05.11")
	// no unchanged path is reported: the differ's verdict 'different' needs a
	// difference between the two sides (shared with C02)
	r02_13(c, "R05.12")
	// completion is signalled by the end-of-data marker only
	r05_13(c, "R05.13")
}

// R05.5: the bytes that are hashed are the bytes that are stored.
//
// The digest is fed by an io.MultiWriter in front of the file writer: it has
// seen every byte the data callback wrote. The file has them only if the
// writer behind it hands each Write through: every success return of
// lazyFileWriter.Write is the result of (*os.File).Write applied to the very
// slice it was given (no chunk skipped, trimmed or deferred).
func r05_5(c *Ctx, rule string) {
	c.R.Rule(rule, "lazyFileWriter.Write: every success return is preceded by a write of the whole slice it was given to the opened file")
	w := c.Fn(rule, "fsutil.(*lazyFileWriter).Write")
	if w == nil {
		return
	}
	var data *ssa.Parameter
	for _, q := range w.Params {
		if eng.TypeStr(q.Type()) == "[]byte" {
			data = q
		}
	}
	if data == nil {
		c.R.Missing(rule, "[]byte parameter of lazyFileWriter.Write")
		return
	}
	n := 0
	isWholeWrite := func(in ssa.Instruction) bool {
		call, ok := in.(ssa.CallInstruction)
		if !ok || !c.P.IsCallTo(in, "(*os.File).Write", "(io.Writer).Write", "(*os.File).WriteAt") {
			return false
		}
		for _, a := range call.Common().Args {
			if eng.Strip(a) == ssa.Value(data) {
				return true
			}
		}
		return false
	}
	eng.Instrs(w, func(in ssa.Instruction) {
		if isWholeWrite(in) {
			n++
		}
	})
	c.R.Floor(rule, "writes of the whole slice in lazyFileWriter.Write", n, 1)
	c.ObSuccessNeeds(rule, c.name(w)+"/success-needs-whole-write", w, nil, nil, isWholeWrite, "a write of the slice it was given")
}

func isNotify(c *Ctx) func(ssa.Instruction) bool {
	return c.callPred("field:fsutil.DiskWriterOpt.NotifyCb")
}

// notifyNonNilPins pins every `dw.opt.NotifyCb != nil` test of fn to "set".
func notifyPins(c *Ctx, fn *ssa.Function, set bool) map[string]bool {
	x := c.explorer(fn)
	as := map[string]bool{}
	eng.Instrs(fn, func(in ssa.Instruction) {
		bo, ok := in.(*ssa.BinOp)
		if !ok || (bo.Op != token.EQL && bo.Op != token.NEQ) {
			return
		}
		if k, isC := bo.Y.(*ssa.Const); !isC || !k.IsNil() {
			return
		}
		if !isFieldLoad(bo.X, "fsutil.DiskWriterOpt.NotifyCb") {
			return
		}
		key := x.KeyAtEntry(bo)
		as[key] = (bo.Op == token.NEQ) == set
	})
	return as
}

// R05.0: the configuration under which Receive uses the disk writer.
func r05_0(c *Ctx, rule string) {
	c.R.Rule(rule, "Receive configures the disk writer with the asynchronous data callback only (no SyncDataCb), the caller's notify callback, hasher and filter")
	run := c.Fn(rule, "fsutil.(*receiver).run")
	if run == nil {
		return
	}
	n := 0
	for _, call := range c.P.CallsTo(run, "fsutil.NewDiskWriter") {
		n++
		opt := eng.Strip(call.Common().Args[len(call.Common().Args)-1])
		var al *ssa.Alloc
		if ld, ok := opt.(*ssa.UnOp); ok && ld.Op == token.MUL {
			al, _ = ld.X.(*ssa.Alloc)
		}
		if al == nil {
			c.R.Undecided(rule, c.siteName(call)+"/options", c.pos(call), "the DiskWriterOpt argument is not a composite literal")
			continue
		}
		f := structLitFields(al)
		_, hasAsync := f["AsyncDataCb"]
		_, hasSync := f["SyncDataCb"]
		c.R.Check(hasAsync && !hasSync, rule, c.siteName(call)+"/async-only", c.pos(call), "AsyncDataCb set, SyncDataCb unset", "Receive no longer configures the disk writer with AsyncDataCb only; the notification rules are evaluated for that configuration")
		c.R.Check(f["NotifyCb"] != nil && isFieldLoad(eng.Strip(f["NotifyCb"]), "fsutil.receiver.notifyHashed"), rule, c.siteName(call)+"/notify", c.pos(call), "NotifyCb is the caller's NotifyHashed", "the disk writer's NotifyCb is not the caller's NotifyHashed")
		c.R.Check(f["ContentHasher"] != nil && isFieldLoad(eng.Strip(f["ContentHasher"]), "fsutil.receiver.contentHasher"), rule, c.siteName(call)+"/hasher", c.pos(call), "ContentHasher is the caller's", "the disk writer's ContentHasher is not the caller's")
		ad := c.P.DescribeFuncValue(f["AsyncDataCb"])
		c.R.Check(strings.Contains(ad, "asyncDataFunc"), rule, c.siteName(call)+"/data-callback", c.pos(call), "data callback is receiver.asyncDataFunc", "the data callback is not receiver.asyncDataFunc ("+ad+")")
	}
	c.R.Floor(rule, "NewDiskWriter calls in receiver.run", n, 1)
}

func r05_1(c *Ctx, rule string) {
	c.R.Rule(rule, "notify after apply: the delete notification follows a checked RemoveAll; a non-regular entry is reported only after checked rewriteMetadata and, when an old entry existed, after the checked rename; in processChange the notification follows the checked data callback (writer present) or the digest finalisation (no writer)")
	hc := c.Fn(rule, "fsutil.(*DiskWriter).HandleChange")
	pc := c.Fn(rule, "fsutil.(*DiskWriter).processChange")
	if hc == nil || pc == nil {
		return
	}
	base := c.name(hc)
	notify := isNotify(c)
	// delete arm: the only direct NotifyCb call in HandleChange
	n := 0
	for _, call := range eng.Calls(hc) {
		if !notify(call) {
			continue
		}
		n++
		c.ObPrecedes(rule, c.siteName(call)+"/after-remove", hc, nil, c.checkedCallPred("os.RemoveAll"), func(in ssa.Instruction) bool { return in == ssa.Instruction(call) }, "a checked os.RemoveAll", "the delete notification")
		c.ObErrChecked(rule+"/checked", call)
		// reported with the delete kind and the change's path
		a := call.Common().Args
		// (through a delete helper: what its parameters stand for at the call in HandleChange)
		isParamOf := func(v ssa.Value, name string) bool {
			rs := eng.ResolveAll(v)
			if len(rs) == 0 {
				return false
			}
			for _, r := range rs {
				q, ok := eng.Strip(r).(*ssa.Parameter)
				if !ok || q.Parent() != hc || c.P.ParamName(q) != name {
					return false
				}
			}
			return true
		}
		k := isParamOf(a[0], "kind")
		if kc, isC := a[0].(*ssa.Const); isC && !k {
			// the delete arm may spell the kind out
			if want, ok := c.P.NamedConstInt("fsutil", "ChangeKindDelete"); ok {
				if got, isInt := eng.ConstInt(kc); isInt && got == want {
					k = true
				}
			}
		}
		p := isParamOf(a[1], "p")
		c.R.Check(k && p, rule, c.siteName(call)+"/args", c.pos(call), "reports (kind, p) of the change", "the delete notification does not report the change's kind and path")
	}
	c.R.Floor(rule, "direct notifications in HandleChange (delete arm)", n, 1)
	// non-regular entries: processChange with a nil writer
	isPCnil := func(in ssa.Instruction) bool {
		if !c.P.IsCallTo(in, "fsutil.(*DiskWriter).processChange") {
			return false
		}
		a := in.(ssa.CallInstruction).Common().Args
		k, ok := a[len(a)-1].(*ssa.Const)
		return ok && k.IsNil()
	}
	m := 0
	eng.Instrs(hc, func(in ssa.Instruction) {
		if isPCnil(in) {
			m++
		}
	})
	c.R.Floor(rule, "processChange(nil writer) sites in HandleChange", m, 1)
	c.ObPrecedes(rule, base+"/metadata-before-report", hc, nil, c.checkedCallPred("fsutil.rewriteMetadata"), isPCnil, "a checked rewriteMetadata", "reporting a non-regular entry")
	// rename route: an old entry existed <=> Lstat succeeded
	x := c.explorer(hc)
	as := map[string]bool{}
	for _, call := range c.P.CallsTo(hc, "os.Lstat") {
		if cl, ok := call.(*ssa.Call); ok {
			as["("+c.reg(cl)+"#1==nil)"] = true
		}
	}
	_ = x
	c.ObPrecedes(rule, base+"/rename-before-report", hc, as, c.checkedCallPred("fsutil.renameFile"), isPCnil, "the checked rename onto the destination path (an old entry existed)", "reporting a non-regular entry")
	// the same for the hand-off of regular files
	c.ObPrecedes(rule, base+"/rename-before-request", hc, as, c.checkedCallPred("fsutil.renameFile"), c.callPred("fsutil.(*DiskWriter).requestAsyncFileData"), "the checked rename (an old entry existed)", "handing a regular file to the asynchronous writer")
	c.ObPrecedes(rule, base+"/metadata-before-request", hc, nil, c.checkedCallPred("fsutil.rewriteMetadata"), c.callPred("fsutil.(*DiskWriter).requestAsyncFileData"), "a checked rewriteMetadata", "handing a regular file to the asynchronous writer")
	// processChange
	pbase := c.name(pc)
	w := pc.Params[len(pc.Params)-1]
	wNil := "(p:" + w.Name() + "==nil)"
	isDataCb := func(in ssa.Instruction) bool {
		call, ok := in.(ssa.CallInstruction)
		if !ok {
			return false
		}
		d := c.P.CalleeName(call)
		return strings.Contains(d, "DiskWriterOpt.AsyncDataCb") || strings.Contains(d, "DiskWriterOpt.SyncDataCb")
	}
	checkedData := func(in ssa.Instruction) bool {
		if !isDataCb(in) {
			return false
		}
		ok, _, _, und := c.ErrChecked(in.(ssa.CallInstruction))
		return ok && !und
	}
	c.ObPrecedes(rule, pbase+"/data-before-notify", pc, map[string]bool{wNil: false}, checkedData, notify, "the checked data callback (content written and closed)", "the notification")
	c.ObPrecedes(rule, pbase+"/digest-before-notify", pc, map[string]bool{wNil: true}, c.callPred("fsutil.(*hashedWriter).Close"), notify, "hashedWriter.Close (digest computed)", "the notification")
	for _, call := range eng.Calls(pc) {
		if !notify(call) {
			continue
		}
		a := call.Common().Args
		_, k := eng.Strip(a[0]).(*ssa.Parameter)
		_, p := eng.Strip(a[1]).(*ssa.Parameter)
		hwOK := c.DerivesFrom(a[2], func(v ssa.Value) bool { return c.isCallValueTo(v, "fsutil.newHashWriter") }, 5)
		c.R.Check(k && p && hwOK, rule, c.siteName(call)+"/args", c.pos(call), "reports (kind, p, hashed writer carrying the stat and digest)", "the notification does not report (kind, p, the hashed writer)")
		c.ObErrChecked(rule+"/checked", call)
	}
}

// mutating calls of HandleChange for R05.2
var hcMutators = []string{"os.RemoveAll", "fsutil.rewriteMetadata", "os.Mkdir", "fsutil.handleTarTypeBlockCharFifo", "os.Symlink", "os.Link", "os.OpenFile", "fsutil.renameFile"}

func r05_2(c *Ctx, rule string) {
	c.R.Rule(rule, "with a notify callback set, after each successful mutating call of HandleChange no success return is reachable without a notification, a processChange or the hand-off to the asynchronous writer; the writer goroutine and processChange notify on every success path")
	hc := c.Fn(rule, "fsutil.(*DiskWriter).HandleChange")
	pc := c.Fn(rule, "fsutil.(*DiskWriter).processChange")
	if hc == nil || pc == nil {
		return
	}
	notify := isNotify(c)
	barrier := func(in ssa.Instruction) bool {
		return notify(in) || c.P.IsCallTo(in, "fsutil.(*DiskWriter).requestAsyncFileData", "fsutil.(*DiskWriter).processChange")
	}
	n := 0
	for _, call := range c.P.CallsTo(hc, hcMutators...) {
		n++
		as := notifyPins(c, hc, true)
		// the async configuration of Receive (R05.0)
		x := c.explorer(hc)
		eng.Instrs(hc, func(in ssa.Instruction) {
			bo, ok := in.(*ssa.BinOp)
			if !ok || (bo.Op != token.EQL && bo.Op != token.NEQ) {
				return
			}
			if k, isC := bo.Y.(*ssa.Const); !isC || !k.IsNil() {
				return
			}
			if isFieldLoad(bo.X, "fsutil.DiskWriterOpt.AsyncDataCb") {
				as[x.KeyAtEntry(bo)] = bo.Op == token.NEQ
			}
			if isFieldLoad(bo.X, "fsutil.DiskWriterOpt.SyncDataCb") {
				as[x.KeyAtEntry(bo)] = bo.Op == token.EQL
			}
		})
		key, _, has := c.errValueOf(call)
		if has {
			as["("+key+"==nil)"] = true
		}
		con := c.siteName(call) + "/then-notify"
		hit, und := c.SuccessAvoiding(hc, call, as, nil, barrier)
		switch {
		case und:
			c.R.Undecided(rule, con, c.pos(call), "state limit")
		case hit != nil:
			c.R.Fail(rule, con, c.pos(hit.Instr), fmt.Sprintf("after a successful %s (at %s) HandleChange can return success without notifying the change or handing it to the writer; path %s", c.P.CalleeName(call), c.pos(call), eng.BlockTrace(hc, hit.Trace)))
		default:
			c.R.OK(rule, con, c.pos(call), "every success path after this mutation notifies or hands off")
		}
	}
	c.R.Floor(rule, "mutating call sites in HandleChange", n, 9)
	// processChange: success needs the notification when the callback is set
	c.ObSuccessNeeds(rule, c.name(pc)+"/success-needs-notify", pc, nil, notifyPins(c, pc, true), notify, "the notification (NotifyCb is set)")
	// the writer goroutine: success needs processChange
	if lit := asyncWriter(c, rule); lit != nil {
		c.ObSuccessNeeds(rule, c.name(lit)+"/success-needs-processChange", lit, nil, nil, c.checkedCallPred("fsutil.(*DiskWriter).processChange"), "a checked processChange")
	}
}

func r05_3(c *Ctx, rule string) {
	c.R.Rule(rule, "the digest is of what was stored: one io.MultiWriter(w, h) with h = ContentHasher(stat as sent); hashedWriter.w/.h are touched only by the constructor and Close; Close takes the digest from h before closing w; every processChange receives the FileInfo HandleChange was given")
	nh := c.Fn(rule, "fsutil.newHashWriter")
	if nh == nil {
		return
	}
	base := c.name(nh)
	var chParam, fiParam, wParam *ssa.Parameter
	for _, p := range nh.Params {
		t := p.Type().String()
		switch {
		case strings.HasSuffix(t, "ContentHasher"):
			chParam = p
		case strings.HasSuffix(t, "FileInfo"):
			fiParam = p
		case strings.HasSuffix(t, "WriteCloser"):
			wParam = p
		}
	}
	if chParam == nil || fiParam == nil || wParam == nil {
		c.R.Missing(rule, "parameters (ContentHasher, FileInfo, WriteCloser) of newHashWriter")
		return
	}
	// h = ch(stat) with stat = fi.Sys().(*types.Stat)
	var hcall *ssa.Call
	for _, call := range c.P.CallsTo(nh, "param:"+c.P.ParamName(chParam)) {
		hcall, _ = call.(*ssa.Call)
	}
	if hcall == nil {
		c.R.Fail(rule, base+"/hasher-call", c.P.Pos(nh.Pos()), "newHashWriter does not call the ContentHasher")
		return
	}
	fromFi := c.DerivesFrom(hcall.Call.Args[0], func(v ssa.Value) bool {
		call, ok := v.(*ssa.Call)
		return ok && c.P.CalleeName(call) == "(io/fs.FileInfo).Sys" && eng.Strip(call.Call.Value) == ssa.Value(fiParam)
	}, 5)
	c.R.Check(fromFi, rule, base+"/hasher-arg", c.pos(hcall), "the header hashed is that of fi.Sys(), the stat as sent", "the ContentHasher is not given the stat of the FileInfo passed in (the stat as sent)")
	c.ObErrChecked(rule+"/checked", hcall)
	// Writer = io.MultiWriter(w, h)
	n := 0
	for _, s := range fieldStoresIn(nh, "fsutil.hashedWriter.Writer") {
		n++
		mw, ok := s.Val.(*ssa.Call)
		good := ok && c.P.CalleeName(mw) == "io.MultiWriter"
		if good {
			hasW := c.DerivesFrom(mw, func(v ssa.Value) bool { return v == ssa.Value(wParam) }, 6)
			hasH := c.DerivesFrom(mw, func(v ssa.Value) bool { return v == ssa.Value(hcall) }, 6)
			good = hasW && hasH
		}
		c.R.Check(good, rule, base+"/multiwriter", c.pos(s), "Writer = io.MultiWriter(w, h): file and hash receive the same bytes", "hashedWriter.Writer is not io.MultiWriter(w, h): the bytes hashed can differ from the bytes stored")
	}
	c.R.Exact(rule, "stores to hashedWriter.Writer", n, 1)
	for _, e := range []struct{ f, owner string }{{"h", "fsutil.hashedWriter.h"}, {"w", "fsutil.hashedWriter.w"}} {
		for _, s := range fieldStoresIn(nh, e.owner) {
			var want ssa.Value = wParam
			if e.f == "h" {
				want = hcall
			}
			c.R.Check(c.DerivesFrom(s.Val, func(v ssa.Value) bool { return v == want }, 3), rule, base+"/field-"+e.f, c.pos(s), "hashedWriter."+e.f+" is the constructor's "+e.f, "hashedWriter."+e.f+" is not the value given to the multi-writer")
		}
		fv := c.P.StructField("fsutil", "hashedWriter", e.f)
		if fv == nil {
			c.R.Missing(rule, "field hashedWriter."+e.f)
			continue
		}
		for _, fa := range c.P.Census().FieldAddrs(fv) {
			fn := c.name(fa.Parent())
			c.R.Check(fn == "fsutil.newHashWriter" || fn == "fsutil.(*hashedWriter).Close", rule, "hashedWriter."+e.f+"/access in "+fn, c.pos(fa), "private to the constructor and Close", "hashedWriter."+e.f+" is accessed in "+fn+": bytes can reach the file or the hash around the multi-writer")
		}
	}
	// the embedded Writer field is only stored by the constructor
	if fv := c.P.StructField("fsutil", "hashedWriter", "Writer"); fv != nil {
		c.R.Check(len(c.P.Census().FieldStores(fv)) == 0, rule, "hashedWriter.Writer/immutable", "-", "never reassigned after construction", "hashedWriter.Writer is reassigned after construction")
	}
	// Close: digest before close
	cl := c.Fn(rule, "fsutil.(*hashedWriter).Close")
	if cl != nil {
		dg := c.callPred("github.com/opencontainers/go-digest.NewDigest")
		c.ObPrecedes(rule, c.name(cl)+"/digest-before-close", cl, nil, dg, c.callPred("(io.Closer).Close"), "taking the digest from the hash", "closing the file writer")
		for _, call := range c.P.CallsTo(cl, "github.com/opencontainers/go-digest.NewDigest") {
			ok := c.DerivesFrom(call.Common().Args[1], func(v ssa.Value) bool { return isFieldLoad(v, "fsutil.hashedWriter.h") }, 3)
			c.R.Check(ok, rule, c.siteName(call)+"/from-h", c.pos(call), "the digest is taken from the hash that received the bytes", "the digest is not taken from hashedWriter.h")
		}
		c.ObSuccessNeeds(rule, c.name(cl)+"/success-needs-digest", cl, nil, nil, dg, "computing the digest")
	}
	// the change handed over by the differ carries the stat as sent, not the
	// clone that was filtered for the comparison
	if loop := diffLoop(c, rule); loop != nil {
		_, bCell := walkerCells(c, loop)
		for _, call := range c.P.CallsTo(loop, "freevar:changeFn") {
			arg := call.Common().Args[2]
			fromClone := c.DerivesFromLocal(arg, func(v ssa.Value) bool { return c.isCallValueTo(v, "types.(*Stat).Clone", "types.(*Stat).CloneVT") }, 10)
			fromB := bCell != "" && c.DerivesFromLocal(arg, fromLoc(bCell), 10)
			c.R.Check(!fromClone && fromB, rule, c.siteName(call)+"/stat-as-sent", c.pos(call), "the change carries the source walker's own stat", "the change handed to the writer can carry the filtered clone made for the comparison instead of the stat as sent: digest header and reported metadata are the filtered ones")
		}
	}
	// the receiver-side filter works on a private deep copy: what it rewrites
	// (scalars or the xattr map in place) never reaches the stat that is
	// hashed and reported
	if hcf := c.P.Fn("fsutil.(*DiskWriter).HandleChange"); hcf != nil {
		nf := 0
		for _, call := range c.P.CallsTo(hcf, "field:fsutil.DiskWriter.filter") {
			a := call.Common().Args
			ok := true
			for _, cand := range eng.ResolveAll(a[len(a)-1]) {
				arg := eng.Canon(cand)
				one := c.isCallValueTo(arg, "types.(*Stat).Clone", "types.(*Stat).CloneVT")
				if al, isAl := arg.(*ssa.Alloc); isAl && len(structLitFields(al)) == 0 {
					one = true // the empty stat handed to the filter for a delete
				}
				if !one {
					ok = false
				}
			}
			nf++
			c.R.Check(ok, rule, c.siteName(call)+"/filter-gets-deep-copy", c.pos(call), "the filter is handed stat.Clone() (or an empty stat)", "the filter is handed something other than a deep Clone() of the received stat: in-place edits (xattr map, byte slices) reach the stat as sent, which seeds the digest and is reported")
		}
		c.R.Floor(rule, "filter calls in DiskWriter.HandleChange", nf, 1)
	}
	// every processChange receives HandleChange's own fi
	hc := c.Fn(rule, "fsutil.(*DiskWriter).HandleChange")
	pc := c.Fn(rule, "fsutil.(*DiskWriter).processChange")
	if hc == nil || pc == nil {
		return
	}
	hfi := hc.Params[3]
	sites := 0
	for _, cs := range c.P.CallGraph().Callers(pc) {
		if c.P.IsTestFile(cs.Pos()) {
			continue
		}
		sites++
		a := cs.Common().Args
		fi := eng.Strip(a[len(a)-2])
		ok := fi == ssa.Value(hfi)
		if !ok {
			// inside requestAsyncFileData's goroutine: the captured parameter
			if u, isU := fi.(*ssa.UnOp); isU && u.Op == token.MUL {
				if fv, isFV := u.X.(*ssa.FreeVar); isFV {
					if root := c.P.Census().Root(fv); root != nil && len(c.P.Census().CellStorers(root)) == 1 {
						// the cell is a spilled parameter of requestAsyncFileData
						for _, r := range eng.Referrers(root) {
							if s, isS := r.(*ssa.Store); isS {
								if p, isP := s.Val.(*ssa.Parameter); isP && strings.HasSuffix(p.Type().String(), "FileInfo") {
									ok = true
								}
							}
						}
					}
				}
			}
			if p, isP := fi.(*ssa.Parameter); isP && strings.HasSuffix(p.Type().String(), "FileInfo") {
				ok = true
			}
		}
		c.R.Check(ok, rule, c.siteName(cs)+"/fi-as-sent", c.pos(cs), "processChange receives the FileInfo of the change as sent", "processChange is given a FileInfo other than the one HandleChange received (e.g. the filtered copy): the digest header differs from what the sender announced")
	}
	c.R.Floor(rule, "processChange call sites", sites, 3)
	for _, cs := range c.P.CallsTo(hc, "fsutil.(*DiskWriter).requestAsyncFileData") {
		a := cs.Common().Args
		c.R.Check(eng.Strip(a[len(a)-2]) == ssa.Value(hfi), rule, c.siteName(cs)+"/fi-as-sent", c.pos(cs), "the writer goroutine is given the FileInfo as sent", "requestAsyncFileData is not given HandleChange's FileInfo")
	}
	// processChange hands fi to newHashWriter and the hashed writer to the data callback
	for _, call := range c.P.CallsTo(pc, "fsutil.newHashWriter") {
		a := call.Common().Args
		_, fiP := eng.Strip(a[1]).(*ssa.Parameter)
		c.R.Check(fiP && isFieldLoad(a[0], "fsutil.DiskWriterOpt.ContentHasher"), rule, c.siteName(call)+"/args", c.pos(call), "newHashWriter(opt.ContentHasher, fi, w)", "newHashWriter is not given (opt.ContentHasher, fi, w)")
	}
	for _, call := range eng.Calls(pc) {
		d := c.P.CalleeName(call)
		if !strings.Contains(d, "DiskWriterOpt.AsyncDataCb") && !strings.Contains(d, "DiskWriterOpt.SyncDataCb") {
			continue
		}
		a := call.Common().Args
		// with NotifyCb set the writer handed out is the hashed writer
		x := c.explorer(pc)
		x.Assume = notifyPins(c, pc, true)
		bad := 0
		x.Target = func(in ssa.Instruction, st *eng.State) bool {
			if in != ssa.Instruction(call) {
				return false
			}
			k := x.SourceKey(a[len(a)-1], st)
			if !strings.Contains(k, "#0") || !strings.HasPrefix(k, "mi(") {
				bad++
			}
			return false
		}
		x.Run()
		c.R.Check(bad == 0, rule, c.siteName(call)+"/writes-through-hash", c.pos(call), "with NotifyCb set the data callback writes into the hashed writer", "with NotifyCb set the data callback can be handed the raw file writer: bytes bypass the hash")
	}
}

// sepTerminated: v is a string built as `x + Separator` (or a constant ending
// in the separator), directly or through a cell only ever assigned such
// values or the empty string.
func sepTerminated(c *Ctx, v ssa.Value, allowEmpty bool, depth int) (bool, string) {
	return sepTerminatedSeen(c, v, allowEmpty, depth, map[*ssa.Phi]bool{})
}

func sepTerminatedSeen(c *Ctx, v ssa.Value, allowEmpty bool, depth int, seen map[*ssa.Phi]bool) (bool, string) {
	sep := "/"
	if c.P.GOOS == "windows" {
		sep = `\`
	}
	if depth > 4 {
		return false, "too deep"
	}
	if rs := eng.ResolveAll(v); len(rs) != 1 || rs[0] != v {
		// a helper parameter or result: every value it can stand for
		for _, r := range rs {
			if ok, why := sepTerminatedSeen(c, r, allowEmpty, depth+1, seen); !ok {
				return false, why
			}
		}
		return true, ""
	}
	switch x := v.(type) {
	case *ssa.Const:
		s, ok := eng.ConstString(x)
		if ok && (strings.HasSuffix(s, sep) || strings.HasSuffix(s, "/") || (allowEmpty && s == "")) {
			return true, ""
		}
		return false, fmt.Sprintf("constant %q does not end in the separator", s)
	case *ssa.BinOp:
		if x.Op == token.ADD {
			return sepTerminatedSeen(c, x.Y, false, depth+1, seen)
		}
	case *ssa.Convert:
		if k, ok := eng.ConstInt(x.X); ok && (string(rune(k)) == sep || k == '/') {
			return true, ""
		}
	case *ssa.Phi:
		// a loop-carried value: every value entering the cycle must qualify
		if seen[x] {
			return true, ""
		}
		seen[x] = true
		depth--
		for _, e := range x.Edges {
			if ok, why := sepTerminatedSeen(c, e, allowEmpty, depth+1, seen); !ok {
				return false, why
			}
		}
		return true, ""
	case *ssa.UnOp:
		if x.Op == token.MUL {
			var stores []*ssa.Store
			switch a := x.X.(type) {
			case *ssa.FreeVar:
				if root := c.P.Census().Root(a); root != nil {
					for _, fn := range c.P.Census().CellStorers(root) {
						eng.Instrs(fn, func(in ssa.Instruction) {
							if s, ok := in.(*ssa.Store); ok {
								if s.Addr == ssa.Value(root) {
									stores = append(stores, s)
								}
								if fv, ok := s.Addr.(*ssa.FreeVar); ok && c.P.Census().Root(fv) == root {
									stores = append(stores, s)
								}
							}
						})
					}
				}
			case *ssa.Alloc:
				for _, r := range eng.Referrers(a) {
					if s, ok := r.(*ssa.Store); ok && s.Addr == ssa.Value(a) {
						stores = append(stores, s)
					}
				}
			case *ssa.FieldAddr:
				fv := eng.FieldVar(a.X.Type(), a.Field)
				for _, fa := range c.P.Census().FieldAddrs(fv) {
					for _, r := range eng.Referrers(fa) {
						if s, ok := r.(*ssa.Store); ok && s.Addr == ssa.Value(fa) {
							stores = append(stores, s)
						}
					}
				}
			}
			if len(stores) == 0 {
				return false, "no assignment found for the prefix variable"
			}
			for _, s := range stores {
				if ok, why := sepTerminatedSeen(c, s.Val, true, depth+1, seen); !ok {
					return false, why + " (assigned at " + c.pos(s) + ")"
				}
			}
			return true, ""
		}
	}
	return false, "not of the form x + Separator"
}

func r05_4(c *Ctx, rule string) {
	c.R.Rule(rule, "deletes below an already removed directory are suppressed with a separator-terminated prefix (so that removing 'a' does not swallow the delete of 'ab')")
	loop := diffLoop(c, rule)
	if loop == nil {
		return
	}
	n := 0
	for _, pt := range c.prefixTests(loop) {
		n++
		ok, why := sepTerminated(c, pt.prefix, true, 0)
		ok = ok || pt.sepChecked
		c.R.Check(ok, rule, pt.name+"/separator-terminated", c.pos(pt.site), "the prefix is only ever '' or dir + Separator", "the removed-directory prefix is not separator-terminated ("+why+"): deleting directory 'a' suppresses the delete of sibling 'ab'")
		c.R.Check(isFieldLoad(pt.subject, "fsutil.currentPath.path"), rule, pt.name+"/subject", c.pos(pt.site), "tested against the destination entry's path", "the prefix test is not applied to the destination entry's path")
	}
	c.R.Floor(rule, "prefix tests in the diff loop", n, 1)
	// a directory replaced by a non-directory of any kind (file, symlink,
	// device, fifo) records the prefix: its stale children arrive as deletes
	// after the replacement exists, and RemoveAll below a fresh symlink would
	// resolve through it
	var sf *ssa.Call
	for _, call := range c.P.CallsTo(loop, "fsutil.sameFile") {
		sf, _ = call.(*ssa.Call)
	}
	aCell, bCell := walkerCells(c, loop)
	if sf == nil || aCell == "" || bCell == "" {
		c.R.Undecided(rule, c.name(loop)+"/dir-to-nondir-records-prefix", c.P.Pos(loop.Pos()), "cannot identify the modify arm or the two entry variables of the diff loop")
		return
	}
	fromCell := fromLoc
	x := c.explorer(loop)
	as := map[string]bool{}
	nA, nB := 0, 0
	for _, call := range c.P.CallsTo(loop, "types.(*Stat).IsDir", "(io/fs.FileMode).IsDir", "(io/fs.FileInfo).IsDir") {
		cl, ok := call.(*ssa.Call)
		if !ok || len(cl.Call.Args) == 0 && !cl.Call.IsInvoke() {
			continue
		}
		recv := cl.Call.Value
		if !cl.Call.IsInvoke() {
			recv = cl.Call.Args[0]
		}
		switch {
		case c.DerivesFromLocal(recv, fromCell(aCell), 8) && !c.DerivesFromLocal(recv, fromCell(bCell), 8):
			as[x.KeyAtEntry(cl)] = true
			nA++
		case c.DerivesFromLocal(recv, fromCell(bCell), 10):
			as[x.KeyAtEntry(cl)] = false
			nB++
		}
	}
	// the prefix cell: the operand of the prefix test
	cell := ""
	for _, pt := range c.prefixTests(loop) {
		if l := loadLoc(eng.Strip(pt.prefix)); l != "" {
			cell = l
		}
	}
	isRecord := func(in ssa.Instruction) bool {
		if strings.HasPrefix(cell, "phi:") {
			// a register variable: it is assigned where the value that flows
			// into its phi web is computed
			v, isV := in.(ssa.Value)
			if !isV {
				return false
			}
			if _, isC := v.(*ssa.Const); isC {
				return false
			}
			feeds := false
			for _, r := range eng.Referrers(v) {
				if ph, isPhi := r.(*ssa.Phi); isPhi && phiWeb(ph) == cell {
					feeds = true
				}
			}
			if !feeds {
				return false
			}
			ok2, _ := sepTerminated(c, v, false, 0)
			return ok2
		}
		st, ok := in.(*ssa.Store)
		if !ok || locOfAddr(st.Addr) != cell {
			return false
		}
		if k, isC := st.Val.(*ssa.Const); isC {
			_ = k
			return false
		}
		ok2, _ := sepTerminated(c, st.Val, false, 0)
		return ok2
	}
	if cell == "" || nA == 0 {
		c.R.Undecided(rule, c.name(loop)+"/dir-to-nondir-records-prefix", c.pos(sf), "the prefix variable or the directory test of the destination entry was not found")
		return
	}
	// ... and only then: a directory that stays a directory keeps its children,
	// the deletes of its stale entries must reach the writer
	{
		asDir := map[string]bool{}
		for k, v := range as {
			asDir[k] = v
		}
		for _, call := range c.P.CallsTo(loop, "types.(*Stat).IsDir", "(io/fs.FileMode).IsDir", "(io/fs.FileInfo).IsDir") {
			cl, ok := call.(*ssa.Call)
			if !ok {
				continue
			}
			if v, isB := as[x.KeyAtEntry(cl)]; isB && !v {
				asDir[x.KeyAtEntry(cl)] = true // the source entry is a directory too
			}
		}
		ex := c.explorer(loop)
		ex.From = sf
		ex.Assume = asDir
		// (within the iteration of this sameFile call: the next classification starts another)
		ex.Barrier = func(in ssa.Instruction, st *eng.State) bool {
			return c.P.IsCallTo(in, "freevar:changeFn") || c.P.IsCallTo(in, "fsutil.nextPath") || c.P.IsCallTo(in, "fsutil.pathChange")
		}
		ex.Target = func(in ssa.Instruction, st *eng.State) bool { return isRecord(in) }
		ex.StopAtTarget = true
		h := ex.Run()
		switch {
		case ex.Exhausted:
			c.R.Undecided(rule, c.name(loop)+"/dir-to-dir-keeps-children-deletes", c.pos(sf), "state limit")
		case len(h) > 0:
			c.R.Fail(rule, c.name(loop)+"/dir-to-dir-keeps-children-deletes", c.pos(h[0].Instr), "the removed-directory prefix is recorded although the source entry is a directory too: the deletes of the stale entries below a directory that merely changed are suppressed and the entries survive; path "+eng.BlockTrace(loop, h[0].Trace))
		default:
			c.R.OK(rule, c.name(loop)+"/dir-to-dir-keeps-children-deletes", c.pos(sf), "a directory modified into a directory records no prefix")
		}
	}
	ok, hit, und := c.Precedes(loop, sf, as, isRecord, func(in ssa.Instruction) bool { return c.P.IsCallTo(in, "freevar:changeFn") })
	switch {
	case und:
		c.R.Undecided(rule, c.name(loop)+"/dir-to-nondir-records-prefix", c.pos(sf), "state limit")
	case !ok:
		c.R.Fail(rule, c.name(loop)+"/dir-to-nondir-records-prefix", c.pos(hit.Instr), "a destination directory replaced by a non-directory can be reported without recording the removed-directory prefix (the test is narrower than 'not a directory'): deletes of its stale children are applied below the replacement - through it when it is a symlink; path "+eng.BlockTrace(loop, hit.Trace))
	default:
		c.R.OK(rule, c.name(loop)+"/dir-to-nondir-records-prefix", c.pos(sf), "whenever the destination entry is a directory and the source entry is not, the prefix is recorded before the change is reported")
	}
}

// R05.13: a pipe is closed only by the end-of-data marker. Closing the
// wrapped writer signals completion with a nil error to the goroutine that
// waits in asyncDataFunc, which then reports the entry with the digest of
// whatever was written so far; the only place that may say "complete" is the
// DATA arm of the receive loop, for an empty payload (wave 26: a deferred
// "release the handles" loop over receiver.pipes reported truncated files).
func r05_13(c *Ctx, rule string) {
	c.R.Rule(rule, "who may close a pipe: the only Close of a writer taken from receiver.pipes (or of the wrapper asyncDataFunc registers there) is the synchronous call in the receive loop on the empty-payload edge of the DATA arm")
	loop := recvLoop(c, rule)
	if loop == nil {
		return
	}
	fromPipes := func(v ssa.Value) bool {
		switch t := v.(type) {
		case *ssa.Lookup:
			return isFieldLoad(t.X, "fsutil.receiver.pipes")
		case *ssa.Next:
			if rg, ok := t.Iter.(*ssa.Range); ok {
				return isFieldLoad(rg.X, "fsutil.receiver.pipes")
			}
		}
		return c.isCallValueTo(v, "fsutil.newWrappedWriteCloser")
	}
	n := 0
	seen := map[ssa.CallInstruction]bool{}
	defer c.scope(loop)()
	for _, fn := range c.P.AllModFuncs() {
		if fn.Pkg == nil || fn.Pkg.Pkg.Path() != loop.Pkg.Pkg.Path() {
			continue
		}
		for _, call := range eng.Calls(fn) {
			if seen[call] {
				continue
			}
			name := c.P.CalleeName(call)
			if name != "(io.Closer).Close" && name != "fsutil.(*wrappedWriteCloser).Close" {
				continue
			}
			recv := call.Common().Value
			if !call.Common().IsInvoke() && len(call.Common().Args) > 0 {
				recv = call.Common().Args[0]
			}
			if recv == nil || !c.DerivesFrom(recv, fromPipes, 4) {
				continue
			}
			seen[call] = true
			n++
			con := c.siteName(call) + "/end-of-data-only"
			_, isCall := call.(*ssa.Call)
			// in the receive loop, or in a helper reached only from it
			inLoop := true
			tops := c.tops(call)
			for _, t := range tops {
				if t != loop {
					inLoop = false
				}
			}
			if len(tops) == 0 || !inLoop || !isCall {
				c.R.Fail(rule, con, c.pos(call), "a pipe writer is closed outside the DATA arm of the receive loop (or by a go/defer statement): the waiting file goroutine sees a clean end of data and the entry is reported with the digest of a truncated file")
				continue
			}
			// dominated by the empty-payload edge of a test on len(p.Data)
			// (the test may sit in the helper that holds the call; its
			// operand then stands for p.Data at the helper's call site)
			ok := false
			holder := call.Parent()
			for _, b := range holder.Blocks {
				if len(b.Instrs) == 0 {
					continue
				}
				iff, isIf := b.Instrs[len(b.Instrs)-1].(*ssa.If)
				if !isIf {
					continue
				}
				bo, isBo := eng.Resolve(iff.Cond).(*ssa.BinOp)
				if !isBo {
					continue
				}
				lc, isLen := bo.X.(*ssa.Call)
				k, isK := bo.Y.(*ssa.Const)
				if !isLen || !isK || !c.isCallValueTo(lc, "builtin:len") || len(lc.Call.Args) != 1 || !isFieldLoad(lc.Call.Args[0], "types.Packet.Data") || k.Value == nil || k.Int64() != 0 {
					continue
				}
				var edge *ssa.BasicBlock
				switch bo.Op {
				case token.EQL, token.LEQ:
					edge = b.Succs[0]
				case token.NEQ, token.GTR:
					edge = b.Succs[1]
				}
				if edge != nil && len(edge.Preds) == 1 && edge.Dominates(call.Block()) {
					ok = true
				}
			}
			c.R.Check(ok, rule, con, c.pos(call), "the close is dominated by the len(p.Data) == 0 edge", "the pipe is closed on a path that is not the empty-payload edge of the DATA arm: content still to come is cut off and the entry is reported as complete")
		}
	}
	c.R.Exact(rule, "Close sites of pipe writers", n, 1)
}
