package props

import (
	"fmt"
	"go/token"
	"go/types"
	"strings"

	"fsverif/eng"

	"golang.org/x/tools/go/ssa"
)

func init() {
	register("C17", "Structural clauses of the tar export, decided on all paths of WriteTar's callback: the header is built by tar.FileInfoHeader from the view's FileInfo and link name, then Name (slash form, trailing slash for directories), Uid, Gid, Devmajor, Devminor and Linkname are overridden from the stat before WriteHeader; entries with a link name get size 0 and the symlink or hard-link type according to the mode; every xattr becomes a SCHILY.xattr.<key> PAX record; a payload is copied (checked, from Open of the walked path, closed) only for regular, non-empty, non-link members; the archive is closed as the success return after a checked walk. Only directories get a trailing slash; an entry is written exactly when its info carries a stat; the FileInfo view the header is built from (StatInfo) projects the stat's own size, mode, name and mtime (seconds, then nanoseconds). Device numbers are decoded from the device word in full (shared with C02). The link name of a hard-link member is the full path of the group's first member (the inode map records paths; shared with C09). Does not decide well-formedness (archive/tar, trusted) nor the round trip.", runC17)
}

func runC17(c *Ctx) {
	w := c.Fn("R17", "fsutil.WriteTar")
	if w == nil {
		return
	}
	lit := c.ClosureCalling("R17", w, "(*archive/tar.Writer).WriteHeader")
	if lit == nil {
		return
	}
	r17_1(c, "R17.1", lit)
	r17_2(c, "R17.2", lit)
	r17_3(c, "R17.3", lit)
	r17_4(c, "R17.4", lit)
	r17_5(c, "R17.5", w)
	c.R.Rule("R17.6", "the stat of every non-directory carries its on-disk size: the payload length of a tar entry is Stat.Size (shared with R01.1/R09.3)")
	statSizeAlways(c, "R17.6")
	// a link member names another member: inside a sub-root view the link
	// target carries the sub-root's prefix like the member names do (shared with C09)
	r09_5(c, "R17.7")
	// the walk behind the archive: a failure to read an entry is not dropped (shared with C04)
	r04_15(c, "R17.8")
	// tar.FileInfoHeader takes size, mode and mtime from the entry's FileInfo
	r17_9(c, "R17.9")
	if c.Unix() {
		// device members carry the numbers of the nodes: decoded in full (shared with C02)
		r02_8(c, "R17.10")
		// a link member names an earlier member by its full name: the inode
		// map behind Stat.Linkname records the first name's path (shared with C09)
		r09_4(c, "R17.11")
	}
}

// R17.9: the FileInfo view of a stat projects the stat's own fields.
func r17_9(c *Ctx, rule string) {
	c.R.Rule(rule, "StatInfo is a projection of its stat: Size returns Stat.Size, Mode converts Stat.Mode, ModTime is time.Unix(ModTime/1e9, ModTime%1e9) (or time.Unix(0, ModTime)), Name is the base name of Stat.Path, Sys returns the stat")
	ret := func(fn *ssa.Function) ssa.Value {
		var out ssa.Value
		n := 0
		eng.Instrs(fn, func(in ssa.Instruction) {
			if r, ok := in.(*ssa.Return); ok && r.Parent() == fn && len(r.Results) == 1 {
				out = r.Results[0]
				n++
			}
		})
		if n != 1 {
			return nil
		}
		return out
	}
	field := func(owner string) func(ssa.Value) bool {
		return func(v ssa.Value) bool { return isFieldLoad(v, owner) }
	}
	for _, m := range []struct{ meth, owner, what string }{
		{"Size", "types.Stat.Size", "Stat.Size"},
		{"Mode", "types.Stat.Mode", "Stat.Mode"},
		{"Name", "types.Stat.Path", "the base name of Stat.Path"},
		{"Sys", "fsutil.StatInfo.Stat", "the stat"},
	} {
		fn := c.Fn(rule, "fsutil.(*StatInfo)."+m.meth)
		if fn == nil {
			continue
		}
		v := ret(fn)
		if v == nil {
			c.R.OK(rule, c.name(fn)+"/shape", c.P.Pos(fn.Pos()), "not a single-return accessor (not interpreted)")
			continue
		}
		c.R.Check(c.DerivesFrom(v, field(m.owner), 4), rule, c.name(fn)+"/projects", c.P.Pos(fn.Pos()), "returns "+m.what, "StatInfo."+m.meth+" does not return "+m.what+": everything that reads the entry through os.FileInfo (the tar header, the disk writer's type dispatch) sees another value")
	}
	if fn := c.Fn(rule, "fsutil.(*StatInfo).ModTime"); fn != nil {
		calls := c.P.CallsTo(fn, "time.Unix")
		if len(calls) != 1 {
			c.R.OK(rule, c.name(fn)+"/shape", c.P.Pos(fn.Pos()), "ModTime is not built by one time.Unix call (not interpreted)")
		} else {
			a := calls[0].Common().Args
			div := func(v ssa.Value, op token.Token) bool {
				b, ok := eng.Canon(v).(*ssa.BinOp)
				if !ok || b.Op != op || !isFieldLoad(b.X, "types.Stat.ModTime") {
					return false
				}
				k, isK := eng.ConstInt(b.Y)
				return isK && k == 1000000000
			}
			zero := func(v ssa.Value) bool { k, ok := eng.ConstInt(v); return ok && k == 0 }
			ok := (div(a[0], token.QUO) && div(a[1], token.REM)) || (zero(a[0]) && isFieldLoad(a[1], "types.Stat.ModTime"))
			c.R.Check(ok, rule, c.name(fn)+"/seconds-then-nanoseconds", c.pos(calls[0]), "time.Unix(ModTime/1e9, ModTime%1e9)", "StatInfo.ModTime does not split the nanosecond timestamp into (seconds, nanoseconds) in that order: archive members and FileInfo consumers get a wrong mtime")
		}
	}
}

// beforeEveryHeader: every path of lit to any WriteHeader call passes a.
func beforeEveryHeader(c *Ctx, lit *ssa.Function, isA func(ssa.Instruction) bool) bool {
	whs := c.P.CallsTo(lit, "(*archive/tar.Writer).WriteHeader")
	if len(whs) == 0 {
		return false
	}
	ok, _, und := c.Precedes(lit, nil, nil, isA, func(in ssa.Instruction) bool {
		for _, w := range whs {
			if in == ssa.Instruction(w) {
				return true
			}
		}
		return false
	})
	return ok && !und
}

func hdrStores(lit *ssa.Function, field string) []*ssa.Store {
	return fieldStoresIn(lit, "archive/tar.Header."+field)
}

func r17_1(c *Ctx, rule string, lit *ssa.Function) {
	c.R.Rule(rule, "header overrides: FileInfoHeader(fi, stat.Linkname); Name = ToSlash(path) (+ '/' for directories); Uid, Gid, Devmajor, Devminor, Linkname from the stat; all before WriteHeader")
	var wh ssa.CallInstruction
	for _, call := range c.P.CallsTo(lit, "(*archive/tar.Writer).WriteHeader") {
		wh = call
	}
	c.ObErrChecked(rule+"/checked", wh)
	// FileInfoHeader
	fih := c.P.CallsTo(lit, "archive/tar.FileInfoHeader")
	c.R.Exact(rule, "tar.FileInfoHeader calls", len(fih), 1)
	for _, call := range fih {
		a := call.Common().Args
		okFi := c.DerivesFrom(a[0], func(v ssa.Value) bool { return c.isCallValueTo(v, "(io/fs.DirEntry).Info") }, 3)
		c.R.Check(okFi && isFieldLoad(a[1], "types.Stat.Linkname"), rule, c.siteName(call)+"/args", c.pos(call), "FileInfoHeader(entry's info, stat.Linkname)", "the header is not built from the entry's FileInfo and the stat's link name")
		c.ObErrChecked(rule+"/checked", call)
		// the header written is this header
		c.R.Check(c.DerivesFrom(wh.Common().Args[1], func(v ssa.Value) bool { return v == call.Value() }, 3), rule, c.siteName(wh)+"/header", c.pos(wh), "the header written is the one built", "WriteHeader is not given the header that was built and overridden")
	}
	for _, e := range []struct{ hdr, stat string }{{"Uid", "types.Stat.Uid"}, {"Gid", "types.Stat.Gid"}, {"Devmajor", "types.Stat.Devmajor"}, {"Devminor", "types.Stat.Devminor"}, {"Linkname", "types.Stat.Linkname"}} {
		ss := hdrStores(lit, e.hdr)
		con := c.name(lit) + "/hdr." + e.hdr
		if len(ss) == 0 {
			c.R.Fail(rule, con, c.pos(wh), "hdr."+e.hdr+" is not overridden from the stat: the archive carries what FileInfoHeader guessed (names instead of numeric ids, zero device numbers)")
			continue
		}
		for _, s := range ss {
			s := s
			ok := c.DerivesFrom(s.Val, func(v ssa.Value) bool { return isFieldLoad(v, e.stat) }, 3) && beforeEveryHeader(c, lit, func(in ssa.Instruction) bool { return in == ssa.Instruction(s) })
			c.R.Check(ok, rule, con, c.pos(s), "set from "+e.stat+" before WriteHeader", "hdr."+e.hdr+" is not set from "+e.stat+" before the header is written")
		}
	}
	// Name: one or more stores (`name += "/"` on a local, or `hdr.Name += "/"` on the field)
	ns := hdrStores(lit, "Name")
	c.R.Floor(rule, "stores to hdr.Name", len(ns), 1)
	if len(ns) == 0 {
		return
	}
	isName := func(in ssa.Instruction) bool {
		for _, s := range ns {
			if in == ssa.Instruction(s) {
				return true
			}
		}
		return false
	}
	okSlash, before := true, false
	for _, s := range ns {
		if !c.DerivesFrom(s.Val, func(v ssa.Value) bool {
			call, ok := v.(*ssa.Call)
			if !ok || c.P.CalleeName(call) != "path/filepath.ToSlash" {
				return false
			}
			_, isP := eng.Strip(call.Call.Args[0]).(*ssa.Parameter)
			return isP
		}, 5) {
			okSlash = false
		}
		s := s
		if beforeEveryHeader(c, lit, func(in ssa.Instruction) bool { return in == ssa.Instruction(s) }) {
			before = true
		}
	}
	// nothing renames the member once its header is written
	exA := c.explorer(lit)
	exA.From = wh
	exA.Target = func(in ssa.Instruction, st *eng.State) bool { return isName(in) }
	exA.StopAtTarget = true
	late := len(exA.Run()) > 0 || exA.Exhausted
	c.R.Check(okSlash && before && !late, rule, c.name(lit)+"/hdr.Name", c.pos(ns[0]), "Name = ToSlash(walk path), before WriteHeader", "the member name is not the slash form of the walked path")
	// trailing slash for directories: the name in the header when it is written
	x := c.explorer(lit)
	as := map[string]bool{}
	for _, call := range c.P.CallsTo(lit, "(io/fs.FileInfo).IsDir") {
		if cl, ok := call.(*ssa.Call); ok {
			as[x.KeyAtEntry(cl)] = true
		}
	}
	for _, call := range c.P.CallsTo(lit, "strings.HasSuffix") {
		if cl, ok := call.(*ssa.Call); ok {
			as[x.KeyAtEntry(cl)] = false
		}
	}
	const slashed = "u:name-ends-with-slash"
	ex := c.explorer(lit)
	ex.Assume = as
	bad, seen := 0, 0
	ex.Barrier = func(in ssa.Instruction, st *eng.State) bool {
		if st2, ok := in.(*ssa.Store); ok && isName(in) {
			st.Facts[slashed] = strings.HasSuffix(ex.SourceKey(st2.Val, st), `+c:"/")`)
		}
		return false
	}
	ex.Target = func(in ssa.Instruction, st *eng.State) bool {
		if in != ssa.Instruction(wh) {
			return false
		}
		seen++
		if !st.Facts[slashed] {
			bad++
		}
		return true
	}
	ex.StopAtTarget = true
	ex.Run()
	c.R.Check(seen > 0 && bad == 0 && len(as) >= 2 && !ex.Exhausted, rule, c.name(lit)+"/hdr.Name/dir-slash", c.pos(ns[0]), "directories are named with a trailing slash", "a directory member's name does not get a trailing slash")
	// ... and only directories
	as2 := map[string]bool{}
	for _, call := range c.P.CallsTo(lit, "(io/fs.FileInfo).IsDir") {
		if cl, ok := call.(*ssa.Call); ok {
			as2[x.KeyAtEntry(cl)] = false
		}
	}
	ex2 := c.explorer(lit)
	ex2.Assume = as2
	bad2, seen2 := 0, 0
	ex2.Barrier = func(in ssa.Instruction, st *eng.State) bool {
		if st2, ok := in.(*ssa.Store); ok && isName(in) {
			st.Facts[slashed] = strings.HasSuffix(ex2.SourceKey(st2.Val, st), `+c:"/")`)
		}
		return false
	}
	ex2.Target = func(in ssa.Instruction, st *eng.State) bool {
		if in != ssa.Instruction(wh) {
			return false
		}
		seen2++
		if st.Facts[slashed] {
			bad2++
		}
		return true
	}
	ex2.StopAtTarget = true
	ex2.Run()
	c.R.Check(seen2 > 0 && bad2 == 0 && !ex2.Exhausted, rule, c.name(lit)+"/hdr.Name/file-no-slash", c.pos(ns[0]), "a member that is not a directory is written under its plain name", "a member that is not a directory can get a trailing slash appended to its name (or is never written): extraction creates a directory where the file should be")
	// a typed entry is written, an untyped one is refused
	eng.InstrsShallow(lit, func(in ssa.Instruction) {
		ta, ok := in.(*ssa.TypeAssert)
		if !ok || !ta.CommaOk || types.TypeString(ta.AssertedType, nil) != "*github.com/tonistiigi/fsutil/types.Stat" {
			return
		}
		for _, r := range eng.Referrers(ta) {
			exr, isE := r.(*ssa.Extract)
			if !isE || exr.Index != 1 {
				continue
			}
			y := c.explorer(lit)
			hitOK, und1 := c.ReachableUnder(lit, map[string]bool{y.RegKey(exr): true}, nil, func(i2 ssa.Instruction) bool { return i2 == ssa.Instruction(wh) })
			hitNo, und2 := c.ReachableUnder(lit, map[string]bool{y.RegKey(exr): false}, nil, func(i2 ssa.Instruction) bool { return i2 == ssa.Instruction(wh) })
			c.R.Check(!und1 && !und2 && hitOK != nil && hitNo == nil, rule, c.name(lit)+"/stat-carrying-entry-written", c.pos(ta), "an entry whose info carries a stat is written, one without is refused", "the test of the stat type assertion is inverted: every well-formed entry is refused (or one without a stat is dereferenced)")
		}
	})
}

// linkNameTests: the tests `Linkname != ""` on the header or the stat, as
// assumptions "the member has a link name" / "has none".
func linkNameTests(c *Ctx, lit *ssa.Function, x *eng.Explorer) (link, nolink map[string]bool) {
	of := func(v ssa.Value) bool {
		return isFieldLoad(v, "archive/tar.Header.Linkname") || isFieldLoad(v, "types.Stat.Linkname")
	}
	return c.emptinessTests(lit, x, true, of), c.emptinessTests(lit, x, false, of)
}

func r17_2(c *Ctx, rule string, lit *ssa.Function) {
	c.R.Rule(rule, "members with a link name: Size = 0; Typeflag = TypeSymlink when the mode says symlink, TypeLink otherwise; members without link name keep FileInfoHeader's type and size")
	x := c.explorer(lit)
	link, nolink := linkNameTests(c, lit, x)
	base := c.name(lit)
	if len(link) == 0 {
		c.R.Fail(rule, base+"/link-test", c.P.Pos(lit.Pos()), "no test of the link name: link members keep the size and type of a regular file")
		return
	}
	sym := modeBitTests(c, lit, x, modeSymlink)
	typeflags := hdrStores(lit, "Typeflag")
	var symStore, linkStore *ssa.Store
	for _, s := range typeflags {
		if k, ok := eng.ConstInt(s.Val); ok {
			switch k {
			case '2':
				symStore = s
			case '1':
				linkStore = s
			}
		}
	}
	c.R.Check(symStore != nil && linkStore != nil, rule, base+"/typeflags", c.P.Pos(lit.Pos()), "TypeSymlink and TypeLink are both assigned", "the callback does not assign both tar.TypeSymlink and tar.TypeLink")
	if symStore == nil || linkStore == nil || len(sym) == 0 {
		if len(sym) == 0 {
			c.R.Fail(rule, base+"/symlink-test", c.P.Pos(lit.Pos()), "no symlink mode test decides between TypeSymlink and TypeLink")
		}
		return
	}
	isSym, notSym := map[string]bool{}, map[string]bool{}
	for _, k := range sym {
		isSym[k], notSym[k] = true, false
	}
	is := func(s *ssa.Store) func(ssa.Instruction) bool {
		return func(in ssa.Instruction) bool { return in == ssa.Instruction(s) }
	}
	c.ObUnreachable(rule, base+"/TypeSymlink-only-symlinks", lit, notSym, is(symStore), "Typeflag = TypeSymlink", "the entry is not a symlink")
	c.ObUnreachable(rule, base+"/TypeLink-not-symlinks", lit, isSym, is(linkStore), "Typeflag = TypeLink", "the entry is a symlink")
	c.ObUnreachable(rule, base+"/type-only-for-links", lit, nolink, func(in ssa.Instruction) bool {
		return in == ssa.Instruction(symStore) || in == ssa.Instruction(linkStore)
	}, "overriding the type", "the entry has no link name")
	var wh ssa.CallInstruction
	for _, call := range c.P.CallsTo(lit, "(*archive/tar.Writer).WriteHeader") {
		wh = call
	}
	isWH := func(in ssa.Instruction) bool { return in == ssa.Instruction(wh) }
	c.ObPrecedes(rule, base+"/link-gets-type", lit, link, func(in ssa.Instruction) bool {
		return in == ssa.Instruction(symStore) || in == ssa.Instruction(linkStore)
	}, isWH, "assigning the link type", "WriteHeader for a member with a link name")
	// size
	var zeros []*ssa.Store
	for _, s := range hdrStores(lit, "Size") {
		if k, ok := eng.ConstInt(s.Val); ok && k == 0 {
			zeros = append(zeros, s)
		}
	}
	isZero := func(in ssa.Instruction) bool {
		for _, z := range zeros {
			if in == ssa.Instruction(z) {
				return true
			}
		}
		return false
	}
	if len(zeros) == 0 {
		c.R.Fail(rule, base+"/link-size-zero", c.P.Pos(lit.Pos()), "link members keep their size: the reader expects a payload that is not written")
	} else {
		c.ObPrecedes(rule, base+"/link-size-zero", lit, link, isZero, isWH, "Size = 0", "WriteHeader for a member with a link name")
		c.ObUnreachable(rule, base+"/size-kept-otherwise", lit, nolink, isZero, "zeroing the size", "the entry has no link name")
	}
}

func r17_3(c *Ctx, rule string, lit *ssa.Function) {
	c.R.Rule(rule, "every xattr of the stat becomes the PAX record SCHILY.xattr.<key> = string(value), before WriteHeader")
	var wh ssa.CallInstruction
	for _, call := range c.P.CallsTo(lit, "(*archive/tar.Writer).WriteHeader") {
		wh = call
	}
	n := 0
	eng.Instrs(lit, func(in ssa.Instruction) {
		mu, ok := in.(*ssa.MapUpdate)
		if !ok || !isFieldLoad(mu.Map, "archive/tar.Header.PAXRecords") {
			return
		}
		n++
		keyOK := false
		if bo, isB := mu.Key.(*ssa.BinOp); isB && bo.Op == token.ADD {
			if s, isS := eng.ConstString(bo.X); isS && s == "SCHILY.xattr." {
				keyOK = c.DerivesFrom(bo.Y, func(v ssa.Value) bool { return isFieldLoad(v, "types.Stat.Xattrs") }, 4)
			}
		}
		valOK := c.DerivesFrom(mu.Value, func(v ssa.Value) bool { return isFieldLoad(v, "types.Stat.Xattrs") }, 5)
		c.R.Check(keyOK && valOK && eng.InCycle(mu.Block()), rule, fmt.Sprintf("%s/pax-record#%d", c.name(lit), n), c.pos(mu), `PAXRecords["SCHILY.xattr."+k] = string(v) for each xattr`, "xattrs are not exported as SCHILY.xattr.<key> PAX records taken from stat.Xattrs")
		// the loop precedes WriteHeader: the map update's block can reach wh, and wh cannot reach it
		ex := c.explorer(lit)
		ex.From = wh
		ex.Target = func(i2 ssa.Instruction, st *eng.State) bool { return i2 == in }
		ex.StopAtTarget = true
		c.R.Check(len(ex.Run()) == 0, rule, fmt.Sprintf("%s/pax-record#%d/before-header", c.name(lit), n), c.pos(mu), "records are added before the header is written", "PAX records are added after WriteHeader")
	})
	c.R.Floor(rule, "PAX record assignments", n, 1)
	// every one of them: no iteration of the loop over stat.Xattrs comes back
	// to the iterator without having stored a record (an attribute with an
	// empty value - a whiteout or opaque marker - is an attribute)
	eng.Instrs(lit, func(in ssa.Instruction) {
		nx, ok := in.(*ssa.Next)
		if !ok {
			return
		}
		rg, ok := nx.Iter.(*ssa.Range)
		if !ok || !isFieldLoad(rg.X, "types.Stat.Xattrs") {
			return
		}
		ex := c.explorer(lit)
		ex.From = nx
		ex.Barrier = func(i2 ssa.Instruction, st *eng.State) bool {
			mu, isMU := i2.(*ssa.MapUpdate)
			return isMU && isFieldLoad(mu.Map, "archive/tar.Header.PAXRecords")
		}
		ex.Target = func(i2 ssa.Instruction, st *eng.State) bool { return i2 == ssa.Instruction(nx) }
		ex.StopAtTarget = true
		hits := ex.Run()
		con := c.name(lit) + "/every-xattr-recorded"
		switch {
		case ex.Exhausted:
			c.R.Undecided(rule, con, c.pos(nx), "state limit")
		case len(hits) > 0:
			c.R.Fail(rule, con, c.pos(nx), "an iteration of the loop over stat.Xattrs can go on to the next attribute without storing a PAX record (attributes with an empty value are passed over?): the member lacks an attribute the view has; path "+eng.BlockTrace(lit, hits[0].Trace))
		default:
			c.R.OK(rule, con, c.pos(nx), "every iteration of the loop over stat.Xattrs stores a record")
		}
	})
	// no header is written before the stat's xattrs were looked at
	readsXattrs := func(in ssa.Instruction) bool {
		v, ok := in.(ssa.Value)
		if !ok {
			return false
		}
		o, _, _, isLoad := eng.LoadedFieldRaw(v)
		return isLoad && o == "types.Stat.Xattrs"
	}
	c.R.Check(beforeEveryHeader(c, lit, readsXattrs), rule, c.name(lit)+"/xattrs-before-every-header", c.pos(wh), "every WriteHeader is preceded by the inspection of stat.Xattrs", "a header can be written without the stat's xattrs having been looked at: that member carries no SCHILY.xattr records")
	// the map is made when there are xattrs
	mk := 0
	for _, s := range hdrStores(lit, "PAXRecords") {
		if _, isMM := s.Val.(*ssa.MakeMap); isMM {
			mk++
		}
	}
	c.R.Check(mk >= 1, rule, c.name(lit)+"/pax-map", c.P.Pos(lit.Pos()), "PAXRecords is allocated", "PAXRecords is never allocated: assigning a record panics on a nil map")
	// ... on every path that assigns a record: with the xattr map non-empty
	// no record assignment is reached without the allocation (the guard of
	// the allocation has the right polarity)
	x := c.explorer(lit)
	pins := c.emptinessTests(lit, x, true, func(v ssa.Value) bool { return isFieldLoad(v, "types.Stat.Xattrs") })
	if mk >= 1 && len(pins) > 0 {
		x.Assume = pins
		x.Barrier = func(in ssa.Instruction, st *eng.State) bool {
			for _, s := range hdrStores(lit, "PAXRecords") {
				if in == ssa.Instruction(s) {
					return true
				}
			}
			return false
		}
		x.Target = func(in ssa.Instruction, st *eng.State) bool {
			mu, ok := in.(*ssa.MapUpdate)
			return ok && isFieldLoad(mu.Map, "archive/tar.Header.PAXRecords")
		}
		x.StopAtTarget = true
		hits := x.Run()
		c.R.Check(len(hits) == 0 && !x.Exhausted, rule, c.name(lit)+"/pax-map-before-records", c.P.Pos(lit.Pos()), "with xattrs present the map is allocated before the first record", "with xattrs present a record is assigned before PAXRecords was allocated (the emptiness test guarding the allocation is inverted?): the export panics on the first entry that has xattrs")
	}
}

func r17_4(c *Ctx, rule string, lit *ssa.Function) {
	c.R.Rule(rule, "payload rule: io.Copy(tw, rc) only for Typeflag == TypeReg && Size > 0 && Linkname == \"\"; rc = fs.Open(walked path); copy and close checked")
	cps := c.P.CallsTo(lit, "io.Copy")
	c.R.Exact(rule, "io.Copy calls in the callback", len(cps), 1)
	if len(cps) != 1 {
		return
	}
	cp := cps[0]
	isCp := func(in ssa.Instruction) bool { return in == ssa.Instruction(cp) }
	x := c.explorer(lit)
	base := c.name(lit)
	var tReg, tSize, tLink []string
	eng.Instrs(lit, func(in ssa.Instruction) {
		bo, ok := in.(*ssa.BinOp)
		if !ok {
			return
		}
		k := x.KeyAtEntry(bo)
		switch {
		case isFieldLoad(bo.X, "archive/tar.Header.Typeflag") && (bo.Op == token.EQL || bo.Op == token.NEQ):
			if v, isK := eng.ConstInt(bo.Y); isK && v == '0' {
				if bo.Op == token.NEQ {
					k = "!" + k
				}
				tReg = append(tReg, k)
			}
		case isFieldLoad(bo.X, "archive/tar.Header.Size"):
			if v, isK := eng.ConstInt(bo.Y); isK && v == 0 {
				switch bo.Op {
				case token.GTR, token.NEQ:
					tSize = append(tSize, k)
				case token.LEQ, token.EQL:
					tSize = append(tSize, "!"+k)
				}
			}
		case isFieldLoad(bo.X, "archive/tar.Header.Linkname") && eng.Dominates(hdrFirstWrite(c, lit), bo):
			if s, isS := eng.ConstString(bo.Y); isS && s == "" {
				if bo.Op == token.NEQ {
					k = "!" + k
				}
				tLink = append(tLink, k)
			}
		}
	})
	for _, e := range []struct {
		name string
		keys []string
		why  string
	}{{"regular-only", tReg, "the member is not a regular file"}, {"non-empty-only", tSize, "the member's size is zero"}, {"not-for-links", tLink, "the member has a link name"}} {
		if len(e.keys) == 0 && e.name == "not-for-links" && len(tReg) > 0 {
			// no test of the link name in the payload condition: the type test
			// excludes links if every link member was retyped before its header
			// was written and nothing ever assigns the regular type
			link, _ := linkNameTests(c, lit, x)
			tf := hdrStores(lit, "Typeflag")
			retyped := len(link) > 0 && len(tf) > 0
			for _, s := range tf {
				if k, ok := eng.ConstInt(s.Val); !ok || k == '0' || k == 0 {
					retyped = false
				}
			}
			var wh ssa.CallInstruction
			for _, call := range c.P.CallsTo(lit, "(*archive/tar.Writer).WriteHeader") {
				wh = call
			}
			if retyped && wh != nil {
				ok, _, und := c.Precedes(lit, nil, link, func(in ssa.Instruction) bool {
					for _, s := range tf {
						if in == ssa.Instruction(s) {
							return true
						}
					}
					return false
				}, func(in ssa.Instruction) bool { return in == ssa.Instruction(wh) })
				retyped = ok && !und
			}
			if retyped {
				c.R.OK(rule, base+"/payload/"+e.name, c.pos(cp), "the payload needs the regular type, every member with a link name was given a link type before its header was written, and no statement assigns the regular type")
				continue
			}
		}
		if len(e.keys) == 0 {
			c.R.Fail(rule, base+"/payload/"+e.name, c.pos(cp), "the payload condition lacks the test for: "+e.why)
			continue
		}
		as := map[string]bool{}
		for _, k := range e.keys {
			as[k] = false
		}
		c.ObUnreachable(rule, base+"/payload/"+e.name, lit, as, isCp, "copying a payload", e.why)
	}
	c.ObReachable(rule, base+"/payload/live", lit, nil, isCp, "copying a payload", "nothing is assumed")
	c.ObErrChecked(rule+"/checked", cp)
	a := cp.Common().Args
	okDst := c.DerivesFrom(a[0], func(v ssa.Value) bool { return c.isCallValueTo(v, "archive/tar.NewWriter") }, 5)
	okSrc := c.DerivesFrom(a[1], func(v ssa.Value) bool { return c.isCallValueTo(v, "(fsutil.FS).Open") }, 3)
	c.R.Check(okDst && okSrc, rule, c.siteName(cp)+"/args", c.pos(cp), "io.Copy(tar writer, opened file)", "the payload is not copied from the opened file into the tar writer")
	for _, call := range c.P.CallsTo(lit, "(fsutil.FS).Open") {
		_, isP := eng.Strip(call.Common().Args[0]).(*ssa.Parameter)
		c.R.Check(isP, rule, c.siteName(call)+"/path", c.pos(call), "opens the walked path", "the payload is not opened from the walked path")
		c.ObErrChecked(rule+"/checked", call)
	}
	// after WriteHeader
	c.ObPrecedes(rule, base+"/header-before-payload", lit, nil, c.checkedCallPred("(*archive/tar.Writer).WriteHeader"), isCp, "a checked WriteHeader", "copying the payload")
	cl := c.P.CallsTo(lit, "(io.Closer).Close")
	c.R.Floor(rule, "Close of the opened file", len(cl), 1)
	for _, call := range cl {
		c.ObErrChecked(rule+"/checked", call)
	}
}

// hdrFirstWrite returns the WriteHeader call (payload tests come after it).
func hdrFirstWrite(c *Ctx, lit *ssa.Function) ssa.Instruction {
	for _, call := range c.P.CallsTo(lit, "(*archive/tar.Writer).WriteHeader") {
		return call
	}
	return lit.Blocks[0].Instrs[0]
}

func r17_5(c *Ctx, rule string, w *ssa.Function) {
	c.R.Rule(rule, "WriteTar's success return is the result of tw.Close(), after a checked FS.Walk from the root")
	closes := map[string]bool{}
	for _, call := range c.P.CallsTo(w, "(*archive/tar.Writer).Close") {
		if cl, ok := call.(*ssa.Call); ok {
			closes[c.reg(cl)] = true
		}
	}
	c.R.Floor(rule, "tar writer Close calls", len(closes), 1)
	x := c.explorer(w)
	good := 0
	x.Target = func(in ssa.Instruction, st *eng.State) bool {
		if !x.IsSuccessReturn(in, st) {
			return false
		}
		if closes[x.SourceKey(in.(*ssa.Return).Results[0], st)] {
			good++
			return false
		}
		return true
	}
	x.StopAtTarget = true
	h := x.Run()
	c.R.Check(len(h) == 0 && good > 0 && !x.Exhausted, rule, c.name(w)+"/success-is-close", c.P.Pos(w.Pos()), "the only success return is tw.Close()'s result", "WriteTar can return success without closing the archive (no end-of-archive blocks, unflushed data)")
	c.ObPrecedes(rule, c.name(w)+"/walk-before-close", w, nil, c.checkedCallPred("(fsutil.FS).Walk"), c.callPred("(*archive/tar.Writer).Close"), "a checked FS.Walk", "closing the archive")
	for _, call := range c.P.CallsTo(w, "archive/tar.NewWriter") {
		_, isP := eng.Strip(call.Common().Args[0]).(*ssa.Parameter)
		c.R.Check(isP, rule, c.siteName(call)+"/sink", c.pos(call), "writes to the caller's writer", "the archive is not written to the caller's writer")
	}
}
