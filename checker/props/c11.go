package props

import (
	"fmt"
	"go/token"
	"go/types"
	"strings"

	"fsverif/eng"

	"golang.org/x/tools/go/ssa"
)

func init() {
	register("C11", "Structural clauses that make a filtered view transfer as a self-contained tree: the sender's filesystem is only ever the hard-link-resetting wrapper; filterFS.Open consults, before delegating, every matcher filterFS.Walk consults, with the parent-aware query, and a hidden path yields an error wrapping os.ErrNotExist; the link-reset filter uses one map per walk, records every regular entry, and reports rewritten entries with the rewritten stat; the receiver's validators are wired (shared with C03); the walk prunes a directory only by literal prefix under the prefix-only flag of the right polarity, computed from the patterns of that polarity (shared with C10). The match state an entry inherits is read from the last element of the walk's open-directories stack. The set of characters that makes a pattern a wildcard pattern is complete (shared with C10). The scan that keeps a hidden directory open looks only at the patterns that can bring entries back (shared with C10). The file ids both ends key their tables by are the zero-based positions in the STAT sequence (counter from 0, one increment per announced entry, registration with the pre-increment value; shared with C06/C07): two ends that agree with each other on any other numbering hand a conforming peer a neighbouring file's bytes. Does not decide that the stream is valid for every filter configuration nor walk/open agreement as a semantic statement.", runC11)
}

func runC11(c *Ctx) {
	r11_1(c, "R11.1")
	r11_2(c, "R11.2")
	r11_3(c, "R11.3")
	r03_1(c, "R11.4a")
	r03_4(c, "R11.4b")
	// the walk and Open of a filtered view agree only if the walk attributes
	// match state to real ancestors: containment tests use a
	// separator-terminated prefix (shared with C10)
	r10_2(c, "R11.5")
	// ... and only if the walk prunes nothing that Open would still show: the
	// two prefix-only flags that allow pruning are computed from the patterns
	// of the right polarity (shared with C10)
	r10_6(c, "R11.6")
	// ... and each pruning site consults the flag of its own polarity (the
	// exclude-side prune the exception flag, the include-side prune the
	// include flag; shared with C10)
	r10_1(c, "R11.7")
	r11_8(c, "R11.8")
	// text-level pruning only for patterns without any metacharacter: the
	// set of metacharacters is complete (shared with C10)
	r10_11(c, "R11.9")
	// the scan that keeps a hidden directory open looks at the patterns that
	// can bring entries back (shared with C10)
	r10_13(c, "R11.10")
	// ... and every entry the walk reports was put to the matchers Open
	// consults, itself - not its parent (shared with C10)
	r10_14(c, "R11.14")
	// an empty include list is no filter, not a filter that hides everything (shared with C10)
	r10_16(c, "R11.15")
	// a promoted link member is requested like any regular file: ids are
	// zero-based STAT positions on both ends (shared with C06/C07)
	idNumbering(c, "R11.11", "R11.12", "R11.13")
}

// R11.8: the match state an entry inherits is that of its nearest ancestor.
//
// The walk keeps the directories it is inside of on a stack; an entry's
// patterns are evaluated with the match results of the LAST element (the
// nearest ancestor still open). Read from any other slot, the results of an
// outer directory stand for an inner one: children of an excluded directory
// below a non-excluded one are announced although Open refuses them.
func r11_8(c *Ctx, rule string) {
	c.R.Rule(rule, "filterFS.Walk reads the inherited match info (and the containment prefix) of an entry from the last element of its open-directories stack")
	fw := getFilterWalk(c, rule)
	if fw == nil {
		return
	}
	lit := fw.lit
	n := 0
	inherited := func(owner string) bool {
		switch owner {
		case "fsutil.visitedDir.includeMatchInfo", "fsutil.visitedDir.excludeMatchInfo", "fsutil.visitedDir.pathWithSep":
			return true
		}
		return false
	}
	// does the element address v (an IndexAddr, or what a helper returned)
	// end up in a read of the inherited state?
	var readsInherited func(v ssa.Value, d int) bool
	readsInherited = func(v ssa.Value, d int) bool {
		if d > 3 {
			return false
		}
		for _, r := range eng.Referrers(v) {
			switch u := r.(type) {
			case *ssa.FieldAddr:
				if u.X == v && inherited(eng.FieldOwnerName(u.X.Type(), u.Field)) {
					for _, r2 := range eng.Referrers(u) {
						if ld, isL := r2.(*ssa.UnOp); isL && ld.Op == token.MUL {
							return true
						}
					}
				}
			case *ssa.Phi:
				if readsInherited(u, d+1) {
					return true
				}
			case *ssa.Return:
				// handed back by a helper (`top()`): what its callers do with it
				found := false
				eng.Instrs(lit, func(i2 ssa.Instruction) {
					if call, isC := i2.(*ssa.Call); isC && call.Common().StaticCallee() == u.Parent() && readsInherited(call, d+1) {
						found = true
					}
				})
				if found {
					return true
				}
			}
		}
		return false
	}
	sameStack := func(a, b ssa.Value) bool {
		if ca, cb := c.P.LoadedCell(a), c.P.LoadedCell(b); ca != "" || cb != "" {
			return ca == cb
		}
		return eng.SameValue(eng.Canon(a), eng.Canon(b))
	}
	eng.Instrs(lit, func(in ssa.Instruction) {
		ia, ok := in.(*ssa.IndexAddr)
		if !ok || !readsInherited(ia, 0) {
			return
		}
		n++
		isLast := false
		if bo, isB := eng.Canon(ia.Index).(*ssa.BinOp); isB && bo.Op == token.SUB {
			if k1, isK := eng.ConstInt(bo.Y); isK && k1 == 1 {
				// len(stack), possibly carried by a loop variable that is
				// len(stack) on every edge
				var isLen func(v ssa.Value, d int) bool
				isLen = func(v ssa.Value, d int) bool {
					switch y := eng.Canon(v).(type) {
					case *ssa.Call:
						return c.P.CalleeName(y) == "builtin:len" && sameStack(y.Call.Args[0], ia.X)
					case *ssa.Phi:
						if d > 2 {
							return false
						}
						unwinds := false
						for _, e := range y.Edges {
							// the counter of an unwinding loop (`depth := len(stack);
							// for depth != 0 && !inside(stack[depth-1]) { depth-- };
							// stack = stack[:depth]`): slot depth-1 is the top of the
							// stack the loop is cutting back to
							if eb, isSub := eng.Canon(e).(*ssa.BinOp); isSub && eb.Op == token.SUB && eb.X == ssa.Value(y) {
								if k, isK := eng.ConstInt(eb.Y); isK && k == 1 {
									unwinds = true
									continue
								}
							}
							if !isLen(e, d+1) {
								return false
							}
						}
						if unwinds {
							cut := false
							eng.Instrs(lit, func(i2 ssa.Instruction) {
								if sl, isS := i2.(*ssa.Slice); isS && sl.High == ssa.Value(y) && eng.SliceLow(sl) == nil && sameStack(sl.X, ia.X) {
									cut = true
								}
							})
							return cut
						}
						return len(y.Edges) > 0
					}
					return false
				}
				if isLen(bo.X, 0) {
					isLast = true
				}
			}
		}
		c.R.Check(isLast, rule, fmt.Sprintf("%s/nearest-ancestor#%d", c.name(lit), n), c.pos(ia), "read from the last element of the stack", "the inherited match state (or containment prefix) is read from a slot other than the last of the open-directories stack: an outer directory's verdict stands for the nearest one, walk and Open disagree")
	})
	if n == 0 {
		c.R.OK(rule, c.name(lit)+"/nearest-ancestor", c.P.Pos(lit.Pos()), "the open-directories stack is not read by index in this callback (not interpreted)")
	}
}

func r11_1(c *Ctx, rule string) {
	c.R.Rule(rule, "sender.fs is only ever assigned the result of WithHardlinkReset, which wraps its argument in a hardlinkFilter")
	fv := c.P.StructField("fsutil", "sender", "fs")
	if fv == nil {
		c.R.Missing(rule, "field sender.fs")
		return
	}
	n := 0
	for _, fa := range c.P.Census().FieldAddrs(fv) {
		for _, r := range eng.Referrers(fa) {
			s, ok := r.(*ssa.Store)
			if !ok || s.Addr != ssa.Value(fa) {
				continue
			}
			n++
			ok2 := c.isCallValueTo(eng.Strip(s.Val), "fsutil.WithHardlinkReset")
			c.R.Check(ok2, rule, fmt.Sprintf("sender.fs/store#%d in %s", n, c.name(s.Parent())), c.pos(s), "assigned WithHardlinkReset(fs)", "sender.fs is assigned a filesystem that is not wrapped by WithHardlinkReset: a filtered view can announce a hard link whose source it does not contain")
			if call, isCall := eng.Strip(s.Val).(*ssa.Call); isCall && ok2 {
				_, isParam := eng.Strip(call.Call.Args[0]).(*ssa.Parameter)
				c.R.Check(isParam, rule, fmt.Sprintf("sender.fs/store#%d/wraps-caller-fs", n), c.pos(s), "wraps the caller's FS", "WithHardlinkReset is not applied to the FS the caller passed to Send")
			}
		}
	}
	c.R.Floor(rule, "stores to sender.fs", n, 1)
	w := c.Fn(rule, "fsutil.WithHardlinkReset")
	if w != nil {
		ok := false
		eng.Instrs(w, func(in ssa.Instruction) {
			r, isR := in.(*ssa.Return)
			if !isR {
				return
			}
			if al, isA := eng.Strip(r.Results[0]).(*ssa.Alloc); isA && strings.HasSuffix(eng.TypeStr(al.Type()), "fsutil.hardlinkFilter") {
				f := structLitFields(al)
				if _, isP := eng.Strip(f["fs"]).(*ssa.Parameter); isP {
					ok = true
				}
			}
		})
		c.R.Check(ok, rule, "fsutil.WithHardlinkReset/returns-filter", c.P.Pos(w.Pos()), "returns &hardlinkFilter{fs: fs}", "WithHardlinkReset no longer returns a hardlinkFilter around its argument")
	}
}

const pmOrParent = "(*github.com/moby/patternmatcher.PatternMatcher).MatchesOrParentMatches"

func r11_2(c *Ctx, rule string) {
	c.R.Rule(rule, "filterFS.Open: for every matcher field the walk consults, a checked MatchesOrParentMatches on that matcher precedes the delegate Open whenever the matcher is set, and its rejecting verdict makes Open return an error wrapping os.ErrNotExist without delegating")
	op := c.Fn(rule, "fsutil.(*filterFS).Open")
	fw := getFilterWalk(c, rule)
	if op == nil || fw == nil {
		return
	}
	// matcher fields consulted by Walk
	consulted := map[string]bool{}
	for _, f := range append([]*ssa.Function{fw.walk}, eng.Closures(fw.walk)...) {
		eng.Instrs(f, func(in ssa.Instruction) {
			v, ok := in.(ssa.Value)
			if !ok {
				return
			}
			if o, _, fv, isF := eng.LoadedField(v); isF && strings.HasPrefix(o, "fsutil.filterFS.") && strings.HasSuffix(types.TypeString(fv.Type(), nil), "patternmatcher.PatternMatcher") {
				consulted[o[strings.LastIndex(o, ".")+1:]] = true
			}
		})
	}
	c.R.Floor(rule, "matcher fields consulted by filterFS.Walk", len(consulted), 2)
	isDelegate := func(in ssa.Instruction) bool {
		return c.P.IsCallTo(in, "(fsutil.FS).Open") && isFieldLoad(in.(ssa.CallInstruction).Common().Value, "fsutil.filterFS.fs")
	}
	nd := 0
	eng.Instrs(op, func(in ssa.Instruction) {
		if isDelegate(in) {
			nd++
			_, isP := eng.Strip(in.(ssa.CallInstruction).Common().Args[0]).(*ssa.Parameter)
			c.R.Check(isP, rule, c.siteName(in)+"/same-path", c.pos(in), "delegates the same path", "filterFS.Open delegates a different path than it was asked for")
		}
	})
	c.R.Floor(rule, "delegate Open sites in filterFS.Open", nd, 1)
	x := c.explorer(op)
	for _, name := range sortedStrings(keysOf(consulted)) {
		owner := "fsutil.filterFS." + name
		con := c.name(op) + "/" + name
		var q *ssa.Call
		for _, call := range c.P.CallsTo(op, pmOrParent) {
			if cl, ok := call.(*ssa.Call); ok && isFieldLoad(cl.Call.Args[0], owner) {
				q = cl
			}
		}
		if q == nil {
			// a query without parent awareness is not enough: a file below an
			// included directory would be hidden / below an excluded one shown
			weak := false
			for _, call := range eng.Calls(op) {
				if strings.Contains(c.P.CalleeName(call), "patternmatcher.PatternMatcher).Matches") && len(call.Common().Args) > 0 && isFieldLoad(call.Common().Args[0], owner) {
					weak = true
				}
			}
			if weak {
				c.R.Fail(rule, con+"/consulted", c.P.Pos(op.Pos()), "filterFS.Open queries "+name+" without parent awareness (not MatchesOrParentMatches): paths below a matched directory are judged differently from the walk")
			} else {
				c.R.Fail(rule, con+"/consulted", c.P.Pos(op.Pos()), "filterFS.Walk consults "+name+" but filterFS.Open does not: paths the walk hides can be opened (or the reverse)")
			}
			continue
		}
		_, isP := eng.Strip(q.Call.Args[1]).(*ssa.Parameter)
		c.R.Check(isP, rule, con+"/query-path", c.pos(q), "the opened path is what is matched", "the matcher is not queried with the path being opened")
		c.ObErrChecked(rule+"/checked", q)
		// set => consulted before delegating
		set := map[string]bool{}
		eng.Instrs(op, func(in ssa.Instruction) {
			bo, ok := in.(*ssa.BinOp)
			if !ok || (bo.Op != token.EQL && bo.Op != token.NEQ) {
				return
			}
			if k, isC := bo.Y.(*ssa.Const); isC && k.IsNil() && isFieldLoad(bo.X, owner) {
				set[x.KeyAtEntry(bo)] = bo.Op == token.NEQ
			}
		})
		c.ObPrecedes(rule, con+"/before-delegate", op, set, func(in ssa.Instruction) bool { return in == ssa.Instruction(q) }, isDelegate, "the "+name+" query", "the delegate Open")
		// rejecting verdict
		reject := name == "excludeMatcher"
		ex := c.explorer(op)
		ex.From = q
		ex.Assume = map[string]bool{c.reg(q) + "#0": reject, "(" + c.reg(q) + "#1==nil)": true}
		bad := ""
		ex.Target = func(in ssa.Instruction, st *eng.State) bool {
			if isDelegate(in) {
				bad = "the delegate Open is still reached"
				return true
			}
			if ex.IsSuccessReturn(in, st) {
				bad = "Open can return success"
				return true
			}
			if r, ok := in.(*ssa.Return); ok {
				// the error must wrap os.ErrNotExist
				if !strings.Contains(ex.KeyOf(r.Results[len(r.Results)-1], st), "g:os.ErrNotExist") {
					bad = "the error returned does not wrap os.ErrNotExist (callers such as sendFile and the walkers treat only that as 'hidden')"
					return true
				}
			}
			return false
		}
		ex.StopAtTarget = true
		h := ex.Run()
		verdict := map[bool]string{true: "matches", false: "does not match"}[reject]
		switch {
		case ex.Exhausted:
			c.R.Undecided(rule, con+"/hidden-is-not-exist", c.pos(q), "state limit")
		case len(h) > 0:
			c.R.Fail(rule, con+"/hidden-is-not-exist", c.pos(h[0].Instr), "when the "+name+" "+verdict+" the path: "+bad)
		default:
			c.R.OK(rule, con+"/hidden-is-not-exist", c.pos(q), "when the "+name+" "+verdict+" the path Open returns an error wrapping os.ErrNotExist without delegating")
		}
	}
}

func keysOf(m map[string]bool) []string {
	var out []string
	for k := range m {
		out = append(out, k)
	}
	return out
}

func r11_3(c *Ctx, rule string) {
	c.R.Rule(rule, "hardlinkFilter.Walk: one seen-map per walk; every regular (non-directory, non-symlink) entry is recorded under its walk path before it is reported; on both rewrite arms the reported entry carries the rewritten stat; Open delegates unchanged")
	w := c.Fn(rule, "fsutil.(*hardlinkFilter).Walk")
	if w == nil {
		return
	}
	lit := c.ClosureCalling(rule, w, "freevar:fn")
	if lit == nil {
		return
	}
	base := c.name(lit)
	// the map
	// (a captured variable, or a field of the walk's state object)
	var rec []*ssa.MapUpdate
	okMap := true
	eng.Instrs(lit, func(in ssa.Instruction) {
		mu, ok := in.(*ssa.MapUpdate)
		if !ok {
			return
		}
		if t, isMap := mu.Map.Type().Underlying().(*types.Map); !isMap || t.Key().String() != "string" || t.Elem().String() != "string" {
			return
		}
		rec = append(rec, mu)
		if !c.perCallMap(mu.Map, w) {
			okMap = false
		}
	})
	if len(rec) == 0 {
		c.R.Fail(rule, base+"/seen-map", c.P.Pos(lit.Pos()), "the link-reset callback records nothing in a per-walk map")
		return
	}
	c.R.Check(okMap, rule, base+"/seen-map-per-walk", c.P.Pos(w.Pos()), "the map is made once at the start of each Walk", "the seen-map is not a single map made at the start of each Walk (shared across walks, or per entry)")
	// regular entries are always recorded under the walk path
	x := c.explorer(lit)
	as := map[string]bool{}
	for _, call := range c.P.CallsTo(lit, "(io/fs.FileInfo).IsDir") {
		if cl, ok := call.(*ssa.Call); ok {
			as[x.KeyAtEntry(cl)] = false
		}
	}
	for _, k := range modeBitTests(c, lit, x, modeSymlink) {
		as[k] = false
	}
	isPathRec := func(in ssa.Instruction) bool {
		mu, ok := in.(*ssa.MapUpdate)
		if !ok {
			return false
		}
		_, isParam := eng.Strip(mu.Key).(*ssa.Parameter)
		return isParam && isFieldLoad(mu.Value, "types.Stat.Path")
	}
	c.ObPrecedes(rule, base+"/regular-entries-recorded", lit, as, isPathRec, c.callPred("freevar:fn"), "recording seenFiles[path] = stat.Path", "reporting a regular entry")
	// rewrites
	stores := fieldStoresIn(lit, "types.Stat.Linkname")
	c.R.Floor(rule, "link-name rewrites in the link-reset callback", len(stores), 2)
	for i, s := range stores {
		con := fmt.Sprintf("%s/rewrite#%d", base, i+1)
		ex := c.explorer(lit)
		ex.From = s
		bad := 0
		seen := 0
		ex.Target = func(in ssa.Instruction, st *eng.State) bool {
			if !c.P.IsCallTo(in, "freevar:fn") {
				return false
			}
			seen++
			k := ex.SourceKey(in.(ssa.CallInstruction).Common().Args[1], st)
			if !strings.HasPrefix(k, "mi(new:") {
				bad++
			}
			return true
		}
		ex.StopAtTarget = true
		ex.Run()
		c.R.Check(seen > 0 && bad == 0 && !ex.Exhausted, rule, con+"/reported-with-new-stat", c.pos(s), "after the rewrite the entry reported is a fresh wrapper carrying the rewritten stat", "after rewriting the link name the original entry is reported: its Info() re-creates the stale stat and the rewrite is lost")
		// first arm: an unknown source becomes a regular file and is remembered
		if k, ok := eng.ConstString(s.Val); ok && k == "" {
			ok2, _, _ := c.Precedes(lit, nil, nil, func(in ssa.Instruction) bool {
				mu, isMU := in.(*ssa.MapUpdate)
				return isMU && isFieldLoad(mu.Key, "types.Stat.Linkname")
			}, func(in ssa.Instruction) bool { return in == ssa.Instruction(s) })
			c.R.Check(ok2, rule, con+"/source-remembered", c.pos(s), "the missing source is mapped to this entry before its link name is cleared", "the entry that replaces a filtered-out link source is not remembered under the source's name: later members of the group keep pointing at the missing path")
		} else {
			okv := c.DerivesFrom(s.Val, func(v ssa.Value) bool { l, isL := v.(*ssa.Lookup); return isL && l.CommaOk }, 3)
			c.R.Check(okv, rule, con+"/redirected", c.pos(s), "later members are redirected to the remembered replacement", "a later group member is not redirected to the path remembered for its source")
		}
	}
	// the wrapper's Info returns its stat
	if inf := c.Fn(rule, "fsutil.(*dirEntryWithStat).Info"); inf != nil {
		ok := false
		eng.Instrs(inf, func(in ssa.Instruction) {
			if r, isR := in.(*ssa.Return); isR {
				if al, isA := eng.Strip(r.Results[0]).(*ssa.Alloc); isA {
					f := structLitFields(al)
					for _, v := range f {
						if isFieldLoad(v, "fsutil.dirEntryWithStat.stat") {
							ok = true
						}
					}
				}
			}
		})
		c.R.Check(ok, rule, c.name(inf)+"/returns-stat", c.P.Pos(inf.Pos()), "Info() exposes the wrapper's stat", "dirEntryWithStat.Info does not expose the rewritten stat")
	}
	// Open delegates
	if op := c.Fn(rule, "fsutil.(*hardlinkFilter).Open"); op != nil {
		calls := c.P.CallsTo(op, "(fsutil.FS).Open")
		okd := len(calls) == 1
		if okd {
			_, isP := eng.Strip(calls[0].Common().Args[0]).(*ssa.Parameter)
			okd = isP && isFieldLoad(calls[0].Common().Value, "fsutil.hardlinkFilter.fs")
		}
		c.R.Check(okd, rule, c.name(op)+"/delegates", c.P.Pos(op.Pos()), "Open(p) delegates to the wrapped FS unchanged", "hardlinkFilter.Open does not delegate the same path to the wrapped FS")
	}
}
