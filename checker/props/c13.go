package props

import (
	"fmt"
	"go/token"
	"go/types"
	"strings"

	"fsverif/eng"

	"golang.org/x/tools/go/ssa"
)

func init() {
	register("C13", "Structural clauses of cp -a preservation, decided on all paths of the copier: metadata (owner, mode, times, then xattrs) is applied after the entry's content and, for directories, after the children; inside copyFileInfo the owner change precedes the mode change which precedes the timestamps, the mode change is skipped for symlinks, the owner is the Chowner's answer for the source uid/gid and the mode comes from the source, the symbolic set or the octal option; timestamps use the option or the source's atime/mtime without following links; regular files consult the per-copier inode map and link on a hit; xattrs use only the no-follow calls and route every error through the handler; created parents are chowned, timed and recorded; every non-directory written passes the single change notification. A copied device node gets the source node's device number; no error result in package copy is left unread, and with a non-nil error from a filesystem, path-resolution, pattern or copy call, or from a function of the package, no success return of the caller is reachable (not-exist tolerances tabled and decided with the predicate pinned false; the copy_file_range fallback only through the userspace copy; errors handed to the caller's xattr handler). xattrs are set with flags 0 (create or replace). Does not decide tree equality, numeric mode semantics or hard-link identity at run time.", runC13)
	register("C14", "Structural clauses of copy containment (package copy, every non-windows build): every filesystem call of the package is classified and a symlink-following call occurs only at tabled sites whose precondition is re-checked (root-resolved arguments, Lstat-classified directories, a target emptied first, a not-symlink guard); UtimesNanoAt carries AT_SYMLINK_NOFOLLOW; every path Copy hands on derives from fs.RootPath / rootPath; inspection of source and target is Lstat-based; the target is emptied (checked) before anything is created on the non-directory arms. rootPath anchors its argument at the root ('/') before splitting it; the first argument of every root resolution in the package is a root of the enclosing function. Does not decide races, fs.RootPath itself or wildcard expansion.", runC14)
	register("C15", "The one clause of the overlay rules with a structural form: the only destructive calls of package copy are os.Remove behind an Lstat-says-not-a-directory test and os.RemoveAll behind always-replace && target exists && not (both directories); a directory meeting a non-directory returns an error and touches nothing. Destination path selection, merge semantics, wildcards, trailing separators and idempotence are value-level and declined. MkdirAll cannot succeed on an existing non-directory, and prepareTargetDir ensures only the parent of a destination that exists; xattrs are re-applied with flags 0 (create or replace), so merging a directory and repeating a copy do not fail on attributes already present.", runC15)
}

func runC13(c *Ctx) {
	r13_1(c, "R13.1")
	if c.Unix() {
		r13_2(c, "R13.2")
		r13_3(c, "R13.3")
		r13_5(c, "R13.5")
	}
	r13_4(c, "R13.4")
	r13_6(c, "R13.6")
	r13_7(c, "R13.7")
	if c.Unix() {
		r13_8(c, "R13.8")
	}
	errDisciplineAll(c, "R13.9", 1, "copy")
	r13_10(c, "R13.10")
	if c.Unix() {
		xattrSetFlags(c, "R13.11")
	}
}

// copy-package call sites whose error is accepted by a predicate, or not decided
var r1310Exceptions = map[string]tolerated{
	"copy.(*copier).copy/os.Lstat#2":                           {why: "a target that does not exist yet is created", preds: []string{"os.IsNotExist", "errors.Is", "github.com/pkg/errors.Is"}},
	"copy.(*copier).prepareTargetDir/os.Stat":                  {why: "a destination that does not exist yet is created", preds: []string{"os.IsNotExist", "errors.Is", "github.com/pkg/errors.Is"}},
	"copy.copyDirectoryOnly/os.Lstat":                          {why: "a directory that does not exist yet is created", preds: []string{"os.IsNotExist", "errors.Is", "github.com/pkg/errors.Is"}},
	"copy.ensureEmptyFileTarget/os.Lstat":                      {why: "nothing to replace when the target does not exist", preds: []string{"os.IsNotExist", "errors.Is", "github.com/pkg/errors.Is"}},
	"copy.MkdirAll/os.Stat":                                    {why: "forked os.MkdirAll: any failure of the fast-path stat leads to the slow path, whose Mkdir reports the error", preds: nil},
	"copy.MkdirAll/os.Lstat#1":                                 {why: "forked os.MkdirAll: only a successful lstat of a directory short-cuts; otherwise Mkdir decides", preds: nil},
	"copy.MkdirAll/os.Lstat#2":                                 {why: "forked os.MkdirAll: double check after a failed Mkdir (\"foo/.\"); the Mkdir error is returned unless the directory exists", preds: nil},
	"copy.MkdirAll/os.Mkdir":                                   {why: "forked os.MkdirAll: the error is returned unless the directory turns out to exist (\"foo/.\", concurrent creator)", preds: nil},
	"copy.copyFile/golang.org/x/sys/unix.CopyFileRange":        {why: "the errnos the Go runtime also falls back on lead, on the first chunk, to a userspace copy", via: []string{"io.CopyBuffer", "io.Copy"}},
	"copy.copyFileContent/golang.org/x/sys/unix.CopyFileRange": {why: "the errnos the Go runtime also falls back on lead, on the first chunk, to a userspace copy", via: []string{"io.CopyBuffer", "io.Copy"}},
	"copy.copyFile/golang.org/x/sys/unix.Clonefileat":          {why: "darwin: a failed clone falls back to copying the content", via: []string{"copy.copyFileContent", "io.CopyBuffer", "io.Copy"}},
	"copy.resolveWildcards$1/path/filepath.Match":              {why: "a malformed pattern matches nothing (ErrBadPattern is the only error)", preds: nil},
}

// R13.10: no error of a filesystem call or of a function of the package
// itself is survived (checked, then followed by a success return).
func r13_10(c *Ctx, rule string) {
	c.R.Rule(rule, "package copy: with a non-nil error from a filesystem call, a path-resolution or pattern call, or a function of the package itself, no success return of the calling function is reachable (tolerance predicates tabled)")
	var fns []*ssa.Function
	for _, fn := range transferFuncs(c, "copy") {
		fns = append(fns, fn)
	}
	lib := map[string]bool{
		"github.com/containerd/continuity/fs.RootPath": true, "github.com/moby/patternmatcher.New": true,
		"github.com/tonistiigi/dchapes-mode.ParseWithUmask": true, "path/filepath.Rel": true, "path/filepath.Match": true,
		"(*github.com/moby/patternmatcher.PatternMatcher).MatchesUsingParentResults": true,
		"golang.org/x/sys/unix.CopyFileRange":                                        true, "io.CopyBuffer": true, "io.Copy": true, "(*os.File).Stat": true,
		"golang.org/x/sys/unix.Mknod": true, "golang.org/x/sys/unix.UtimesNanoAt": true, "golang.org/x/sys/unix.Lchown": true,
	}
	fsSite := map[ssa.CallInstruction]bool{}
	for _, call := range fsCallsIn(c, fns) {
		fsSite[call] = true
	}
	n := 0
	for _, fn := range fns {
		for _, call := range eng.Calls(fn) {
			name := c.P.CalleeName(call)
			own := false
			if f := call.Common().StaticCallee(); f != nil && fnPkgShort(c, f) == "copy" {
				own = true
			}
			if !own && !lib[name] && !fsSite[call] {
				continue
			}
			if _, _, has := c.errValueOf(call); !has {
				continue
			}
			if strings.HasSuffix(name, ").Close") {
				continue
			}
			switch call.(type) {
			case *ssa.Defer, *ssa.Go:
				continue
			}
			t, ok := tabled(c, r1310Exceptions, call)
			if !ok && own {
				// a one-line wrapper of a library call (a test seam) stands
				// for that call
				if lib := forwardedLibCall(c, call.Common().StaticCallee()); lib != "" {
					for _, top := range c.tops(call) {
						for _, k := range []string{c.name(top) + "/" + lib, fmt.Sprintf("%s/%s#%d", c.name(top), lib, c.ordinalIn(top, call))} {
							if tt, has := r1310Exceptions[k]; has {
								t, ok = tt, true
							}
						}
					}
				}
			}
			if ok {
				switch {
				case len(t.via) > 0:
					n++
					c.ObErrCheckedVia(rule, call, t.why, t.via...)
				case len(t.preds) > 0:
					n++
					c.ObErrCheckedTolerating(rule, call, t.why, t.preds...)
				default:
					c.R.OK(rule, c.siteName(call)+"/tabled", c.pos(call), "tabled: "+t.why)
				}
				continue
			}
			n++
			// an error handed to a caller-supplied handler whose verdict is
			// returned (XAttrErrorHandler) is not swallowed
			if okc, _, at, und := c.ErrChecked(call); !okc && !und {
				if r, isR := at.(*ssa.Return); isR && len(r.Results) > 0 {
					if hc, isC := r.Results[len(r.Results)-1].(*ssa.Call); isC && hc.Common().StaticCallee() == nil {
						handed := false
						for _, a := range hc.Call.Args {
							if c.DerivesFrom(a, func(v ssa.Value) bool {
								if v == call.Value() {
									return true
								}
								ex, isE := v.(*ssa.Extract)
								return isE && ex.Tuple == call.Value()
							}, 6) {
								handed = true
							}
						}
						if handed {
							c.R.CallSites++
							c.R.OK(rule, c.siteName(call)+"/handed-over", c.pos(call), "the error is handed to a caller-supplied handler whose verdict is returned")
							continue
						}
					}
				}
			}
			c.ObErrChecked(rule, call)
		}
	}
	c.R.Floor(rule, "must-check call sites in package copy", n, 40)
}

// R13.8: a copied device node keeps its device number.
//
// copyDevice creates the node with mknod; the number it passes is the source
// node's Rdev whenever the source is a block or character device (fifos and
// sockets have none): with a device mode bit set, mknod is unreachable without
// the number having been read from the source's Stat_t.
func r13_8(c *Ctx, rule string) {
	c.R.Rule(rule, "copyDevice: the device number handed to mknod derives from the source's Stat_t.Rdev, and for a block or character device mknod is not reached without it")
	fn := c.Fn(rule, "copy.copyDevice")
	if fn == nil {
		return
	}
	var mk ssa.CallInstruction
	for _, call := range c.P.CallsTo(fn, "copy.mknod", "golang.org/x/sys/unix.Mknod", "syscall.Mknod", "golang.org/x/sys/unix.Mknodat") {
		mk = call
	}
	if mk == nil {
		c.R.Fail(rule, c.name(fn)+"/mknod", c.P.Pos(fn.Pos()), "copyDevice no longer creates the node with mknod")
		return
	}
	a := mk.Common().Args
	isRdev := func(v ssa.Value) bool {
		o, _, _, ok := eng.LoadedFieldRaw(v)
		return ok && strings.HasSuffix(o, "Stat_t.Rdev")
	}
	okArg := c.DerivesFrom(a[len(a)-1], isRdev, 8)
	c.R.Check(okArg, rule, c.siteName(mk)+"/dev-from-source", c.pos(mk), "mknod(dst, mode, source Rdev)", "the device number handed to mknod is not the source node's Rdev: every copied device node is created as 0:0")
	// the read of Rdev precedes mknod whenever a device bit is set
	x := c.explorer(fn)
	for _, t := range []struct {
		name string
		bit  int64
	}{{"block device", modeDevice}, {"character device", modeCharDev}} {
		keys := modeBitSetTests(c, fn, x, t.bit)
		if len(keys) == 0 {
			// no test at all: the number must be read unconditionally
			continue
		}
		as := map[string]bool{}
		for _, k := range keys {
			as[k] = true
		}
		isRead := func(in ssa.Instruction) bool {
			v, ok := in.(ssa.Value)
			return ok && isRdev(v)
		}
		c.ObPrecedes(rule, c.name(fn)+"/rdev-read-for-"+strings.ReplaceAll(t.name, " ", "-"), fn, as, isRead, func(in ssa.Instruction) bool { return in == ssa.Instruction(mk) }, "reading the source's device number", "mknod for a "+t.name)
	}
}

func runC14(c *Ctx) {
	if c.Unix() {
		r14_1(c, "R14.1")
	}
	r14_2(c, "R14.2")
	r14_3(c, "R14.3")
	r14_4(c, "R14.4")
	r15_2(c, "R14.5")
	if c.Unix() {
		// chmod follows symlinks: a link recreated in the destination may point
		// outside it, so the mode is never applied to links (shared with C13)
		r13_2(c, "R14.6")
	}
	r14_7(c, "R14.7")
}

// R14.7: the source argument is anchored at "/" before it is taken apart.
//
// rootPath resolves only the directory part below the root when links are
// not followed; the last component is re-attached as spelled. A ".." that
// survives as last component steps out of the root. filepath.Join("/", p)
// removes it: what is split and what is resolved is the joined value.
func r14_7(c *Ctx, rule string) {
	c.R.Rule(rule, "copy.rootPath: the path that is split, resolved and compared is filepath.Join(\"/\", p), never the argument as spelled")
	fn := c.Fn(rule, "copy.rootPath")
	if fn == nil {
		return
	}
	var pp *ssa.Parameter
	for _, q := range fn.Params {
		if c.P.ParamName(q) == "p" {
			pp = q
		}
	}
	if pp == nil {
		c.R.Missing(rule, "path parameter of copy.rootPath")
		return
	}
	isAnchor := func(v ssa.Value) bool {
		parts, ok := c.joinParts(v)
		if !ok || len(parts) != 2 {
			return false
		}
		return (parts[0] == "c:/" || parts[0] == "c:\\") && strings.Contains(parts[1], "p")
	}
	anchored := 0
	eng.Instrs(fn, func(in ssa.Instruction) {
		if v, ok := in.(ssa.Value); ok && isAnchor(v) {
			anchored++
		}
	})
	if anchored == 0 {
		c.R.Fail(rule, c.name(fn)+"/anchored", c.P.Pos(fn.Pos()), "rootPath no longer joins its path argument with \"/\": a trailing '..' survives as the last component and is re-attached after the directory part was resolved - the result lies outside the root")
		return
	}
	// every other use of the parameter is the anchoring itself
	bad := 0
	var where ssa.Instruction
	for _, r := range eng.Referrers(pp) {
		// (the varargs array of Join, or a store into the parameter's cell)
		ok := false
		switch x := r.(type) {
		case *ssa.Store:
			if ia, isIA := x.Addr.(*ssa.IndexAddr); isIA {
				for _, r2 := range eng.Referrers(ia.X) {
					if sl, isSl := r2.(*ssa.Slice); isSl {
						for _, r3 := range eng.Referrers(sl) {
							if call, isC := r3.(*ssa.Call); isC && isAnchor(call) {
								ok = true
							}
						}
					}
				}
			}
			if _, isAl := x.Addr.(*ssa.Alloc); isAl {
				ok = true // spilled parameter: its loads are looked at below
			}
		case *ssa.DebugRef:
			ok = true
		}
		if !ok {
			bad++
			where = r
		}
	}
	if bad > 0 {
		c.R.Fail(rule, c.name(fn)+"/only-anchored-uses", c.pos(where), "rootPath uses its path argument as spelled next to the anchored form")
	} else {
		c.R.OK(rule, c.name(fn)+"/only-anchored-uses", c.P.Pos(fn.Pos()), "the argument is only used to form filepath.Join(\"/\", p)")
	}
}

func runC15(c *Ctx) {
	r15_1(c, "R15.1")
	r15_2(c, "R15.2")
	// repeating a copy: every creating call meets an emptied target (shared with C14)
	r14_4(c, "R15.3")
	r15_4(c, "R15.4")
	r15_5(c, "R15.5")
	r15_8(c, "R15.8")
	// wildcard sources: what counts as a wildcard (shared with C18)
	wildcardChars(c, "R15.6", "copy.containsWildcards")
	if c.Unix() {
		// repeating a copy, merging directories: xattrs are re-applied onto
		// entries that already carry them
		xattrSetFlags(c, "R15.7")
	}
}

// R15.5: MkdirAll never mistakes something else for the directory it was
// asked for.
//
// "A destination path ending in a separator names a directory" rests on
// MkdirAll failing when a non-directory sits there. Its success returns are
// reachable only through a directory test that came out true or a successful
// os.Mkdir: with every IsDir() false and Mkdir failing there is no way to
// succeed.
func r15_5(c *Ctx, rule string) {
	c.R.Rule(rule, "copy.MkdirAll: no success return is reachable when every directory test of an existing entry says 'not a directory' and os.Mkdir fails: an existing non-directory is an error, never 'already there'")
	fn := c.Fn(rule, "copy.MkdirAll")
	if fn == nil {
		return
	}
	x := c.explorer(fn)
	as := map[string]bool{}
	n := 0
	for _, call := range c.P.CallsTo(fn, "(io/fs.FileInfo).IsDir", "(io/fs.FileMode).IsDir") {
		if cl, ok := call.(*ssa.Call); ok {
			as[x.KeyAtEntry(cl)] = false
			n++
		}
	}
	mk := 0
	for _, call := range c.P.CallsTo(fn, "os.Mkdir") {
		k, _, _ := c.errValueOf(call)
		as["("+k+"==nil)"] = false
		mk++
	}
	// the recursive call for the parent succeeds (the parent is there)
	c.R.Floor(rule, "directory tests in MkdirAll", n, 2)
	c.R.Floor(rule, "os.Mkdir calls in MkdirAll", mk, 1)
	hit, und := c.SuccessAvoiding(fn, nil, as, nil, nil)
	switch {
	case und:
		c.R.Undecided(rule, c.name(fn)+"/nondir-is-an-error", c.P.Pos(fn.Pos()), "state limit")
	case hit != nil:
		c.R.Fail(rule, c.name(fn)+"/nondir-is-an-error", c.pos(hit.Instr), "MkdirAll can succeed although nothing it looked at was a directory and nothing was created: an existing file at 'name/' counts as the directory, and the copy then replaces it; path "+eng.BlockTrace(fn, hit.Trace))
	default:
		c.R.OK(rule, c.name(fn)+"/nondir-is-an-error", c.P.Pos(fn.Pos()), "success needs a positive directory test or a successful Mkdir")
	}
}

// R15.2 / R14.5: an existing non-directory at the target is removed, never
// kept (written through, truncated in place).
func r15_2(c *Ctx, rule string) {
	c.R.Rule(rule, "ensureEmptyFileTarget: when Lstat finds an existing non-directory every success return is preceded by a checked os.Remove of that path (the source replaces the old entry: no write-through, no in-place truncation of a shared inode)")
	fn := c.Fn(rule, "copy.ensureEmptyFileTarget")
	if fn == nil {
		return
	}
	x := c.explorer(fn)
	as := map[string]bool{}
	for _, cl := range c.P.CallsTo(fn, "(io/fs.FileInfo).IsDir") {
		if v, ok := cl.(*ssa.Call); ok && c.DerivesFrom(v.Call.Value, func(y ssa.Value) bool { return c.isCallValueTo(y, "os.Lstat", "os.Stat") }, 3) {
			as[x.KeyAtEntry(v)] = false
		}
	}
	n := 0
	for _, cl := range c.P.CallsTo(fn, "os.Lstat", "os.Stat") {
		if v, ok := cl.(*ssa.Call); ok {
			as["("+c.reg(v)+"#1==nil)"] = true
			n++
		}
	}
	if n == 0 || len(as) < 2 {
		c.R.Fail(rule, c.name(fn)+"/existing-entry-removed", c.P.Pos(fn.Pos()), "ensureEmptyFileTarget does not inspect the target")
		return
	}
	c.ObSuccessNeeds(rule, c.name(fn)+"/existing-entry-removed", fn, nil, as, c.checkedCallPred("os.Remove"), "a checked os.Remove of the existing entry")
}

var allCreators = []string{"copy.(*copier).copyDirectory", "os.Link", "copy.copyFile", "os.Symlink", "copy.copyDevice"}

func r13_1(c *Ctx, rule string) {
	c.R.Rule(rule, "copier.copy: no content-creating call is reachable after copyFileInfo/copyXAttrs; after each successful creation a success return needs checked copyFileInfo then checked copyXAttrs (for directories: when the directory was created or metadata may be overwritten)")
	f := getCopyFn(c, rule)
	if f == nil {
		return
	}
	cp := f.copy
	defer c.scope(cp)()
	base := c.name(cp)
	isCreator := c.callPred(allCreators...)
	for _, call := range c.P.CallsTo(cp, "copy.(*copier).copyFileInfo", "copy.copyXAttrs") {
		ex := c.explorer(cp)
		ex.From = call
		ex.Target = func(in ssa.Instruction, st *eng.State) bool { return isCreator(in) }
		ex.StopAtTarget = true
		h := ex.Run()
		c.R.Check(len(h) == 0 && !ex.Exhausted, rule, c.siteName(call)+"/after-content", c.pos(call), "no content is created after the metadata was applied", "content is created after "+c.P.CalleeName(call)+": writing the children or the file afterwards changes the directory's mtime / the file's mode again")
	}
	cfi := c.checkedCallPred("copy.(*copier).copyFileInfo")
	cxa := c.checkedCallPred("copy.copyXAttrs")
	n := 0
	for _, call := range c.P.CallsTo(cp, nonDirCreators...) {
		n++
		key, _, _ := c.errValueOf(call)
		as := map[string]bool{"(" + key + "==nil)": true}
		c.ObSuccessAfter(rule, c.siteName(call)+"/then-fileinfo", cp, call, nil, as, cfi, "a checked copyFileInfo")
		c.ObSuccessAfter(rule, c.siteName(call)+"/then-xattrs", cp, call, nil, as, cxa, "a checked copyXAttrs")
	}
	c.R.Floor(rule, "non-directory creation sites in copier.copy", n, 4)
	// directory created
	as := map[string]bool{c.reg(f.cdCall) + "#0": true, "(" + c.reg(f.cdCall) + "#1==nil)": true}
	// created=true is only possible for a selected directory (R16.1)
	sel := map[string]bool{c.reg(f.inc) + "#0": true, c.reg(f.exc) + "#0": false}
	c.ObSuccessAfter(rule, c.siteName(f.cdCall)+"/created-then-fileinfo", cp, f.cdCall, sel, as, cfi, "a checked copyFileInfo for a directory that was created")
	c.ObSuccessAfter(rule, c.siteName(f.cdCall)+"/created-then-xattrs", cp, f.cdCall, sel, as, cxa, "a checked copyXAttrs for a directory that was created")
	// order
	c.ObPrecedes(rule, base+"/fileinfo-before-xattrs", cp, nil, c.callPred("copy.(*copier).copyFileInfo"), c.callPred("copy.copyXAttrs"), "copyFileInfo", "copyXAttrs")
	// arguments: (fi of the source, src, target) / (target, src)
	for _, call := range c.P.CallsTo(cp, "copy.(*copier).copyFileInfo") {
		a := call.Common().Args
		okFi := c.DerivesFrom(a[1], func(v ssa.Value) bool { return c.isCallValueTo(v, "os.Lstat") }, 3)
		pt, isP := eng.Strip(a[3]).(*ssa.Parameter)
		c.R.Check(okFi && isP && c.P.ParamName(pt) == "target", rule, c.siteName(call)+"/args", c.pos(call), "copyFileInfo(source info, src, target)", "copyFileInfo is not applied to (the source's Lstat info, the target path)")
	}
	for _, call := range c.P.CallsTo(cp, "copy.copyXAttrs") {
		a := call.Common().Args
		p0, ok0 := eng.Strip(a[0]).(*ssa.Parameter)
		p1, ok1 := eng.Strip(a[1]).(*ssa.Parameter)
		c.R.Check(ok0 && ok1 && c.P.ParamName(p0) == "target" && c.P.ParamName(p1) == "src", rule, c.siteName(call)+"/args", c.pos(call), "copyXAttrs(target, src, handler)", "copyXAttrs is not called as (target, src)")
	}
}

func r13_2(c *Ctx, rule string) {
	c.R.Rule(rule, "copyFileInfo: checked Chown precedes Chmod precedes copyFileTimestamp; Chmod is unreachable for symlinks; the owner is the Chowner's answer for the source's uid/gid; the mode derives from the source mode, the symbolic set or the octal option")
	fn := c.Fn(rule, "copy.(*copier).copyFileInfo")
	if fn == nil {
		return
	}
	base := c.name(fn)
	x := c.explorer(fn)
	chown := c.checkedCallPred("copy.Chown")
	c.ObPrecedes(rule, base+"/chown-before-chmod", fn, nil, chown, c.callPred("os.Chmod"), "a checked Chown", "os.Chmod")
	c.ObPrecedes(rule, base+"/chown-before-times", fn, nil, chown, c.callPred("copy.(*copier).copyFileTimestamp"), "a checked Chown", "copyFileTimestamp")
	// the symlink test that keeps chmod away from links must look at the
	// SOURCE mode: the computed target mode loses the type bits when an octal
	// option is given
	var sym []string
	eng.Instrs(fn, func(in ssa.Instruction) {
		v, ok := in.(ssa.Value)
		if !ok {
			return
		}
		operand, mask, setWhenTrue, isBT := eng.BitTest(v)
		if !isBT || mask != modeSymlink {
			return
		}
		mcall, isCall := eng.Canon(operand).(*ssa.Call)
		if !isCall || c.P.CalleeName(mcall) != "(io/fs.FileInfo).Mode" {
			return
		}
		if _, isP := eng.Canon(mcall.Call.Value).(*ssa.Parameter); !isP {
			return
		}
		key := x.KeyAtEntry(v)
		if !setWhenTrue {
			key = "!" + key
		}
		sym = append(sym, key)
	})
	if len(sym) == 0 {
		c.R.Fail(rule, base+"/chmod-not-for-symlinks", c.P.Pos(fn.Pos()), "copyFileInfo has no symlink test on the source's own mode (fi.Mode()): chmod on a symlink changes the mode of its target")
	} else {
		as := map[string]bool{}
		no := map[string]bool{}
		for _, k := range sym {
			as[k] = true
			no[k] = false
		}
		c.ObUnreachable(rule, base+"/chmod-not-for-symlinks", fn, as, c.callPred("os.Chmod"), "os.Chmod", "the source is a symlink")
		c.ObPrecedes(rule, base+"/chmod-before-times", fn, no, c.checkedCallPred("os.Chmod"), c.callPred("copy.(*copier).copyFileTimestamp"), "a checked os.Chmod (not a symlink)", "copyFileTimestamp")
	}
	// chown clears setuid/setgid: it must not run again after the mode was set
	for _, call := range c.P.CallsTo(fn, "os.Chmod") {
		ex := c.explorer(fn)
		ex.From = call
		ex.Target = func(in ssa.Instruction, st *eng.State) bool {
			return c.P.IsCallTo(in, "copy.Chown", "os.Lchown", "os.Chown")
		}
		ex.StopAtTarget = true
		h := ex.Run()
		c.R.Check(len(h) == 0 && !ex.Exhausted, rule, c.siteName(call)+"/no-chown-after", c.pos(call), "no ownership change after the mode was set", "the owner is changed after the mode was set: chown clears the setuid/setgid bits just applied")
	}
	c.ObSuccessNeeds(rule, base+"/success-needs-times", fn, nil, nil, c.checkedCallPred("copy.(*copier).copyFileTimestamp"), "a checked copyFileTimestamp")
	c.ObSuccessNeeds(rule, base+"/success-needs-chown", fn, nil, nil, chown, "a checked Chown")
	// owner provenance
	for _, call := range c.P.CallsTo(fn, "copy.Chown") {
		a := call.Common().Args
		old, _ := eng.Strip(a[1]).(*ssa.Alloc)
		ok := false
		if old != nil {
			f := structLitFields(old)
			// (the value may be built by a constructor, `newUser(uid, gid)`:
			// its parameters stand for the arguments of this very call)
			if raw, isC := a[1].(*ssa.Call); isC && eng.EffCallee(raw) == old.Parent() {
				for k, v := range f {
					if q, isQ := v.(*ssa.Parameter); isQ {
						if rs := eng.ResolveAllCtx(q, []*ssa.Call{raw}); len(rs) == 1 {
							f[k] = rs[0]
						}
					}
				}
			}
			fromG := func(v ssa.Value) bool {
				return c.DerivesFrom(v, func(y ssa.Value) bool { return c.isCallValueTo(y, "copy.getUIDGID") }, 3)
			}
			ok = f["UID"] != nil && f["GID"] != nil && fromG(f["UID"]) && fromG(f["GID"])
			// uid from result 0, gid from result 1
			if ok {
				e0, isE0 := f["UID"].(*ssa.Extract)
				e1, isE1 := f["GID"].(*ssa.Extract)
				ok = isE0 && isE1 && e0.Index == 0 && e1.Index == 1
			}
		}
		pn, isP := eng.Strip(a[0]).(*ssa.Parameter)
		c.R.Check(ok && isP && c.P.ParamName(pn) == "name", rule, c.siteName(call)+"/owner", c.pos(call), "Chown(name, {source uid, source gid}, chowner)", "the owner handed to the Chowner is not the source's (uid, gid)")
		hasOpt := c.DerivesFrom(a[2], func(v ssa.Value) bool { return isFieldLoad(v, "copy.copier.chown") }, 3)
		c.R.Check(hasOpt, rule, c.siteName(call)+"/chowner", c.pos(call), "the copier's Chowner (identity when unset)", "the Chowner option is not consulted")
	}
	for _, call := range c.P.CallsTo(fn, "copy.getUIDGID") {
		_, isP := eng.Strip(call.Common().Args[0]).(*ssa.Parameter)
		c.R.Check(isP, rule, c.siteName(call)+"/source", c.pos(call), "uid/gid of the source info", "uid/gid are not read from the source's file info")
	}
	// mode provenance
	for _, call := range c.P.CallsTo(fn, "os.Chmod") {
		a := call.Common().Args
		srcMode := c.DerivesFrom(a[1], func(v ssa.Value) bool { return c.isCallValueTo(v, "(io/fs.FileInfo).Mode") }, 10)
		set := c.DerivesFrom(a[1], func(v ssa.Value) bool {
			call, ok := v.(*ssa.Call)
			return ok && strings.HasSuffix(c.P.CalleeName(call), "dchapes-mode.Set).Apply")
		}, 10)
		oct := c.DerivesFrom(a[1], func(v ssa.Value) bool { return isFieldLoad(v, "copy.copier.mode") }, 12)
		pn, isP := eng.Strip(a[0]).(*ssa.Parameter)
		c.R.Check(srcMode && set && oct && isP && c.P.ParamName(pn) == "name", rule, c.siteName(call)+"/mode", c.pos(call), "mode is the source mode, the symbolic set applied to it, or the octal option", "the mode applied does not derive from {source mode, symbolic set, octal option}")
	}
	// ... and with the octal option set, from that option alone: what is
	// computed on the branch `c.mode != nil` takes nothing from the source's
	// mode (its setuid/setgid/sticky bits lie outside ModePerm and would
	// survive a "replace the permission bits")
	var octBlock *ssa.BasicBlock
	eng.Instrs(fn, func(in ssa.Instruction) {
		iff, ok := in.(*ssa.If)
		if !ok {
			return
		}
		bo, ok := iff.Cond.(*ssa.BinOp)
		if !ok || (bo.Op != token.NEQ && bo.Op != token.EQL) {
			return
		}
		if k, isK := bo.Y.(*ssa.Const); isK && k.IsNil() && isFieldLoad(bo.X, "copy.copier.mode") {
			if bo.Op == token.NEQ {
				octBlock = iff.Block().Succs[0]
			} else {
				octBlock = iff.Block().Succs[1]
			}
		}
	})
	for _, call := range c.P.CallsTo(fn, "os.Chmod") {
		con := c.siteName(call) + "/octal-option-alone"
		if octBlock == nil || len(octBlock.Preds) != 1 {
			c.R.OK(rule, con, c.pos(call), "no branch on the octal option of a shape this rule interprets: not decided")
			continue
		}
		isSrcMode := func(v ssa.Value) bool { return c.isCallValueTo(v, "(io/fs.FileInfo).Mode") }
		bad := false
		seen := map[ssa.Value]bool{}
		var walk func(v ssa.Value, d int)
		walk = func(v ssa.Value, d int) {
			ph, isPhi := v.(*ssa.Phi)
			if !isPhi || seen[v] || d > 4 {
				return
			}
			seen[v] = true
			for i, e := range ph.Edges {
				pred := ph.Block().Preds[i]
				if octBlock == pred || octBlock.Dominates(pred) {
					// computed on the octal branch: nothing of the source's mode
					if c.DerivesFromAvoiding(e, isSrcMode, func(y ssa.Value) bool {
						// (do not wander out of the branch through a phi that merges it with others)
						q, isQ := y.(*ssa.Phi)
						return isQ && !(octBlock == q.Block() || octBlock.Dominates(q.Block()))
					}, 10) {
						bad = true
					}
				} else {
					walk(e, d+1)
				}
			}
		}
		walk(call.Common().Args[1], 0)
		// (the choice may be made in a helper, `c.effectiveMode(fi)`: what it
		// returns on the octal branch)
		if g := octBlock.Parent(); g != fn {
			eng.InstrsShallow(g, func(in ssa.Instruction) {
				r, isR := in.(*ssa.Return)
				if !isR || !(octBlock == r.Block() || octBlock.Dominates(r.Block())) {
					return
				}
				for _, res := range r.Results {
					if c.DerivesFromAvoiding(res, isSrcMode, func(y ssa.Value) bool {
						q, isQ := y.(*ssa.Phi)
						return isQ && !(octBlock == q.Block() || octBlock.Dominates(q.Block()))
					}, 10) {
						bad = true
					}
				}
			})
		}
		c.R.Check(!bad, rule, con, c.pos(call), "with the octal option set the mode applied is computed from the option alone", "with the octal Mode option set the mode applied still takes bits from the source's mode (the source's setuid/setgid/sticky bits survive a replacement of the permission bits): entries do not carry exactly the requested mode")
	}
	// the symbolic set is applied to the source mode itself: 'X' and friends
	// look at the type bits
	for _, call := range eng.Calls(fn) {
		if !strings.HasSuffix(c.P.CalleeName(call), "dchapes-mode.Set).Apply") {
			continue
		}
		a := call.Common().Args
		arg := eng.Strip(a[len(a)-1])
		mc, isCall := arg.(*ssa.Call)
		ok := isCall && c.P.CalleeName(mc) == "(io/fs.FileInfo).Mode"
		if ok {
			_, ok = eng.Strip(mc.Call.Value).(*ssa.Parameter)
		}
		c.R.Check(ok, rule, c.siteName(call)+"/unmasked-source-mode", c.pos(call), "modeSet.Apply receives fi.Mode() itself", "the symbolic mode set is applied to something other than the source's full mode (e.g. a masked copy): rules that depend on the entry type, such as X for directories, misfire")
	}
	// special bits of the octal option
	for _, e := range []struct {
		name string
		bit  int64
		mode int64
	}{{"setuid", 0o4000, 1 << 23}, {"setgid", 0o2000, 1 << 22}, {"sticky", 0o1000, 1 << 20}} {
		found := false
		eng.Instrs(fn, func(in ssa.Instruction) {
			bo, ok := in.(*ssa.BinOp)
			if !ok || bo.Op != token.OR {
				return
			}
			if k, isK := eng.ConstInt(bo.Y); isK && k == e.mode {
				// guarded by a test that the bit is set in *c.mode
				dom := false
				eng.Instrs(fn, func(i2 ssa.Instruction) {
					iff, isIf := i2.(*ssa.If)
					if !isIf {
						return
					}
					_, mask, setWhenTrue, isBT := eng.BitTest(iff.Cond)
					if !isBT || mask != e.bit {
						return
					}
					succ := iff.Block().Succs[0]
					if !setWhenTrue {
						succ = iff.Block().Succs[1]
					}
					if succ == bo.Block() || succ.Dominates(bo.Block()) {
						dom = true
					}
				})
				if dom {
					found = true
				}
			}
		})
		c.R.Check(found, rule, base+"/octal-"+e.name, c.P.Pos(fn.Pos()), fmt.Sprintf("octal %#o maps to the %s mode bit", e.bit, e.name), fmt.Sprintf("the %s bit (%#o) of the octal mode option is not translated to os.Mode%s", e.name, e.bit, strings.Title(e.name)))
	}
	// Chown helper: Lchown with the answer
	ch := c.Fn(rule, "copy.Chown")
	if ch != nil {
		for _, call := range c.P.CallsTo(ch, "os.Lchown") {
			a := call.Common().Args
			ok := isFieldLoad(a[1], "copy.User.UID") && isFieldLoad(a[2], "copy.User.GID") &&
				c.DerivesFrom(a[1], func(v ssa.Value) bool { return c.isCallValueTo(v, "param:fn") }, 4)
			c.R.Check(ok, rule, c.siteName(call)+"/args", c.pos(call), "Lchown(p, answer.UID, answer.GID)", "Chown does not apply the Chowner's (UID, GID) answer with Lchown")
			c.ObErrChecked(rule+"/checked", call)
		}
		c.R.Floor(rule, "Lchown calls in copy.Chown", len(c.P.CallsTo(ch, "os.Lchown")), 1)
		for _, call := range c.P.CallsTo(ch, "param:fn") {
			c.ObErrChecked(rule+"/checked", call)
		}
	}
}

func r13_3(c *Ctx, rule string) {
	c.R.Rule(rule, "copyFileTimestamp: with a time option Utimes(name, option); otherwise UtimesNanoAt(name, {source atime, source mtime}, AT_SYMLINK_NOFOLLOW)")
	fn := c.Fn(rule, "copy.(*copier).copyFileTimestamp")
	if fn == nil {
		return
	}
	base := c.name(fn)
	x := c.explorer(fn)
	set := map[string]bool{}
	unset := map[string]bool{}
	eng.Instrs(fn, func(in ssa.Instruction) {
		bo, ok := in.(*ssa.BinOp)
		if !ok || (bo.Op != token.EQL && bo.Op != token.NEQ) {
			return
		}
		if k, isC := bo.Y.(*ssa.Const); isC && k.IsNil() && isFieldLoad(bo.X, "copy.copier.utime") {
			set[x.KeyAtEntry(bo)] = bo.Op == token.NEQ
			unset[x.KeyAtEntry(bo)] = bo.Op == token.EQL
		}
	})
	if len(set) == 0 {
		c.R.Fail(rule, base+"/option", c.P.Pos(fn.Pos()), "copyFileTimestamp does not consult the time option")
		return
	}
	c.ObSuccessNeeds(rule, base+"/option-applied", fn, nil, set, c.callPred("copy.Utimes"), "Utimes with the requested time")
	c.ObSuccessNeeds(rule, base+"/source-times-applied", fn, nil, unset, c.checkedCallPred("golang.org/x/sys/unix.UtimesNanoAt"), "a checked UtimesNanoAt with the source's times")
	for _, call := range c.P.CallsTo(fn, "copy.Utimes") {
		a := call.Common().Args
		_, isP := eng.Strip(a[0]).(*ssa.Parameter)
		c.R.Check(isP && isFieldLoad(a[1], "copy.copier.utime"), rule, c.siteName(call)+"/args", c.pos(call), "Utimes(name, c.utime)", "the time option is not applied to the target name")
	}
	for _, call := range c.P.CallsTo(fn, "golang.org/x/sys/unix.UtimesNanoAt") {
		checkNoFollowFlag(c, rule, call)
		a := call.Common().Args
		_, isP := eng.Strip(a[1]).(*ssa.Parameter)
		if isP && call.Parent() != fn {
			// the helper's own path parameter: what it is handed is this
			// function's parameter
			restore := c.scope(fn)
			rs := eng.ResolveAll(a[1])
			restore()
			isP = len(rs) == 1
			if isP {
				_, isP = eng.Strip(rs[0]).(*ssa.Parameter)
			}
		}
		// element 0 from StatAtime, element 1 from StatMtime
		okOrder := false
		// (the call may sit in a one-line helper shared with Utimes: then the
		// times are what THIS function hands the helper)
		times := a[2]
		if _, isS := times.(*ssa.Slice); !isS {
			restore := c.scope(fn)
			if rs := eng.ResolveAll(times); len(rs) == 1 {
				times = rs[0]
			}
			restore()
		}
		if sl, isS := times.(*ssa.Slice); isS {
			if arr, isA := sl.X.(*ssa.Alloc); isA {
				got := map[int64]string{}
				for _, r := range eng.Referrers(arr) {
					if ia, isIA := r.(*ssa.IndexAddr); isIA {
						idx, _ := eng.ConstInt(ia.Index)
						for _, r2 := range eng.Referrers(ia) {
							if s, isSt := r2.(*ssa.Store); isSt {
								switch {
								case c.DerivesFrom(s.Val, func(v ssa.Value) bool { return c.isCallValueTo(v, "copy.StatAtime") }, 4):
									got[idx] = "atime"
								case c.DerivesFrom(s.Val, func(v ssa.Value) bool { return c.isCallValueTo(v, "copy.StatMtime") }, 4):
									got[idx] = "mtime"
								}
							}
						}
					}
				}
				okOrder = got[0] == "atime" && got[1] == "mtime"
			}
		}
		c.R.Check(isP && okOrder, rule, c.siteName(call)+"/times", c.pos(call), "times are {source atime, source mtime} on the target name", "UtimesNanoAt is not given {StatAtime(source), StatMtime(source)} in that order")
	}
	if u := c.Fn(rule, "copy.Utimes"); u != nil {
		for _, call := range c.P.CallsTo(u, "golang.org/x/sys/unix.UtimesNanoAt") {
			checkNoFollowFlag(c, rule, call)
			c.ObErrChecked(rule+"/checked", call)
		}
		c.R.Floor(rule, "UtimesNanoAt calls in copy.Utimes", len(c.P.CallsTo(u, "golang.org/x/sys/unix.UtimesNanoAt")), 1)
	}
}

func r13_4(c *Ctx, rule string) {
	c.R.Rule(rule, "hard links: the regular-file arm asks getLinkSource with the copier's single inode map; a hit leads to os.Link(hit, target), a miss to copyFile; getLinkSource records first occurrences only")
	f := getCopyFn(c, rule)
	if f == nil {
		return
	}
	cp := f.copy
	var gls *ssa.Call
	for _, call := range c.P.CallsTo(cp, "copy.getLinkSource") {
		gls, _ = call.(*ssa.Call)
	}
	if gls == nil {
		c.R.Fail(rule, c.name(cp)+"/link-source", c.P.Pos(cp.Pos()), "copier.copy no longer consults getLinkSource: files sharing an inode are copied as independent files")
		return
	}
	a := gls.Call.Args
	c.R.Check(isFieldLoad(a[2], "copy.copier.inodes"), rule, c.siteName(gls)+"/map", c.pos(gls), "uses the copier's inode map", "getLinkSource is not given the copier's inode map")
	c.ObErrChecked(rule+"/checked", gls)
	for _, call := range c.P.CallsTo(cp, "os.Link") {
		b := call.Common().Args
		e, isE := b[0].(*ssa.Extract)
		pt, isP := eng.Strip(b[1]).(*ssa.Parameter)
		c.R.Check(isE && e.Tuple == ssa.Value(gls) && e.Index == 0 && isP && c.P.ParamName(pt) == "target", rule, c.siteName(call)+"/args", c.pos(call), "os.Link(recorded first path, target)", "os.Link is not called as (path recorded for the inode, target)")
	}
	c.ObPrecedes(rule, c.name(cp)+"/lookup-before-copy", cp, nil, func(in ssa.Instruction) bool { return in == ssa.Instruction(gls) }, c.callPred("copy.copyFile", "os.Link"), "the inode lookup", "copying or linking a regular file")
	// hit => link, not copy
	x := c.explorer(cp)
	var hitKeys []string
	eng.Instrs(cp, func(in ssa.Instruction) {
		bo, ok := in.(*ssa.BinOp)
		if !ok || (bo.Op != token.EQL && bo.Op != token.NEQ) {
			return
		}
		if e, isE := bo.X.(*ssa.Extract); isE && e.Tuple == ssa.Value(gls) && e.Index == 0 {
			if s, isS := eng.ConstString(bo.Y); isS && s == "" {
				k := x.KeyAtEntry(bo)
				if bo.Op == token.EQL {
					k = "!" + k
				}
				hitKeys = append(hitKeys, k)
			}
		}
	})
	if len(hitKeys) == 0 {
		c.R.Fail(rule, c.name(cp)+"/hit-links", c.pos(gls), "the result of getLinkSource is not tested")
	} else {
		hit, miss := map[string]bool{}, map[string]bool{}
		for _, k := range hitKeys {
			hit[k], miss[k] = true, false
		}
		c.ObUnreachable(rule, c.name(cp)+"/hit-links", cp, hit, c.callPred("copy.copyFile"), "copying the bytes again", "the inode was already copied")
		c.ObUnreachable(rule, c.name(cp)+"/miss-copies", cp, miss, c.callPred("os.Link"), "os.Link", "the inode is seen for the first time")
	}
	// one map per copier
	nc := c.Fn(rule, "copy.newCopier")
	if nc != nil {
		ok := false
		for _, s := range fieldStoresIn(nc, "copy.copier.inodes") {
			if _, isMM := s.Val.(*ssa.MakeMap); isMM {
				ok = true
			}
		}
		fv := c.P.StructField("copy", "copier", "inodes")
		c.R.Check(ok && fv != nil && len(c.P.Census().FieldStores(fv)) == 0, rule, "copy.newCopier/inode-map", c.P.Pos(nc.Pos()), "one inode map, made in newCopier, never replaced", "the inode map is not a single map made in newCopier")
	}
	// getLinkSource
	g := c.Fn(rule, "copy.getLinkSource")
	if g == nil {
		return
	}
	var look *ssa.Lookup
	eng.Instrs(g, func(in ssa.Instruction) {
		if l, ok := in.(*ssa.Lookup); ok && l.CommaOk {
			look = l
		}
	})
	if look == nil {
		c.R.Fail(rule, c.name(g)+"/lookup", c.P.Pos(g.Pos()), "getLinkSource does not look the inode up")
		return
	}
	n := 0
	eng.Instrs(g, func(in ssa.Instruction) {
		mu, ok := in.(*ssa.MapUpdate)
		if !ok {
			return
		}
		n++
		_, valP := eng.Strip(mu.Value).(*ssa.Parameter)
		c.R.Check(valP && mu.Key == look.Index, rule, fmt.Sprintf("%s/record#%d", c.name(g), n), c.pos(mu), "records inode -> this name", "getLinkSource records something other than inode -> the given name")
		c.ObUnreachable(rule, fmt.Sprintf("%s/record#%d/first-only", c.name(g), n), g, map[string]bool{c.reg(look) + "#1": true}, func(i2 ssa.Instruction) bool { return i2 == in }, "re-recording the inode", "the inode is already recorded")
	})
	c.R.Floor(rule, "recordings in getLinkSource", n, 1)
	// returns the recorded path
	okRet := false
	eng.Instrs(g, func(in ssa.Instruction) {
		if r, isR := in.(*ssa.Return); isR && len(r.Results) == 2 {
			if e, isE := r.Results[0].(*ssa.Extract); isE && e.Tuple == ssa.Value(look) && e.Index == 0 {
				okRet = true
			}
		}
	})
	c.R.Check(okRet, rule, c.name(g)+"/returns-recorded", c.P.Pos(g.Pos()), "returns the path recorded for the inode", "getLinkSource does not return the recorded path")
}

func r13_5(c *Ctx, rule string) {
	c.R.Rule(rule, "copyXAttrs uses only LListxattr/LGetxattr/LSetxattr, copies each listed key from src to dst, and routes every error through the handler; the handler is the caller's whenever the caller gave one (the strict default only replaces nil)")
	if nc := c.P.Fn("copy.newCopier"); nc != nil {
		for _, st := range fieldStoresIn(nc, "copy.copier.xattrErrorHandler") {
			con := c.name(nc) + "/handler-default-only-for-nil"
			phi, isPhi := eng.Canon(st.Val).(*ssa.Phi)
			if !isPhi || len(phi.Edges) != 2 {
				c.R.OK(rule, con, c.pos(st), "the handler stored is not a two-way choice (not interpreted)")
				continue
			}
			dom := phi.Block().Idom()
			var cb *ssa.BinOp
			if dom != nil && len(dom.Instrs) > 0 {
				if iff, isIf := dom.Instrs[len(dom.Instrs)-1].(*ssa.If); isIf {
					cb, _ = iff.Cond.(*ssa.BinOp)
				}
			}
			var prm *ssa.Parameter
			if cb != nil && (cb.Op == token.EQL || cb.Op == token.NEQ) {
				for i, o := range []ssa.Value{cb.X, cb.Y} {
					if k, isK := []ssa.Value{cb.Y, cb.X}[i].(*ssa.Const); isK && k.IsNil() {
						prm, _ = o.(*ssa.Parameter)
					}
				}
			}
			if prm == nil {
				c.R.OK(rule, con, c.pos(st), "the choice is not made by a nil test of a parameter (not interpreted)")
				continue
			}
			ok := true
			for k, pr := range phi.Block().Preds {
				var condTrue bool
				switch {
				case pr == dom:
					condTrue = dom.Succs[0] == phi.Block()
				default:
					condTrue = dom.Succs[0] == pr || dom.Succs[0].Dominates(pr)
				}
				isNil := (cb.Op == token.EQL) == condTrue
				if (phi.Edges[k] == ssa.Value(prm)) == isNil {
					ok = false
				}
			}
			c.R.Check(ok, rule, con, c.pos(st), "the caller's handler is kept whenever it is not nil", "newCopier replaces a handler the caller supplied by the strict default (and keeps nil): xattr errors the caller chose to tolerate abort the copy, and a nil handler is called")
		}
	}
	fn := c.Fn(rule, "copy.copyXAttrs")
	if fn == nil {
		return
	}
	const sx = "github.com/containerd/continuity/sysx."
	want := map[string]bool{sx + "LListxattr": false, sx + "LGetxattr": false, sx + "LSetxattr": false}
	for _, call := range eng.Calls(fn) {
		n := c.P.CalleeName(call)
		if !strings.HasPrefix(n, sx) {
			continue
		}
		if _, ok := want[n]; !ok {
			c.R.Fail(rule, c.siteName(call)+"/no-follow", c.pos(call), n+" follows symlinks (or is not one of the three no-follow calls)")
			continue
		}
		want[n] = true
		key, _, _ := c.errValueOf(call)
		ex := c.explorer(fn)
		ex.From = call
		ex.Assume = map[string]bool{"(" + key + "==nil)": false}
		ex.Barrier = func(in ssa.Instruction, st *eng.State) bool { return c.P.IsCallTo(in, "param:xeh") }
		ex.Target = func(in ssa.Instruction, st *eng.State) bool {
			return isReturn(in) || (in != ssa.Instruction(call) && strings.HasPrefix(c.calleeOf(in), sx))
		}
		ex.StopAtTarget = true
		h := ex.Run()
		c.R.Check(len(h) == 0 && !ex.Exhausted, rule, c.siteName(call)+"/error-to-handler", c.pos(call), "a failure is handed to the xattr error handler", "a failure of "+n+" is not routed through the xattr error handler")
	}
	for n, seen := range want {
		c.R.Check(seen, rule, c.name(fn)+"/uses "+strings.TrimPrefix(n, sx), c.P.Pos(fn.Pos()), "present", "copyXAttrs no longer calls "+n)
	}
	for _, call := range c.P.CallsTo(fn, sx+"LSetxattr") {
		a := call.Common().Args
		p0, ok0 := eng.Strip(a[0]).(*ssa.Parameter)
		fromGet := c.DerivesFrom(a[2], func(v ssa.Value) bool { return c.isCallValueTo(v, sx+"LGetxattr") }, 3)
		fromList := c.DerivesFrom(a[1], func(v ssa.Value) bool { return c.isCallValueTo(v, sx+"LListxattr") }, 6)
		c.R.Check(ok0 && c.P.ParamName(p0) == "dst" && fromGet && fromList, rule, c.siteName(call)+"/args", c.pos(call), "sets on dst each listed key with the value read from src", "LSetxattr does not write (dst, listed key, value read from src)")
	}
	for _, call := range c.P.CallsTo(fn, sx+"LListxattr", sx+"LGetxattr") {
		p0, ok0 := eng.Strip(call.Common().Args[0]).(*ssa.Parameter)
		c.R.Check(ok0 && c.P.ParamName(p0) == "src", rule, c.siteName(call)+"/source", c.pos(call), "reads from src", "xattrs are not read from the source path")
	}
}

// CalleeName2 names the callee of in, or "" if in is not a call.
func (c *Ctx) calleeOf(in ssa.Instruction) string {
	if call, ok := in.(ssa.CallInstruction); ok {
		return c.P.CalleeName(call)
	}
	return ""
}

func r13_6(c *Ctx, rule string) {
	c.R.Rule(rule, "MkdirAll: a directory it creates is chowned (checked), then timed (checked), and recorded; Copy registers the created parents of both MkdirAll results for the final timestamp fix-up")
	fn := c.Fn(rule, "copy.MkdirAll")
	if fn == nil {
		return
	}
	var mk ssa.CallInstruction
	for _, call := range c.P.CallsTo(fn, "os.Mkdir") {
		mk = call
	}
	if mk == nil {
		c.R.Fail(rule, c.name(fn)+"/mkdir", c.P.Pos(fn.Pos()), "MkdirAll no longer calls os.Mkdir")
		return
	}
	key, _, _ := c.errValueOf(mk)
	as := map[string]bool{"(" + key + "==nil)": true}
	chown := c.checkedCallPred("copy.Chown")
	utimes := c.checkedCallPred("copy.Utimes")
	c.ObSuccessNeeds(rule, c.siteName(mk)+"/then-chown", fn, mk, as, chown, "a checked Chown of the new directory")
	c.ObSuccessNeeds(rule, c.siteName(mk)+"/then-utimes", fn, mk, as, utimes, "a checked Utimes of the new directory")
	c.ObSuccessNeeds(rule, c.siteName(mk)+"/then-recorded", fn, mk, as, func(in ssa.Instruction) bool {
		call, ok := in.(*ssa.Call)
		if !ok || c.P.CalleeName(call) != "builtin:append" {
			return false
		}
		return c.DerivesFrom(call.Call.Args[1], func(v ssa.Value) bool { p, isP := v.(*ssa.Parameter); return isP && c.P.ParamName(p) == "path" }, 5)
	}, "recording the created path")
	ex := c.explorer(fn)
	ex.From = mk
	ex.Barrier = func(in ssa.Instruction, st *eng.State) bool { return c.P.IsCallTo(in, "copy.Chown") }
	ex.Target = func(in ssa.Instruction, st *eng.State) bool { return c.P.IsCallTo(in, "copy.Utimes") }
	ex.StopAtTarget = true
	h := ex.Run()
	c.R.Check(len(h) == 0 && !ex.Exhausted, rule, c.siteName(mk)+"/chown-before-utimes", c.pos(mk), "Chown precedes Utimes", "the new directory is timed before it is chowned")
	for _, call := range c.P.CallsTo(fn, "copy.Chown", "copy.Utimes") {
		p0, ok0 := eng.Strip(call.Common().Args[0]).(*ssa.Parameter)
		c.R.Check(ok0 && c.P.ParamName(p0) == "path", rule, c.siteName(call)+"/path", c.pos(call), "applied to the created path", c.P.CalleeName(call)+" is not applied to the directory just created")
	}
	// the parents' result is kept
	rec := c.P.CallsTo(fn, "copy.MkdirAll")
	for _, call := range rec {
		c.ObErrChecked(rule+"/checked", call)
	}
	cp := c.Fn(rule, "copy.Copy")
	if cp == nil {
		return
	}
	n := 0
	eng.Instrs(cp, func(in ssa.Instruction) {
		d, ok := in.(*ssa.Defer)
		if !ok || c.P.CalleeName(d) != "copy.fixCreatedParentDirs" {
			return
		}
		n++
		a := d.Call.Args
		okA := c.DerivesFrom(a[0], func(v ssa.Value) bool { return c.isCallValueTo(v, "copy.MkdirAll", "copy.(*copier).prepareTargetDir") }, 4)
		c.R.Check(okA && isFieldLoad(a[1], "copy.CopyInfo.Utime"), rule, fmt.Sprintf("copy.Copy/fixup#%d", n), c.pos(d), "deferred fix-up of the directories created", "the deferred fix-up is not given the directories MkdirAll created and the time option")
	})
	c.R.Floor(rule, "deferred fixCreatedParentDirs in Copy", n, 2)
	if ptd := c.Fn(rule, "copy.(*copier).prepareTargetDir"); ptd != nil {
		ok := false
		eng.Instrs(ptd, func(in ssa.Instruction) {
			if r, isR := in.(*ssa.Return); isR && len(r.Results) == 3 {
				if c.DerivesFrom(r.Results[1], func(v ssa.Value) bool { return c.isCallValueTo(v, "copy.MkdirAll") }, 4) {
					ok = true
				}
			}
		})
		c.R.Check(ok, rule, c.name(ptd)+"/returns-created", c.P.Pos(ptd.Pos()), "returns the directories MkdirAll created", "prepareTargetDir drops the list of directories it created")
	}
	if fx := c.Fn(rule, "copy.fixCreatedParentDirs"); fx != nil {
		calls := c.P.CallsTo(fx, "copy.Utimes")
		c.R.Check(len(calls) >= 1 && eng.InCycle(calls[0].Block()), rule, c.name(fx)+"/retimes-each", c.P.Pos(fx.Pos()), "every created directory is re-timed", "fixCreatedParentDirs does not re-time each created directory")
	}
}

func r13_7(c *Ctx, rule string) {
	c.R.Rule(rule, "every success return of copier.copy after a non-directory creation passes the single checked notifyChange(target, source info), outside any loop")
	f := getCopyFn(c, rule)
	if f == nil {
		return
	}
	cp := f.copy
	nc := c.P.CallsTo(cp, "copy.(*copier).notifyChange")
	c.R.Exact(rule, "notifyChange sites in copier.copy", len(nc), 1)
	for _, call := range nc {
		c.R.Check(!eng.InCycle(call.Block()), rule, c.siteName(call)+"/once", c.pos(call), "outside any loop", "the notification is inside a loop")
		a := call.Common().Args
		p1, ok1 := eng.Strip(a[1]).(*ssa.Parameter)
		okFi := c.DerivesFrom(a[2], func(v ssa.Value) bool { return c.isCallValueTo(v, "os.Lstat") }, 3)
		c.R.Check(ok1 && c.P.ParamName(p1) == "target" && okFi, rule, c.siteName(call)+"/args", c.pos(call), "notifyChange(target, source info)", "the notification does not carry (target, source info)")
	}
	chk := c.checkedCallPred("copy.(*copier).notifyChange")
	for _, call := range c.P.CallsTo(cp, nonDirCreators...) {
		key, _, _ := c.errValueOf(call)
		c.ObSuccessAfter(rule, c.siteName(call)+"/then-notify", cp, call, nil, map[string]bool{"(" + key + "==nil)": true}, chk, "the checked change notification")
	}
	// notifyChange itself: calls the callback with the root-relative path when set
	n := c.Fn(rule, "copy.(*copier).notifyChange")
	if n != nil {
		calls := c.P.CallsTo(n, "field:copy.copier.changefn")
		c.R.Check(len(calls) == 1, rule, c.name(n)+"/callback", c.P.Pos(n.Pos()), "invokes the change function", "notifyChange does not invoke the configured change function exactly once")
		for _, call := range calls {
			c.ObErrChecked(rule+"/checked", call)
			a := call.Common().Args
			ok := c.DerivesFrom(a[1], func(v ssa.Value) bool { return isFieldLoad(v, "copy.copier.root") }, 5) &&
				c.DerivesFrom(a[1], func(v ssa.Value) bool { p, isP := v.(*ssa.Parameter); return isP && c.P.ParamName(p) == "target" }, 5)
			c.R.Check(ok, rule, c.siteName(call)+"/path", c.pos(call), "reports the target relative to the copier's root", "the reported path is not the target made relative to the destination root")
		}
	}
}

// ---------------------------------------------------------------------------
// C14

// copyFollowExceptions: following calls allowed in package copy.
var copyFollowExceptions = map[string]followException{
	"copy.MkdirAll/os.Stat":                         {reason: "the argument is an output of fs.RootPath or a parent prefix of one (R14.2): symlink-free by that library's contract"},
	"copy.(*copier).prepareTargetDir/os.Stat":       {reason: "destPath is an output of fs.RootPath (R14.2)"},
	"copy.(*copier).createParentDirs/os.Stat":       {reason: "the path of a source directory this copy is currently inside (copyDirectory is only entered for entries Lstat classified as directories)"},
	"copy.(*copier).copyDirectory/os.ReadDir":       {reason: "source path classified as a directory by Lstat", check: guardedByStatIsDir},
	"copy.copyFile/os.Open":                         {reason: "source path on the regular-file arm of copier.copy (Lstat said regular)"},
	"copy.copyFile/os.Create":                       {reason: "the target was emptied first", check: callerEmptiedTarget},
	"copy.(*copier).copyFileInfo/os.Chmod":          {reason: "skipped for symlinks", check: guardedByNotSymlink},
	"copy.copyDirectoryOnly/os.Chmod":               {reason: "only when Lstat says the destination is a directory", check: guardedByLstatIsDir},
	"copy.copyFile/golang.org/x/sys/unix.Clonefile": {reason: "darwin: clone of the Lstat-regular source onto a target emptied first", check: callerEmptiedTarget},
	"copy.copyFile/os.OpenFile":                     {reason: "the target was emptied first", check: callerEmptiedTarget},
}

// onAnchors evaluates a precondition in every function through which the call
// is reached (the call may sit in a transparent helper split off from it).
func onAnchors(c *Ctx, call ssa.CallInstruction, f func(fn *ssa.Function) (bool, string)) (bool, string) {
	as := c.P.Anchors(call.Parent())
	if len(as) == 0 {
		return false, "no caller of " + c.name(call.Parent())
	}
	for _, fn := range as {
		if ok, why := f(fn); !ok {
			return false, why
		}
	}
	return true, ""
}

func guardedByStatIsDir(c *Ctx, call ssa.CallInstruction) (bool, string) {
	return onAnchors(c, call, func(fn *ssa.Function) (bool, string) { return guardedByStatIsDirIn(c, fn, call) })
}

func guardedByStatIsDirIn(c *Ctx, fn *ssa.Function, call ssa.CallInstruction) (bool, string) {
	x := c.explorer(fn)
	as := map[string]bool{}
	for _, cl := range c.P.CallsTo(fn, "(io/fs.FileInfo).IsDir") {
		if v, ok := cl.(*ssa.Call); ok {
			if _, isP := eng.Strip(v.Call.Value).(*ssa.Parameter); isP {
				as[x.KeyAtEntry(v)] = false
			}
		}
	}
	if len(as) == 0 {
		return false, "no IsDir test of the stat parameter"
	}
	hit, und := c.ReachableUnder(fn, as, nil, func(in ssa.Instruction) bool { return in == ssa.Instruction(call) })
	if und || hit != nil {
		return false, "reachable although the source is not a directory"
	}
	return true, ""
}

func guardedByLstatIsDir(c *Ctx, call ssa.CallInstruction) (bool, string) {
	return onAnchors(c, call, func(fn *ssa.Function) (bool, string) { return guardedByLstatIsDirIn(c, fn, call) })
}

func guardedByLstatIsDirIn(c *Ctx, fn *ssa.Function, call ssa.CallInstruction) (bool, string) {
	x := c.explorer(fn)
	as := map[string]bool{}
	for _, cl := range c.P.CallsTo(fn, "(io/fs.FileInfo).IsDir") {
		if v, ok := cl.(*ssa.Call); ok {
			if c.DerivesFrom(v.Call.Value, func(y ssa.Value) bool { return c.isCallValueTo(y, "os.Lstat") }, 3) {
				as[x.KeyAtEntry(v)] = false
			}
		}
	}
	if len(as) == 0 {
		return false, "no IsDir test of an Lstat result"
	}
	hit, und := c.ReachableUnder(fn, as, nil, func(in ssa.Instruction) bool { return in == ssa.Instruction(call) })
	if und || hit != nil {
		return false, "reachable although Lstat does not say 'directory'"
	}
	return true, ""
}

func callerEmptiedTarget(c *Ctx, call ssa.CallInstruction) (bool, string) {
	cp := c.P.Fn("copy.(*copier).copy")
	if cp == nil {
		return false, "copier.copy not found"
	}
	ok, _, und := c.Precedes(cp, nil, nil, c.checkedCallPred("copy.ensureEmptyFileTarget"), c.callPred("copy.copyFile"))
	if und || !ok {
		return false, "copier.copy reaches copyFile without a checked ensureEmptyFileTarget"
	}
	for _, a := range c.P.Anchors(call.Parent()) { // (the call may sit in a helper split off from copyFile)
		for _, cs := range c.P.CallGraph().Callers(a) {
			if !c.P.IsTestFile(cs.Pos()) && !c.onlyIn(cs, c.name(cp)) {
				return false, c.name(a) + " is also called from " + c.name(cs.Parent())
			}
		}
	}
	return true, ""
}

func r14_1(c *Ctx, rule string) {
	c.R.Rule(rule, "package copy: every filesystem call is classified; symlink-following calls only at tabled sites with re-checked preconditions; UtimesNanoAt carries AT_SYMLINK_NOFOLLOW")
	fns := transferFuncs(c, "copy")
	for _, f := range fns {
		c.R.Analysed(c.name(f))
	}
	n := 0
	for _, call := range fsCallsIn(c, fns) {
		name := c.P.CalleeName(call)
		cl, known := fsCallTable[name]
		con := c.siteName(call)
		if !known {
			c.R.Fail(rule, con+"/unclassified", c.pos(call), "filesystem call "+name+" is not in the classification table (follow / no-follow)")
			continue
		}
		if cl == fsNeutral {
			continue
		}
		n++
		c.R.CallSites++
		if name == "golang.org/x/sys/unix.UtimesNanoAt" {
			checkNoFollowFlag(c, rule, call)
			continue
		}
		if name == "golang.org/x/sys/unix.Clonefileat" {
			var want int64 = -1
			for _, pk := range c.P.SSA.AllPackages() {
				if pk.Pkg.Path() == "golang.org/x/sys/unix" {
					if k, ok := pk.Pkg.Scope().Lookup("CLONE_NOFOLLOW").(*types.Const); ok {
						fmt.Sscan(k.Val().ExactString(), &want)
					}
				}
			}
			a := call.Common().Args
			got, okc := eng.ConstInt(a[len(a)-1])
			c.R.Check(okc && want > 0 && got&want == want, rule, con+"/nofollow-flag", c.pos(call), "flags include CLONE_NOFOLLOW", "Clonefileat is called without CLONE_NOFOLLOW: a source symlink is cloned through")
			continue
		}
		if cl == fsNoFollow {
			c.R.OK(rule, con, c.pos(call), name+" does not follow a symlink in the final component")
			continue
		}
		ex, ok := tabled(c, copyFollowExceptions, call)
		if !ok {
			// wildcard resolution and the public helpers operate on caller-resolved paths
			c.R.Fail(rule, con, c.pos(call), name+" follows a symlink in the final path component, in "+c.name(call.Parent())+": a symlink in the source or destination tree redirects the operation outside its root")
			continue
		}
		if ex.check != nil {
			good, why := ex.check(c, call)
			c.R.Check(good, rule, con, c.pos(call), "tabled exception ("+ex.reason+"), precondition re-checked", "tabled exception for "+name+" ("+ex.reason+") no longer holds: "+why)
		} else {
			c.R.OK(rule, con, c.pos(call), "tabled exception: "+ex.reason)
		}
	}
	c.R.Floor(rule, "classified filesystem call sites in package copy", n, 25)
}

func r14_2(c *Ctx, rule string) {
	c.R.Rule(rule, "Copy: every path handed to MkdirAll, prepareTargetDir and copier.copy derives from fs.RootPath(dstRoot, ...) or rootPath(srcRoot, ...)")
	cp := c.Fn(rule, "copy.Copy")
	if cp == nil {
		return
	}
	const rp = "github.com/containerd/continuity/fs.RootPath"
	fromDstRoot := func(v ssa.Value) bool {
		return c.DerivesFrom(v, func(y ssa.Value) bool {
			call, ok := y.(*ssa.Call)
			if !ok || c.P.CalleeName(call) != rp {
				return false
			}
			p, isP := eng.Strip(call.Call.Args[0]).(*ssa.Parameter)
			return isP && c.P.ParamName(p) == "dstRoot"
		}, 6)
	}
	fromSrcRoot := func(v ssa.Value) bool {
		return c.DerivesFrom(v, func(y ssa.Value) bool {
			call, ok := y.(*ssa.Call)
			if !ok || c.P.CalleeName(call) != "copy.rootPath" {
				return false
			}
			p, isP := eng.Strip(call.Call.Args[0]).(*ssa.Parameter)
			return isP && c.P.ParamName(p) == "srcRoot"
		}, 6)
	}
	// ... on every alternative: a value that is a root resolution on one
	// branch and a plain Join(srcRoot, src) on another (a short-cut for
	// sources "already resolved") is not confined
	isSrcResolution := func(y ssa.Value) bool {
		if e, isE := y.(*ssa.Extract); isE {
			y = e.Tuple
		}
		call, ok := y.(*ssa.Call)
		if !ok || c.P.CalleeName(call) != "copy.rootPath" {
			return false
		}
		p, isP := eng.Strip(call.Call.Args[0]).(*ssa.Parameter)
		return isP && c.P.ParamName(p) == "srcRoot"
	}
	var onlySrcRoot func(v ssa.Value, d int, seen map[ssa.Value]bool) bool
	onlySrcRoot = func(v ssa.Value, d int, seen map[ssa.Value]bool) bool {
		if d > 8 || v == nil {
			return false
		}
		if seen[v] {
			return true
		}
		seen[v] = true
		if isSrcResolution(v) {
			return true
		}
		if rs := eng.ResolveAll(v); len(rs) > 1 || (len(rs) == 1 && rs[0] != v) {
			n := 0
			for _, r := range rs {
				// (the zero value a helper returns next to its error)
				if k, isK := r.(*ssa.Const); isK && len(rs) > 1 {
					if sv, isS := eng.ConstString(k); isS && sv == "" {
						continue
					}
				}
				n++
				if !onlySrcRoot(r, d+1, seen) {
					return false
				}
			}
			return n > 0
		}
		switch x := v.(type) {
		case *ssa.Phi:
			for _, e := range x.Edges {
				if !onlySrcRoot(e, d+1, seen) {
					return false
				}
			}
			return len(x.Edges) > 0
		case *ssa.UnOp:
			// a local assigned on several branches
			if al, isA := x.X.(*ssa.Alloc); isA && x.Op == token.MUL {
				sts := c.P.AllocStores(al)
				for _, st := range sts {
					if !onlySrcRoot(st.Val, d+1, seen) {
						return false
					}
				}
				return len(sts) > 0
			}
		case *ssa.ChangeType:
			return onlySrcRoot(x.X, d+1, seen)
		case *ssa.Convert:
			return onlySrcRoot(x.X, d+1, seen)
		}
		return false
	}
	for _, call := range c.P.CallsTo(cp, "copy.(*copier).prepareTargetDir", "copy.(*copier).copy") {
		idx := 1
		if c.P.CalleeName(call) == "copy.(*copier).copy" {
			idx = 2
		}
		c.R.Check(onlySrcRoot(call.Common().Args[idx], 0, map[ssa.Value]bool{}), rule, c.siteName(call)+"/source-always-resolved", c.pos(call), "on every alternative the source path is what rootPath(srcRoot, ...) returned", "on some branch the source path handed on is not the result of rootPath(srcRoot, ...) (a plain Join with the root?): a symlinked parent component of the source is followed against the host's root")
	}
	for _, call := range c.P.CallsTo(cp, "copy.MkdirAll") {
		c.R.Check(fromDstRoot(call.Common().Args[0]), rule, c.siteName(call)+"/root-scoped", c.pos(call), "the directory to ensure is resolved below dstRoot", "MkdirAll is given a path that was not resolved with fs.RootPath(dstRoot, ...)")
		c.ObErrChecked(rule+"/checked", call)
	}
	for _, call := range c.P.CallsTo(cp, "copy.(*copier).prepareTargetDir") {
		a := call.Common().Args
		c.R.Check(fromSrcRoot(a[1]) && fromDstRoot(a[3]), rule, c.siteName(call)+"/root-scoped", c.pos(call), "source resolved below srcRoot, destination below dstRoot", "prepareTargetDir is given paths that were not resolved below their roots")
		c.ObErrChecked(rule+"/checked", call)
	}
	for _, call := range c.P.CallsTo(cp, "copy.(*copier).copy") {
		a := call.Common().Args
		okT := c.DerivesFrom(a[4], func(v ssa.Value) bool { return c.isCallValueTo(v, "copy.(*copier).prepareTargetDir") }, 3)
		c.R.Check(fromSrcRoot(a[2]) && okT, rule, c.siteName(call)+"/root-scoped", c.pos(call), "copies (rootPath(srcRoot, src), prepared target)", "copier.copy is given a source or target that was not resolved below its root")
		c.ObErrChecked(rule+"/checked", call)
	}
	for _, call := range c.P.CallsTo(cp, rp, "copy.rootPath") {
		c.ObErrChecked(rule+"/checked", call)
	}
	c.R.Floor(rule, "root resolutions in Copy", len(c.P.CallsTo(cp, rp, "copy.rootPath")), 3)
	// everywhere in the package: what is resolved against is a root (the
	// root parameter of the enclosing function or the copier's root), never
	// the path that is to be confined
	for _, fn := range transferFuncs(c, "copy") {
		for _, call := range c.P.CallsTo(fn, rp, "copy.rootPath") {
			if call.Parent() != fn {
				continue
			}
			a0 := eng.Strip(call.Common().Args[0])
			ok := isFieldLoad(a0, "copy.copier.root")
			if p, isP := a0.(*ssa.Parameter); isP {
				switch c.P.ParamName(p) {
				case "root", "srcRoot", "dstRoot":
					ok = true
				}
			}
			c.R.Check(ok, rule, c.siteName(call)+"/against-a-root", c.pos(call), "resolved against a root", "the first argument of a root resolution is not a root of the enclosing function (arguments swapped?): the path is confined to itself, not to the root")
		}
	}
	// rootPath: resolves with fs.RootPath (whole path, or the parent when links are not followed)
	r := c.Fn(rule, "copy.rootPath")
	if r != nil {
		calls := c.P.CallsTo(r, rp)
		c.R.Floor(rule, "fs.RootPath calls in rootPath", len(calls), 2)
		for _, call := range calls {
			p, isP := eng.Strip(call.Common().Args[0]).(*ssa.Parameter)
			c.R.Check(isP && c.P.ParamName(p) == "root", rule, c.siteName(call)+"/root", c.pos(call), "resolved against the given root", "rootPath does not resolve against its root parameter")
		}
		hit, und := c.SuccessAvoiding(r, nil, nil, nil, func(in ssa.Instruction) bool {
			if c.P.IsCallTo(in, rp) {
				return true
			}
			// p == "/" returns the root itself
			return false
		})
		// the only success return without RootPath is `return root, nil`
		okRoot := true
		if hit != nil {
			ret := hit.Instr.(*ssa.Return)
			_, isP := eng.Strip(ret.Results[0]).(*ssa.Parameter)
			okRoot = isP
		}
		c.R.Check(!und && okRoot, rule, c.name(r)+"/always-resolved", c.P.Pos(r.Pos()), "every result is the root itself or an fs.RootPath resolution", "rootPath can return a path that was not resolved with fs.RootPath")
	}
}

func r14_3(c *Ctx, rule string) {
	c.R.Rule(rule, "inspection is Lstat-based: the infos copier.copy, ensureEmptyFileTarget and copyDirectoryOnly branch on come from os.Lstat")
	for _, e := range []struct {
		fn    string
		floor int
	}{{"copy.(*copier).copy", 2}, {"copy.ensureEmptyFileTarget", 1}, {"copy.copyDirectoryOnly", 1}} { // (floors: that the rule is not vacuous, not how many tests the code happens to spell out)
		fn := c.Fn(rule, e.fn)
		if fn == nil {
			continue
		}
		n := 0
		for _, call := range c.P.CallsTo(fn, "(io/fs.FileInfo).IsDir", "(io/fs.FileInfo).Mode") {
			recv := call.Common().Value
			if _, isP := eng.Strip(recv).(*ssa.Parameter); isP {
				continue // the caller's info (copyDirectoryOnly's source stat)
			}
			n++
			ok := c.DerivesFrom(recv, func(v ssa.Value) bool { return c.isCallValueTo(v, "os.Lstat") }, 4)
			c.R.Check(ok, rule, c.siteName(call)+"/lstat-based", c.pos(call), "the info comes from os.Lstat", "a type/mode decision in "+e.fn+" is based on an info that does not come from os.Lstat: a symlink is judged by its target")
		}
		c.R.Floor(rule, "info inspections in "+e.fn, n, e.floor)
		for _, call := range c.P.CallsTo(fn, "os.Stat") {
			c.R.Fail(rule, c.siteName(call)+"/stat", c.pos(call), e.fn+" uses os.Stat, which follows symlinks")
		}
	}
}

// R15.4: the destination is inspected where it is used.
func r15_4(c *Ctx, rule string) {
	c.R.Rule(rule, "prepareTargetDir reads the state of the destination itself (os.Stat inside the function, once per wildcard match): a later match sees what an earlier match created")
	pt := c.Fn(rule, "copy.(*copier).prepareTargetDir")
	if pt == nil {
		return
	}
	n := 0
	for _, call := range c.P.CallsTo(pt, "(io/fs.FileInfo).IsDir", "(io/fs.FileInfo).Mode") {
		recv := call.Common().Value
		fromSrc := c.DerivesFrom(recv, func(v ssa.Value) bool { return c.isCallValueTo(v, "os.Lstat") }, 5)
		if fromSrc {
			continue // the source entry
		}
		n++
		ok := c.DerivesFrom(recv, func(v ssa.Value) bool {
			cl, isCall := v.(*ssa.Call)
			return isCall && c.P.CalleeName(cl) == "os.Stat" && c.onlyIn(cl, c.name(pt))
		}, 5)
		c.R.Check(ok, rule, c.siteName(call)+"/destination-read-here", c.pos(call), "decided on an os.Stat of the destination made inside prepareTargetDir", "prepareTargetDir decides on a destination info it did not read itself (passed in, read once before the loop over wildcard matches): the second match does not see the directory the first one created")
	}
	c.R.Floor(rule, "destination inspections in prepareTargetDir", n, 1)
}

func r14_4(c *Ctx, rule string) {
	c.R.Rule(rule, "on the non-directory arms every creating call is preceded by a checked ensureEmptyFileTarget(target)")
	f := getCopyFn(c, rule)
	if f == nil {
		return
	}
	chk := c.checkedCallPred("copy.ensureEmptyFileTarget")
	c.ObPrecedes(rule, c.name(f.copy)+"/emptied-before-create", f.copy, nil, chk, c.callPred(nonDirCreators...), "a checked ensureEmptyFileTarget", "creating a file, link, symlink or device")
	for _, call := range c.P.CallsTo(f.copy, "copy.ensureEmptyFileTarget") {
		p, isP := eng.Strip(call.Common().Args[0]).(*ssa.Parameter)
		c.R.Check(isP && c.P.ParamName(p) == "target", rule, c.siteName(call)+"/target", c.pos(call), "applied to the target", "ensureEmptyFileTarget is not applied to the target path")
	}
	for _, call := range c.P.CallsTo(f.copy, nonDirCreators...) {
		a := call.Common().Args
		idx := 1
		if c.P.CalleeName(call) == "copy.copyDevice" {
			idx = 0
		}
		p, isP := eng.Strip(a[idx]).(*ssa.Parameter)
		c.R.Check(isP && c.P.ParamName(p) == "target", rule, c.siteName(call)+"/creates-target", c.pos(call), "creates the target path", c.P.CalleeName(call)+" does not create the emptied target path")
	}
}

// ---------------------------------------------------------------------------
// C15

var destructiveCalls = []string{"os.Remove", "os.RemoveAll", "os.Rename", "os.Truncate", "golang.org/x/sys/unix.Unlink", "golang.org/x/sys/unix.Rmdir", "syscall.Unlink", "syscall.Rmdir", "golang.org/x/sys/unix.Rename", "golang.org/x/sys/unix.Truncate"}

func r15_1(c *Ctx, rule string) {
	c.R.Rule(rule, "destructive calls in package copy: exactly os.Remove in ensureEmptyFileTarget, unreachable when Lstat says directory, and os.RemoveAll in removeTargetIfNeeded, unreachable unless always-replace, target exists and not both are directories; copyDirectoryOnly on a non-directory returns an error and creates/removes nothing")
	var sites []ssa.CallInstruction
	for _, fn := range transferFuncs(c, "copy") {
		sites = append(sites, c.P.CallsTo(fn, destructiveCalls...)...)
	}
	c.R.Exact(rule, "destructive call sites in package copy", len(sites), 2)
	for _, call := range sites {
		fn := call.Parent()
		if tops := c.tops(call); len(tops) == 1 {
			fn = tops[0] // the call may sit in a transparent helper split off from its function
		}
		key := c.name(fn) + "/" + c.P.CalleeName(call)
		x := c.explorer(fn)
		isIt := func(in ssa.Instruction) bool { return in == ssa.Instruction(call) }
		switch key {
		case "copy.ensureEmptyFileTarget/os.Remove":
			as := map[string]bool{}
			for _, cl := range c.P.CallsTo(fn, "(io/fs.FileInfo).IsDir") {
				if v, ok := cl.(*ssa.Call); ok && c.DerivesFrom(v.Call.Value, func(y ssa.Value) bool { return c.isCallValueTo(y, "os.Lstat") }, 3) {
					as[x.KeyAtEntry(v)] = true
				}
			}
			for _, cl := range c.P.CallsTo(fn, "os.Lstat") {
				if v, ok := cl.(*ssa.Call); ok {
					as["("+c.reg(v)+"#1==nil)"] = true
				}
			}
			if len(as) < 2 {
				c.R.Fail(rule, c.siteName(call)+"/not-a-directory", c.pos(call), "no Lstat-based directory test guards os.Remove")
			} else {
				c.ObUnreachable(rule, c.siteName(call)+"/not-a-directory", fn, as, isIt, "os.Remove", "the existing target is a directory")
				hit, und := c.SuccessAvoiding(fn, nil, as, nil, nil)
				c.R.Check(!und && hit == nil, rule, c.name(fn)+"/directory-is-error", c.pos(call), "a directory in the way is an error", "ensureEmptyFileTarget succeeds although a directory is in the way of a file")
			}
			p, isP := eng.Strip(call.Common().Args[0]).(*ssa.Parameter)
			c.R.Check(isP && c.P.ParamName(p) == "dst", rule, c.siteName(call)+"/arg", c.pos(call), "removes the inspected path", "os.Remove is applied to a path other than the one inspected")
		case "copy.(*copier).removeTargetIfNeeded/os.RemoveAll":
			var flag []string
			for _, ld := range fieldLoadsIn(fn, "copy.copier.alwaysReplaceExistingDestPaths") {
				flag = append(flag, x.KeyAtEntry(ld))
			}
			if len(flag) == 0 {
				c.R.Fail(rule, c.siteName(call)+"/needs-always-replace", c.pos(call), "os.RemoveAll is not guarded by the always-replace option")
			} else {
				as := map[string]bool{}
				for _, k := range flag {
					as[k] = false
				}
				c.ObUnreachable(rule, c.siteName(call)+"/needs-always-replace", fn, as, isIt, "os.RemoveAll", "always-replace is off")
			}
			// both directories
			both := map[string]bool{}
			for _, cl := range c.P.CallsTo(fn, "(io/fs.FileInfo).IsDir") {
				if v, ok := cl.(*ssa.Call); ok {
					both[x.KeyAtEntry(v)] = true
				}
			}
			c.R.Check(len(both) == 2, rule, c.name(fn)+"/two-dir-tests", c.P.Pos(fn.Pos()), "source and target are both asked IsDir", "removeTargetIfNeeded does not test both the source and the target for being directories")
			c.ObUnreachable(rule, c.siteName(call)+"/directories-merge", fn, both, isIt, "os.RemoveAll", "both source and target are directories (they merge)")
			// nil target
			nilKeys := map[string]bool{}
			eng.Instrs(fn, func(in ssa.Instruction) {
				bo, ok := in.(*ssa.BinOp)
				if !ok || (bo.Op != token.EQL && bo.Op != token.NEQ) {
					return
				}
				if k, isC := bo.Y.(*ssa.Const); isC && k.IsNil() {
					if p, isP := bo.X.(*ssa.Parameter); isP && strings.HasSuffix(p.Type().String(), "FileInfo") {
						nilKeys[x.KeyAtEntry(bo)] = bo.Op == token.EQL
					}
				}
			})
			c.R.Check(len(nilKeys) > 0, rule, c.name(fn)+"/nil-target-test", c.P.Pos(fn.Pos()), "a missing target is tested", "removeTargetIfNeeded does not test for a missing target")
			p, isP := eng.Strip(call.Common().Args[0]).(*ssa.Parameter)
			c.R.Check(isP && c.P.ParamName(p) == "target", rule, c.siteName(call)+"/arg", c.pos(call), "removes the target", "os.RemoveAll is applied to a path other than the target")
		default:
			c.R.Fail(rule, c.siteName(call)+"/unexpected", c.pos(call), "an additional destructive call ("+c.P.CalleeName(call)+" in "+c.name(fn)+"): the overlay rules allow removal only in ensureEmptyFileTarget and removeTargetIfNeeded")
		}
	}
	// copyDirectoryOnly: non-directory in the way
	cdo := c.Fn(rule, "copy.copyDirectoryOnly")
	if cdo != nil {
		x := c.explorer(cdo)
		as := map[string]bool{}
		for _, cl := range c.P.CallsTo(cdo, "(io/fs.FileInfo).IsDir") {
			if v, ok := cl.(*ssa.Call); ok && c.DerivesFrom(v.Call.Value, func(y ssa.Value) bool { return c.isCallValueTo(y, "os.Lstat") }, 3) {
				as[x.KeyAtEntry(v)] = false
			}
		}
		for _, cl := range c.P.CallsTo(cdo, "os.Lstat") {
			if v, ok := cl.(*ssa.Call); ok {
				as["("+c.reg(v)+"#1==nil)"] = true
			}
		}
		hit, und := c.SuccessAvoiding(cdo, nil, as, nil, nil)
		c.R.Check(!und && hit == nil && len(as) >= 2, rule, c.name(cdo)+"/non-directory-is-error", c.P.Pos(cdo.Pos()), "a non-directory in the way of a directory is an error", "copyDirectoryOnly succeeds although a non-directory occupies the destination")
		c.ObUnreachable(rule, c.name(cdo)+"/non-directory-untouched", cdo, as, c.callPred(append([]string{"os.Mkdir", "os.Chmod"}, destructiveCalls...)...), "creating, removing or re-moding", "a non-directory occupies the destination")
	}
}

// forwardedLibCall: f consists of one call to a function outside the module
// whose results it returns; the name of that function, or "".
func forwardedLibCall(c *Ctx, f *ssa.Function) string {
	if f == nil || len(f.Blocks) != 1 {
		return ""
	}
	name := ""
	n := 0
	for _, in := range f.Blocks[0].Instrs {
		if call, ok := in.(ssa.CallInstruction); ok {
			n++
			if g := call.Common().StaticCallee(); g != nil && !c.P.InModule(g) {
				name = c.P.CalleeName(call)
			}
		}
	}
	if n != 1 {
		return ""
	}
	return name
}

// xattrSetFlags: xattrs are written create-or-replace.
//
// copyXAttrs runs on freshly created entries and on directories that already
// exist in the destination (merge, repeated copy, ancestors created earlier):
// the flags argument of the set call is 0. XATTR_CREATE (1) fails with EEXIST
// on an attribute the directory already carries, XATTR_REPLACE (2) with ENODATA
// on a fresh entry.
func xattrSetFlags(c *Ctx, rule string) {
	c.R.Rule(rule, "copyXAttrs sets attributes with flags 0 (create or replace): re-applying them onto an existing directory must succeed")
	fn := c.Fn(rule, "copy.copyXAttrs")
	if fn == nil {
		return
	}
	n := 0
	for _, call := range eng.Calls(fn) {
		switch c.P.CalleeName(call) {
		case "github.com/containerd/continuity/sysx.LSetxattr", "github.com/containerd/continuity/sysx.Setxattr", "golang.org/x/sys/unix.Lsetxattr", "golang.org/x/sys/unix.Setxattr":
		default:
			continue
		}
		a := call.Common().Args
		n++
		k, isK := eng.ConstInt(a[len(a)-1])
		c.R.Check(isK && k == 0, rule, c.siteName(call)+"/create-or-replace", c.pos(call), "flags 0", "the attribute is set with a flag other than 0 (XATTR_CREATE / XATTR_REPLACE): re-applying xattrs onto a directory that already has them fails, directories no longer merge and a repeated copy fails")
	}
	if n == 0 {
		c.R.OK(rule, c.name(fn)+"/no-set-call", c.P.Pos(fn.Pos()), "no xattr set call on this platform")
	}
}

// R15.8: an existing destination is left to the overlay rules.
//
// prepareTargetDir creates what is missing above the copy: the destination
// itself only when nothing is there. When Stat found something at the
// destination path, the directory it ensures is the parent - whether the
// existing entry is merged into, replaced or refused is decided later, by the
// copier (removeTargetIfNeeded under always-replace). MkdirAll on the
// destination path itself fails with ENOTDIR on a non-directory before the
// source can win.
func r15_8(c *Ctx, rule string) {
	c.R.Rule(rule, "copier.prepareTargetDir: when Stat found an entry at the destination path, MkdirAll is given the parent of the path that is returned, not that path itself")
	fn := c.Fn(rule, "copy.(*copier).prepareTargetDir")
	if fn == nil {
		return
	}
	x := c.explorer(fn)
	var stat ssa.CallInstruction
	for _, call := range c.P.CallsTo(fn, "os.Stat", "os.Lstat") {
		if _, isP := eng.Strip(call.Common().Args[0]).(*ssa.Parameter); isP && c.P.ParamName(eng.Strip(call.Common().Args[0]).(*ssa.Parameter)) == "destPath" {
			stat = call
		}
	}
	con := c.name(fn) + "/existing-destination-not-created"
	if stat == nil {
		c.R.OK(rule, con, c.P.Pos(fn.Pos()), "no Stat of the destination path of a shape this rule interprets: not decided")
		return
	}
	pins := map[string]bool{}
	eng.Instrs(fn, func(in ssa.Instruction) {
		bo, ok := in.(*ssa.BinOp)
		if !ok || (bo.Op != token.EQL && bo.Op != token.NEQ) {
			return
		}
		k, isK := bo.Y.(*ssa.Const)
		if !isK || !k.IsNil() {
			return
		}
		if e, isE := eng.Canon(bo.X).(*ssa.Extract); isE && e.Tuple == stat.Value() && e.Index == 0 {
			pins[x.RegKey(bo)] = bo.Op == token.NEQ // an entry exists
		}
	})
	if len(pins) == 0 {
		c.R.OK(rule, con, c.P.Pos(fn.Pos()), "the result of the destination's Stat is not tested for nil in a shape this rule interprets: not decided")
		return
	}
	// the value MkdirAll is given: a phi of "the parent" and "the path itself";
	// the edge that carries the path itself must be dead when an entry exists
	isParent := func(v ssa.Value) bool {
		call, ok := eng.Canon(v).(*ssa.Call)
		return ok && c.P.CalleeName(call) == "path/filepath.Dir"
	}
	var und bool
	var hit *eng.Hit
	decided := false
	for _, mk := range c.P.CallsTo(fn, "copy.MkdirAll") {
		arg := mk.Common().Args[0]
		ph, isPhi := arg.(*ssa.Phi)
		if !isPhi {
			if isParent(arg) {
				decided = true
			}
			continue
		}
		for i, e := range ph.Edges {
			if isParent(e) {
				continue
			}
			decided = true
			pred := ph.Block().Preds[i]
			last := pred.Instrs[len(pred.Instrs)-1]
			// (the edge may come straight from a conditional: then its branch is the edge)
			h, u := c.ReachableUnder(fn, pins, nil, func(in ssa.Instruction) bool { return in == last })
			if iff, isIf := last.(*ssa.If); isIf && h != nil {
				// reaching the If is not taking this edge: decide the edge by its condition
				tv, known := c.explorer(fn).Truth(iff.Cond, h.St)
				want := iff.Block().Succs[0] == ph.Block()
				if known && tv != want {
					h = nil
				}
			}
			und = und || u
			if h != nil {
				hit = h
			}
		}
	}
	switch {
	case !decided:
		c.R.OK(rule, con, c.pos(stat), "the directory MkdirAll is given is not a choice between the parent and the path itself (a shape this rule does not interpret): not decided")
	case und:
		c.R.Undecided(rule, con, c.P.Pos(fn.Pos()), "state limit")
	case hit != nil:
		c.R.Fail(rule, con, c.pos(hit.Instr), "with an entry found at the destination path MkdirAll can still be given that path itself instead of its parent: on an existing non-directory it fails with ENOTDIR before the copier can replace the obstacle (always-replace) or refuse it; path "+eng.BlockTrace(fn, hit.Trace))
	default:
		c.R.OK(rule, con, c.pos(stat), "with an entry at the destination path only its parent is ensured")
	}
}
