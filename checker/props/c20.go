package props

import (
	"fmt"
	"go/token"
	"go/types"
	"sort"
	"strings"

	"fsverif/eng"

	"golang.org/x/tools/go/ssa"
)

func init() {
	register("C20", "Structural clauses behind codec and framing soundness: for Stat and Packet the struct tags, the embedded descriptor (decoded from the rawDesc literal), both marshal variants, UnmarshalVT and the field mentions of SizeVT/CloneVT/EqualVT agree field by field on number and wire type; decoding never stores a sub-slice of its input (no-retain analysis of the input parameter, through nested messages) and UnmarshalVTUnsafe has no caller; every slice of the input and every allocation sized by a decoded length is dominated by fatal bounds tests; the stream adapter reads only with io.ReadFull, uses one byte-order object and a 4-byte prefix on both sides, returns before touching the pool on a zero length, returns the pooled buffer only by defer, writes prefix and body in one Write, and its panicking type assertions are satisfiable by the message type the module sends (finding F7, fixed). The body of a frame is read into a buffer cut to the frame's length. Every length prefix is sized (SizeVT) and written (both marshal variants) from the length of the payload it precedes. Every varint loop of the generated decoders masks the input byte with 0x7F, advances the shift by 7, refuses a shift of 64 or more and ends on a byte below 0x80. A decoded map entry is stored whatever its key and value hold (no success without the store once the map was ensured). Does not decide round-trip equality for all values nor absence of panics on arbitrary bytes (index arithmetic).", runC20)
}

func runC20(c *Ctx) {
	r20_1(c, "R20.1")
	r20_2(c, "R20.2")
	r20_3(c, "R20.3")
	r20_4(c, "R20.4")
	r20_5(c, "R20.5")
	r20_6(c, "R20.6")
	r20_7(c, "R20.7")
	r20_8(c, "R20.8")
}

// R20.8: a decoded map entry is stored, whatever it holds.
//
// The generic runtime keeps a map entry whose value is empty (a flag
// attribute): the hand-written decoders do so too only if the store into the
// message's map is not made to depend on what was decoded. From the point
// where the decoder makes sure the map exists, no successful end of the
// decoding is reachable without passing the store of the entry.
func r20_8(c *Ctx, rule string) {
	c.R.Rule(rule, "UnmarshalVT / UnmarshalVTUnsafe: once the map of a message field was ensured for an entry, no success return is reachable without the store of that entry into the map (entries with an empty key or value are entries)")
	n := 0
	for _, name := range []string{"types.(*Stat).UnmarshalVT", "types.(*Stat).UnmarshalVTUnsafe"} {
		fn := c.P.Fn(name)
		if fn == nil {
			continue
		}
		var ensure []*ssa.If
		eng.InstrsShallow(fn, func(in ssa.Instruction) {
			iff, ok := in.(*ssa.If)
			if !ok {
				return
			}
			bo, ok := iff.Cond.(*ssa.BinOp)
			if !ok || bo.Op != token.EQL {
				return
			}
			if k, isK := bo.Y.(*ssa.Const); isK && k.IsNil() {
				if _, isMap := bo.X.Type().Underlying().(*types.Map); isMap && isFieldLoad(bo.X, "types.Stat.Xattrs") {
					ensure = append(ensure, iff)
				}
			}
		})
		for i, iff := range ensure {
			n++
			isStore := func(in ssa.Instruction) bool {
				mu, ok := in.(*ssa.MapUpdate)
				return ok && isFieldLoad(mu.Map, "types.Stat.Xattrs")
			}
			c.ObSuccessNeeds(rule, fmt.Sprintf("%s/map-entry#%d/stored", c.name(fn), i+1), fn, iff.Cond.(ssa.Instruction), nil, isStore, "the store of the decoded entry into Stat.Xattrs")
		}
	}
	c.R.Floor(rule, "map-entry decodes in the Stat decoders", n, 2)
}

type codecMsg struct {
	typ, vt, pb, desc string
	floor             int
}

var codecMsgs = []codecMsg{
	{"Stat", "types/stat_vtproto.pb.go", "types/stat.pb.go", "Stat", 10},
	{"Packet", "types/wire_vtproto.pb.go", "types/wire.pb.go", "Packet", 4},
}

func r20_1(c *Ctx, rule string) {
	c.R.Rule(rule, "codec tables agree: struct tag = descriptor = tag byte in both marshal variants = case/wire test/assigned field in UnmarshalVT, and every field is mentioned in SizeVT, CloneVT, EqualVT")
	for _, m := range codecMsgs {
		tags, err := c.P.TagTable("types", m.typ)
		if err != nil {
			c.R.Undecided(rule, m.typ+"/struct-tags", "-", err.Error())
			continue
		}
		c.R.Floor(rule, "tagged fields of types."+m.typ, len(tags), m.floor)
		tables := map[string]map[string]eng.FieldWire{}
		for _, meth := range []string{"MarshalToSizedBufferVT", "MarshalToSizedBufferVTStrict"} {
			t, err := c.P.MarshalTable(m.vt, m.typ, meth)
			if err != nil {
				c.R.Undecided(rule, m.typ+"/"+meth, "-", err.Error())
				continue
			}
			tables[meth] = t
		}
		for _, meth := range []string{"UnmarshalVT", "UnmarshalVTUnsafe"} {
			t, err := c.P.UnmarshalTable(m.vt, m.typ, meth)
			if err != nil {
				c.R.Undecided(rule, m.typ+"/"+meth, "-", err.Error())
				continue
			}
			tables[meth] = t
		}
		desc, err := c.P.DescriptorTable(m.pb)
		if err != nil {
			c.R.Undecided(rule, m.typ+"/descriptor", "-", err.Error())
		} else {
			dt := map[string]eng.FieldWire{}
			for _, df := range desc[m.desc] {
				// map the proto name to the Go field through the struct tag
				for _, t := range tags {
					if t.Proto == df.Name {
						dt[t.Name] = eng.FieldWire{Name: t.Name, Number: df.Number, Wire: df.Wire}
					}
				}
			}
			c.R.Check(len(desc[m.desc]) == len(tags), rule, m.typ+"/descriptor/field-count", "-", fmt.Sprintf("descriptor lists %d fields", len(desc[m.desc])), fmt.Sprintf("the embedded descriptor lists %d fields of %s, the struct has %d tagged fields", len(desc[m.desc]), m.typ, len(tags)))
			tables["descriptor"] = dt
			// map entry
			if m.typ == "Stat" {
				ent := desc["Stat.XattrsEntry"]
				ok := len(ent) == 2 && ent[0].Number == 1 && ent[0].Wire == 2 && ent[1].Number == 2 && ent[1].Wire == 2
				c.R.Check(ok, rule, "Stat.XattrsEntry/descriptor", "-", "map entry = (key: bytes 1, value: bytes 2)", "the descriptor's map entry for Xattrs is not (key=1 length-delimited, value=2 length-delimited)")
			}
		}
		var names []string
		for n := range tags {
			names = append(names, n)
		}
		sort.Strings(names)
		var tnames []string
		for t := range tables {
			tnames = append(tnames, t)
		}
		sort.Strings(tnames)
		for _, n := range names {
			want := tags[n]
			for _, tn := range tnames {
				got, ok := tables[tn][n]
				con := fmt.Sprintf("%s.%s/%s", m.typ, n, tn)
				if !ok {
					c.R.Fail(rule, con, "-", fmt.Sprintf("field %s (number %d) is missing from %s: it is silently dropped or never decoded", n, want.Number, tn))
					continue
				}
				pos := "-"
				if got.Pos.IsValid() {
					pos = c.P.Pos(got.Pos)
				}
				c.R.Check(got.Number == want.Number && got.Wire == want.Wire, rule, con, pos,
					fmt.Sprintf("number %d wire type %d", got.Number, got.Wire),
					fmt.Sprintf("%s encodes/decodes %s as field %d wire type %d, the struct tag says field %d wire type %d: peers using the other table mis-decode it", tn, n, got.Number, got.Wire, want.Number, want.Wire))
			}
		}
		// no extra fields in any table
		for _, tn := range tnames {
			for n := range tables[tn] {
				if _, ok := tags[n]; !ok {
					c.R.Fail(rule, fmt.Sprintf("%s.%s/%s/unknown", m.typ, n, tn), "-", tn+" handles a field "+n+" the struct does not declare")
				}
			}
		}
		for _, meth := range []struct {
			name string
			on   []string
		}{{"SizeVT", nil}, {"CloneVT", []string{"r"}}, {"EqualVT", []string{"that"}}} {
			men, err := c.P.Mentions(m.vt, m.typ, meth.name, meth.on...)
			if err != nil {
				c.R.Undecided(rule, m.typ+"/"+meth.name, "-", err.Error())
				continue
			}
			for _, n := range names {
				c.R.Check(men[n], rule, fmt.Sprintf("%s.%s/%s", m.typ, n, meth.name), "-", "mentioned", fmt.Sprintf("%s.%s does not mention field %s: sizes, clones or comparisons ignore it", m.typ, meth.name, n))
			}
		}
		// inner tags of the Xattrs map entry in the marshal code
		if m.typ == "Stat" {
			for _, meth := range []string{"MarshalToSizedBufferVT", "MarshalToSizedBufferVTStrict"} {
				inner := marshalInnerTags(c, m.vt, m.typ, meth, "Xattrs")
				ok := len(inner) == 3 && inner[0] == 0x12 && inner[1] == 0x0a && inner[2] == 0x52
				c.R.Check(ok, rule, "Stat.Xattrs/"+meth+"/entry-tags", "-", "value tag 0x12, key tag 0x0a, then the field tag", fmt.Sprintf("the Xattrs map entry is written with tag bytes %#x, expected [0x12 0x0a 0x52]", inner))
			}
		}
	}
	// the hand-written wrappers call the VT codec
	for _, w := range []struct{ fn, callee string }{
		{"types.(*Stat).Unmarshal", "types.(*Stat).UnmarshalVT"}, {"types.(*Packet).Unmarshal", "types.(*Packet).UnmarshalVT"},
		{"types.(*Packet).Size", "types.(*Packet).SizeVT"}, {"types.(*Packet).MarshalTo", "types.(*Packet).MarshalToVT"},
		{"types.(*Stat).Clone", "types.(*Stat).CloneVT"},
	} {
		fn := c.Fn(rule, w.fn)
		if fn == nil {
			continue
		}
		c.R.Check(len(c.P.CallsTo(fn, w.callee)) == 1, rule, w.fn+"/delegates", c.P.Pos(fn.Pos()), "delegates to "+w.callee, w.fn+" does not delegate to "+w.callee)
	}
}

// marshalInnerTags lists all tag bytes written inside the if-statement of one field.
func marshalInnerTags(c *Ctx, rel, typ, method, field string) []int {
	t, err := c.P.MarshalTable(rel, typ, method)
	if err != nil {
		return nil
	}
	_ = t
	return c.P.TagBytesOf(rel, typ, method, field)
}

func r20_2(c *Ctx, rule string) {
	c.R.Rule(rule, "UnmarshalVT never stores a sub-slice of its input in the message (no-retain analysis of the input parameter); UnmarshalVTUnsafe has no caller in non-test code; Unmarshal calls UnmarshalVT")
	ret := eng.NewRetain(c.P)
	for _, n := range []string{"types.(*Stat).UnmarshalVT", "types.(*Packet).UnmarshalVT"} {
		fn := c.Fn(rule, n)
		if fn == nil {
			continue
		}
		var in *ssa.Parameter
		for _, p := range fn.Params {
			if types.TypeString(p.Type(), nil) == "[]byte" {
				in = p
			}
		}
		if in == nil {
			c.R.Missing(rule, "[]byte parameter of "+n)
			continue
		}
		leaks := ret.Value(in)
		if len(leaks) == 0 {
			c.R.OK(rule, n+"/input-not-retained", c.P.Pos(fn.Pos()), "the input buffer only flows into copies (string(), append source, nested decoders that do the same)")
		}
		for i, l := range leaks {
			c.R.Fail(rule, fmt.Sprintf("%s/input-not-retained#%d", n, i+1), c.pos(l.At), "the decoded message aliases the input buffer: "+l.Why+" - the receive buffer is pooled and reused")
		}
	}
	var sinks []string
	for s := range ret.Sinks {
		sinks = append(sinks, s)
	}
	c.R.Assumption("trusted sinks of the decoder input: " + strings.Join(sortedStrings(sinks), "; "))
	// who calls the unsafe decoders
	g := c.P.CallGraph()
	for _, n := range []string{"types.(*Stat).UnmarshalVTUnsafe", "types.(*Packet).UnmarshalVTUnsafe"} {
		fn := c.Fn(rule, n)
		if fn == nil {
			continue
		}
		bad := 0
		for _, cs := range g.Callers(fn) {
			if c.P.IsTestFile(cs.Pos()) {
				continue
			}
			caller := c.name(cs.Parent())
			if strings.HasSuffix(caller, "UnmarshalVTUnsafe") {
				continue // Packet's unsafe decoder calls Stat's
			}
			bad++
			c.R.Fail(rule, n+"/caller "+caller, c.pos(cs), "the aliasing decoder "+n+" is called from "+caller+": decoded strings and byte slices point into the pooled receive buffer")
		}
		if bad == 0 {
			c.R.OK(rule, n+"/no-caller", c.P.Pos(fn.Pos()), "no caller outside the unsafe decoders themselves")
		}
	}
	// positive control: the same query finds the callers of the safe decoder
	safe := c.P.Fn("types.(*Packet).UnmarshalVT")
	fired := false
	if safe != nil {
		for _, cs := range g.Callers(safe) {
			if c.name(cs.Parent()) == "types.(*Packet).Unmarshal" {
				fired = true
			}
		}
	}
	c.R.Canary(rule, fired, "who-calls query finds Packet.Unmarshal -> UnmarshalVT")
}

func r20_3(c *Ctx, rule string) {
	c.R.Rule(rule, "in UnmarshalVT every slice of the input with a decoded upper bound, and every make sized by a decoded length, is dominated by the fatal tests `length < 0` and `end > len(input)`")
	for _, n := range []string{"types.(*Stat).UnmarshalVT", "types.(*Packet).UnmarshalVT"} {
		fn := c.Fn(rule, n)
		if fn == nil {
			continue
		}
		var in *ssa.Parameter
		for _, p := range fn.Params {
			if types.TypeString(p.Type(), nil) == "[]byte" {
				in = p
			}
		}
		// fatal tests: If whose true edge leads to a block that returns a non-nil error
		fatalTrue := func(iff *ssa.If) bool {
			b := iff.Block().Succs[0]
			if len(b.Instrs) == 0 {
				return false
			}
			r, ok := b.Instrs[len(b.Instrs)-1].(*ssa.Return)
			if !ok {
				return false
			}
			k, isC := r.Results[len(r.Results)-1].(*ssa.Const)
			return !(isC && k.IsNil())
		}
		isLenIn := func(v ssa.Value) bool {
			call, ok := v.(*ssa.Call)
			return ok && c.P.CalleeName(call) == "builtin:len" && call.Call.Args[0] == ssa.Value(in)
		}
		// upper-bound tests: X > len(in) fatal
		type test struct {
			iff *ssa.If
			x   ssa.Value
		}
		var upper, neg []test
		eng.Instrs(fn, func(i ssa.Instruction) {
			iff, ok := i.(*ssa.If)
			if !ok || !fatalTrue(iff) {
				return
			}
			bo, ok := iff.Cond.(*ssa.BinOp)
			if !ok {
				return
			}
			if bo.Op == token.GTR && isLenIn(bo.Y) {
				upper = append(upper, test{iff, bo.X})
			}
			if bo.Op == token.LSS {
				if k, isK := eng.ConstInt(bo.Y); isK && k == 0 {
					neg = append(neg, test{iff, bo.X})
				}
			}
		})
		nS, nM := 0, 0
		kx := c.explorer(fn)
		same := func(a, b ssa.Value) bool {
			if a == b || eng.Strip(a) == eng.Strip(b) {
				return true
			}
			return kx.StructKeyAtEntry(a) == kx.StructKeyAtEntry(b)
		}
		related := func(a, b ssa.Value) bool {
			if same(a, b) {
				return true
			}
			sb := eng.Strip(b)
			return c.DerivesFrom(a, func(v ssa.Value) bool { return v == b || v == sb }, 4)
		}
		eng.Instrs(fn, func(i ssa.Instruction) {
			switch x := i.(type) {
			case *ssa.Slice:
				if x.X != ssa.Value(in) || x.High == nil {
					return
				}
				nS++
				ok := false
				for _, t := range upper {
					if same(t.x, x.High) && eng.Dominates(t.iff, x) {
						ok = true
					}
				}
				okNeg := false
				for _, t := range neg {
					if eng.Dominates(t.iff, x) && related(x.High, t.x) {
						okNeg = true
					}
				}
				con := fmt.Sprintf("%s/slice#%d", n, nS)
				c.R.Check(ok && okNeg, rule, con, c.pos(x), "bounded by fatal `end > len(input)` and `< 0` tests", "the input is sliced up to a decoded index without a dominating fatal bounds test: arbitrary bytes can make decoding panic")
			case *ssa.MakeSlice:
				nM++
				ok := false
				for _, t := range neg {
					if eng.Dominates(t.iff, x) && related(x.Len, t.x) {
						// and an upper bound on something derived from the same length
						for _, u := range upper {
							if eng.Dominates(u.iff, x) && related(u.x, t.x) {
								ok = true
							}
						}
					}
				}
				c.R.Check(ok, rule, fmt.Sprintf("%s/make#%d", n, nM), c.pos(x), "allocation length bounded by the input length", "an allocation is sized by a decoded length that is not bounded by the remaining input: a few bytes can request gigabytes")
			}
		})
		floorS := 3
		if strings.Contains(n, "Stat") {
			floorS = 5
		}
		c.R.Floor(rule, "bounded input slices in "+n, nS, floorS)
	}
}

func r20_4(c *Ctx, rule string) {
	c.R.Rule(rule, "protoStream framing: RecvMsg reads only through io.ReadFull; both sides use the same byte-order object and a 4-byte prefix; zero length returns before the pool is touched; the pooled buffer is returned only by defer; SendMsg writes prefix and body with one Write")
	rm := c.Fn(rule, "util.(*protoStream).RecvMsg")
	sm := c.Fn(rule, "util.(*protoStream).SendMsg")
	if rm == nil || sm == nil {
		return
	}
	rf := c.P.CallsTo(rm, "io.ReadFull")
	c.R.Floor(rule, "io.ReadFull calls in RecvMsg", len(rf), 2)
	for _, call := range rf {
		c.ObErrChecked(rule+"/checked", call)
		c.R.Check(isFieldLoad(call.Common().Args[0], "util.protoStream.Reader"), rule, c.siteName(call)+"/reader", c.pos(call), "reads from the stream's reader", "ReadFull does not read from the stream's reader")
	}
	direct := c.P.CallsTo(rm, "(io.Reader).Read")
	c.R.Check(len(direct) == 0, rule, c.name(rm)+"/no-direct-read", c.P.Pos(rm.Pos()), "no direct Read (short reads would be taken for whole frames)", "RecvMsg calls Read directly: a fragmented stream yields truncated frames")
	// byte order objects
	order := func(fn *ssa.Function, method string) (string, ssa.CallInstruction) {
		for _, call := range eng.Calls(fn) {
			n := c.P.CalleeName(call)
			if strings.HasPrefix(n, "(encoding/binary.") && strings.HasSuffix(n, ")."+method) {
				return n[:strings.Index(n, ")")+1], call
			}
		}
		return "", nil
	}
	ro, rcall := order(rm, "Uint32")
	so, scall := order(sm, "PutUint32")
	c.R.Check(ro != "" && ro == so, rule, "util.protoStream/byte-order", c.P.Pos(rm.Pos()), "both sides use "+ro, fmt.Sprintf("the length prefix is written with %s but read with %s", so, ro))
	// 4-byte prefix
	prefixLen := func(v ssa.Value) int64 {
		if sl, ok := v.(*ssa.Slice); ok {
			if al, isA := sl.X.(*ssa.Alloc); isA {
				if arr, isArr := al.Type().(*types.Pointer).Elem().Underlying().(*types.Array); isArr && eng.SliceLow(sl) == nil {
					if sl.High == nil {
						return arr.Len()
					}
				}
			}
			if eng.SliceLow(sl) == nil && sl.High != nil {
				if k, ok := eng.ConstInt(sl.High); ok {
					return k
				}
			}
		}
		return -1
	}
	if rcall != nil && scall != nil {
		rl := prefixLen(rcall.Common().Args[len(rcall.Common().Args)-1])
		sl := prefixLen(scall.Common().Args[len(scall.Common().Args)-2])
		c.R.Check(rl == 4 && sl == 4, rule, "util.protoStream/prefix-width", c.pos(rcall), "4-byte prefix on both sides", fmt.Sprintf("prefix width differs or is not 4 bytes (read %d, written %d)", rl, sl))
		// the header ReadFull fills the same array the length is decoded from
		hdrOK := false
		for _, call := range rf {
			if prefixLen(call.Common().Args[1]) == 4 {
				hdrOK = true
			}
		}
		c.R.Check(hdrOK, rule, c.name(rm)+"/header-read", c.pos(rcall), "the 4-byte header is read with ReadFull", "the header is not read as exactly 4 bytes with ReadFull")
	}
	// zero length returns before the pool
	x := c.explorer(rm)
	var zero []string
	eng.Instrs(rm, func(in ssa.Instruction) {
		bo, ok := in.(*ssa.BinOp)
		if !ok || (bo.Op != token.EQL && bo.Op != token.NEQ) {
			return
		}
		if k, isK := eng.ConstInt(bo.Y); isK && k == 0 && rcall != nil && eng.SameValue(bo.X, rcall.Value()) {
			key := x.KeyAtEntry(bo)
			if bo.Op == token.NEQ {
				key = "!" + key
			}
			zero = append(zero, key)
		}
	})
	if len(zero) == 0 {
		c.R.Fail(rule, c.name(rm)+"/zero-length", c.P.Pos(rm.Pos()), "RecvMsg has no zero-length test: an empty packet would read 0 bytes into a pooled buffer and unmarshal stale content, or block")
	} else {
		as := map[string]bool{}
		for _, k := range zero {
			as[k] = true
		}
		c.ObUnreachable(rule, c.name(rm)+"/zero-length", rm, as, c.callPred("(*sync.Pool).Get", "(*sync.Pool).Put", "io.ReadFull#body"), "touching the buffer pool", "the frame length is zero")
		hit, und := c.SuccessAvoiding(rm, rcall, as, nil, nil)
		c.R.Check(!und && hit != nil, rule, c.name(rm)+"/zero-length-ok", c.P.Pos(rm.Pos()), "an empty frame yields an (empty) message without error", "an empty frame does not return success")
	}
	// the body is read into a buffer of exactly the frame's length: a longer
	// one makes ReadFull eat the following frames (or wait for them forever)
	if rcall != nil {
		fromLen := func(v ssa.Value) bool {
			return v != nil && c.DerivesFrom(v, func(y ssa.Value) bool { return y == rcall.Value() }, 4)
		}
		var sizedD func(v ssa.Value, d int) bool
		sizedD = func(v ssa.Value, d int) bool {
			if d > 6 {
				return false
			}
			switch y := v.(type) {
			case *ssa.MakeSlice:
				return fromLen(y.Len)
			case *ssa.Slice:
				return eng.SliceLow(y) == nil && fromLen(y.High)
			case *ssa.Phi:
				for _, e := range y.Edges {
					if !sizedD(e, d+1) {
						return false
					}
				}
				return len(y.Edges) > 0
			case *ssa.Call:
				// a helper no rule names that hands the buffer out
				rs := eng.ResolveAll(y)
				if len(rs) == 0 || (len(rs) == 1 && rs[0] == v) {
					return false
				}
				for _, r := range rs {
					if !sizedD(r, d+1) {
						return false
					}
				}
				return true
			}
			return false
		}
		sized := func(v ssa.Value) bool { return sizedD(v, 0) }
		for _, call := range rf {
			buf := call.Common().Args[1]
			if prefixLen(buf) == 4 {
				continue // the header read
			}
			con := c.siteName(call) + "/body-buffer-sized"
			if _, isP := buf.(*ssa.Parameter); isP {
				// read by a helper: the buffer its caller hands in
				if rs := eng.ResolveAll(buf); len(rs) == 1 {
					buf = rs[0]
				}
			}
			if sized(eng.Strip(buf)) {
				c.R.OK(rule, con, c.pos(call), "the body buffer is cut to the frame length")
				continue
			}
			ld, isLoad := buf.(*ssa.UnOp)
			al, isAl := ssa.Value(nil), false
			if isLoad && ld.Op == token.MUL {
				al, isAl = ld.X, true
			}
			if _, ok := al.(*ssa.Alloc); !isAl || !ok {
				c.R.Undecided(rule, con, c.pos(call), "the body buffer is neither cut to the frame length in place nor a variable this rule can follow")
				continue
			}
			const ok = "u:body-buffer-sized"
			ex := c.explorer(rm)
			bad := 0
			ex.Barrier = func(in ssa.Instruction, st *eng.State) bool {
				if s2, isS := in.(*ssa.Store); isS && s2.Addr == al {
					st.Facts[ok] = sized(s2.Val)
				}
				return false
			}
			ex.Target = func(in ssa.Instruction, st *eng.State) bool {
				if in != ssa.Instruction(call) {
					return false
				}
				if !st.Facts[ok] {
					bad++
				}
				return true
			}
			ex.StopAtTarget = true
			ex.Run()
			c.R.Check(bad == 0 && !ex.Exhausted, rule, con, c.pos(call), "on every path the buffer handed to the body read was last set to a slice of the frame's length", "the body of a frame can be read into a buffer that was not cut to the frame's length (the whole pooled buffer): ReadFull consumes the following frames or blocks")
		}
	}
	// pool put only by defer, after Unmarshal by construction
	nput := 0
	for _, call := range c.P.CallsTo(rm, "(*sync.Pool).Put") {
		nput++
		_, isDefer := call.(*ssa.Defer)
		c.R.Check(isDefer, rule, c.siteName(call)+"/deferred", c.pos(call), "returned to the pool at function exit", "the receive buffer is returned to the pool inline: another goroutine may overwrite it while it is still being unmarshalled")
		// "at function exit" must be the exit of the function the message is
		// decoded in: a helper that takes the buffer, defers the Put and
		// returns the buffer hands out memory that is already back in the pool
		if isDefer {
			decodes := false
			eng.Instrs(call.Parent(), func(in ssa.Instruction) {
				if ci, ok := in.(ssa.CallInstruction); ok && ci.Common().IsInvoke() && strings.HasSuffix(c.P.CalleeName(ci), ").Unmarshal") {
					decodes = true
				}
			})
			c.R.Check(decodes, rule, c.siteName(call)+"/outlives-decoding", c.pos(call), "the function whose exit returns the buffer is the one that decodes it", "the buffer goes back to the pool when "+c.name(call.Parent())+" returns, but the message is decoded after that: a receive on another stream can overwrite the bytes being decoded")
		}
	}
	c.R.Floor(rule, "pool returns in RecvMsg", nput, 1)
	for _, call := range c.P.CallsTo(rm, "invoke:Unmarshal") {
		_ = call
	}
	// unmarshal is checked and gets the body buffer
	um := 0
	for _, call := range eng.Calls(rm) {
		if strings.HasSuffix(c.P.CalleeName(call), ").Unmarshal") && call.Common().IsInvoke() {
			um++
			c.ObErrChecked(rule+"/checked", call)
		}
	}
	c.R.Floor(rule, "Unmarshal invocations in RecvMsg", um, 1)
	// oversized frames get their own buffer
	mk := 0
	eng.Instrs(rm, func(in ssa.Instruction) {
		if ms, ok := in.(*ssa.MakeSlice); ok {
			mk++
			c.R.Check(rcall != nil && c.DerivesFrom(ms.Len, func(v ssa.Value) bool { return v == rcall.Value() }, 3), rule, c.name(rm)+"/big-frame-buffer", c.pos(ms), "a frame larger than the pooled buffer gets a buffer of its own length", "the buffer for a large frame is not sized by the frame length")
		}
	})
	c.R.Floor(rule, "own-buffer allocations in RecvMsg", mk, 1)
	// SendMsg: one Write of prefix+body
	wr := c.P.CallsTo(sm, "(io.Writer).Write")
	c.R.Exact(rule, "Write calls in SendMsg", len(wr), 1)
	for _, call := range wr {
		c.ObErrChecked(rule+"/checked", call)
		buf := eng.Resolve(call.Common().Args[0]) // (the frame may be built by a helper)
		ms, isMS := buf.(*ssa.MakeSlice)
		okLen := false
		if isMS {
			ln := ms.Len
			// (the sum may be computed by a one-line helper: frameSize(n) = n + 4)
			if rs := eng.ResolveAll(ln); len(rs) == 1 {
				ln = rs[0]
			}
			if _, isSum := eng.SumWithConst(eng.Canon(ln), 4); isSum {
				okLen = true
			}
		}
		c.R.Check(okLen, rule, c.siteName(call)+"/whole-frame", c.pos(call), "writes one buffer of size+4 bytes", "SendMsg does not write the frame as one buffer of Size()+4 bytes: a concurrent writer or a short write can interleave frames")
		// marshal into b[4:]
		okBody := false
		var marshals []ssa.CallInstruction
		eng.Instrs(sm, func(in ssa.Instruction) {
			if ci, ok := in.(ssa.CallInstruction); ok && strings.HasSuffix(c.P.CalleeName(ci), ").MarshalTo") {
				marshals = append(marshals, ci)
			}
		})
		for _, mc := range marshals {
			{
				if sl, isS := mc.Common().Args[0].(*ssa.Slice); isS && eng.Resolve(sl.X) == buf {
					if k, isK := eng.ConstInt(sl.Low); isK && k == 4 {
						okBody = true
					}
				}
				c.ObErrChecked(rule+"/checked", mc)
			}
		}
		c.R.Check(okBody, rule, c.name(sm)+"/body-offset", c.pos(call), "the body is marshalled at offset 4 of the same buffer", "the body is not marshalled at offset 4 of the buffer that is written")
		if scall != nil {
			v := scall.Common().Args[len(scall.Common().Args)-1]
			okV := c.DerivesFrom(v, func(y ssa.Value) bool {
				cl, ok := y.(*ssa.Call)
				return ok && strings.HasSuffix(c.P.CalleeName(cl), ").Size")
			}, 3)
			c.R.Check(okV, rule, c.name(sm)+"/prefix-value", c.pos(scall), "the prefix is the message's Size()", "the length prefix is not the message's Size()")
		}
	}
}

func r20_5(c *Ctx, rule string) {
	c.R.Rule(rule, "the panicking type assertions of protoStream.SendMsg/RecvMsg are satisfied by every message type the module hands to Stream.SendMsg/RecvMsg")
	// message types used by the module
	msgTypes := map[string]types.Type{}
	for _, fn := range c.P.ModFuncs {
		if c.P.IsTestFile(fn.Pos()) {
			continue
		}
		for _, call := range c.P.CallsTo(fn, "(fsutil.Stream).SendMsg", "(fsutil.Stream).RecvMsg") {
			a := call.Common().Args
			if mi, ok := a[len(a)-1].(*ssa.MakeInterface); ok {
				t := mi.X.Type()
				msgTypes[types.TypeString(t, nil)] = t
			}
		}
	}
	c.R.Floor(rule, "message types handed to Stream.SendMsg/RecvMsg", len(msgTypes), 1)
	n := 0
	for _, e := range []struct{ fn, construct string }{{"util.(*protoStream).SendMsg", "assert-marshalerSizer"}, {"util.(*protoStream).RecvMsg", "assert-unmarshaler"}} {
		fn := c.Fn(rule, e.fn)
		if fn == nil {
			continue
		}
		eng.Instrs(fn, func(in ssa.Instruction) {
			ta, ok := in.(*ssa.TypeAssert)
			if !ok || ta.CommaOk {
				return
			}
			iface, ok := ta.AssertedType.Underlying().(*types.Interface)
			if !ok {
				return
			}
			n++
			var missing []string
			for name, t := range msgTypes {
				if !types.Implements(t, iface) {
					miss, _ := types.MissingMethod(t, iface, true)
					m := "?"
					if miss != nil {
						m = miss.Name()
					}
					missing = append(missing, shortType(name)+" lacks "+m)
				}
			}
			sort.Strings(missing)
			c.R.Check(len(missing) == 0, rule, e.fn+"/"+e.construct, c.pos(ta), "every message type of the module satisfies the asserted interface", "the type assertion panics for a message type the module sends: "+strings.Join(missing, "; "))
		})
	}
	c.R.Floor(rule, "panicking type assertions in protoStream", n, 2)
}

func shortType(s string) string {
	return strings.ReplaceAll(s, eng.ModulePath+"/", "")
}

// R20.6: a length prefix is sized and written from the length of the very
// payload it precedes. In SizeVT every SizeOfVarint(uint64(L)) with an int L
// (a length - scalar fields have sized integer types) stands in a sum that
// also adds L itself; in both marshal variants every EncodeVarint(.., uint64(L))
// with an int L follows, in its block, `i -= L` for the same L as the nearest
// move of the write position. A prefix sized from another length makes the
// predicted size differ from the bytes written as soon as the two lengths need
// varint widths that differ: the encoder, which fills the buffer from the back,
// runs off its front or leaves a stray byte.
func r20_6(c *Ctx, rule string) {
	c.R.Rule(rule, "SizeVT: every SizeOfVarint of an int length L stands in a sum that adds L too; MarshalToSizedBufferVT(Strict): every EncodeVarint of an int length L follows `i -= L` (same L) as the nearest move of the write position in its block")
	const helpers = "github.com/planetscale/vtprotobuf/protohelpers."
	lenKey := func(v ssa.Value) string {
		v = eng.Canon(v)
		if call, ok := v.(*ssa.Call); ok && c.P.CalleeName(call) == "builtin:len" {
			a := eng.Canon(call.Call.Args[0])
			if o, _, _, ok := eng.LoadedFieldRaw(a); ok {
				return "len(field " + o + ")"
			}
			return fmt.Sprintf("len(%p)", a)
		}
		return fmt.Sprintf("%p", v)
	}
	intLen := func(arg ssa.Value) (ssa.Value, bool) {
		cv, ok := arg.(*ssa.Convert)
		if !ok {
			return nil, false
		}
		b, ok := cv.X.Type().Underlying().(*types.Basic)
		if !ok || b.Kind() != types.Int {
			return nil, false
		}
		return cv.X, true
	}
	nSize, nEnc := 0, 0
	for _, m := range codecMsgs {
		if fn := c.Fn(rule, "types.(*"+m.typ+").SizeVT"); fn != nil {
			// sums: maximal trees of integer additions
			isAdd := func(v ssa.Value) (*ssa.BinOp, bool) {
				b, ok := v.(*ssa.BinOp)
				return b, ok && b.Op == token.ADD
			}
			operandOfAdd := map[ssa.Value]bool{}
			eng.InstrsShallow(fn, func(in ssa.Instruction) {
				if b, ok := isAdd(valueOf(in)); ok {
					operandOfAdd[b.X], operandOfAdd[b.Y] = true, true
				}
			})
			eng.InstrsShallow(fn, func(in ssa.Instruction) {
				root, ok := isAdd(valueOf(in))
				if !ok || operandOfAdd[root] {
					return
				}
				keys := map[string]int{}
				var calls []*ssa.Call
				var walk func(v ssa.Value)
				walk = func(v ssa.Value) {
					keys[lenKey(v)]++
					if b, ok := isAdd(v); ok {
						walk(b.X)
						walk(b.Y)
						return
					}
					if call, ok := v.(*ssa.Call); ok && c.P.CalleeName(call) == helpers+"SizeOfVarint" {
						calls = append(calls, call)
					}
				}
				walk(root)
				sized := map[string]int{}
				for _, call := range calls {
					l, ok := intLen(call.Call.Args[0])
					if !ok {
						continue
					}
					nSize++
					// (each prefix needs an addend of its own: two prefixes
					// sized from one length against one addend is the slip)
					sized[lenKey(l)]++
					c.R.Check(keys[lenKey(l)] >= sized[lenKey(l)], rule, c.siteName(call)+"/payload-added", c.pos(call), "the sum adds the length whose prefix it sizes", "the length prefix is sized from a length the sum does not add: the predicted size is off by one when the two lengths need different varint widths, and the encoder runs off the front of its buffer or leaves a stray byte")
				}
			})
		}
		for _, meth := range []string{"MarshalToSizedBufferVT", "MarshalToSizedBufferVTStrict"} {
			fn := c.Fn(rule, "types.(*"+m.typ+")."+meth)
			if fn == nil {
				continue
			}
			for _, call := range c.P.CallsTo(fn, helpers+"EncodeVarint") {
				if call.Parent() != fn || len(call.Common().Args) != 3 {
					continue
				}
				l, ok := intLen(call.Common().Args[2])
				if !ok {
					continue
				}
				if b, isB := eng.Canon(l).(*ssa.BinOp); isB && b.Op == token.SUB {
					continue // baseI - i: the bytes written since the mark
				}
				var move *ssa.BinOp
				for _, in := range call.Block().Instrs {
					if in == ssa.Instruction(call) {
						break
					}
					if b, isB := in.(*ssa.BinOp); isB && b.Op == token.SUB && b.Type() == l.Type() {
						if _, isK := eng.ConstInt(b.Y); !isK {
							move = b
						}
					}
				}
				if move == nil {
					c.R.OK(rule, c.siteName(call)+"/payload-written", c.pos(call), "no move of the write position in this block (not decided here)")
					continue
				}
				nEnc++
				c.R.Check(lenKey(move.Y) == lenKey(l), rule, c.siteName(call)+"/payload-written", c.pos(call), "the prefix carries the length the write position was just moved by", "the length prefix written is not the length of the payload just written before it: the frame cannot be decoded")
			}
		}
	}
	c.R.Floor(rule, "length prefixes sized in SizeVT", nSize, 7)
	c.R.Floor(rule, "length prefixes written by the marshal variants", nEnc, 12)
}

func valueOf(in ssa.Instruction) ssa.Value {
	v, _ := in.(ssa.Value)
	return v
}

// R20.7: the constants of base-128 varint decoding.
//
// Every varint loop of the generated decoders has the same four constants:
// seven payload bits per byte (mask 0x7F, step 7), the continuation bit 0x80,
// and room for ten bytes (shift < 64). They are found by shape - a byte of the
// input, masked, converted and shifted left by a loop variable - and held to
// those values: a mask of 0xFF lets the continuation bit into every multi-byte
// number, a guard of 63 refuses the tenth byte of a negative int64.
func r20_7(c *Ctx, rule string) {
	c.R.Rule(rule, "UnmarshalVT / UnmarshalVTUnsafe of Stat and Packet: every varint loop masks the input byte with 0x7F, advances the shift by 7, refuses a shift >= 64 and ends on a byte < 0x80")
	total := 0
	for _, m := range codecMsgs {
		for _, meth := range []string{"UnmarshalVT", "UnmarshalVTUnsafe"} {
			fn := c.P.Fn("types.(*" + m.typ + ")." + meth)
			if fn == nil {
				continue
			}
			c.R.Analysed(c.name(fn))
			shifts := map[ssa.Value]bool{}
			bytesIn := map[ssa.Value]bool{}
			bad := []string{}
			n := 0
			eng.InstrsShallow(fn, func(in ssa.Instruction) {
				sh, ok := in.(*ssa.BinOp)
				if !ok || sh.Op != token.SHL {
					return
				}
				v := sh.X
				if cv, isCv := v.(*ssa.Convert); isCv {
					v = cv.X
				}
				and, isAnd := v.(*ssa.BinOp)
				if !isAnd || and.Op != token.AND {
					return
				}
				k, isK := eng.ConstInt(and.Y)
				if !isK {
					return
				}
				bt, isB := and.X.Type().Underlying().(*types.Basic)
				if !isB || bt.Kind() != types.Uint8 {
					return
				}
				n++
				shifts[sh.Y] = true
				bytesIn[and.X] = true
				if k != 0x7F {
					bad = append(bad, fmt.Sprintf("%s: payload mask %#x (want 0x7f)", c.pos(and), k))
				}
			})
			// shift amounts may be converted (uint -> uint64 shift count)
			isShift := func(v ssa.Value) bool {
				if shifts[v] {
					return true
				}
				for s := range shifts {
					if cv, ok := s.(*ssa.Convert); ok && cv.X == v {
						return true
					}
				}
				return false
			}
			eng.InstrsShallow(fn, func(in ssa.Instruction) {
				b, ok := in.(*ssa.BinOp)
				if !ok {
					return
				}
				k, isK := eng.ConstInt(b.Y)
				if !isK {
					return
				}
				switch {
				case isShift(b.X) && b.Op == token.ADD:
					if k != 7 {
						bad = append(bad, fmt.Sprintf("%s: shift step %d (want 7)", c.pos(b), k))
					}
				case isShift(b.X) && (b.Op == token.GEQ || b.Op == token.GTR || b.Op == token.LSS || b.Op == token.LEQ):
					okGuard := (b.Op == token.GEQ && k == 64) || (b.Op == token.GTR && k == 63) || (b.Op == token.LSS && k == 64) || (b.Op == token.LEQ && k == 63)
					if !okGuard {
						bad = append(bad, fmt.Sprintf("%s: overflow guard `shift %s %d` (want shift >= 64)", c.pos(b), b.Op, k))
					}
				case bytesIn[b.X] && (b.Op == token.LSS || b.Op == token.GEQ || b.Op == token.LEQ || b.Op == token.GTR):
					okCont := (b.Op == token.LSS && k == 0x80) || (b.Op == token.GEQ && k == 0x80) || (b.Op == token.LEQ && k == 0x7F) || (b.Op == token.GTR && k == 0x7F)
					if !okCont {
						bad = append(bad, fmt.Sprintf("%s: continuation test `b %s %#x` (want b < 0x80)", c.pos(b), b.Op, k))
					}
				}
			})
			total += n
			sort.Strings(bad)
			c.R.Check(len(bad) == 0, rule, c.name(fn)+"/varint-constants", c.P.Pos(fn.Pos()), fmt.Sprintf("%d varint loops with mask 0x7f, step 7, guard 64, continuation 0x80", n), "a varint loop of the decoder has another constant: "+strings.Join(bad, "; ")+" - multi-byte numbers (ids from 128, lengths from 128, negative timestamps) decode wrongly or are refused")
		}
	}
	c.R.Floor(rule, "varint loops in the generated decoders", total, 30)
}
