package props

import (
	"fmt"
	"strings"

	"fsverif/eng"

	"golang.org/x/tools/go/ssa"
)

func init() {
	register("C16", "Structural clauses of copy's include/exclude handling, decided on all paths of copier.copy, copyDirectory and createParentDirs: after an include miss or an exclude hit no creating, destructive or metadata call is reachable for the entry (copyDirectory with include=false creates nothing and reports created=false); deferred ancestors are created (checked) before any content; an ancestor created on demand receives the source directory's file info and xattrs and is marked copied; include and exclude match infos are never crossed, including the positional arguments of the recursion; matchers are built with patternmatcher.New from the caller's lists and queried with MatchesUsingParentResults like the walk. A source directory is always descended, whatever the verdicts (no pruning by pattern text). Metadata and xattrs of an ancestor created on demand are taken from the ancestor's source path in the callee's source position. xattrs of a selected directory that already exists are re-applied with flags 0 (create or replace): the copy descends. Does not decide equality of the copied set with the reference filter.", runC16)
}

func runC16(c *Ctx) {
	r16_1(c, "R16.1")
	r16_2(c, "R16.2")
	r16_3(c, "R16.3")
	r16_4(c, "R16.4")
	r16_5(c, "R16.5")
	r16_6(c, "R16.6")
	if c.Unix() {
		// a selected directory that already exists is merged: its xattrs are
		// re-applied, which must not abort the copy before it descends
		xattrSetFlags(c, "R16.7")
	}
}

// R16.6: whether a directory is selected or not, it is descended.
//
// The reference filter evaluates every entry on its own; a pattern below an
// excluded or not-included directory ('!vendor/*/LICENSE', 'a/*/c') may
// select entries inside it. The copier has no pruning shortcut: for a source
// directory that was read without error, every success return of copier.copy
// comes after the call of copyDirectory.
func r16_6(c *Ctx, rule string) {
	c.R.Rule(rule, "copier.copy: with the source entry a directory, every success return is preceded by the call of copyDirectory, whatever the include/exclude verdicts (no pruning of directories by pattern text)")
	f := getCopyFn(c, rule)
	if f == nil {
		return
	}
	x := c.explorer(f.copy)
	as := map[string]bool{}
	for _, k := range c.dirTestKeys(f.copy, x, func(v ssa.Value) bool {
		// the source entry's own FileInfo: the Lstat of src, not of the target
		return c.DerivesFrom(v, func(y ssa.Value) bool {
			call, ok := y.(*ssa.Call)
			if !ok || c.P.CalleeName(call) != "os.Lstat" {
				return false
			}
			q, isP := eng.Strip(call.Call.Args[0]).(*ssa.Parameter)
			return isP && c.P.ParamName(q) == "src"
		}, 4)
	}) {
		as[k] = true
	}
	if len(as) == 0 {
		c.R.Undecided(rule, c.name(f.copy)+"/directories-descended", c.P.Pos(f.copy.Pos()), "no directory test of the source entry found in copier.copy")
		return
	}
	isCD := func(in ssa.Instruction) bool { return in == ssa.Instruction(f.cdCall) }
	c.ObSuccessNeeds(rule, c.name(f.copy)+"/directories-descended", f.copy, nil, as, isCD, "the call of copyDirectory (the source is a directory)")
}

type copyFn struct {
	copy, copyDir *ssa.Function
	inc, exc      *ssa.Call // c.include / c.exclude in copy
	cdCall        *ssa.Call // copyDirectory call in copy
}

func getCopyFn(c *Ctx, rule string) *copyFn {
	cp := c.Fn(rule, "copy.(*copier).copy")
	cd := c.Fn(rule, "copy.(*copier).copyDirectory")
	if cp == nil || cd == nil {
		return nil
	}
	f := &copyFn{copy: cp, copyDir: cd}
	for _, call := range c.P.CallsTo(cp, "copy.(*copier).include") {
		f.inc, _ = call.(*ssa.Call)
	}
	for _, call := range c.P.CallsTo(cp, "copy.(*copier).exclude") {
		f.exc, _ = call.(*ssa.Call)
	}
	for _, call := range c.P.CallsTo(cp, "copy.(*copier).copyDirectory") {
		f.cdCall, _ = call.(*ssa.Call)
	}
	if f.inc == nil || f.exc == nil || f.cdCall == nil {
		c.R.Missing(rule, "calls of copier.include / copier.exclude / copier.copyDirectory in copier.copy")
		return nil
	}
	return f
}

// copyWrites: calls of copier.copy that create, destroy or re-label the target.
var copyWrites = []string{"copy.(*copier).removeTargetIfNeeded", "copy.(*copier).createParentDirs", "copy.ensureEmptyFileTarget",
	"os.Link", "copy.copyFile", "os.Symlink", "copy.copyDevice", "copy.(*copier).copyFileInfo", "copy.copyXAttrs", "copy.(*copier).notifyChange",
	"os.Remove", "os.RemoveAll", "os.Mkdir", "copy.copyDirectoryOnly"}

var nonDirCreators = []string{"os.Link", "copy.copyFile", "os.Symlink", "copy.copyDevice"}

func r16_1(c *Ctx, rule string) {
	c.R.Rule(rule, "nothing is written for an entry that is not selected: after an include miss or an exclude hit (and with copyDirectory reporting created=false) no creating/destructive/metadata call of copier.copy is reachable; copyDirectory(include=false) creates nothing, notifies nothing and returns created=false")
	f := getCopyFn(c, rule)
	if f == nil {
		return
	}
	isWrite := c.callPred(copyWrites...)
	for _, e := range []struct {
		con, what string
		call      *ssa.Call
		verdict   bool
	}{{"include-miss", "the include patterns do not match the entry", f.inc, false}, {"exclude-hit", "an exclude pattern matches the entry", f.exc, true}} {
		ex := c.explorer(f.copy)
		ex.From = e.call
		ex.Assume = map[string]bool{c.reg(e.call) + "#0": e.verdict, c.reg(f.cdCall) + "#0": false}
		ex.Target = func(in ssa.Instruction, st *eng.State) bool { return isWrite(in) }
		ex.StopAtTarget = true
		h := ex.Run()
		con := c.name(f.copy) + "/" + e.con + "-writes-nothing"
		switch {
		case ex.Exhausted:
			c.R.Undecided(rule, con, c.pos(e.call), "state limit")
		case len(h) > 0:
			c.R.Fail(rule, con, c.pos(h[0].Instr), fmt.Sprintf("%s is reachable although %s; path %s", c.P.CalleeName(h[0].Instr.(ssa.CallInstruction)), e.what, eng.BlockTrace(f.copy, h[0].Trace)))
		default:
			c.R.OK(rule, con, c.pos(e.call), "no write for the entry when "+e.what)
		}
	}
	// liveness: a selected entry does reach the writers
	// both matchers see every entry: a directory that the include patterns do
	// not match is still descended, and its children need the exclude state of
	// their parent (the matcher falls back to a different algorithm without it)
	{
		ik, _, _ := c.errValueOf(f.inc)
		ok, hit, und := c.Precedes(f.copy, f.inc, map[string]bool{"(" + ik + "==nil)": true},
			func(in ssa.Instruction) bool { return in == ssa.Instruction(f.exc) },
			func(in ssa.Instruction) bool {
				return in == ssa.Instruction(f.cdCall) || c.P.IsCallTo(in, "copy.copyFile")
			})
		switch {
		case und:
			c.R.Undecided(rule, c.name(f.copy)+"/exclude-evaluated-for-every-entry", c.pos(f.exc), "state limit")
		case !ok:
			c.R.Fail(rule, c.name(f.copy)+"/exclude-evaluated-for-every-entry", c.pos(hit.Instr), "an entry can be processed (its directory descended) without the exclude matcher having been consulted for it: its children inherit an empty exclude state and are matched by the fallback algorithm, which decides some pattern lists differently")
		default:
			c.R.OK(rule, c.name(f.copy)+"/exclude-evaluated-for-every-entry", c.pos(f.exc), "the exclude matcher is consulted for every entry, whatever the include verdict")
		}
	}
	c.ObReachable(rule, c.name(f.copy)+"/selected-is-written", f.copy, map[string]bool{c.reg(f.inc) + "#0": true, c.reg(f.exc) + "#0": false}, c.callPred("copy.copyFile"), "copyFile", "the entry is selected")
	// copyDirectory with include=false
	var incParam *ssa.Parameter
	for _, p := range f.copyDir.Params {
		if c.P.ParamName(p) == "include" {
			incParam = p
		}
	}
	if incParam == nil {
		// positional: the bool parameter after overwriteTargetMetadata
		var bools []*ssa.Parameter
		for _, p := range f.copyDir.Params {
			if p.Type().String() == "bool" {
				bools = append(bools, p)
			}
		}
		if len(bools) >= 2 {
			incParam = bools[1]
		}
	}
	if incParam == nil {
		c.R.Missing(rule, "include parameter of copier.copyDirectory")
		return
	}
	pin := map[string]bool{"p:" + incParam.Name(): false}
	base := c.name(f.copyDir)
	c.ObUnreachable(rule, base+"/unselected-not-created", f.copyDir, pin, c.callPred("copy.copyDirectoryOnly", "os.Mkdir", "os.MkdirAll", "copy.MkdirAll", "copy.(*copier).notifyChange"), "creating or notifying the directory", "the directory is not selected itself")
	hit, und := allReturnsFalse(c, f.copyDir, nil, pin)
	c.R.Check(!und && hit == nil, rule, base+"/unselected-reports-not-created", c.P.Pos(f.copyDir.Pos()), "copyDirectory(include=false) returns created=false", "copyDirectory can report created=true for a directory it did not create: the caller then applies file info and xattrs to a path that may not exist or was not selected")
	// the include argument handed to copyDirectory is the computed include
	incArg := f.cdCall.Call.Args[len(f.cdCall.Call.Args)-3]
	okArg := c.DerivesFrom(incArg, func(v ssa.Value) bool { return v == ssa.Value(f.inc) }, 4) && c.DerivesFrom(incArg, func(v ssa.Value) bool { _, ok := eng.ConstBool(v); return ok }, 2)
	c.R.Check(okArg, rule, c.siteName(f.cdCall)+"/include-arg", c.pos(f.cdCall), "copyDirectory receives the computed include flag", "copyDirectory is not given the include flag computed from the matchers")
	// record: copied=true only under include
	n := 0
	eng.Instrs(f.copyDir, func(in ssa.Instruction) {
		s, ok := in.(*ssa.Store)
		if !ok {
			return
		}
		if fa, ok := s.Addr.(*ssa.FieldAddr); ok && eng.FieldOwnerName(fa.X.Type(), fa.Field) == "copy.parentDir.copied" {
			if b, isC := eng.ConstBool(s.Val); isC && b {
				n++
				c.ObUnreachable(rule, fmt.Sprintf("%s/copied-flag#%d", base, n), f.copyDir, pin, func(i2 ssa.Instruction) bool { return i2 == in }, "marking the directory as copied", "the directory was not created (not selected)")
			}
		}
	})
	c.R.Floor(rule, "copied=true stores in copyDirectory", n, 1)
}

func r16_2(c *Ctx, rule string) {
	c.R.Rule(rule, "deferred ancestors first: a checked createParentDirs precedes every content-creating call of copier.copy (for directories: whenever the directory itself is selected); copyDirectory always pushes its record and pops it on exit")
	f := getCopyFn(c, rule)
	if f == nil {
		return
	}
	cpd := c.checkedCallPred("copy.(*copier).createParentDirs")
	c.ObPrecedes(rule, c.name(f.copy)+"/ancestors-before-content", f.copy, nil, cpd, c.callPred(nonDirCreators...), "a checked createParentDirs", "creating a file, link, symlink or device")
	c.ObPrecedes(rule, c.name(f.copy)+"/ancestors-before-directory", f.copy, map[string]bool{c.reg(f.inc) + "#0": true, c.reg(f.exc) + "#0": false}, cpd, func(in ssa.Instruction) bool { return in == ssa.Instruction(f.cdCall) }, "a checked createParentDirs", "copying a selected directory")
	// push / pop of the record
	isPush := func(in ssa.Instruction) bool {
		s, ok := in.(*ssa.Store)
		if !ok {
			return false
		}
		fa, ok := s.Addr.(*ssa.FieldAddr)
		if !ok || eng.FieldOwnerName(fa.X.Type(), fa.Field) != "copy.copier.parentDirs" {
			return false
		}
		return c.isCallValueTo(s.Val, "builtin:append")
	}
	c.ObPrecedes(rule, c.name(f.copyDir)+"/record-before-children", f.copyDir, nil, isPush, c.callPred("copy.(*copier).copy", "os.ReadDir"), "pushing the directory's record on copier.parentDirs", "descending into the children")
	popped, deferred := false, false
	for _, df := range c.deferredFuncs(f.copyDir) {
		deferred = true
		for _, s := range fieldStoresIn(df, "copy.copier.parentDirs") {
			if _, isSlice := s.Val.(*ssa.Slice); isSlice {
				popped = true
			}
		}
	}
	c.R.Check(popped && deferred, rule, c.name(f.copyDir)+"/record-popped", c.P.Pos(f.copyDir.Pos()), "the record is popped by a deferred function", "copyDirectory does not pop its record from copier.parentDirs on exit: later siblings would create this directory as their 'ancestor'")
	// ... on every exit: once the record is pushed, no success return without
	// the pop (inline) or the registration of the popping defer (wave 26: an
	// early return for an empty directory in front of the defer left the
	// record on the stack and the next createParentDirs created it)
	popsStack := func(fn *ssa.Function) bool {
		for _, s := range fieldStoresIn(fn, "copy.copier.parentDirs") {
			if _, isSlice := s.Val.(*ssa.Slice); isSlice {
				return true
			}
		}
		return false
	}
	isPop := func(in ssa.Instruction) bool {
		switch t := in.(type) {
		case *ssa.Defer:
			switch v := t.Call.Value.(type) {
			case *ssa.MakeClosure:
				if cf, ok := v.Fn.(*ssa.Function); ok {
					return popsStack(cf)
				}
			case *ssa.Function:
				return popsStack(v)
			}
		case *ssa.Store:
			fa, ok := t.Addr.(*ssa.FieldAddr)
			if ok && eng.FieldOwnerName(fa.X.Type(), fa.Field) == "copy.copier.parentDirs" {
				_, isSlice := t.Val.(*ssa.Slice)
				return isSlice
			}
		}
		return false
	}
	var push ssa.Instruction
	for _, b := range f.copyDir.Blocks {
		for _, in := range b.Instrs {
			if push == nil && isPush(in) {
				push = in
			}
		}
	}
	if push == nil {
		c.R.Missing(rule, "the push onto copier.parentDirs in copyDirectory")
		return
	}
	c.ObSuccessNeeds(rule, c.name(f.copyDir)+"/record-popped-on-every-exit", f.copyDir, push, nil, isPop, "popping the record pushed on copier.parentDirs (inline, or a defer of the pop registered before the return)")
}

func r16_3(c *Ctx, rule string) {
	c.R.Rule(rule, "createParentDirs: an ancestor created on demand gets (checked) copyFileInfo and copyXAttrs from its source directory, and every handled ancestor is marked copied before the next one")
	fn := c.Fn(rule, "copy.(*copier).createParentDirs")
	if fn == nil {
		return
	}
	defer c.scope(fn)()
	base := c.name(fn)
	var cdo *ssa.Call
	for _, call := range c.P.CallsTo(fn, "copy.copyDirectoryOnly") {
		cdo, _ = call.(*ssa.Call)
	}
	if cdo == nil {
		c.R.Fail(rule, base+"/creates", c.P.Pos(fn.Pos()), "createParentDirs no longer creates the pending directories (copyDirectoryOnly)")
		return
	}
	isMark := func(in ssa.Instruction) bool {
		s, ok := in.(*ssa.Store)
		if !ok {
			return false
		}
		fa, ok := s.Addr.(*ssa.FieldAddr)
		if !ok || eng.FieldOwnerName(fa.X.Type(), fa.Field) != "copy.parentDir.copied" {
			return false
		}
		if _, isIdx := fa.X.(*ssa.IndexAddr); !isIdx {
			return false
		}
		b, isC := eng.ConstBool(s.Val)
		return isC && b
	}
	created := map[string]bool{c.reg(cdo) + "#0": true, "(" + c.reg(cdo) + "#1==nil)": true}
	for _, e := range []struct{ what, callee string }{{"copyFileInfo", "copy.(*copier).copyFileInfo"}, {"copyXAttrs", "copy.copyXAttrs"}} {
		chk := c.checkedCallPred(e.callee)
		ex := c.explorer(fn)
		ex.From = cdo
		ex.Assume = created
		ex.Barrier = func(in ssa.Instruction, st *eng.State) bool { return chk(in) }
		ex.Target = func(in ssa.Instruction, st *eng.State) bool { return isMark(in) || ex.IsSuccessReturn(in, st) }
		ex.StopAtTarget = true
		h := ex.Run()
		c.R.Check(len(h) == 0 && !ex.Exhausted, rule, base+"/created-gets-"+e.what, c.pos(cdo), "a freshly created ancestor passes a checked "+e.what, "an ancestor directory created on demand is finished without a checked "+e.what+": it keeps the default mode/owner instead of the source directory's")
		for _, call := range c.P.CallsTo(fn, e.callee) {
			srcOK := false
			for _, a := range call.Common().Args {
				if isFieldLoad(a, "copy.parentDir.srcPath") {
					srcOK = true
				}
			}
			// ... in the position of the callee's source parameter, the
			// destination path in that of its target parameter
			if f := call.Common().StaticCallee(); f != nil && len(f.Params) == len(call.Common().Args) {
				for i, q := range f.Params {
					a := call.Common().Args[i]
					switch q.Name() {
					case "src":
						if !isFieldLoad(a, "copy.parentDir.srcPath") {
							srcOK = false
						}
					case "dst", "name", "target":
						if isFieldLoad(a, "copy.parentDir.srcPath") {
							srcOK = false
						}
					}
				}
			}
			c.R.Check(srcOK, rule, c.siteName(call)+"/from-source-dir", c.pos(call), "taken from the ancestor's source path", e.what+" for an ancestor is not taken from that ancestor's source directory")
		}
	}
	// marked before moving on
	ex := c.explorer(fn)
	ex.From = cdo
	ex.Assume = map[string]bool{"(" + c.reg(cdo) + "#1==nil)": true}
	ex.Barrier = func(in ssa.Instruction, st *eng.State) bool { return isMark(in) }
	ex.Target = func(in ssa.Instruction, st *eng.State) bool {
		return ex.IsSuccessReturn(in, st) || in == ssa.Instruction(cdo)
	}
	ex.StopAtTarget = true
	h := ex.Run()
	c.R.Check(len(h) == 0 && !ex.Exhausted, rule, base+"/marked-copied", c.pos(cdo), "each handled ancestor is marked copied in the shared slice", "a handled ancestor is not marked copied in copier.parentDirs: it is re-created (and its metadata re-applied) for every later entry")
	c.ObNoStaleElementStores(rule, fn, 1, "parent-directory record")
	// the source directory is stat'ed and must be a directory
	c.ObPrecedes(rule, base+"/source-is-dir", fn, nil, c.callPred("(io/fs.FileInfo).IsDir"), func(in ssa.Instruction) bool { return in == ssa.Instruction(cdo) }, "a directory test of the source", "creating the ancestor")
}

func r16_4(c *Ctx, rule string) {
	c.R.Rule(rule, "match-info pairing in copy: include's parent result comes from the include side only (parameter, include call result), likewise exclude, through copier.copy, copyDirectory and the recursion's positional arguments")
	f := getCopyFn(c, rule)
	if f == nil {
		return
	}
	paramNamed := func(fn *ssa.Function, sub string) *ssa.Parameter {
		for _, p := range fn.Params {
			if strings.Contains(strings.ToLower(c.P.ParamName(p)), sub) && strings.HasSuffix(p.Type().String(), "MatchInfo") {
				return p
			}
		}
		return nil
	}
	pInc, pExc := paramNamed(f.copy, "include"), paramNamed(f.copy, "exclude")
	dInc, dExc := paramNamed(f.copyDir, "include"), paramNamed(f.copyDir, "exclude")
	if pInc == nil || pExc == nil || dInc == nil || dExc == nil {
		c.R.Missing(rule, "MatchInfo parameters of copier.copy / copier.copyDirectory")
		return
	}
	// positions (include before exclude) must agree between the two functions
	idx := func(fn *ssa.Function, p *ssa.Parameter) int {
		for i, q := range fn.Params {
			if q == p {
				return i
			}
		}
		return -1
	}
	// copy: c.include(srcComponents, parentIncludeMatchInfo)
	c.R.Check(eng.Strip(f.inc.Call.Args[len(f.inc.Call.Args)-1]) == ssa.Value(pInc), rule, c.siteName(f.inc)+"/parent-info", c.pos(f.inc), "include is given the parent's include result", "copier.include is not given the parent's include match info (crossed with exclude)")
	c.R.Check(eng.Strip(f.exc.Call.Args[len(f.exc.Call.Args)-1]) == ssa.Value(pExc), rule, c.siteName(f.exc)+"/parent-info", c.pos(f.exc), "exclude is given the parent's exclude result", "copier.exclude is not given the parent's exclude match info (crossed with include)")
	// copy -> copyDirectory
	a := f.cdCall.Call.Args
	argAt := func(fn *ssa.Function, p *ssa.Parameter) ssa.Value {
		i := idx(fn, p)
		if i < 0 || i >= len(a) {
			return nil
		}
		return a[i]
	}
	ai, ae := argAt(f.copyDir, dInc), argAt(f.copyDir, dExc)
	fromInc := func(v ssa.Value) bool { return v == ssa.Value(f.inc) }
	fromExc := func(v ssa.Value) bool { return v == ssa.Value(f.exc) }
	okI := ai != nil && c.DerivesFrom(ai, fromInc, 5) && !c.DerivesFrom(ai, fromExc, 5)
	okE := ae != nil && c.DerivesFrom(ae, fromExc, 5) && !c.DerivesFrom(ae, fromInc, 5)
	c.R.Check(okI, rule, c.siteName(f.cdCall)+"/include-info", c.pos(f.cdCall), "the directory's include result is passed in the include position", "copyDirectory's include match-info argument does not come from the include matcher only")
	c.R.Check(okE, rule, c.siteName(f.cdCall)+"/exclude-info", c.pos(f.cdCall), "the directory's exclude result is passed in the exclude position", "copyDirectory's exclude match-info argument does not come from the exclude matcher only")
	// copyDirectory -> copy (recursion)
	n := 0
	for _, call := range c.P.CallsTo(f.copyDir, "copy.(*copier).copy") {
		n++
		b := call.Common().Args
		ii, ie := idx(f.copy, pInc), idx(f.copy, pExc)
		ok := ii >= 0 && ie >= 0 && ii < len(b) && ie < len(b) && eng.Strip(b[ii]) == ssa.Value(dInc) && eng.Strip(b[ie]) == ssa.Value(dExc)
		c.R.Check(ok, rule, c.siteName(call)+"/positions", c.pos(call), "children receive (includeMatchInfo, excludeMatchInfo) in that order", "the recursive copy passes the directory's match infos in the wrong positions: children are matched against the other matcher's parent state")
	}
	c.R.Floor(rule, "recursive copy calls in copyDirectory", n, 1)
	// inside include / exclude
	for _, e := range []struct{ fn, field string }{{"copy.(*copier).include", "copy.copier.includePatternMatcher"}, {"copy.(*copier).exclude", "copy.copier.excludePatternMatcher"}} {
		g := c.Fn(rule, e.fn)
		if g == nil {
			continue
		}
		calls := c.P.CallsTo(g, pmMatch)
		c.R.Check(len(calls) == 1, rule, e.fn+"/query", c.P.Pos(g.Pos()), "one MatchesUsingParentResults query", e.fn+" does not query its matcher with MatchesUsingParentResults exactly once")
		for _, call := range calls {
			b := call.Common().Args
			_, pathP := eng.Strip(b[1]).(*ssa.Parameter)
			_, infoP := eng.Strip(b[2]).(*ssa.Parameter)
			c.R.Check(isFieldLoad(b[0], e.field) && pathP && infoP, rule, c.siteName(call)+"/args", c.pos(call), "queries "+e.field+" with (path, parent info)", e.fn+" does not query "+e.field+" with its own (path, parent match info)")
			c.ObErrChecked(rule+"/checked", call)
		}
		// no matcher configured: include -> true, exclude -> false
		want := e.fn == "copy.(*copier).include"
		x := c.explorer(g)
		as := map[string]bool{}
		for _, ld := range fieldLoadsIn(g, e.field) {
			_ = ld
		}
		eng.Instrs(g, func(in ssa.Instruction) {
			if bo, ok := in.(*ssa.BinOp); ok && isFieldLoad(bo.X, e.field) {
				if k, isC := bo.Y.(*ssa.Const); isC && k.IsNil() {
					as[x.KeyAtEntry(bo)] = bo.Op.String() == "=="
				}
			}
		})
		ex := c.explorer(g)
		ex.Assume = as
		bad := 0
		ex.Target = func(in ssa.Instruction, st *eng.State) bool {
			if r, ok := in.(*ssa.Return); ok {
				v, known := ex.Truth(r.Results[0], st)
				if !known || v != want {
					bad++
				}
			}
			return false
		}
		ex.Run()
		c.R.Check(bad == 0 && len(as) > 0, rule, e.fn+"/no-matcher-default", c.P.Pos(g.Pos()), fmt.Sprintf("without patterns the answer is %v", want), fmt.Sprintf("without patterns %s does not answer %v", e.fn, want))
	}
}

func r16_5(c *Ctx, rule string) {
	c.R.Rule(rule, "copy builds its matchers like the filtered walk: patternmatcher.New on the caller's include and exclude lists")
	nc := c.Fn(rule, "copy.newCopier")
	nf := c.Fn(rule, "fsutil.NewFilterFS")
	if nc == nil || nf == nil {
		return
	}
	for _, g := range []*ssa.Function{nc, nf} {
		calls := c.P.CallsTo(g, "github.com/moby/patternmatcher.New")
		c.R.Check(len(calls) == 2, rule, c.name(g)+"/matchers", c.P.Pos(g.Pos()), "two matchers built with patternmatcher.New", c.name(g)+" does not build exactly two matchers with patternmatcher.New")
		for _, call := range calls {
			c.ObErrChecked(rule+"/checked", call)
		}
	}
	viaOptions := map[string]bool{}
	for _, e := range []struct{ field, param, opt string }{{"copy.copier.includePatternMatcher", "includePatterns", "copy.CopyInfo.IncludePatterns"}, {"copy.copier.excludePatternMatcher", "excludePatterns", "copy.CopyInfo.ExcludePatterns"}} {
		ok := false
		for _, s := range fieldStoresIn(nc, e.field) {
			if c.DerivesFrom(s.Val, func(v ssa.Value) bool {
				call, isC := v.(*ssa.Call)
				if !isC || c.P.CalleeName(call) != "github.com/moby/patternmatcher.New" {
					return false
				}
				// the options struct handed through as a whole
				if isFieldLoad(call.Call.Args[0], e.opt) {
					viaOptions[e.param] = true
					return true
				}
				p, isP := eng.Strip(call.Call.Args[0]).(*ssa.Parameter)
				if isP && p.Parent() != nc && c.P.Transparent(p.Parent()) {
					// built by a helper (`newPatternMatcher(kind, patterns)`): the list is
					// what newCopier hands to the helper at the call this field's value comes from
					idx := -1
					for i, q := range p.Parent().Params {
						if q == p {
							idx = i
						}
					}
					found := false
					for _, k := range c.P.CallsTo(nc, c.P.FnName(p.Parent())) {
						kc, isCall := k.(*ssa.Call)
						if !isCall || kc.Parent() != nc || idx < 0 || idx >= len(kc.Call.Args) {
							continue
						}
						from := s.Val // (not Strip: it would look into the helper)
						if ex, isEx := from.(*ssa.Extract); isEx {
							from = ex.Tuple
						}
						if from != ssa.Value(kc) {
							continue
						}
						if isFieldLoad(kc.Call.Args[idx], e.opt) {
							viaOptions[e.param] = true
							found = true
							continue
						}
						q, isQ := eng.Strip(kc.Call.Args[idx]).(*ssa.Parameter)
						if !isQ || c.P.ParamName(q) != e.param {
							return false
						}
						found = true
					}
					return found
				}
				return isP && c.P.ParamName(p) == e.param
			}, 5) {
				ok = true
			}
		}
		c.R.Check(ok, rule, "copy.newCopier/"+e.field, c.P.Pos(nc.Pos()), e.field+" = patternmatcher.New("+e.param+")", e.field+" is not built from the caller's "+e.param)
	}
	cp := c.Fn(rule, "copy.Copy")
	if cp != nil {
		for _, call := range c.P.CallsTo(cp, "copy.newCopier") {
			a := call.Common().Args
			// the argument in the position of the list parameter (none when the options travel as a struct)
			argOf := func(param, opt string) bool {
				if viaOptions[param] {
					return true
				}
				for i, q := range nc.Params {
					if c.P.ParamName(q) == param && i < len(a) {
						return isFieldLoad(a[i], opt)
					}
				}
				return false
			}
			okI := argOf("includePatterns", "copy.CopyInfo.IncludePatterns")
			okE := argOf("excludePatterns", "copy.CopyInfo.ExcludePatterns")
			c.R.Check(okI && okE, rule, c.siteName(call)+"/pattern-args", c.pos(call), "newCopier receives (IncludePatterns, ExcludePatterns)", "Copy hands the include/exclude pattern lists to newCopier in the wrong positions")
		}
	}
}
