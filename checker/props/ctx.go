// Package props wires the generic engines to the anchors of each property.
// One file per property; instance tables and floors live next to the rules.
package props

import (
	"fmt"
	"go/token"
	"go/types"
	"sort"
	"strings"

	"fsverif/eng"
	"fsverif/rep"

	"golang.org/x/tools/go/ssa"
)

// Ctx is the environment of one property run on one configuration.
type Ctx struct {
	P    *eng.Prog
	R    *rep.Report
	Tier string
}

// Property is a registered checker.
type Property struct {
	ID          string
	Explanation string
	Run         func(c *Ctx)
}

var Registry = map[string]*Property{}

// idNumbering: the three rules that pin the file ids of the protocol to the
// zero-based position in the STAT sequence on both ends (R06.1, R07.1, R07.2).
// Shared with every property whose statement is about what a transfer leaves
// behind: the library's two ends agreeing with each other on some other
// numbering passes every round-trip test and hands a conforming peer the
// bytes of a neighbouring file.
func idNumbering(c *Ctx, sender, recvCounter, recvStore string) {
	r06_1(c, sender)
	r07_1(c, recvCounter)
	r07_2(c, recvStore)
}

func register(id, explanation string, run func(c *Ctx)) {
	Registry[id] = &Property{ID: id, Explanation: explanation, Run: run}
}

// IDs returns the registered property ids, sorted.
func IDs() []string {
	var out []string
	for k := range Registry {
		out = append(out, k)
	}
	sort.Strings(out)
	return out
}

// Unix: the configuration uses the !windows files.
func (c *Ctx) Unix() bool { return c.P.GOOS != "windows" }

// Linux reference platform.
func (c *Ctx) Linux() bool { return c.P.GOOS == "linux" }

// Fn resolves a function anchor; reports ANCHOR when missing.
func (c *Ctx) Fn(rule, name string) *ssa.Function {
	f := c.P.Fn(name)
	if f == nil {
		c.R.Missing(rule, "func "+name)
		return nil
	}
	c.R.Analysed(name)
	return f
}

// ClosureCalling returns the unique closure nested in fn that calls one of
// names; reports ANCHOR if there is none, and a violation if several.
func (c *Ctx) ClosureCalling(rule string, fn *ssa.Function, names ...string) *ssa.Function {
	cs := c.P.ClosuresCalling(fn, names...)
	if len(cs) == 0 {
		c.R.Missing(rule, fmt.Sprintf("closure of %s calling %s", c.P.FnName(fn), strings.Join(names, "|")))
		return nil
	}
	c.R.Analysed(c.P.FnName(cs[0]))
	return cs[0]
}

func (c *Ctx) pos(in ssa.Instruction) string { return c.P.InstrPos(in) }

func (c *Ctx) name(fn *ssa.Function) string { return c.P.FnName(fn) }

// ordinal-based construct names: fn/callee#k (k-th call of that callee in fn,
// in block order). Independent of line numbers.
func (c *Ctx) siteName(in ssa.Instruction) string {
	// a site inside a transparent helper is named after the (first) function
	// the helper was extracted from, so that names survive such extractions
	fn := c.owner(in)
	ci, ok := in.(ssa.CallInstruction)
	if !ok {
		return c.name(fn) + "/" + instrKind(in)
	}
	n := c.P.CalleeName(ci)
	k := 0
	for _, x := range eng.Calls(fn) {
		if c.P.CalleeName(x) == n {
			k++
			if x == ci {
				break
			}
		}
	}
	return fmt.Sprintf("%s/%s#%d", c.name(fn), n, k)
}

// owner is the anchor function an instruction is attributed to.
func (c *Ctx) owner(in ssa.Instruction) *ssa.Function {
	if tops := c.tops(in); len(tops) > 0 {
		for _, t := range tops {
			if t == eng.Scope {
				return t
			}
		}
		return tops[0]
	}
	return in.Parent()
}

// alwaysBefore: on every feasible path of fn (helpers inlined) that reaches b,
// a was executed first. Unlike dominance this sees that a helper's error
// return never leads to b.
func (c *Ctx) alwaysBefore(fn *ssa.Function, a, b ssa.Instruction) bool {
	ok, _, und := c.Precedes(fn, nil, nil, func(in ssa.Instruction) bool { return in == a }, func(in ssa.Instruction) bool { return in == b })
	return ok && !und
}

// prefixTest is a test "subject starts with prefix": strings.HasPrefix(subject,
// prefix) or its expansion subject[:len(prefix)] == prefix.
type prefixTest struct {
	site            ssa.Instruction
	subject, prefix ssa.Value
	name            string // construct name
	// a hand-expanded test whose separator is checked on its own:
	// s[len(p)] == '/' && s[:len(p)] == p (the prefix test is only reached when
	// the byte after the prefix is the separator)
	sepChecked bool
}

func (c *Ctx) prefixTests(fn *ssa.Function) []prefixTest {
	var out []prefixTest
	manual := 0
	x := c.explorer(fn)
	eng.Instrs(fn, func(in ssa.Instruction) {
		switch v := in.(type) {
		case *ssa.Call:
			if c.P.CalleeName(v) == "strings.HasPrefix" && len(v.Call.Args) == 2 {
				out = append(out, prefixTest{site: v, subject: v.Call.Args[0], prefix: v.Call.Args[1], name: c.siteName(v)})
			}
		case *ssa.BinOp:
			if v.Op != token.EQL && v.Op != token.NEQ {
				return
			}
			for _, o := range [][2]ssa.Value{{v.X, v.Y}, {v.Y, v.X}} {
				sl, ok := o[0].(*ssa.Slice)
				if !ok || eng.SliceLow(sl) != nil || sl.High == nil {
					continue
				}
				lc, ok := sl.High.(*ssa.Call)
				if !ok || c.P.CalleeName(lc) != "builtin:len" || len(lc.Call.Args) != 1 {
					continue
				}
				// a[:len(b)] == b
				if eng.SameValue(lc.Call.Args[0], o[1]) || x.StructKeyAtEntry(lc.Call.Args[0]) == x.StructKeyAtEntry(o[1]) {
					manual++
					pt := prefixTest{site: v, subject: sl.X, prefix: o[1], name: fmt.Sprintf("%s/prefix-comparison#%d", c.name(c.owner(v)), manual)}
					// the companion test of the byte that follows the prefix
					eng.InstrsShallow(v.Parent(), func(i2 ssa.Instruction) {
						bo, ok := i2.(*ssa.BinOp)
						if !ok || bo.Op != token.EQL || pt.sepChecked {
							return
						}
						for _, q := range [][2]ssa.Value{{bo.X, bo.Y}, {bo.Y, bo.X}} {
							var lkX, lkI ssa.Value
							switch e := q[0].(type) {
							case *ssa.Lookup:
								lkX, lkI = e.X, e.Index
							case *ssa.Index:
								lkX, lkI = e.X, e.Index
							}
							k, isK := eng.ConstInt(q[1])
							if lkX == nil || !isK || (k != '/' && k != '\\') || !eng.SameValue(lkX, sl.X) {
								continue
							}
							il, isLen := lkI.(*ssa.Call)
							if !isLen || c.P.CalleeName(il) != "builtin:len" || len(il.Call.Args) != 1 {
								continue
							}
							if !(eng.SameValue(il.Call.Args[0], o[1]) || x.StructKeyAtEntry(il.Call.Args[0]) == x.StructKeyAtEntry(o[1])) {
								continue
							}
							hit, und := c.ReachableUnder(v.Parent(), map[string]bool{x.KeyAtEntry(bo): false}, nil, func(i3 ssa.Instruction) bool { return i3 == ssa.Instruction(v) })
							if !und && hit == nil {
								pt.sepChecked = true
							}
						}
					})
					out = append(out, pt)
					return
				}
			}
		}
	})
	return out
}

// trueCellKeys: explorer keys (all to be assumed TRUE) for the loads in fn of
// boolean variables - local or captured - that are assigned exactly once, a
// value that is true whenever every test satisfying isTrueTest is true: such a
// test itself, the constant true, or an `||`/phi of those. (A maintainer may
// hoist `a != nil || b != nil` into a variable computed once.)
func (c *Ctx) trueCellKeys(fn *ssa.Function, x *eng.Explorer, isTrueTest func(ssa.Value) bool) []string {
	var implied func(v ssa.Value, d int) bool
	implied = func(v ssa.Value, d int) bool {
		if d > 6 {
			return false
		}
		if isTrueTest(v) {
			return true
		}
		if b, ok := eng.ConstBool(v); ok {
			return b
		}
		if ph, ok := v.(*ssa.Phi); ok {
			for _, e := range ph.Edges {
				if !implied(e, d+1) {
					return false
				}
			}
			return len(ph.Edges) > 0
		}
		return false
	}
	var keys []string
	eng.Instrs(fn, func(in ssa.Instruction) {
		u, ok := in.(*ssa.UnOp)
		if !ok || u.Op != token.MUL {
			return
		}
		var root *ssa.Alloc
		switch ad := u.X.(type) {
		case *ssa.Alloc:
			root = ad
		case *ssa.FreeVar:
			root = c.P.Census().Root(ad)
		}
		if root == nil {
			return
		}
		if bt, isBasic := root.Type().(*types.Pointer).Elem().Underlying().(*types.Basic); !isBasic || bt.Kind() != types.Bool {
			return
		}
		n, good := 0, 0
		for _, st := range c.P.Census().CellStorers(root) {
			eng.InstrsShallow(st, func(i2 ssa.Instruction) {
				s, isS := i2.(*ssa.Store)
				if !isS {
					return
				}
				var a *ssa.Alloc
				switch ad := s.Addr.(type) {
				case *ssa.Alloc:
					a = ad
				case *ssa.FreeVar:
					a = c.P.Census().Root(ad)
				}
				if a != root {
					return
				}
				n++
				if implied(s.Val, 0) {
					good++
				}
			})
		}
		if n == 1 && good == 1 {
			keys = append(keys, x.KeyAtEntry(u))
		}
	})
	return keys
}

// modeBitTestsOn is modeBitTests restricted to tests whose operand is
// X.Mode() for a FileInfo X satisfying recv.
func (c *Ctx) modeBitTestsOn(fn *ssa.Function, x *eng.Explorer, bit int64, recv func(ssa.Value) bool) []string {
	if eng.Scope == nil {
		defer c.scope(fn)()
	}
	var keys []string
	eng.Instrs(fn, func(in ssa.Instruction) {
		v, ok := in.(ssa.Value)
		if !ok {
			return
		}
		operand, mask, setWhenTrue, isBT := eng.BitTest(v)
		if !isBT || mask != bit {
			return
		}
		mcall, isCall := eng.Canon(operand).(*ssa.Call)
		if !isCall || c.P.CalleeName(mcall) != "(io/fs.FileInfo).Mode" || !recv(mcall.Call.Value) {
			return
		}
		key := x.KeyAtEntry(v)
		if !setWhenTrue {
			key = "!" + key
		}
		keys = append(keys, key)
	})
	return keys
}

// dirTestKeys returns, for every test in fn of "is a directory" applied to a
// FileInfo satisfying recv - fi.IsDir(), fi.Mode().IsDir(), or a ModeDir bit
// test of fi.Mode() - an explorer key whose truth means "directory".
func (c *Ctx) dirTestKeys(fn *ssa.Function, x *eng.Explorer, recv func(ssa.Value) bool) []string {
	if eng.Scope == nil {
		defer c.scope(fn)()
	}
	var keys []string
	modeOf := func(v ssa.Value) (ssa.Value, bool) {
		call, ok := eng.Canon(v).(*ssa.Call)
		if !ok || c.P.CalleeName(call) != "(io/fs.FileInfo).Mode" {
			return nil, false
		}
		return call.Call.Value, true
	}
	eng.Instrs(fn, func(in ssa.Instruction) {
		v, ok := in.(ssa.Value)
		if !ok {
			return
		}
		if call, isCall := in.(*ssa.Call); isCall {
			switch c.P.CalleeName(call) {
			case "(io/fs.FileInfo).IsDir":
				if recv(call.Call.Value) {
					keys = append(keys, x.KeyAtEntry(call))
				}
			case "(io/fs.FileMode).IsDir":
				if len(call.Call.Args) > 0 {
					if r, isMode := modeOf(call.Call.Args[0]); isMode && recv(r) {
						keys = append(keys, x.KeyAtEntry(call))
					}
				}
			}
			return
		}
		if operand, mask, setWhenTrue, isBT := eng.BitTest(v); isBT && mask == modeDir {
			if r, isMode := modeOf(operand); isMode && recv(r) {
				k := x.KeyAtEntry(v)
				if !setWhenTrue {
					k = "!" + k
				}
				keys = append(keys, k)
			}
		}
	})
	return keys
}

// ReachAfter: is an instruction satisfying isT reachable after `from` has executed?
func (c *Ctx) ReachAfter(fn *ssa.Function, from ssa.Instruction, isT func(ssa.Instruction) bool) (*eng.Hit, bool) {
	x := c.explorer(fn)
	x.From = from
	x.Target = func(in ssa.Instruction, st *eng.State) bool {
		if _, isV := in.(ssa.Value); !isV {
			return false
		}
		return isT(in)
	}
	x.StopAtTarget = true
	hits := x.Run()
	if x.Exhausted {
		return nil, true
	}
	if len(hits) > 0 {
		return &hits[0], false
	}
	return nil, false
}

// onlyIn: instruction in lies in one of the named functions, or in a helper
// that is only called from them.
func (c *Ctx) onlyIn(in ssa.Instruction, names ...string) bool {
	tops := c.tops(in)
	if len(tops) == 0 {
		return false
	}
	for _, t := range tops {
		ok := false
		for _, n := range names {
			if c.name(t) == n {
				ok = true
			}
		}
		if !ok {
			return false
		}
	}
	return true
}

// scope declares fn the anchor under analysis until the returned function is
// called: helpers shared with other anchors are then read in fn's context.
func (c *Ctx) scope(fn *ssa.Function) func() {
	old := eng.Scope
	eng.Scope = fn
	return func() { eng.Scope = old }
}

// ordinalIn: in is the k-th call of its callee in top (deep block order).
func (c *Ctx) ordinalIn(top *ssa.Function, ci ssa.CallInstruction) int {
	n := c.P.CalleeName(ci)
	k := 0
	for _, x := range eng.Calls(top) {
		if c.P.CalleeName(x) == n {
			k++
			if x == ci {
				return k
			}
		}
	}
	return 0
}

// tabled looks a call site up in an exception table keyed "function/callee"
// or "function/callee#ordinal". A site inside a helper is covered only if
// every function the helper is called from has the entry.
func tabled[T any](c *Ctx, tbl map[string]T, call ssa.CallInstruction) (T, bool) {
	var out, zero T
	name := c.P.CalleeName(call)
	tops := c.tops(call)
	if len(tops) == 0 {
		tops = []*ssa.Function{call.Parent()}
	}
	for _, top := range tops {
		key := c.name(top) + "/" + name
		v, ok := tbl[key]
		if !ok {
			v, ok = tbl[fmt.Sprintf("%s#%d", key, c.ordinalIn(top, call))]
		}
		if !ok {
			return zero, false
		}
		out = v
	}
	return out, true
}

func instrKind(in ssa.Instruction) string {
	s := fmt.Sprintf("%T", in)
	return strings.TrimPrefix(s, "*ssa.")
}

// explorer constructs an explorer for fn.
func (c *Ctx) explorer(fn *ssa.Function) *eng.Explorer {
	return &eng.Explorer{P: c.P, Fn: fn}
}

// ---------------------------------------------------------------------------
// E1/E4: must-pass-through
// ---------------------------------------------------------------------------

// Precedes: on every path from the entry of fn (or from `from`) to an
// instruction satisfying isB, an instruction satisfying isA is executed first.
// Returns the first counterexample.
func (c *Ctx) Precedes(fn *ssa.Function, from ssa.Instruction, assume map[string]bool, isA, isB func(ssa.Instruction) bool) (bool, *eng.Hit, bool) {
	x := c.explorer(fn)
	x.From = from
	x.Assume = assume
	x.Barrier = func(in ssa.Instruction, st *eng.State) bool { return isA(in) }
	x.Target = func(in ssa.Instruction, st *eng.State) bool { return isB(in) }
	x.StopAtTarget = true
	hits := x.Run()
	if x.Exhausted {
		return false, nil, true
	}
	if len(hits) > 0 {
		return false, &hits[0], false
	}
	return true, nil, false
}

// ObPrecedes records the obligation "A before B on every path".
func (c *Ctx) ObPrecedes(rule, construct string, fn *ssa.Function, assume map[string]bool, isA, isB func(ssa.Instruction) bool, whatA, whatB string) bool {
	ok, hit, und := c.Precedes(fn, nil, assume, isA, isB)
	if und {
		c.R.Undecided(rule, construct, c.P.Pos(fn.Pos()), "state limit exceeded while exploring "+c.name(fn))
		return false
	}
	if !ok {
		c.R.Fail(rule, construct, c.pos(hit.Instr), fmt.Sprintf("%s is reached without %s first; entry %s, path %s", whatB, whatA, c.name(fn), eng.BlockTrace(fn, hit.Trace)))
		return false
	}
	c.R.OK(rule, construct, c.P.Pos(fn.Pos()), fmt.Sprintf("every path of %s to %s passes %s", c.name(fn), whatB, whatA))
	return true
}

// SuccessAvoiding: is a success return reachable from `from` (nil: entry)
// without executing any instruction satisfying isBarrier?
func (c *Ctx) SuccessAvoiding(fn *ssa.Function, from ssa.Instruction, assume map[string]bool, track func(string) bool, isBarrier func(ssa.Instruction) bool) (*eng.Hit, bool) {
	x := c.explorer(fn)
	x.From = from
	x.Assume = assume
	x.Track = track
	x.Barrier = func(in ssa.Instruction, st *eng.State) bool { return isBarrier != nil && isBarrier(in) }
	x.Target = func(in ssa.Instruction, st *eng.State) bool { return x.IsSuccessReturn(in, st) }
	x.StopAtTarget = true
	hits := x.Run()
	if x.Exhausted {
		return nil, true
	}
	if len(hits) > 0 {
		return &hits[0], false
	}
	return nil, false
}

// ObSuccessNeeds: every success return of fn (reachable under assume) is
// preceded by an instruction satisfying isBarrier.
func (c *Ctx) ObSuccessNeeds(rule, construct string, fn *ssa.Function, from ssa.Instruction, assume map[string]bool, isBarrier func(ssa.Instruction) bool, what string) bool {
	hit, und := c.SuccessAvoiding(fn, from, assume, nil, isBarrier)
	if und {
		c.R.Undecided(rule, construct, c.P.Pos(fn.Pos()), "state limit exceeded while exploring "+c.name(fn))
		return false
	}
	if hit != nil {
		c.R.Fail(rule, construct, c.pos(hit.Instr), fmt.Sprintf("a success return of %s is reachable without %s; path %s", c.name(fn), what, eng.BlockTrace(fn, hit.Trace)))
		return false
	}
	c.R.OK(rule, construct, c.P.Pos(fn.Pos()), fmt.Sprintf("no success return of %s is reachable without %s", c.name(fn), what))
	return true
}

// ---------------------------------------------------------------------------
// E2/E3: guards
// ---------------------------------------------------------------------------

// ReachableUnder: is some instruction satisfying isT reachable from the entry
// under the assumed facts?
func (c *Ctx) ReachableUnder(fn *ssa.Function, assume map[string]bool, track func(string) bool, isT func(ssa.Instruction) bool) (*eng.Hit, bool) {
	x := c.explorer(fn)
	x.Assume = assume
	x.Track = track
	x.Target = func(in ssa.Instruction, st *eng.State) bool { return isT(in) }
	x.StopAtTarget = true
	hits := x.Run()
	if x.Exhausted {
		return nil, true
	}
	if len(hits) > 0 {
		return &hits[0], false
	}
	return nil, false
}

// ObUnreachable records "target is unreachable when <assume> holds".
func (c *Ctx) ObUnreachable(rule, construct string, fn *ssa.Function, assume map[string]bool, isT func(ssa.Instruction) bool, whatT, whatAssume string) bool {
	hit, und := c.ReachableUnder(fn, assume, nil, isT)
	if und {
		c.R.Undecided(rule, construct, c.P.Pos(fn.Pos()), "state limit exceeded while exploring "+c.name(fn))
		return false
	}
	if hit != nil {
		c.R.Fail(rule, construct, c.pos(hit.Instr), fmt.Sprintf("%s is reachable although %s; path %s", whatT, whatAssume, eng.BlockTrace(fn, hit.Trace)))
		return false
	}
	c.R.OK(rule, construct, c.P.Pos(fn.Pos()), fmt.Sprintf("%s is unreachable when %s", whatT, whatAssume))
	return true
}

// ObReachable records the sanity half of a guard: the target IS reachable
// under the complementary assumption (otherwise the guard rule is vacuous).
func (c *Ctx) ObReachable(rule, construct string, fn *ssa.Function, assume map[string]bool, isT func(ssa.Instruction) bool, whatT, whatAssume string) bool {
	hit, und := c.ReachableUnder(fn, assume, nil, isT)
	if und {
		c.R.Undecided(rule, construct, c.P.Pos(fn.Pos()), "state limit exceeded while exploring "+c.name(fn))
		return false
	}
	if hit == nil {
		c.R.Fail(rule, construct, c.P.Pos(fn.Pos()), fmt.Sprintf("%s is not reachable at all when %s: the code under the guard is dead or the anchor moved", whatT, whatAssume))
		return false
	}
	c.R.OK(rule, construct, c.pos(hit.Instr), fmt.Sprintf("%s is reachable when %s", whatT, whatAssume))
	return true
}

// ---------------------------------------------------------------------------
// E8: error discipline
// ---------------------------------------------------------------------------

// errValueKey returns the explorer key naming the error result of a call and
// whether the result is referenced at all.
func (c *Ctx) errValueOf(call ssa.CallInstruction) (key string, used bool, has bool) {
	v := call.Value()
	if v == nil {
		return "", false, false // go / defer: result discarded
	}
	res := call.Common().Signature().Results()
	idx := -1
	for i := res.Len() - 1; i >= 0; i-- {
		if types.TypeString(res.At(i).Type(), nil) == "error" {
			idx = i
			break
		}
	}
	if idx < 0 {
		return "", false, false
	}
	if res.Len() == 1 {
		return c.reg(v), len(eng.Referrers(v)) > 0, true
	}
	for _, r := range eng.Referrers(v) {
		if e, ok := r.(*ssa.Extract); ok && e.Index == idx {
			return fmt.Sprintf("%s#%d", c.reg(v), idx), len(eng.Referrers(e)) > 0, true
		}
	}
	return fmt.Sprintf("%s#%d", c.reg(v), idx), false, true
}

// reg is the explorer's name for register v as seen from an anchor function
// (qualified when v lives in a transparent helper).
func (c *Ctx) reg(v ssa.Value) string { return c.P.RegName(v) }

// tops lists the anchor functions from which instruction in is executed: its
// own function, or the callers of the transparent helper it lives in.
func (c *Ctx) tops(in ssa.Instruction) []*ssa.Function { return c.P.Anchors(in.Parent()) }

// ErrChecked decides E8 for one call: its error is used, and with the error
// non-nil no success return of the enclosing function is reachable.
func (c *Ctx) ErrChecked(call ssa.CallInstruction) (ok bool, why string, at ssa.Instruction, undecided bool) {
	fn := call.Parent()
	key, used, has := c.errValueOf(call)
	if !has {
		if call.Value() == nil {
			return false, "the call is a go/defer statement: its error result is discarded", call, false
		}
		return true, "callee returns no error", call, false
	}
	if !used {
		return false, "the error result is dropped (no use of it)", call, false
	}
	tops := c.tops(call)
	if len(tops) == 0 {
		return false, "the helper containing this call has no caller", call, false
	}
	for _, top := range tops {
		x := c.explorer(top)
		x.From = call
		x.Assume = map[string]bool{"(" + key + "==nil)": false}
		x.Target = func(in ssa.Instruction, st *eng.State) bool { return x.IsSuccessReturn(in, st) }
		x.StopAtTarget = true
		hits := x.Run()
		if x.Exhausted {
			return false, "state limit exceeded", call, true
		}
		if len(hits) > 0 {
			return false, fmt.Sprintf("with a non-nil error from this call a success return of %s is still reachable (path %s)", c.name(top), eng.BlockTrace(top, hits[0].Trace)), hits[0].Instr, false
		}
	}
	_ = fn
	return true, "a non-nil error from this call reaches no success return", call, false
}

// ObErrCheckedTolerating is ObErrChecked for a site whose error may be
// accepted by a tolerance predicate (a not-found test, an errors.Is against
// one errno): with every call of the named predicates in the exploring
// function pinned to false, the error reaches no success return. A negated
// or dropped tolerance test therefore still fails.
func (c *Ctx) ObErrCheckedTolerating(rule string, call ssa.CallInstruction, why string, preds ...string) bool {
	key, _, has := c.errValueOf(call)
	con := c.siteName(call) + "/tolerating"
	c.R.CallSites++
	if !has {
		c.R.OK(rule, con, c.pos(call), "callee returns no error")
		return true
	}
	tops := c.tops(call)
	if len(tops) == 0 {
		tops = []*ssa.Function{call.Parent()}
	}
	for _, top := range tops {
		x := c.explorer(top)
		x.From = call
		x.Assume = map[string]bool{"(" + key + "==nil)": false}
		n := 0
		for _, pc := range eng.Calls(top) {
			if cv, ok := pc.(*ssa.Call); ok && c.P.IsCallTo(pc, preds...) {
				x.Assume[x.RegKey(cv)] = false
				n++
			}
		}
		if n == 0 {
			// the tolerance is spelled in a way this rule does not interpret
			c.R.OK(rule, con, c.pos(call), "tolerated ("+why+"); "+c.name(top)+" calls none of "+strings.Join(preds, "/")+": not decided")
			return true
		}
		x.Target = func(in ssa.Instruction, st *eng.State) bool { return x.IsSuccessReturn(in, st) }
		x.StopAtTarget = true
		hits := x.Run()
		if x.Exhausted {
			c.R.Undecided(rule, con, c.pos(call), "state limit exceeded")
			return false
		}
		if len(hits) > 0 {
			c.R.Fail(rule, con, c.pos(call), fmt.Sprintf("with a non-nil error from this call that %s does not accept, a success return of %s is still reachable (path %s) (offending exit %s)", strings.Join(preds, "/"), c.name(top), eng.BlockTrace(top, hits[0].Trace), c.pos(hits[0].Instr)))
			return false
		}
	}
	c.R.OK(rule, con, c.pos(call), "tolerated: "+why+"; an error the predicate does not accept reaches no success return")
	return true
}

// ObErrCheckedVia is ObErrChecked for a site with a fallback: after a
// non-nil error a success return is reachable only through one of the via
// calls (the fallback, whose own error is a must-check site).
func (c *Ctx) ObErrCheckedVia(rule string, call ssa.CallInstruction, why string, via ...string) bool {
	key, _, has := c.errValueOf(call)
	con := c.siteName(call) + "/fallback"
	c.R.CallSites++
	if !has {
		c.R.OK(rule, con, c.pos(call), "callee returns no error")
		return true
	}
	tops := c.tops(call)
	if len(tops) == 0 {
		tops = []*ssa.Function{call.Parent()}
	}
	for _, top := range tops {
		x := c.explorer(top)
		x.From = call
		x.Assume = map[string]bool{"(" + key + "==nil)": false}
		x.Barrier = func(in ssa.Instruction, st *eng.State) bool {
			return in != ssa.Instruction(call) && c.P.IsCallTo(in, via...)
		}
		x.Target = func(in ssa.Instruction, st *eng.State) bool { return x.IsSuccessReturn(in, st) }
		x.StopAtTarget = true
		hits := x.Run()
		if x.Exhausted {
			c.R.Undecided(rule, con, c.pos(call), "state limit exceeded")
			return false
		}
		if len(hits) > 0 {
			c.R.Fail(rule, con, c.pos(call), fmt.Sprintf("with a non-nil error from this call a success return of %s is reachable without the fallback %s (path %s) (offending exit %s)", c.name(top), strings.Join(via, "/"), eng.BlockTrace(top, hits[0].Trace), c.pos(hits[0].Instr)))
			return false
		}
	}
	c.R.OK(rule, con, c.pos(call), "tolerated: "+why+"; without the fallback the error reaches no success return")
	return true
}

// ObErrChecked records E8 for a call site.
func (c *Ctx) ObErrChecked(rule string, call ssa.CallInstruction) bool {
	ok, why, at, und := c.ErrChecked(call)
	con := c.siteName(call)
	c.R.CallSites++
	if und {
		c.R.Undecided(rule, con, c.pos(call), why)
		return false
	}
	if !ok {
		c.R.Fail(rule, con, c.pos(call), why+" (offending exit "+c.pos(at)+")")
		return false
	}
	c.R.OK(rule, con, c.pos(call), why)
	return true
}

// CheckedCall is the predicate form: in is a call to one of names whose error
// is checked (E8). Used as the "A" of must-pass-through rules.
func (c *Ctx) checkedCallPred(names ...string) func(ssa.Instruction) bool {
	cache := map[ssa.Instruction]bool{}
	return func(in ssa.Instruction) bool {
		if !c.P.IsCallTo(in, names...) {
			return false
		}
		if v, ok := cache[in]; ok {
			return v
		}
		ok, _, _, und := c.ErrChecked(in.(ssa.CallInstruction))
		cache[in] = ok && !und
		return cache[in]
	}
}

func (c *Ctx) callPred(names ...string) func(ssa.Instruction) bool {
	return func(in ssa.Instruction) bool { return c.P.IsCallTo(in, names...) }
}

func isReturn(in ssa.Instruction) bool { _, ok := in.(*ssa.Return); return ok }

// ---------------------------------------------------------------------------
// E6: provenance (backward slice)
// ---------------------------------------------------------------------------

// DerivesFrom reports whether v depends (through operands, up to depth) on a
// value satisfying pred. Loads from local cells follow the stores to the cell.
func (c *Ctx) DerivesFrom(v ssa.Value, pred func(ssa.Value) bool, depth int) bool {
	return c.DerivesFromAvoiding(v, pred, nil, depth)
}

// DerivesFromAvoiding is DerivesFrom that does not look through values
// satisfying stop (a masking call, a narrowing conversion): "the value is the
// source itself, not something cut out of it".
func (c *Ctx) DerivesFromAvoiding(v ssa.Value, pred, stop func(ssa.Value) bool, depth int) bool {
	seen := map[ssa.Value]bool{}
	var rec func(v ssa.Value, d int) bool
	rec = func(v ssa.Value, d int) bool {
		if v == nil || seen[v] || d > depth {
			return false
		}
		seen[v] = true
		if stop != nil && stop(v) {
			return false
		}
		if pred(v) {
			return true
		}
		if rs := eng.ResolveAll(v); len(rs) != 1 || rs[0] != v {
			// a helper parameter or result: the values it stands for
			for _, r := range rs {
				if rec(r, d+1) {
					return true
				}
			}
			return false
		}
		switch x := v.(type) {
		case *ssa.Phi:
			// a boolean phi fed by constants is a short-circuit expression
			// (a && b, a || !b): the tested operand is in the branch, not in an edge
			if b, ok := x.Type().Underlying().(*types.Basic); ok && b.Kind() == types.Bool {
				for _, pr := range x.Block().Preds {
					if iff, ok := pr.Instrs[len(pr.Instrs)-1].(*ssa.If); ok && rec(iff.Cond, d+1) {
						return true
					}
				}
			}
		case *ssa.MakeMap:
			for _, r := range eng.Referrers(x) {
				if mu, ok := r.(*ssa.MapUpdate); ok && mu.Map == ssa.Value(x) {
					if rec(mu.Key, d+1) || rec(mu.Value, d+1) {
						return true
					}
				}
			}
		case *ssa.Alloc:
			for _, r := range eng.Referrers(x) {
				switch fa := r.(type) {
				case *ssa.Store:
					if fa.Addr == ssa.Value(x) && rec(fa.Val, d+1) {
						return true
					}
				case *ssa.FieldAddr:
					for _, r2 := range eng.Referrers(fa) {
						if s, ok := r2.(*ssa.Store); ok && s.Addr == ssa.Value(fa) && rec(s.Val, d+1) {
							return true
						}
					}
				case *ssa.IndexAddr:
					for _, r2 := range eng.Referrers(fa) {
						if s, ok := r2.(*ssa.Store); ok && s.Addr == ssa.Value(fa) && rec(s.Val, d+1) {
							return true
						}
					}
				}
			}
		case *ssa.UnOp:
			if x.Op == token.MUL {
				// load: follow stores to a local/captured cell
				switch a := x.X.(type) {
				case *ssa.Alloc:
					for _, s := range c.P.AllocStores(a) { // (the owner's stores and those of literals capturing it)
						if rec(s.Val, d+1) {
							return true
						}
					}
				case *ssa.FreeVar:
					if root := c.P.Census().Root(a); root != nil {
						for _, r := range eng.Referrers(root) {
							if s, ok := r.(*ssa.Store); ok && s.Addr == root && rec(s.Val, d+1) {
								return true
							}
						}
					}
				case *ssa.FieldAddr:
					// field of a local struct: follow stores to the same field of the same base
					for _, r := range eng.Referrers(a.X) {
						if fa, ok := r.(*ssa.FieldAddr); ok && fa.Field == a.Field {
							for _, r2 := range eng.Referrers(fa) {
								if s, ok := r2.(*ssa.Store); ok && s.Addr == fa && rec(s.Val, d+1) {
									return true
								}
							}
						}
					}
				}
			}
		}
		if in, ok := v.(ssa.Instruction); ok {
			for _, op := range in.Operands(nil) {
				if *op != nil && rec(*op, d+1) {
					return true
				}
			}
		}
		return false
	}
	return rec(v, 0)
}

// isCallValueTo: v is the result of a call to one of names.
func (c *Ctx) isCallValueTo(v ssa.Value, names ...string) bool {
	call, ok := v.(*ssa.Call)
	if !ok {
		return false
	}
	return c.P.IsCallTo(call, names...)
}

// isFieldLoad: v loads field owner (e.g. "types.Stat.Mode").
func isFieldLoad(v ssa.Value, owner string) bool {
	// through transparent helpers: every value the operand can stand for
	for _, r := range eng.ResolveAll(v) {
		o, _, _, ok := eng.LoadedFieldRaw(r)
		if !ok || o != owner {
			return false
		}
	}
	return true
}

// fieldStoresIn lists stores in fn whose address is field `owner`.
func fieldStoresIn(fn *ssa.Function, owner string) []*ssa.Store {
	var out []*ssa.Store
	eng.Instrs(fn, func(in ssa.Instruction) {
		s, ok := in.(*ssa.Store)
		if !ok {
			return
		}
		if fa, ok := s.Addr.(*ssa.FieldAddr); ok && eng.FieldOwnerName(fa.X.Type(), fa.Field) == owner {
			out = append(out, s)
		}
	})
	return out
}

// fieldLoadsIn lists loads of field `owner` in fn.
func fieldLoadsIn(fn *ssa.Function, owner string) []ssa.Value {
	var out []ssa.Value
	eng.Instrs(fn, func(in ssa.Instruction) {
		if v, ok := in.(ssa.Value); ok && isFieldLoad(v, owner) {
			out = append(out, v)
		}
	})
	return out
}

// structLitFields: the constant/non-constant fields set on a composite
// literal allocated by `alloc`.
func structLitFields(alloc ssa.Value) map[string]ssa.Value {
	out := map[string]ssa.Value{}
	for _, r := range eng.Referrers(alloc) {
		fa, ok := r.(*ssa.FieldAddr)
		if !ok {
			continue
		}
		fv := eng.FieldVar(fa.X.Type(), fa.Field)
		if fv == nil {
			continue
		}
		for _, r2 := range eng.Referrers(fa) {
			if s, ok := r2.(*ssa.Store); ok && s.Addr == fa {
				out[eng.CanonFieldName(fa.X.Type(), fa.Field)] = s.Val
			}
		}
	}
	return out
}

// packetLit describes a *types.Packet composite literal passed to SendMsg.
type packetLit struct {
	Type    int64
	HasType bool
	Fields  map[string]ssa.Value
}

// packetOf resolves the message argument of a SendMsg call to a packet literal.
// sendForwarderArg: call is a call of a module function that does nothing but
// hand one of its parameters to the stream's SendMsg and return the result
// (`func (s *sender) send(p *types.Packet) error { return s.conn.SendMsg(p) }`);
// returns the argument that is sent. Such a call is read as the send itself:
// the message is known at the call, not inside the forwarder.
func (c *Ctx) sendForwarderArg(call ssa.CallInstruction) (ssa.Value, bool) {
	if call == nil || call.Common().IsInvoke() {
		return nil, false
	}
	callee := call.Common().StaticCallee()
	if callee == nil || len(callee.Blocks) != 1 || !c.P.Transparent(callee) {
		return nil, false
	}
	var send ssa.CallInstruction
	n := 0
	for _, in := range callee.Blocks[0].Instrs {
		if ci, ok := in.(ssa.CallInstruction); ok {
			n++
			if c.P.IsCallTo(in, "(fsutil.Stream).SendMsg", "fsutil.(*syncStream).SendMsg") {
				send = ci
			}
		}
	}
	if send == nil || n != 1 {
		return nil, false
	}
	sa := send.Common().Args
	if len(sa) == 0 {
		return nil, false
	}
	raw := sa[len(sa)-1]
	if mi, ok := raw.(*ssa.MakeInterface); ok {
		raw = mi.X
	}
	q, ok := raw.(*ssa.Parameter)
	if !ok || q.Parent() != callee {
		return nil, false
	}
	ret, ok := callee.Blocks[0].Instrs[len(callee.Blocks[0].Instrs)-1].(*ssa.Return)
	if !ok || len(ret.Results) != 1 || ret.Results[0] != send.Value() {
		return nil, false
	}
	for i, p := range callee.Params {
		if p == q && i < len(call.Common().Args) {
			return call.Common().Args[i], true
		}
	}
	return nil, false
}

// sendResultKeys: the registers whose value is "the result of this send": the
// call itself and, for a call of a forwarder, the SendMsg inside it - the
// explorer names the source of a returned value by that one. The inner
// register is shared by all calls of the forwarder, so it is only given when
// every call of it in fn is a send of the same kind.
func (c *Ctx) sendResultKeys(fn *ssa.Function, call ssa.CallInstruction, sameKind func(ssa.CallInstruction) bool) []string {
	out := []string{c.reg(call.Value())}
	if _, fwd := c.sendForwarderArg(call); !fwd {
		return out
	}
	callee := call.Common().StaticCallee()
	all := true
	eng.Instrs(fn, func(in ssa.Instruction) {
		if ci, ok := in.(ssa.CallInstruction); ok && !ci.Common().IsInvoke() && ci.Common().StaticCallee() == callee && !sameKind(ci) {
			all = false
		}
	})
	if !all {
		return out
	}
	for _, in := range callee.Blocks[0].Instrs {
		if ci, ok := in.(ssa.CallInstruction); ok && ci.Value() != nil {
			out = append(out, c.reg(ci.Value()))
		}
	}
	return out
}

func (c *Ctx) packetOf(call ssa.CallInstruction) (*packetLit, bool) {
	args := call.Common().Args
	if len(args) == 0 {
		return nil, false
	}
	if fa, ok := c.sendForwarderArg(call); ok {
		args = []ssa.Value{fa}
	}
	v := eng.Strip(args[len(args)-1])
	al, ok := v.(*ssa.Alloc)
	if !ok {
		return nil, false
	}
	if !strings.HasSuffix(types.TypeString(al.Type(), nil), "types.Packet") {
		return nil, false
	}
	pl := &packetLit{Fields: structLitFields(al)}
	if t, ok := pl.Fields["Type"]; ok {
		if n, ok := eng.ConstInt(t); ok {
			pl.Type, pl.HasType = n, true
		}
	} else {
		pl.Type, pl.HasType = 0, true // zero value = PACKET_STAT
	}
	return pl, true
}

// Packet type constants (types/wire.proto). Resolved from the loaded program
// so that a renumbering is noticed.
func (c *Ctx) packetConst(name string) (int64, bool) {
	pk := c.P.Pkg("types")
	if pk == nil {
		return 0, false
	}
	obj := pk.Types.Scope().Lookup(name)
	cst, ok := obj.(*types.Const)
	if !ok {
		return 0, false
	}
	s := cst.Val().ExactString()
	var n int64
	fmt.Sscan(s, &n)
	return n, true
}

// packetLikeConst resolves an integer constant of a module package by name.
func (c *Ctx) packetLikeConst(pkg, name string) (int64, bool) {
	pk := c.P.Pkg(pkg)
	if pk == nil {
		return 0, false
	}
	cst, ok := pk.Types.Scope().Lookup(name).(*types.Const)
	if !ok {
		return 0, false
	}
	var n int64
	fmt.Sscan(cst.Val().ExactString(), &n)
	return n, true
}

// sendsPacket: in is a SendMsg (invoke on fsutil.Stream or syncStream method)
// of a literal packet of the named type.
func (c *Ctx) sendsPacket(in ssa.Instruction, typeName string) bool {
	if !c.P.IsCallTo(in, "(fsutil.Stream).SendMsg", "fsutil.(*syncStream).SendMsg") {
		ci, isCall := in.(ssa.CallInstruction)
		if !isCall {
			return false
		}
		if _, fwd := c.sendForwarderArg(ci); !fwd {
			return false
		}
	}
	pl, ok := c.packetOf(in.(ssa.CallInstruction))
	if !ok || !pl.HasType {
		return false
	}
	want, ok := c.packetConst(typeName)
	return ok && pl.Type == want
}

// joinParts describes the elements of a filepath.Join / path.Join call:
// constants by value, field loads by owner, parameters by name.
func (c *Ctx) joinParts(v ssa.Value) ([]string, bool) {
	call, ok := v.(*ssa.Call)
	if !ok {
		// a parameter of a helper no rule names, a single-assignment local:
		// every value it can stand for must be the same Join
		rs := eng.ResolveAll(v)
		if len(rs) == 0 || (len(rs) == 1 && rs[0] == v) {
			return nil, false
		}
		var first []string
		for i, r := range rs {
			if _, isCall := eng.Strip(r).(*ssa.Call); !isCall {
				return nil, false
			}
			ps, isJoin := c.joinParts(eng.Strip(r))
			if !isJoin {
				return nil, false
			}
			if i == 0 {
				first = ps
			} else if strings.Join(ps, "\x00") != strings.Join(first, "\x00") {
				return nil, false
			}
		}
		return first, true
	}
	n := c.P.CalleeName(call)
	if n != "path/filepath.Join" && n != "path.Join" {
		return nil, false
	}
	if len(call.Call.Args) != 1 {
		return nil, false
	}
	sl, ok := call.Call.Args[0].(*ssa.Slice)
	if !ok {
		return nil, false
	}
	arr, ok := sl.X.(*ssa.Alloc)
	if !ok {
		return nil, false
	}
	parts := map[int]string{}
	max := -1
	for _, r := range eng.Referrers(arr) {
		ia, ok := r.(*ssa.IndexAddr)
		if !ok {
			continue
		}
		idx, ok := eng.ConstInt(ia.Index)
		if !ok {
			return nil, false
		}
		for _, r2 := range eng.Referrers(ia) {
			if s, ok := r2.(*ssa.Store); ok && s.Addr == ssa.Value(ia) {
				parts[int(idx)] = c.describeOperand(s.Val)
				if int(idx) > max {
					max = int(idx)
				}
			}
		}
	}
	var out []string
	for i := 0; i <= max; i++ {
		out = append(out, parts[i])
	}
	return out, true
}

func (c *Ctx) describeOperand(v ssa.Value) string {
	v = eng.Strip(v)
	if s, ok := eng.ConstString(v); ok {
		return "c:" + s
	}
	if o, _, _, ok := eng.LoadedField(v); ok {
		return "field:" + o
	}
	if p, ok := v.(*ssa.Parameter); ok {
		return "p:" + p.Name()
	}
	if parts, ok := c.joinParts(v); ok {
		return "join(" + strings.Join(parts, ",") + ")"
	}
	if call, ok := v.(*ssa.Call); ok {
		return "call:" + c.P.CalleeName(call)
	}
	return "v:" + v.Name()
}

// SuccessAfter: for every path from the entry of fn to `via`, continue from
// the state reached there (plus assume) and report a success return that is
// reachable without passing isBarrier.
func (c *Ctx) SuccessAfter(fn *ssa.Function, via ssa.Instruction, pre, assume map[string]bool, isBarrier func(ssa.Instruction) bool) (*eng.Hit, bool, int) {
	x1 := c.explorer(fn)
	x1.Assume = pre
	x1.Target = func(in ssa.Instruction, st *eng.State) bool { return in == via }
	x1.StopAtTarget = true
	hits := x1.Run()
	if x1.Exhausted {
		return nil, true, 0
	}
	for i := range hits {
		x2 := c.explorer(fn)
		x2.From = via
		x2.Init = hits[i].St
		as := map[string]bool{}
		for k, v := range pre {
			as[k] = v
		}
		for k, v := range assume {
			as[k] = v
		}
		x2.Assume = as
		x2.Barrier = func(in ssa.Instruction, st *eng.State) bool { return isBarrier(in) }
		x2.Target = func(in ssa.Instruction, st *eng.State) bool { return x2.IsSuccessReturn(in, st) }
		x2.StopAtTarget = true
		h := x2.Run()
		if x2.Exhausted {
			return nil, true, len(hits)
		}
		if len(h) > 0 {
			h[0].Trace = append(append([]int(nil), hits[i].Trace...), h[0].Trace...)
			return &h[0], false, len(hits)
		}
	}
	return nil, false, len(hits)
}

// ObSuccessAfter records the obligation of SuccessAfter.
func (c *Ctx) ObSuccessAfter(rule, construct string, fn *ssa.Function, via ssa.Instruction, pre, assume map[string]bool, isBarrier func(ssa.Instruction) bool, what string) bool {
	hit, und, n := c.SuccessAfter(fn, via, pre, assume, isBarrier)
	switch {
	case und:
		c.R.Undecided(rule, construct, c.pos(via), "state limit exceeded while exploring "+c.name(fn))
		return false
	case n == 0:
		c.R.Fail(rule, construct, c.pos(via), "the site is not reachable from the entry of "+c.name(fn)+" under the stated assumptions (dead code or moved anchor)")
		return false
	case hit != nil:
		c.R.Fail(rule, construct, c.pos(hit.Instr), fmt.Sprintf("after this site a success return of %s is reachable without %s; path %s", c.name(fn), what, eng.BlockTrace(fn, hit.Trace)))
		return false
	}
	c.R.OK(rule, construct, c.pos(via), fmt.Sprintf("on each of the %d path state(s) reaching this site, no success return is reachable without %s", n, what))
	return true
}

// staleElementStores finds stores through the address of a slice element
// (&S[i] or a field of it) where S was loaded from a struct field or a
// captured variable and that field/variable can be re-assigned (append,
// re-slice) on a path between the load and the store: the store then goes to
// the old backing array or the wrong element.
func (c *Ctx) staleElementStores(fn *ssa.Function) (checked int, bad []ssa.Instruction) {
	eng.Instrs(fn, func(in ssa.Instruction) {
		st, ok := in.(*ssa.Store)
		if !ok {
			return
		}
		// address chain down to an IndexAddr
		var a ssa.Value = st.Addr
		var ia *ssa.IndexAddr
		for i := 0; i < 4 && ia == nil; i++ {
			switch x := a.(type) {
			case *ssa.FieldAddr:
				a = x.X
			case *ssa.IndexAddr:
				ia = x
			default:
				// the element address handed out by a helper no rule names
				// (`cur := v.enclosingDir(dir)`): what the helper returns
				if r := eng.Resolve(a); r != a {
					a = r
				} else {
					i = 4
				}
			}
		}
		if ia == nil {
			return
		}
		if _, isSlice := ia.X.Type().Underlying().(*types.Slice); !isSlice {
			return
		}
		// (a helper that is handed the slice and updates its elements by
		// index: the header it indexes is the one its caller just loaded)
		if q, isP := ia.X.(*ssa.Parameter); isP && q.Parent() != fn {
			checked++
			return
		}
		ld, ok := ia.X.(*ssa.UnOp)
		if !ok || ld.Op != token.MUL {
			return
		}
		// where the slice header lives
		sameCell := func(addr ssa.Value) bool {
			switch h := ld.X.(type) {
			case *ssa.FieldAddr:
				fa, ok := addr.(*ssa.FieldAddr)
				return ok && eng.FieldVar(fa.X.Type(), fa.Field) == eng.FieldVar(h.X.Type(), h.Field)
			case *ssa.FreeVar, *ssa.Alloc:
				return addr == ld.X
			}
			return false
		}
		switch ld.X.(type) {
		case *ssa.FieldAddr, *ssa.FreeVar, *ssa.Alloc:
		default:
			return
		}
		checked++
		// a path load -> reassignment -> store ?
		x1 := c.explorer(fn)
		x1.From = ld
		x1.Barrier = func(i2 ssa.Instruction, s2 *eng.State) bool { return i2 == in }
		x1.Target = func(i2 ssa.Instruction, s2 *eng.State) bool {
			s3, ok := i2.(*ssa.Store)
			return ok && s3 != st && sameCell(s3.Addr)
		}
		for _, h := range x1.Run() {
			x2 := c.explorer(fn)
			x2.From = h.Instr
			x2.Init = h.St
			x2.Barrier = func(i2 ssa.Instruction, s2 *eng.State) bool { return i2 == ssa.Instruction(ld) }
			x2.Target = func(i2 ssa.Instruction, s2 *eng.State) bool { return i2 == in }
			x2.StopAtTarget = true
			if len(x2.Run()) > 0 {
				bad = append(bad, in)
				return
			}
		}
	})
	return
}

// ObNoStaleElementStores records the stale-element rule for fn.
func (c *Ctx) ObNoStaleElementStores(rule string, fn *ssa.Function, floor int, what string) {
	n, bad := c.staleElementStores(fn)
	for i, b := range bad {
		c.R.Fail(rule, fmt.Sprintf("%s/stale-element-store#%d", c.name(fn), i+1), c.pos(b), "a "+what+" is updated through an element address taken before the slice was re-assigned (append may move the backing array, a re-slice may drop the element): the update is lost")
	}
	if len(bad) == 0 {
		c.R.OK(rule, c.name(fn)+"/element-stores-fresh", c.P.Pos(fn.Pos()), fmt.Sprintf("%d store(s) into slice elements, each through an address computed after the last re-assignment of the slice", n))
	}
	c.R.Floor(rule, "stores into slice elements in "+c.name(fn), n, floor)
}

// loadedCell: v (looked at through transparent helpers) is a load of one
// memory cell; its identity, "" otherwise.
func (c *Ctx) loadedCell(v ssa.Value) string {
	id := ""
	for _, r := range eng.ResolveAll(v) {
		k := c.P.LoadedCell(r)
		if k == "" {
			// a field written once where its object is built resolves to the value itself
			if o := c.P.ObjID(r); o != "" {
				k = "obj:" + o
			}
		}
		if k == "" || (id != "" && k != id) {
			return ""
		}
		id = k
	}
	return id
}

// perCallMap: v (looked at through helpers and context-object fields) is a map
// made by one MakeMap in fn itself - not inside one of its closures - and kept
// in a variable or field that is assigned once: one map per call of fn.
func (c *Ctx) perCallMap(v ssa.Value, fn *ssa.Function) bool {
	rs := eng.ResolveAll(v)
	if len(rs) == 0 {
		return false
	}
	for _, r := range rs {
		switch x := r.(type) {
		case *ssa.MakeMap:
			if x.Parent() != fn {
				return false
			}
		case *ssa.UnOp:
			if x.Op != token.MUL {
				return false
			}
			sts := c.P.CellStores(c.P.CellID(x.X))
			if len(sts) != 1 {
				return false
			}
			mm, isMM := sts[0].Val.(*ssa.MakeMap)
			if !isMM || mm.Parent() != fn {
				return false
			}
		default:
			return false
		}
	}
	return true
}

// deferredFuncs lists the module functions fn defers: function literals and
// named functions or methods alike.
func (c *Ctx) deferredFuncs(fn *ssa.Function) []*ssa.Function {
	var out []*ssa.Function
	eng.Instrs(fn, func(in ssa.Instruction) {
		d, ok := in.(*ssa.Defer)
		if !ok {
			return
		}
		if mc, isMC := d.Call.Value.(*ssa.MakeClosure); isMC {
			if f := c.P.ClosureFn(mc); f != nil {
				out = append(out, f)
			}
			return
		}
		if f := d.Call.StaticCallee(); f != nil && c.P.InModule(f) {
			out = append(out, f)
		}
	})
	return out
}

// reqTest is one place in fn that decides "this stat can be asked for data":
// the protocol's predicate is `mode & io/fs.ModeType == 0`, spelled as a call
// of fileCanRequestData(mode), as os.FileMode(mode).IsRegular(), or as the bit
// test written out. key is an explorer key whose truth (after neg) means
// "requestable"; arg is the mode operand.
type reqTest struct {
	site ssa.Instruction
	key  string
	arg  ssa.Value
}

func (c *Ctx) modeTypeMask() int64 {
	var want int64 = -1
	for _, pk := range c.P.SSA.AllPackages() {
		if pk.Pkg.Path() == "io/fs" {
			if k, ok := pk.Pkg.Scope().Lookup("ModeType").(*types.Const); ok {
				fmt.Sscan(k.Val().ExactString(), &want)
			}
		}
	}
	return want
}

// requestableTests lists the tests in fn; pins(maps) returns the assumption
// "requestable == want" over all of them.
func (c *Ctx) requestableTests(fn *ssa.Function, x *eng.Explorer) []reqTest {
	var out []reqTest
	mask := c.modeTypeMask()
	eng.Instrs(fn, func(in ssa.Instruction) {
		switch v := in.(type) {
		case *ssa.Call:
			switch c.P.CalleeName(v) {
			case "fsutil.fileCanRequestData", "(io/fs.FileMode).IsRegular":
				if len(v.Call.Args) == 1 {
					out = append(out, reqTest{site: v, key: x.KeyAtEntry(v), arg: v.Call.Args[0]})
				}
			}
		case *ssa.BinOp:
			if v.Parent() != nil && c.name(v.Parent()) == "fsutil.fileCanRequestData" {
				return // the predicate's own definition
			}
			if operand, m, setWhenTrue, ok := eng.BitTest(v); ok && mask > 0 && m == mask {
				k := x.KeyAtEntry(v)
				if setWhenTrue {
					k = "!" + k // type bits set: not requestable
				}
				out = append(out, reqTest{site: v, key: k, arg: operand})
			}
		}
	})
	return out
}

// reqPins: the assumption that every requestable test in ts says `want`.
func reqPins(ts []reqTest, want bool) map[string]bool {
	as := map[string]bool{}
	for _, t := range ts {
		k, w := t.key, want
		for strings.HasPrefix(k, "!") {
			k, w = k[1:], !w
		}
		as[k] = w
	}
	return as
}

// lookupsOfField lists the comma-ok map lookups executed by fn (through
// helpers no rule names) whose map is field owner - per call chain, so that a
// small set type with a `has` method shared by several owners is attributed
// to the owner this function hands it.
func (c *Ctx) lookupsOfField(fn *ssa.Function, owner string) []*ssa.Lookup {
	var out []*ssa.Lookup
	seen := map[*ssa.Lookup]bool{}
	eng.InstrsCtx(fn, func(in ssa.Instruction, stack []*ssa.Call) {
		l, ok := in.(*ssa.Lookup)
		if !ok || !l.CommaOk || seen[l] {
			return
		}
		rs := eng.ResolveAllCtx(l.X, stack)
		if len(rs) == 0 {
			return
		}
		for _, r := range rs {
			o, _, _, isLoad := eng.LoadedFieldRaw(r)
			if !isLoad || o != owner {
				return
			}
		}
		seen[l] = true
		out = append(out, l)
	})
	return out
}

// lenPins finds the emptiness tests of fn - comparisons of len(v), for v
// accepted by of, with 0 or 1 - and returns explorer pins that fix each of
// them to the truth it has when v is empty (empty=true) or non-empty.
func (c *Ctx) lenPins(fn *ssa.Function, x *eng.Explorer, empty bool, of func(ssa.Value) bool) map[string]bool {
	out := map[string]bool{}
	eng.Instrs(fn, func(in ssa.Instruction) {
		b, ok := in.(*ssa.BinOp)
		if !ok {
			return
		}
		isLen := func(v ssa.Value) bool {
			call, ok := v.(*ssa.Call)
			return ok && c.P.CalleeName(call) == "builtin:len" && of(call.Call.Args[0])
		}
		l, k, op := b.X, b.Y, b.Op
		if !isLen(l) {
			l, k = b.Y, b.X
			switch op { // mirror
			case token.LSS:
				op = token.GTR
			case token.GTR:
				op = token.LSS
			case token.LEQ:
				op = token.GEQ
			case token.GEQ:
				op = token.LEQ
			}
		}
		kv, isK := eng.ConstInt(k)
		if !isLen(l) || !isK {
			return
		}
		var whenEmpty bool
		switch {
		case kv == 0 && op == token.EQL, kv == 0 && op == token.LEQ, kv == 1 && op == token.LSS:
			whenEmpty = true
		case kv == 0 && op == token.NEQ, kv == 0 && op == token.GTR, kv == 1 && op == token.GEQ:
			whenEmpty = false
		default:
			return
		}
		out[x.RegKey(b)] = whenEmpty == empty
	})
	return out
}

// emptinessTests finds the tests of "v is empty" for string, slice and map
// values v accepted by of - `v == ""`, `v != ""`, `"" != v`, and comparisons of
// len(v) with 0 or 1 - and returns explorer assumptions (register pins) that
// give each of them the truth it has when v is NON-empty (nonEmpty=true) or
// empty.
func (c *Ctx) emptinessTests(fn *ssa.Function, x *eng.Explorer, nonEmpty bool, of func(ssa.Value) bool) map[string]bool {
	out := c.lenPins(fn, x, !nonEmpty, of)
	eng.Instrs(fn, func(in ssa.Instruction) {
		b, ok := in.(*ssa.BinOp)
		if !ok || (b.Op != token.EQL && b.Op != token.NEQ) {
			return
		}
		for i, o := range []ssa.Value{b.X, b.Y} {
			if s, isS := eng.ConstString([]ssa.Value{b.Y, b.X}[i]); isS && s == "" && of(o) {
				out[x.RegKey(b)] = (b.Op == token.NEQ) == nonEmpty
			}
		}
	})
	return out
}
