package props

import (
	"fmt"
	"go/token"
	"go/types"
	"strings"

	"fsverif/eng"

	"golang.org/x/tools/go/ssa"
)

func init() {
	register("C09", "Structural clauses of the walk contract: the protocol's path comparison is evaluated under every one of the 13 weak orderings of (byte of p1, byte of p2, separator) and must put the separator lowest and otherwise follow byte order, with the length difference as the tail (finite-ordering evaluation of the SSA branch conditions, exhaustive); the root is never reported; stats are built truthfully by one constructor from lstat-based sources (shared with C01); the inode map is per walk and link names come only from a hit under Nlink>1; sub-root walks prefix path, non-symlink link names and the reported path; the walker's root is the checked result of filepath.EvalSymlinks, tested to be a directory; enumeration is delegated to filepath.WalkDir on root+target. Extended attributes are listed for every kind of entry (loadXattr cannot succeed without llistxattr, mkstat not without loadXattr). Does not decide 'every entry exactly once' or directory-before-contents (contract of filepath.WalkDir, trusted).", runC09)
	register("C12", "Structural clauses of the stream validator: a fatal test exists for every lexical rejection class (unclean, absolute, '.', '..', '../' prefix), the last-child comparison rejects the orderings equal and greater and accepts less, a foreign parent is rejected, directory levels are opened only for non-delete directories, and the path comparison is the separator-lowest byte order under all 13 weak orderings of its atoms (exhaustive finite-ordering evaluation). Does not decide the 'if and only if' for all sequences nor the binary search over the open-directory stack.", runC12)
}

func runC09(c *Ctx) {
	r09_1(c, "R09.1")
	r09_2(c, "R09.2")
	r01_1(c, "R09.3")
	r09_4(c, "R09.4")
	r09_5(c, "R09.5")
	r09_6(c, "R09.6")
	r09_7(c, "R09.7")
	r09_8(c, "R09.8")
	if c.Unix() {
		r09_9(c, "R09.9")
		// true stats: device numbers decoded in full (shared with C02)
		r02_8(c, "R09.10")
	}
}

func runC12(c *Ctx) {
	r03_2(c, "R12.1")
	r03_3(c, "R12.2")
	r09_1(c, "R12.3")
}

// weak orderings of three atoms a, b, s as rank triples.
func weakOrderings3() [][3]int {
	var out [][3]int
	seen := map[[3]int]bool{}
	for a := 0; a < 3; a++ {
		for b := 0; b < 3; b++ {
			for s := 0; s < 3; s++ {
				// normalise ranks to dense form
				vals := map[int]bool{a: true, b: true, s: true}
				rank := map[int]int{}
				k := 0
				for v := 0; v < 3; v++ {
					if vals[v] {
						rank[v] = k
						k++
					}
				}
				t := [3]int{rank[a], rank[b], rank[s]}
				if !seen[t] {
					seen[t] = true
					out = append(out, t)
				}
			}
		}
	}
	return out
}

// R09.1 finite-ordering evaluation of ComparePath.
func r09_1(c *Ctx, rule string) {
	c.R.Rule(rule, "ComparePath's per-index decision, evaluated under each of the 13 weak orderings of (p1[i], p2[i], separator), returns -1/+1/continue as 'separator first, then byte order' prescribes; the tail is len(p1)-len(p2)")
	fn := c.Fn(rule, "fsutil.ComparePath")
	if fn == nil {
		return
	}
	if len(fn.Params) != 2 {
		c.R.Undecided(rule, "fsutil.ComparePath/shape", c.P.Pos(fn.Pos()), "ComparePath does not take two parameters")
		return
	}
	sep := int64('/')
	if c.P.GOOS == "windows" {
		sep = '\\'
	}
	atomOf := func(v ssa.Value) (int, bool) {
		v = eng.Strip(v)
		switch x := v.(type) {
		case *ssa.Lookup:
			if x.X == ssa.Value(fn.Params[0]) {
				return 0, true
			}
			if x.X == ssa.Value(fn.Params[1]) {
				return 1, true
			}
		case *ssa.Index:
			if x.X == ssa.Value(fn.Params[0]) {
				return 0, true
			}
			if x.X == ssa.Value(fn.Params[1]) {
				return 1, true
			}
		case *ssa.Const:
			if k, ok := eng.ConstInt(x); ok && k == sep {
				return 2, true
			}
		}
		return 0, false
	}
	// all byte comparisons of the function
	type cmp struct {
		bo   *ssa.BinOp
		l, r int
	}
	var cmps []cmp
	undecided := ""
	var loopCond *ssa.BinOp // i < min
	var incr ssa.Instruction
	eng.Instrs(fn, func(in ssa.Instruction) {
		bo, ok := in.(*ssa.BinOp)
		if !ok {
			return
		}
		switch bo.Op {
		case token.EQL, token.NEQ, token.LSS, token.LEQ, token.GTR, token.GEQ:
			l, okl := atomOf(bo.X)
			r, okr := atomOf(bo.Y)
			if okl && okr {
				cmps = append(cmps, cmp{bo, l, r})
				return
			}
			if _, isPhi := bo.X.(*ssa.Phi); isPhi && in.Block().Comment == "for.loop" {
				loopCond = bo
				return
			}
			if okl != okr {
				undecided = fmt.Sprintf("the comparison %s at %s mixes a path byte with something that is neither a path byte nor the separator constant", bo.String(), c.pos(bo))
			}
		case token.ADD:
			if _, isPhi := bo.X.(*ssa.Phi); isPhi {
				if k, ok := eng.ConstInt(bo.Y); ok && k == 1 {
					incr = bo
				}
			}
		}
	})
	con := "fsutil.ComparePath"
	if undecided != "" || len(cmps) == 0 || loopCond == nil || incr == nil {
		if undecided == "" {
			undecided = "not a byte-wise comparison loop of the expected shape (index phi, i < min test, i+1 step, comparisons among p1[i], p2[i], separator)"
		}
		c.R.Undecided(rule, con+"/shape", c.P.Pos(fn.Pos()), undecided)
		return
	}
	// the two lookups must use the same index (the loop phi)
	eng.Instrs(fn, func(in ssa.Instruction) {
		var idx ssa.Value
		switch l := in.(type) {
		case *ssa.Lookup:
			idx = l.Index
		case *ssa.Index:
			idx = l.Index
		default:
			return
		}
		if _, isPhi := idx.(*ssa.Phi); !isPhi {
			undecided = "a path byte is not indexed by the loop counter"
		}
	})
	if undecided != "" {
		c.R.Undecided(rule, con+"/shape", c.P.Pos(fn.Pos()), undecided)
		return
	}
	x0 := c.explorer(fn)
	loopKey := x0.KeyAtEntry(loopCond)
	names := []string{"a=p1[i]", "b=p2[i]", "s=sep"}
	evalCmp := func(op token.Token, l, r int) bool {
		switch op {
		case token.EQL:
			return l == r
		case token.NEQ:
			return l != r
		case token.LSS:
			return l < r
		case token.LEQ:
			return l <= r
		case token.GTR:
			return l > r
		default:
			return l >= r
		}
	}
	n := 0
	for _, ord := range weakOrderings3() {
		n++
		as := map[string]bool{loopKey: true}
		for _, cm := range cmps {
			as[x0.KeyAtEntry(cm.bo)] = evalCmp(cm.bo.Op, ord[cm.l], ord[cm.r])
		}
		x := c.explorer(fn)
		x.Assume = as
		continued := false
		x.Barrier = func(in ssa.Instruction, st *eng.State) bool {
			if in == incr {
				continued = true
				return true
			}
			return false
		}
		var results []string
		x.Target = func(in ssa.Instruction, st *eng.State) bool {
			r, ok := in.(*ssa.Return)
			if !ok {
				return false
			}
			results = append(results, x.KeyOf(r.Results[0], st))
			return true
		}
		x.StopAtTarget = true
		x.Run()
		a, b, s := ord[0], ord[1], ord[2]
		var want string
		switch {
		case a == b:
			want = "continue"
		case a == s:
			want = "c:-1"
		case b == s:
			want = "c:1"
		case a < b:
			want = "c:-1"
		default:
			want = "c:1"
		}
		got := "?"
		switch {
		case x.Exhausted:
			got = "state limit"
		case continued && len(results) == 0:
			got = "continue"
		case !continued && len(results) == 1:
			got = results[0]
		default:
			got = fmt.Sprintf("ambiguous(continue=%v, returns=%v)", continued, results)
		}
		desc := fmt.Sprintf("ordering rank(%s)=%d rank(%s)=%d rank(%s)=%d", names[0], a, names[1], b, names[2], s)
		oc := fmt.Sprintf("%s/ordering[a%d,b%d,s%d]", con, a, b, s)
		if strings.HasPrefix(got, "ambiguous") || got == "state limit" {
			c.R.Undecided(rule, oc, c.P.Pos(fn.Pos()), desc+": the branch outcome is not determined by the comparisons ("+got+")")
			continue
		}
		c.R.Check(got == want, rule, oc, c.P.Pos(fn.Pos()), desc+": outcome "+pretty(got)+" as specified", desc+": outcome "+pretty(got)+", the separator-lowest byte order requires "+pretty(want))
	}
	c.R.Exact(rule, "weak orderings of (p1[i], p2[i], separator) evaluated", n, 13)
	// tail
	x := c.explorer(fn)
	x.Assume = map[string]bool{loopKey: false}
	var tail []string
	x.Target = func(in ssa.Instruction, st *eng.State) bool {
		if r, ok := in.(*ssa.Return); ok {
			tail = append(tail, x.KeyOf(r.Results[0], st))
			return true
		}
		return false
	}
	x.StopAtTarget = true
	x.Run()
	okTail := len(tail) == 1 && tail[0] == "(len(p:"+fn.Params[0].Name()+")-len(p:"+fn.Params[1].Name()+"))"
	c.R.Check(okTail, rule, con+"/tail", c.P.Pos(fn.Pos()), "common prefix exhausted: returns len(p1)-len(p2)", fmt.Sprintf("when one path is a prefix of the other ComparePath returns %v, not len(p1)-len(p2)", tail))
	// the loop bound is min(len(p1), len(p2))
	bound := loopCond.Y
	okBound := c.DerivesFrom(bound, func(v ssa.Value) bool { return c.isCallValueTo(v, "fsutil.min", "builtin:min") }, 3)
	c.R.Check(okBound, rule, con+"/bound", c.pos(loopCond), "the loop runs to min(len(p1), len(p2))", "the comparison loop is not bounded by min(len(p1), len(p2))")
}

func pretty(k string) string {
	switch k {
	case "c:-1":
		return "return -1"
	case "c:1":
		return "return +1"
	}
	return k
}

// R09.2 root never reported.
func r09_2(c *Ctx, rule string) {
	c.R.Rule(rule, "fs.Walk never reports the root: the callback is unreachable when the relative path is \".\"")
	w := c.Fn(rule, "fsutil.(*fs).Walk")
	if w == nil {
		return
	}
	lit := c.ClosureCalling(rule, w, "freevar:fn")
	if lit == nil {
		return
	}
	x := c.explorer(lit)
	var keys []string
	eng.Instrs(lit, func(in ssa.Instruction) {
		bo, ok := in.(*ssa.BinOp)
		if !ok || (bo.Op != token.EQL && bo.Op != token.NEQ) {
			return
		}
		if s, ok := eng.ConstString(bo.Y); ok && s == "." {
			if c.DerivesFrom(bo.X, func(v ssa.Value) bool { return c.isCallValueTo(v, "path/filepath.Rel") }, 3) {
				k := x.KeyAtEntry(bo)
				if bo.Op == token.NEQ {
					k = "!" + k
				}
				keys = append(keys, k)
			}
		}
	})
	con := c.name(lit) + "/root-skip"
	if len(keys) == 0 {
		c.R.Fail(rule, con, c.P.Pos(lit.Pos()), "no test of the relative path against \".\": the walk reports the root itself")
		return
	}
	as := map[string]bool{}
	for _, k := range keys {
		as[k] = true
	}
	c.ObUnreachable(rule, con, lit, as, c.callPred("freevar:fn"), "the walk callback", "the entry is the root (relative path \".\")")
	// the reported path is the relative one
	for _, call := range c.P.CallsTo(lit, "freevar:fn") {
		ok := c.DerivesFrom(call.Common().Args[0], func(v ssa.Value) bool { return c.isCallValueTo(v, "path/filepath.Rel") }, 3)
		c.R.Check(ok, rule, c.siteName(call)+"/relative-path", c.pos(call), "the reported path is relative to the root", "the reported path is not the result of filepath.Rel(root, path)")
	}
}

// R09.4 one inode map per walk.
func r09_4(c *Ctx, rule string) {
	c.R.Rule(rule, "the inode map handed to mkstat is allocated once per fs.Walk; setUnixOpt sets Linkname only from a hit in that map under Nlink > 1 and otherwise records the path under the inode")
	w := c.Fn(rule, "fsutil.(*fs).Walk")
	if w == nil {
		return
	}
	lit := c.ClosureCalling(rule, w, "freevar:fn")
	if lit != nil {
		n := 0
		for _, s := range fieldStoresIn(lit, "fsutil.DirEntryInfo.seenFiles") {
			n++
			ok := c.perCallMap(s.Val, w)
			c.R.Check(ok, rule, c.name(lit)+"/inode-map", c.pos(s), "the entry's inode map is the one map made at the start of this Walk", "the inode map given to entries is not a single map allocated once per Walk (per-entry or shared maps break first-seen hard-link detection)")
		}
		c.R.Floor(rule, "DirEntryInfo literals carrying the inode map", n, 1)
	}
	if !c.Unix() {
		return
	}
	su := c.Fn(rule, "fsutil.setUnixOpt")
	if su == nil {
		return
	}
	x := c.explorer(su)
	base := c.name(su)
	var look *ssa.Lookup
	eng.Instrs(su, func(in ssa.Instruction) {
		if l, ok := in.(*ssa.Lookup); ok && l.CommaOk {
			if _, isParam := l.X.(*ssa.Parameter); isParam {
				look = l
			}
		}
	})
	if look == nil {
		c.R.Fail(rule, base+"/inode-lookup", c.P.Pos(su.Pos()), "setUnixOpt does not look the inode up in the map it is given")
		return
	}
	c.R.Check(c.DerivesFrom(look.Index, func(v ssa.Value) bool { return isFieldLoad(v, "syscall.Stat_t.Ino") }, 3), rule, base+"/inode-key", c.pos(look), "keyed by Stat_t.Ino", "the inode map is not keyed by the inode number")
	okKey := c.reg(look) + "#1"
	stores := fieldStoresIn(su, "types.Stat.Linkname")
	for i, s := range stores {
		con := fmt.Sprintf("%s/linkname-store#%d", base, i+1)
		isS := func(in ssa.Instruction) bool { return in == ssa.Instruction(s) }
		c.R.Check(c.DerivesFrom(s.Val, func(v ssa.Value) bool { return v == ssa.Value(look) }, 3), rule, con+"/value", c.pos(s), "the link name is the path recorded for the inode", "Linkname is set to something other than the path recorded in the inode map")
		c.ObUnreachable(rule, con+"/needs-hit", su, map[string]bool{okKey: false}, isS, "setting Linkname", "the inode is not in the map")
	}
	c.R.Floor(rule, "stores to Stat.Linkname in setUnixOpt", len(stores), 1)
	// Nlink > 1 guard
	var nl []string
	eng.Instrs(su, func(in ssa.Instruction) {
		bo, ok := in.(*ssa.BinOp)
		if !ok {
			return
		}
		if c.DerivesFrom(bo.X, func(v ssa.Value) bool { return isFieldLoad(v, "syscall.Stat_t.Nlink") }, 2) {
			if k, ok := eng.ConstInt(bo.Y); ok {
				key := x.KeyAtEntry(bo)
				switch {
				case bo.Op == token.GTR && k == 1, bo.Op == token.GEQ && k == 2, bo.Op == token.NEQ && k == 1:
					nl = append(nl, key)
				case bo.Op == token.LEQ && k == 1, bo.Op == token.LSS && k == 2, bo.Op == token.EQL && k == 1:
					nl = append(nl, "!"+key)
				}
			}
		}
	})
	if len(nl) == 0 {
		c.R.Fail(rule, base+"/nlink-guard", c.P.Pos(su.Pos()), "no Nlink > 1 test: an inode number reused on another device or by an unrelated entry is reported as a hard link")
	} else {
		as := map[string]bool{}
		for _, k := range nl {
			as[k] = false
		}
		for i, s := range stores {
			c.ObUnreachable(rule, fmt.Sprintf("%s/linkname-store#%d/needs-nlink", base, i+1), su, as, func(in ssa.Instruction) bool { return in == ssa.Instruction(s) }, "setting Linkname", "Nlink is 1")
		}
	}
	// recording
	nrec := 0
	eng.Instrs(su, func(in ssa.Instruction) {
		mu, ok := in.(*ssa.MapUpdate)
		if !ok {
			return
		}
		if _, isParam := mu.Map.(*ssa.Parameter); !isParam {
			return
		}
		nrec++
		con := fmt.Sprintf("%s/record#%d", base, nrec)
		_, valParam := eng.Strip(mu.Value).(*ssa.Parameter)
		c.R.Check(valParam && c.DerivesFrom(mu.Key, func(v ssa.Value) bool { return isFieldLoad(v, "syscall.Stat_t.Ino") }, 3), rule, con+"/entry", c.pos(mu), "records inode -> this entry's path", "the inode map records something other than inode -> the entry's path")
		as := map[string]bool{okKey: true}
		for _, k := range nl {
			as[k] = true
		}
		c.ObUnreachable(rule, con+"/first-only", su, as, func(in ssa.Instruction) bool { return in == ssa.Instruction(mu) }, "re-recording the inode", "the entry was reported as a link to the first path")
		c.ObReachable(rule, con+"/first-recorded", su, map[string]bool{okKey: false}, func(in ssa.Instruction) bool { return in == ssa.Instruction(mu) }, "recording the inode", "the inode is seen for the first time")
	})
	c.R.Floor(rule, "recordings in the inode map", nrec, 1)
}

// R09.5 sub-root prefixing.
func r09_5(c *Ctx, rule string) {
	c.R.Rule(rule, "subDirFS.Walk prefixes stat.Path, non-symlink Linkname and the reported path with the sub-root's name")
	w := c.Fn(rule, "fsutil.(*subDirFS).Walk")
	if w == nil {
		return
	}
	var lit *ssa.Function
	for _, cl := range eng.Closures(w) {
		if len(fieldStoresIn(cl, "types.Stat.Path")) > 0 {
			lit = cl
		}
	}
	if lit == nil {
		c.R.Fail(rule, c.name(w)+"/path-prefix", c.P.Pos(w.Pos()), "the sub-walk callback no longer rewrites stat.Path")
		return
	}
	c.R.Analysed(c.name(lit))
	base := c.name(lit)
	isDirName := func(v ssa.Value) bool {
		o, b, _, ok := eng.LoadedField(v)
		if !ok || o != "types.Stat.Path" {
			return false
		}
		// rooted at the captured Dir (d.Stat.Path), not at the entry's stat
		return isFieldLoad(b, "fsutil.Dir.Stat")
	}
	var joinWithDir func(v ssa.Value, other func(ssa.Value) bool) bool
	joinWithDir = func(v ssa.Value, other func(ssa.Value) bool) bool {
		call, ok := v.(*ssa.Call)
		if !ok {
			return false
		}
		n := c.P.CalleeName(call)
		if n != "path.Join" && n != "path/filepath.Join" {
			// a helper no rule names that computes the new name: each of its
			// results is such a Join or the old name unchanged (a relative
			// symlink target keeps its spelling)
			rs := eng.ResolveAll(call)
			if len(rs) == 0 || (len(rs) == 1 && rs[0] == ssa.Value(call)) {
				return false
			}
			joins := 0
			for _, r := range rs {
				switch {
				case joinWithDir(r, other):
					joins++
				case other(eng.Strip(r)) || c.DerivesFrom(r, other, 2):
				default:
					return false
				}
			}
			return joins > 0
		}
		return c.DerivesFrom(call, isDirName, 8) && c.DerivesFrom(call, other, 8)
	}
	for i, s := range fieldStoresIn(lit, "types.Stat.Path") {
		ok := joinWithDir(s.Val, func(v ssa.Value) bool { return isFieldLoad(v, "types.Stat.Path") && !isDirName(v) })
		c.R.Check(ok, rule, fmt.Sprintf("%s/path-store#%d", base, i+1), c.pos(s), "stat.Path = Join(sub-root name, stat.Path)", "stat.Path is not rewritten as Join(sub-root name, original path)")
	}
	ls := fieldStoresIn(lit, "types.Stat.Linkname")
	x := c.explorer(lit)
	// (a predicate helper shared with other functions stands here for what this callback hands it)
	defer c.scope(lit)()
	symAll := modeBitTests(c, lit, x, modeSymlink)
	// ... decided on the ENTRY's own info, not on some other stat in scope
	sym := c.modeBitTestsOn(lit, x, modeSymlink, func(v ssa.Value) bool {
		return c.DerivesFrom(v, func(y ssa.Value) bool { return c.isCallValueTo(y, "(io/fs.DirEntry).Info") }, 4)
	})
	c.R.Check(len(sym) == len(symAll), rule, base+"/symlink-test-on-entry", c.P.Pos(lit.Pos()), "the symlink test reads the mode of the entry being reported", "the test that tells a symlink's target from a hard-link name reads the mode of something other than the entry being reported (the sub-root's own stat?): symlink targets are prefixed like hard-link names")
	nonSym, symArm := 0, 0
	for i, s := range ls {
		ok := joinWithDir(s.Val, func(v ssa.Value) bool { return isFieldLoad(v, "types.Stat.Linkname") })
		con := fmt.Sprintf("%s/linkname-store#%d", base, i+1)
		c.R.Check(ok, rule, con, c.pos(s), "Linkname = Join(sub-root name, Linkname)", "a Linkname rewrite does not prefix the sub-root name")
		// is this the non-symlink arm?
		as := map[string]bool{}
		for _, k := range sym {
			as[k] = false
		}
		if hit, _ := c.ReachableUnder(lit, as, nil, func(in ssa.Instruction) bool { return in == ssa.Instruction(s) }); hit != nil {
			nonSym++
		}
		// ... or the symlink arm (absolute targets are re-rooted below the sub-root)
		as2 := map[string]bool{}
		for _, k := range sym {
			as2[k] = true
		}
		if hit, _ := c.ReachableUnder(lit, as2, nil, func(in ssa.Instruction) bool { return in == ssa.Instruction(s) }); hit != nil {
			symArm++
		}
	}
	c.R.Check(symArm >= 1 || len(sym) == 0, rule, base+"/absolute-symlink-prefix", c.P.Pos(lit.Pos()), "absolute symlink targets are re-rooted below the sub-root", "the target of an absolute symlink inside a sub-root is no longer re-rooted below the sub-root's name: in the composite view it points at the composite root's namespace")
	c.R.Check(nonSym >= 1 && len(sym) > 0, rule, base+"/hardlink-prefix", c.P.Pos(lit.Pos()), "hard-link names (non-symlink arm) are prefixed", "the link name of a hard link inside a sub-root is not prefixed with the sub-root's name: it names a path outside the composite view")
	for _, call := range c.P.CallsTo(lit, "freevar:fn") {
		ok := joinWithDir(call.Common().Args[0], func(v ssa.Value) bool { _, isP := v.(*ssa.Parameter); return isP })
		c.R.Check(ok, rule, c.siteName(call)+"/reported-path", c.pos(call), "the reported path is Join(sub-root name, p)", "the path reported for a sub-root entry lacks the sub-root's name")
	}
}

// R09.6 enumeration delegated to filepath.WalkDir.
func r09_6(c *Ctx, rule string) {
	c.R.Rule(rule, "fs.Walk enumerates with filepath.WalkDir on Join(root, target) and does not reorder")
	w := c.Fn(rule, "fsutil.(*fs).Walk")
	if w == nil {
		return
	}
	calls := c.P.CallsTo(w, "path/filepath.WalkDir")
	c.R.Exact(rule, "filepath.WalkDir calls in fs.Walk", len(calls), 1)
	for _, call := range calls {
		a0 := call.Common().Args[0]
		ok := c.isCallValueTo(a0, "path/filepath.Join") &&
			c.DerivesFrom(a0, func(v ssa.Value) bool { return isFieldLoad(v, "fsutil.fs.root") }, 3) &&
			c.DerivesFrom(a0, func(v ssa.Value) bool {
				p, isP := v.(*ssa.Parameter)
				return isP && types.TypeString(p.Type(), nil) == "string"
			}, 3)
		c.R.Check(ok, rule, c.siteName(call)+"/root-target", c.pos(call), "walks Join(fs.root, target)", "filepath.WalkDir is not applied to Join(fs.root, target)")
		c.ObErrChecked(rule+"/checked", call)
	}
	for _, f := range append([]*ssa.Function{w}, eng.Closures(w)...) {
		for _, call := range eng.Calls(f) {
			n := c.P.CalleeName(call)
			if strings.HasPrefix(n, "sort.") || strings.HasPrefix(n, "slices.Sort") {
				c.R.Fail(rule, c.siteName(call)+"/reorder", c.pos(call), "fs.Walk reorders entries itself")
			}
		}
	}
}

// R09.7: an entry's Info() builds the stat once and hands out clones.
func r09_7(c *Ctx, rule string) {
	c.R.Rule(rule, "DirEntryInfo.Info: the stat is built by mkstat from the entry's own on-disk path, relative path and the walk's inode map, cached, and every call returns a clone (consumers rewrite Path/Linkname in place)")
	fn := c.Fn(rule, "fsutil.(*DirEntryInfo).Info")
	if fn == nil {
		return
	}
	base := c.name(fn)
	for _, call := range c.P.CallsTo(fn, "fsutil.mkstat") {
		a := call.Common().Args
		ok := isFieldLoad(a[0], "fsutil.DirEntryInfo.origpath") && isFieldLoad(a[1], "fsutil.DirEntryInfo.path") && isFieldLoad(a[3], "fsutil.DirEntryInfo.seenFiles") &&
			c.DerivesFrom(a[2], func(v ssa.Value) bool { return c.isCallValueTo(v, "(io/fs.DirEntry).Info") }, 3)
		c.R.Check(ok, rule, c.siteName(call)+"/args", c.pos(call), "mkstat(origpath, path, entry info, inode map)", "mkstat is not given the entry's (on-disk path, relative path, lstat info, inode map)")
		c.ObErrChecked(rule+"/checked", call)
	}
	c.R.Floor(rule, "mkstat calls in DirEntryInfo.Info", len(c.P.CallsTo(fn, "fsutil.mkstat")), 1)
	for _, call := range c.P.CallsTo(fn, "(io/fs.DirEntry).Info") {
		c.ObErrChecked(rule+"/checked", call)
	}
	// the stat is built once: after a successful mkstat every success return
	// has stored it in the entry (mkstat consults and updates the walk's inode
	// map, it is not idempotent)
	for _, call := range c.P.CallsTo(fn, "fsutil.mkstat") {
		cl, isCall := call.(*ssa.Call)
		if !isCall {
			continue
		}
		ek, _, _ := c.errValueOf(cl)
		c.ObSuccessNeeds(rule, c.siteName(call)+"/cached", fn, call, map[string]bool{"(" + ek + "==nil)": true}, func(in ssa.Instruction) bool {
			st, ok := in.(*ssa.Store)
			if !ok {
				return false
			}
			fa, ok := st.Addr.(*ssa.FieldAddr)
			if !ok || eng.FieldOwnerName(fa.X.Type(), fa.Field) != "fsutil.DirEntryInfo.Stat" {
				return false
			}
			return c.DerivesFrom(st.Val, func(y ssa.Value) bool { return y == ssa.Value(cl) }, 4)
		}, "storing the stat in the entry (so that a second Info() does not run mkstat again)")
	}
	// every success return wraps a clone
	ex := c.explorer(fn)
	bad, good := 0, 0
	ex.Target = func(in ssa.Instruction, st *eng.State) bool {
		if !ex.IsSuccessReturn(in, st) {
			return false
		}
		r := in.(*ssa.Return)
		al, ok := eng.Strip(r.Results[0]).(*ssa.Alloc)
		okc := false
		if ok {
			for _, v := range structLitFields(al) {
				if c.isCallValueTo(v, "types.(*Stat).Clone", "types.(*Stat).CloneVT") {
					okc = true
				}
			}
		}
		if okc {
			good++
		} else {
			bad++
		}
		return false
	}
	ex.Run()
	c.R.Check(bad == 0 && good > 0, rule, base+"/returns-clone", c.P.Pos(fn.Pos()), "the FileInfo returned wraps a clone of the cached stat", "Info() hands out the cached stat itself: a consumer that rewrites Path or Linkname (sender, link reset, sub-root walk) corrupts what the next consumer sees")
	// cached: mkstat only when not yet built
	x := c.explorer(fn)
	as := map[string]bool{}
	eng.Instrs(fn, func(in ssa.Instruction) {
		bo, ok := in.(*ssa.BinOp)
		if !ok || (bo.Op != token.EQL && bo.Op != token.NEQ) {
			return
		}
		if k, isC := bo.Y.(*ssa.Const); isC && k.IsNil() && isFieldLoad(bo.X, "fsutil.DirEntryInfo.Stat") {
			as[x.KeyAtEntry(bo)] = bo.Op == token.NEQ
		}
	})
	if len(as) > 0 {
		c.ObUnreachable(rule, base+"/built-once", fn, as, c.callPred("fsutil.mkstat"), "building the stat again", "it was built before (hard-link detection is first-seen: a second mkstat would report the entry as a link to itself)")
	} else {
		c.R.Fail(rule, base+"/built-once", c.P.Pos(fn.Pos()), "Info() does not cache the stat: a second call re-runs mkstat, which now finds the inode in the map and reports the entry as a hard link to itself")
	}
}

// R09.8: the walker's root is a real directory path.
//
// fs.Walk hands root+target to filepath.WalkDir, which lstats its argument:
// if the stored root still ends in a symlink the root is reported as a
// non-directory, the callback for it is skipped as ".", and the walk of the
// whole tree is silently empty. NewFS therefore stores the path
// filepath.EvalSymlinks returned, and checks that call and that it is a
// directory.
func r09_8(c *Ctx, rule string) {
	c.R.Rule(rule, "NewFS stores in fs.root the result of a checked filepath.EvalSymlinks of its argument, after a checked os.Stat of that result said 'directory'")
	nf := c.Fn(rule, "fsutil.NewFS")
	if nf == nil {
		return
	}
	var ev *ssa.Call
	for _, call := range c.P.CallsTo(nf, "path/filepath.EvalSymlinks") {
		ev, _ = call.(*ssa.Call)
	}
	if ev == nil {
		c.R.Fail(rule, c.name(nf)+"/resolves-root", c.P.Pos(nf.Pos()), "NewFS no longer resolves symlinks in the root path")
		return
	}
	c.ObErrChecked(rule+"/checked", ev)
	resolved := func(v ssa.Value) bool {
		v = eng.Canon(v)
		e, ok := v.(*ssa.Extract)
		return ok && e.Index == 0 && e.Tuple == ssa.Value(ev)
	}
	stores := fieldStoresIn(nf, "fsutil.fs.root")
	c.R.Floor(rule, "stores to fs.root in NewFS", len(stores), 1)
	for i, st := range stores {
		c.R.Check(resolved(st.Val), rule, fmt.Sprintf("%s/root-store#%d/resolved", c.name(nf), i+1), c.pos(st), "fs.root is the resolved path",
			"fs.root is not the path filepath.EvalSymlinks returned: with a root given as a symlink to a directory filepath.WalkDir lstats the link, and the walk of the whole tree is silently empty")
	}
	// the directory test is made on the resolved path and guards the success return
	for _, call := range c.P.CallsTo(nf, "os.Stat", "os.Lstat") {
		c.ObErrChecked(rule+"/checked", call)
		c.R.Check(resolved(call.Common().Args[0]), rule, c.siteName(call)+"/arg", c.pos(call), "the resolved path is inspected", "the directory test is not made on the resolved path")
	}
	x := c.explorer(nf)
	as := map[string]bool{}
	for _, k := range c.dirTestKeys(nf, x, func(v ssa.Value) bool { return true }) {
		as[k] = false
	}
	if len(as) == 0 {
		c.R.Fail(rule, c.name(nf)+"/directory-test", c.P.Pos(nf.Pos()), "NewFS has no directory test of the root")
	} else {
		hit, und := c.SuccessAvoiding(nf, nil, as, nil, nil)
		c.R.Check(!und && hit == nil, rule, c.name(nf)+"/directory-test", c.P.Pos(nf.Pos()), "a root that is not a directory is an error", "NewFS succeeds although the root is not a directory")
	}
}

// R09.9: extended attributes are listed for every kind of entry.
//
// trusted.* and security.* attributes are legal on symlinks, fifos, devices
// and sockets; "true stats" means llistxattr of the entry, whatever it is.
// loadXattr therefore has no way to succeed without having listed them, and
// mkstat no way to succeed without loadXattr.
func r09_9(c *Ctx, rule string) {
	c.R.Rule(rule, "every success return of loadXattr is preceded by the LListxattr of the path, and every success return of mkstat by a checked loadXattr: no entry type is exempt")
	lx := c.Fn(rule, "fsutil.loadXattr")
	mk := c.Fn(rule, "fsutil.mkstat")
	if lx == nil || mk == nil {
		return
	}
	list := c.callPred("github.com/containerd/continuity/sysx.LListxattr")
	c.R.Floor(rule, "LListxattr calls in loadXattr", len(c.P.CallsTo(lx, "github.com/containerd/continuity/sysx.LListxattr")), 1)
	c.ObSuccessNeeds(rule, c.name(lx)+"/success-needs-list", lx, nil, nil, list, "listing the entry's extended attributes")
	c.ObSuccessNeeds(rule, c.name(mk)+"/success-needs-xattrs", mk, nil, nil, c.checkedCallPred("fsutil.loadXattr"), "a checked loadXattr")
}
