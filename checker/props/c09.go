package props

import (
	"fmt"
	"go/token"
	"go/types"
	"strings"

	"fsverif/eng"

	"golang.org/x/tools/go/ssa"
)

func init() {
	register("C09", "Structural clauses of the walk contract: the protocol's path comparison is evaluated under every one of the 13 weak orderings of (byte of p1, byte of p2, separator) and must put the separator lowest and otherwise follow byte order, with the length difference as the tail (finite-ordering evaluation of the SSA branch conditions, exhaustive); the root is never reported; stats are built truthfully by one constructor from lstat-based sources (shared with C01); the inode map is per walk and link names come only from a hit under Nlink>1; sub-root walks prefix path, non-symlink link names and the reported path, and report an entry built over the stat so rewritten, never the sub-walk's own entry; the walker's root is the checked result of filepath.EvalSymlinks, tested to be a directory; enumeration is delegated to filepath.WalkDir on root+target. Extended attributes are listed for every kind of entry (loadXattr cannot succeed without llistxattr, mkstat not without loadXattr). loadXattr reads each listed name from the listed path and records it under that name, records every successful read, stores a non-empty result and passes over only names with the platform's skipped prefix; sub-root link names are rewritten only when present (absolute symlink targets only), with the sub-root's name first; every byte access of the path comparison is guarded by index < length. Does not decide 'every entry exactly once' or directory-before-contents (contract of filepath.WalkDir, trusted).", runC09)
	register("C12", "Structural clauses of the stream validator: a fatal test exists for every lexical rejection class (unclean, absolute, '.', '..', '../' prefix), the last-child comparison rejects the orderings equal and greater and accepts less, a foreign parent is rejected, directory levels are opened only for non-delete directories, and the path comparison is the separator-lowest byte order under all 13 weak orderings of its atoms (exhaustive finite-ordering evaluation). The consumers of changes (both validators, the disk writer) call no method of the FileInfo of a delete. The open-directory stack is never re-sliced past its current length (upper bound affine in the length and the search result, checked at both ends of the search range), so the record of a closed directory cannot come back. Does not decide the 'if and only if' for all sequences nor the outcome of the binary search over the open-directory stack.", runC12)
}

func runC09(c *Ctx) {
	r09_1(c, "R09.1")
	r09_2(c, "R09.2")
	r01_1(c, "R09.3")
	r09_4(c, "R09.4")
	r09_5(c, "R09.5")
	r09_6(c, "R09.6")
	r09_7(c, "R09.7")
	r09_8(c, "R09.8")
	if c.Unix() {
		r09_9(c, "R09.9")
		// true stats: device numbers decoded in full (shared with C02)
		r02_8(c, "R09.10")
		r09_11(c, "R09.11")
	}
}

// R09.11: what listxattr names is what the stat carries.
//
// loadXattr lists the attribute names of the entry, reads each value and
// records name -> value in a map that becomes Stat.Xattrs. Decided on all
// paths: the value is read from the same path under the listed name; a
// successful read cannot reach the next name without being recorded; with a
// non-empty listing and a non-empty map no success return is reached without
// the map having been stored; a name that does not carry the skipped prefix
// cannot be passed over without being read.
func r09_11(c *Ctx, rule string) {
	c.R.Rule(rule, "loadXattr: each listed name is read from the same path (no-follow) and recorded under that name; a successful read is recorded before the next name; a non-empty result is stored in Stat.Xattrs before success; only names with the platform's skipped prefix are passed over")
	fn := c.Fn(rule, "fsutil.loadXattr")
	if fn == nil {
		return
	}
	base := c.name(fn)
	var list, get *ssa.Call
	for _, call := range eng.Calls(fn) {
		cv, ok := call.(*ssa.Call)
		if !ok {
			continue
		}
		switch c.P.CalleeName(call) {
		case "github.com/containerd/continuity/sysx.LListxattr":
			list = cv
		case "github.com/containerd/continuity/sysx.LGetxattr":
			get = cv
		}
	}
	if list == nil || get == nil {
		c.R.OK(rule, base+"/shape", c.P.Pos(fn.Pos()), "no LListxattr/LGetxattr pair (platform without xattrs, or a shape this rule does not interpret)")
		return
	}
	fromList := func(v ssa.Value) bool {
		return c.DerivesFrom(v, func(y ssa.Value) bool { return y == ssa.Value(list) }, 8)
	}
	samePath := eng.SameValue(eng.Canon(get.Call.Args[0]), eng.Canon(list.Call.Args[0]))
	c.R.Check(samePath && fromList(get.Call.Args[1]) && !fromList(get.Call.Args[0]), rule, c.siteName(get)+"/args", c.pos(get), "LGetxattr(the listed path, a listed name)", "the value is not read as LGetxattr(path that was listed, name from the listing)")
	var upd *ssa.MapUpdate
	eng.Instrs(fn, func(in ssa.Instruction) {
		if mu, ok := in.(*ssa.MapUpdate); ok && c.DerivesFrom(mu.Value, func(y ssa.Value) bool { return y == ssa.Value(get) }, 4) {
			upd = mu
		}
	})
	if upd == nil {
		c.R.Fail(rule, base+"/records", c.pos(get), "the value read is not recorded in a map")
		return
	}
	c.R.Check(eng.SameValue(eng.Canon(upd.Key), eng.Canon(get.Call.Args[1])), rule, base+"/records-under-its-name", c.pos(upd), "recorded under the name it was read for", "a value is recorded under a key other than the name it was read for")
	// the start of an iteration over the listing: the element access
	var iter ssa.Instruction
	eng.InstrsShallow(fn, func(in ssa.Instruction) {
		switch v := in.(type) {
		case *ssa.IndexAddr:
			if fromList(v.X) {
				iter = in
			}
		case *ssa.Index:
			if fromList(v.X) {
				iter = in
			}
		case *ssa.Next:
			iter = in
		}
	})
	isNextOrReturn := func(in ssa.Instruction) bool {
		if iter != nil && in == iter {
			return true
		}
		r, ok := in.(*ssa.Return)
		return ok && r.Parent() == fn
	}
	// a successful read is recorded
	if ek, _, has := c.errValueOf(get); has {
		x := c.explorer(fn)
		x.From = get
		x.Assume = map[string]bool{"(" + ek + "==nil)": true}
		x.Barrier = func(in ssa.Instruction, st *eng.State) bool { return in == ssa.Instruction(upd) }
		x.Target = func(in ssa.Instruction, st *eng.State) bool { return isNextOrReturn(in) }
		x.StopAtTarget = true
		hits := x.Run()
		c.R.Check(len(hits) == 0 && !x.Exhausted, rule, base+"/successful-read-recorded", c.pos(get), "a value read without error is recorded before the next name", "a value read without error can be dropped (the test of the read's error is inverted?): the stat lacks attributes the entry has")
	}
	// a non-empty result is stored
	var store *ssa.Store
	for _, s := range fieldStoresIn(fn, "types.Stat.Xattrs") {
		store = s
	}
	if store == nil {
		c.R.Fail(rule, base+"/stored", c.P.Pos(fn.Pos()), "loadXattr never assigns Stat.Xattrs")
		return
	}
	if lk, _, has := c.errValueOf(list); has {
		x := c.explorer(fn)
		x.Assume = c.lenPins(fn, x, false, func(ssa.Value) bool { return true })
		x.Assume["("+lk+"==nil)"] = true
		x.Barrier = func(in ssa.Instruction, st *eng.State) bool { return in == ssa.Instruction(store) }
		x.Target = func(in ssa.Instruction, st *eng.State) bool { return x.IsSuccessReturn(in, st) }
		x.StopAtTarget = true
		hits := x.Run()
		c.R.Check(len(hits) == 0 && !x.Exhausted, rule, base+"/non-empty-result-stored", c.pos(store), "with names listed and values recorded, success is not reached without Stat.Xattrs assigned", "with a non-empty listing and a non-empty map a success return is reachable without Stat.Xattrs having been assigned (an emptiness test is inverted?)")
	}
	// only names with the skipped prefix are passed over
	pins := map[string]bool{}
	shape := true
	x := c.explorer(fn)
	eng.Instrs(fn, func(in ssa.Instruction) {
		call, ok := in.(*ssa.Call)
		if !ok || c.P.CalleeName(call) != "strings.HasPrefix" {
			return
		}
		_, k0 := eng.ConstString(call.Call.Args[0])
		_, k1 := eng.ConstString(call.Call.Args[1])
		switch {
		case k1 && !k0:
			pins[x.RegKey(call)] = false
		case k0:
			shape = false
		}
	})
	c.R.Check(shape, rule, base+"/skip-test-shape", c.P.Pos(fn.Pos()), "the skipped-prefix test asks whether the name starts with the constant", "a prefix test in loadXattr has the constant prefix as the string and the name as the prefix (arguments swapped?)")
	if iter == nil {
		c.R.OK(rule, base+"/unskipped-name-read", c.P.Pos(fn.Pos()), "no loop over the listing of a shape this rule interprets")
		return
	}
	x.From = iter
	x.Assume = pins
	x.Barrier = func(in ssa.Instruction, st *eng.State) bool { return in == ssa.Instruction(get) }
	x.Target = func(in ssa.Instruction, st *eng.State) bool { return isNextOrReturn(in) }
	x.StopAtTarget = true
	hits := x.Run()
	c.R.Check(len(hits) == 0 && !x.Exhausted, rule, base+"/unskipped-name-read", c.pos(get), "a name without the skipped prefix is read before the next name", "a listed name that does not carry the skipped prefix can be passed over without being read (the skip test is inverted?): the stat lacks attributes the entry has")
}

func runC12(c *Ctx) {
	r03_2(c, "R12.1")
	r03_3(c, "R12.2")
	r09_1(c, "R12.3")
	r12_4(c, "R12.4")
	r12_5(c, "R12.5")
}

// R12.5: the stack of open directories only shrinks when it is cut.
//
// Validator.HandleChange finds the open directory an entry belongs to with a
// binary search over v.parentDirs and cuts the stack back to it. Entries that
// were cut off stay in the backing array: a cut whose upper bound can exceed
// the current length brings the record of a closed directory back, with its
// old last child, and a path inside a directory the stream already left is
// accepted. The bound is read as an affine expression a*len + b*s + k of the
// stack length and the search result s in [0, len]; it must be <= len for
// every s.
func r12_5(c *Ctx, rule string) {
	c.R.Rule(rule, "Validator.HandleChange: every re-slice of v.parentDirs has an upper bound that cannot exceed the current length (affine in the length and the sort.Search result, evaluated at both ends of the search range)")
	fn := c.Fn(rule, "fsutil.(*Validator).HandleChange")
	if fn == nil {
		return
	}
	const field = "fsutil.Validator.parentDirs"
	isStack := func(v ssa.Value) bool { return isFieldLoad(v, field) }
	type aff struct{ a, b, k int64 } // a*len + b*search + k
	var search *ssa.Call
	var eval func(v ssa.Value, d int) (aff, bool)
	eval = func(v ssa.Value, d int) (aff, bool) {
		if d > 12 {
			return aff{}, false
		}
		// (a named intermediate kept in a cell because a literal captures it,
		// or what a helper no rule names hands back)
		v = eng.Canon(v)
		if k, ok := eng.ConstInt(v); ok {
			return aff{0, 0, k}, true
		}
		switch x := v.(type) {
		case *ssa.Call:
			switch c.P.CalleeName(x) {
			case "builtin:len":
				if len(x.Call.Args) == 1 && isStack(x.Call.Args[0]) {
					return aff{1, 0, 0}, true
				}
			case "sort.Search":
				// the range searched is [0, len(stack))
				if n, ok := eval(x.Call.Args[0], d+1); ok && n == (aff{1, 0, 0}) {
					if search == nil || search == x {
						search = x
						return aff{0, 1, 0}, true
					}
				}
			}
		case *ssa.BinOp:
			l, ok1 := eval(x.X, d+1)
			r, ok2 := eval(x.Y, d+1)
			if !ok1 || !ok2 {
				return aff{}, false
			}
			switch x.Op {
			case token.ADD:
				return aff{l.a + r.a, l.b + r.b, l.k + r.k}, true
			case token.SUB:
				return aff{l.a - r.a, l.b - r.b, l.k - r.k}, true
			}
		case *ssa.Convert:
			return eval(x.X, d+1)
		case *ssa.ChangeType:
			return eval(x.X, d+1)
		}
		// what a helper no rule names hands back (`found := v.findParentDir(dir)`)
		if rs := eng.ResolveAll(v); len(rs) == 1 && rs[0] != v {
			return eval(rs[0], d+1)
		}
		return aff{}, false
	}
	stores := fieldStoresIn(fn, field)
	n := 0
	defer c.scope(fn)()
	eng.Instrs(fn, func(in ssa.Instruction) {
		sl, ok := in.(*ssa.Slice)
		if !ok || !isStack(sl.X) || sl.High == nil {
			return
		}
		n++
		con := fmt.Sprintf("%s/stack-cut#%d/bound", c.name(fn), n)
		search = nil
		e, ok := eval(sl.High, 0)
		if !ok {
			c.R.OK(rule, con, c.pos(sl), "the upper bound of this cut is not an affine expression of the stack length and a sort.Search over it: not decided")
			return
		}
		// the length the bound was computed from is the length at the cut
		for _, st := range stores {
			if search != nil && eng.Dominates(search, st) && eng.Dominates(st, sl) {
				c.R.OK(rule, con, c.pos(sl), "the stack is reassigned between the search and this cut: not decided")
				return
			}
		}
		// e(len, s) <= len for every len >= 1 and s in [0, len]
		fits := func(a, k int64) bool { // a*len + k <= len for all len >= 1
			return a < 1 && k <= 1-a || a == 1 && k <= 0
		}
		ok0 := fits(e.a, e.k)     // s = 0
		ok1 := fits(e.a+e.b, e.k) // s = len
		c.R.Check(ok0 && ok1, rule, con, c.pos(sl), fmt.Sprintf("the cut keeps at most the current length (bound = %d*len %+d*search %+d)", e.a, e.b, e.k),
			fmt.Sprintf("the stack is re-sliced to %d*len %+d*search %+d, which exceeds its length at one end of the search range: the record of a directory that was closed (it is still in the backing array, with its last child) becomes the open directory again and a path inside a directory the stream already left is accepted", e.a, e.b, e.k))
	})
	if n == 0 {
		c.R.OK(rule, c.name(fn)+"/stack-cut", c.P.Pos(fn.Pos()), "Validator.HandleChange does not re-slice v.parentDirs with an upper bound")
	}
}

// R12.4: a delete carries no file information.
//
// The diff hands deletions on with a FileInfo that has no stat behind it (and
// other producers pass nil): the consumers of changes look at the kind before
// they touch the FileInfo. With every test of the kind pinned to "delete", no
// method call on the FileInfo parameter is reachable.
func r12_4(c *Ctx, rule string) {
	c.R.Rule(rule, "Validator.HandleChange, Hardlinks.HandleChange and DiskWriter.HandleChange call no method of their FileInfo argument when the kind is ChangeKindDelete")
	n := 0
	for _, name := range []string{"fsutil.(*Validator).HandleChange", "fsutil.(*Hardlinks).HandleChange", "fsutil.(*DiskWriter).HandleChange"} {
		fn := c.Fn(rule, name)
		if fn == nil {
			continue
		}
		var kind, fi *ssa.Parameter
		for _, q := range fn.Params {
			t := types.TypeString(q.Type(), nil)
			switch {
			case strings.HasSuffix(t, "fsutil.ChangeKind"):
				kind = q
			case t == "io/fs.FileInfo" || t == "os.FileInfo":
				fi = q
			}
		}
		if kind == nil || fi == nil {
			c.R.OK(rule, c.name(fn)+"/shape", c.P.Pos(fn.Pos()), "no (kind, FileInfo) parameter pair (not interpreted)")
			continue
		}
		func() {
			defer c.scope(fn)()
			x := c.explorer(fn)
			pins := map[string]bool{}
			eng.Instrs(fn, func(in ssa.Instruction) {
				b, ok := in.(*ssa.BinOp)
				if !ok || (b.Op != token.EQL && b.Op != token.NEQ) {
					return
				}
				for i, o := range []ssa.Value{b.X, b.Y} {
					k, isK := eng.ConstInt([]ssa.Value{b.Y, b.X}[i])
					if !isK || k != 2 { // ChangeKindDelete
						continue
					}
					if eng.Strip(o) == ssa.Value(kind) || c.DerivesFrom(o, func(v ssa.Value) bool { return v == ssa.Value(kind) }, 2) {
						pins[x.RegKey(b)] = b.Op == token.EQL
					}
				}
			})
			con := c.name(fn) + "/delete-touches-no-fileinfo"
			if len(pins) == 0 {
				c.R.OK(rule, con, c.P.Pos(fn.Pos()), "the kind is not compared with ChangeKindDelete in a way this rule interprets")
				return
			}
			n++
			x.Assume = pins
			x.Target = func(in ssa.Instruction, st *eng.State) bool {
				call, ok := in.(ssa.CallInstruction)
				if !ok || !call.Common().IsInvoke() {
					return false
				}
				v := eng.Strip(call.Common().Value)
				return v == ssa.Value(fi) || c.DerivesFrom(v, func(y ssa.Value) bool { return y == ssa.Value(fi) }, 2)
			}
			x.StopAtTarget = true
			hits := x.Run()
			switch {
			case x.Exhausted:
				c.R.Undecided(rule, con, c.P.Pos(fn.Pos()), "state limit")
			case len(hits) > 0:
				c.R.Fail(rule, con, c.pos(hits[0].Instr), "a method of the FileInfo argument is called although the change is a delete (the diff hands deletes on without a stat: nil dereference); path "+eng.BlockTrace(fn, hits[0].Trace))
			default:
				c.R.OK(rule, con, c.P.Pos(fn.Pos()), "with the kind pinned to delete no method of the FileInfo is reachable")
			}
		}()
	}
	c.R.Floor(rule, "change consumers that test the kind before the FileInfo", n, 3)
}

// weak orderings of three atoms a, b, s as rank triples.
func weakOrderings3() [][3]int {
	var out [][3]int
	seen := map[[3]int]bool{}
	for a := 0; a < 3; a++ {
		for b := 0; b < 3; b++ {
			for s := 0; s < 3; s++ {
				// normalise ranks to dense form
				vals := map[int]bool{a: true, b: true, s: true}
				rank := map[int]int{}
				k := 0
				for v := 0; v < 3; v++ {
					if vals[v] {
						rank[v] = k
						k++
					}
				}
				t := [3]int{rank[a], rank[b], rank[s]}
				if !seen[t] {
					seen[t] = true
					out = append(out, t)
				}
			}
		}
	}
	return out
}

// R09.1 finite-ordering evaluation of ComparePath.
func r09_1(c *Ctx, rule string) {
	c.R.Rule(rule, "ComparePath's per-index decision, evaluated under each of the 13 weak orderings of (p1[i], p2[i], separator), returns -1/+1/continue as 'separator first, then byte order' prescribes; the tail is len(p1)-len(p2)")
	fn := c.Fn(rule, "fsutil.ComparePath")
	if fn == nil {
		return
	}
	if len(fn.Params) != 2 {
		c.R.Undecided(rule, "fsutil.ComparePath/shape", c.P.Pos(fn.Pos()), "ComparePath does not take two parameters")
		return
	}
	sep := int64('/')
	if c.P.GOOS == "windows" {
		sep = '\\'
	}
	atomOf := func(v ssa.Value) (int, bool) {
		v = eng.Strip(v)
		switch x := v.(type) {
		case *ssa.Lookup:
			if x.X == ssa.Value(fn.Params[0]) {
				return 0, true
			}
			if x.X == ssa.Value(fn.Params[1]) {
				return 1, true
			}
		case *ssa.Index:
			if x.X == ssa.Value(fn.Params[0]) {
				return 0, true
			}
			if x.X == ssa.Value(fn.Params[1]) {
				return 1, true
			}
		case *ssa.Const:
			if k, ok := eng.ConstInt(x); ok && k == sep {
				return 2, true
			}
		}
		return 0, false
	}
	// all byte comparisons of the function
	type cmp struct {
		bo   *ssa.BinOp
		l, r int
	}
	var cmps []cmp
	undecided := ""
	var loopCond *ssa.BinOp // i < min
	var incr ssa.Instruction
	eng.Instrs(fn, func(in ssa.Instruction) {
		bo, ok := in.(*ssa.BinOp)
		if !ok {
			return
		}
		switch bo.Op {
		case token.EQL, token.NEQ, token.LSS, token.LEQ, token.GTR, token.GEQ:
			l, okl := atomOf(bo.X)
			r, okr := atomOf(bo.Y)
			if okl && okr {
				cmps = append(cmps, cmp{bo, l, r})
				return
			}
			if _, isPhi := bo.X.(*ssa.Phi); isPhi && in.Block().Comment == "for.loop" {
				loopCond = bo
				return
			}
			if okl != okr {
				undecided = fmt.Sprintf("the comparison %s at %s mixes a path byte with something that is neither a path byte nor the separator constant", bo.String(), c.pos(bo))
			}
		case token.ADD:
			if _, isPhi := bo.X.(*ssa.Phi); isPhi {
				if k, ok := eng.ConstInt(bo.Y); ok && k == 1 {
					incr = bo
				}
			}
		}
	})
	con := "fsutil.ComparePath"
	if undecided != "" || len(cmps) == 0 || loopCond == nil || incr == nil {
		if undecided == "" {
			undecided = "not a byte-wise comparison loop of the expected shape (index phi, i < min test, i+1 step, comparisons among p1[i], p2[i], separator)"
		}
		c.R.Undecided(rule, con+"/shape", c.P.Pos(fn.Pos()), undecided)
		return
	}
	// the two lookups must use the same index (the loop phi)
	eng.Instrs(fn, func(in ssa.Instruction) {
		var idx ssa.Value
		switch l := in.(type) {
		case *ssa.Lookup:
			idx = l.Index
		case *ssa.Index:
			idx = l.Index
		default:
			return
		}
		if _, isPhi := idx.(*ssa.Phi); !isPhi {
			undecided = "a path byte is not indexed by the loop counter"
		}
	})
	if undecided != "" {
		c.R.Undecided(rule, con+"/shape", c.P.Pos(fn.Pos()), undecided)
		return
	}
	x0 := c.explorer(fn)
	loopKey := x0.KeyAtEntry(loopCond)
	names := []string{"a=p1[i]", "b=p2[i]", "s=sep"}
	evalCmp := func(op token.Token, l, r int) bool {
		switch op {
		case token.EQL:
			return l == r
		case token.NEQ:
			return l != r
		case token.LSS:
			return l < r
		case token.LEQ:
			return l <= r
		case token.GTR:
			return l > r
		default:
			return l >= r
		}
	}
	n := 0
	for _, ord := range weakOrderings3() {
		n++
		as := map[string]bool{loopKey: true}
		for _, cm := range cmps {
			as[x0.KeyAtEntry(cm.bo)] = evalCmp(cm.bo.Op, ord[cm.l], ord[cm.r])
		}
		x := c.explorer(fn)
		x.Assume = as
		continued := false
		x.Barrier = func(in ssa.Instruction, st *eng.State) bool {
			if in == incr {
				continued = true
				return true
			}
			return false
		}
		var results []string
		x.Target = func(in ssa.Instruction, st *eng.State) bool {
			r, ok := in.(*ssa.Return)
			if !ok {
				return false
			}
			results = append(results, x.KeyOf(r.Results[0], st))
			return true
		}
		x.StopAtTarget = true
		x.Run()
		a, b, s := ord[0], ord[1], ord[2]
		var want string
		switch {
		case a == b:
			want = "continue"
		case a == s:
			want = "c:-1"
		case b == s:
			want = "c:1"
		case a < b:
			want = "c:-1"
		default:
			want = "c:1"
		}
		got := "?"
		switch {
		case x.Exhausted:
			got = "state limit"
		case continued && len(results) == 0:
			got = "continue"
		case !continued && len(distinct(results)) == 1:
			got = results[0]
		default:
			got = fmt.Sprintf("ambiguous(continue=%v, returns=%v)", continued, results)
		}
		desc := fmt.Sprintf("ordering rank(%s)=%d rank(%s)=%d rank(%s)=%d", names[0], a, names[1], b, names[2], s)
		oc := fmt.Sprintf("%s/ordering[a%d,b%d,s%d]", con, a, b, s)
		if strings.HasPrefix(got, "ambiguous") || got == "state limit" {
			c.R.Undecided(rule, oc, c.P.Pos(fn.Pos()), desc+": the branch outcome is not determined by the comparisons ("+got+")")
			continue
		}
		c.R.Check(got == want, rule, oc, c.P.Pos(fn.Pos()), desc+": outcome "+pretty(got)+" as specified", desc+": outcome "+pretty(got)+", the separator-lowest byte order requires "+pretty(want))
	}
	c.R.Exact(rule, "weak orderings of (p1[i], p2[i], separator) evaluated", n, 13)
	// tail
	x := c.explorer(fn)
	x.Assume = map[string]bool{loopKey: false}
	var tail []string
	x.Target = func(in ssa.Instruction, st *eng.State) bool {
		if r, ok := in.(*ssa.Return); ok {
			tail = append(tail, x.KeyOf(r.Results[0], st))
			return true
		}
		return false
	}
	x.StopAtTarget = true
	x.Run()
	tail = distinct(tail)
	okTail := len(tail) == 1 && tail[0] == "(len(p:"+fn.Params[0].Name()+")-len(p:"+fn.Params[1].Name()+"))"
	c.R.Check(okTail, rule, con+"/tail", c.P.Pos(fn.Pos()), "common prefix exhausted: returns len(p1)-len(p2)", fmt.Sprintf("when one path is a prefix of the other ComparePath returns %v, not len(p1)-len(p2)", tail))
	// every byte access is guarded by index < (a value not above both lengths):
	// on the equality edge of <= the access runs one past the shorter path
	// exactly when one path is a prefix of the other (parent and child)
	lenBound := func(v ssa.Value) bool {
		return c.DerivesFrom(v, func(y ssa.Value) bool {
			call, ok := y.(*ssa.Call)
			if !ok || c.P.CalleeName(call) != "builtin:len" {
				return false
			}
			_, isP := eng.Strip(call.Call.Args[0]).(*ssa.Parameter)
			return isP
		}, 6)
	}
	na, guarded := 0, 0
	eng.InstrsShallow(fn, func(in ssa.Instruction) {
		var lkX, lkIndex ssa.Value
		switch v := in.(type) {
		case *ssa.Lookup:
			lkX, lkIndex = v.X, v.Index
		case *ssa.Index:
			lkX, lkIndex = v.X, v.Index
		default:
			return
		}
		if _, isP := eng.Strip(lkX).(*ssa.Parameter); !isP {
			return
		}
		na++
		for _, blk := range fn.Blocks {
			iff, isIf := blk.Instrs[len(blk.Instrs)-1].(*ssa.If)
			if !isIf {
				continue
			}
			b, isB := iff.Cond.(*ssa.BinOp)
			if !isB {
				continue
			}
			var edge int
			switch {
			case b.Op == token.LSS && eng.SameValue(b.X, lkIndex) && lenBound(b.Y): // i < n
				edge = 0
			case b.Op == token.GTR && eng.SameValue(b.Y, lkIndex) && lenBound(b.X): // n > i
				edge = 0
			case b.Op == token.GEQ && eng.SameValue(b.X, lkIndex) && lenBound(b.Y): // i >= n: false edge
				edge = 1
			case b.Op == token.LEQ && eng.SameValue(b.Y, lkIndex) && lenBound(b.X): // n <= i: false edge
				edge = 1
			default:
				continue
			}
			t := blk.Succs[edge]
			if len(t.Preds) == 1 && (t == in.Block() || t.Dominates(in.Block())) {
				guarded++
				return
			}
		}
	})
	if na > 0 {
		c.R.Check(guarded == na, rule, con+"/index-below-both-lengths", c.P.Pos(fn.Pos()), "every byte access is dominated by index < bound", fmt.Sprintf("%d of %d byte accesses of ComparePath are not dominated by a strict `index < length` test: comparing a directory with an entry below it reads one byte past the shorter path", na-guarded, na))
	}
	// the loop bound is min(len(p1), len(p2))
	bound := loopCond.Y
	okBound := c.DerivesFrom(bound, func(v ssa.Value) bool { return c.isCallValueTo(v, "fsutil.min", "builtin:min") }, 3)
	if !okBound {
		// min written out: n := len(p1); if len(p2) < n { n = len(p2) } - a
		// two-way phi of the two lengths whose choice, evaluated under the
		// three orderings of the lengths, is the smaller one
		whichLen := func(v ssa.Value) int {
			call, ok := eng.Canon(v).(*ssa.Call)
			if !ok || c.P.CalleeName(call) != "builtin:len" {
				return -1
			}
			for i, q := range fn.Params {
				if eng.Strip(call.Call.Args[0]) == ssa.Value(q) {
					return i
				}
			}
			return -1
		}
		if phi, isPhi := eng.Canon(bound).(*ssa.Phi); isPhi && len(phi.Edges) == 2 && whichLen(phi.Edges[0]) >= 0 && whichLen(phi.Edges[1]) >= 0 && whichLen(phi.Edges[0]) != whichLen(phi.Edges[1]) {
			if dom := phi.Block().Idom(); dom != nil && len(dom.Instrs) > 0 {
				if iff, isIf := dom.Instrs[len(dom.Instrs)-1].(*ssa.If); isIf {
					if cb, isB := iff.Cond.(*ssa.BinOp); isB && whichLen(cb.X) >= 0 && whichLen(cb.Y) >= 0 {
						okBound = true
						for _, lens := range [][2]int{{0, 1}, {1, 0}, {1, 1}} {
							truth := evalCmp(cb.Op, lens[whichLen(cb.X)], lens[whichLen(cb.Y)])
							// which edge of the phi is taken for this truth value
							for k, pr := range phi.Block().Preds {
								var takenWhen bool
								switch {
								case pr == dom:
									takenWhen = dom.Succs[0] == phi.Block()
								case dom.Succs[0] == pr || dom.Succs[0].Dominates(pr):
									takenWhen = true
								default:
									takenWhen = false
								}
								if takenWhen != truth {
									continue
								}
								small := lens[0]
								if lens[1] < small {
									small = lens[1]
								}
								if lens[whichLen(phi.Edges[k])] != small {
									okBound = false
								}
							}
						}
					}
				}
			}
		}
	}
	c.R.Check(okBound, rule, con+"/bound", c.pos(loopCond), "the loop runs to min(len(p1), len(p2))", "the comparison loop is not bounded by min(len(p1), len(p2))")
}

func pretty(k string) string {
	switch k {
	case "c:-1":
		return "return -1"
	case "c:1":
		return "return +1"
	}
	return k
}

// R09.2 root never reported.
func r09_2(c *Ctx, rule string) {
	c.R.Rule(rule, "fs.Walk never reports the root: the callback is unreachable when the relative path is \".\"")
	w := c.Fn(rule, "fsutil.(*fs).Walk")
	if w == nil {
		return
	}
	lit := c.ClosureCalling(rule, w, "freevar:fn")
	if lit == nil {
		return
	}
	x := c.explorer(lit)
	var keys []string
	eng.Instrs(lit, func(in ssa.Instruction) {
		bo, ok := in.(*ssa.BinOp)
		if !ok || (bo.Op != token.EQL && bo.Op != token.NEQ) {
			return
		}
		if s, ok := eng.ConstString(bo.Y); ok && s == "." {
			if c.DerivesFrom(bo.X, func(v ssa.Value) bool { return c.isCallValueTo(v, "path/filepath.Rel") }, 3) {
				k := x.KeyAtEntry(bo)
				if bo.Op == token.NEQ {
					k = "!" + k
				}
				keys = append(keys, k)
			}
		}
	})
	con := c.name(lit) + "/root-skip"
	if len(keys) == 0 {
		c.R.Fail(rule, con, c.P.Pos(lit.Pos()), "no test of the relative path against \".\": the walk reports the root itself")
		return
	}
	as := map[string]bool{}
	for _, k := range keys {
		as[k] = true
	}
	c.ObUnreachable(rule, con, lit, as, c.callPred("freevar:fn"), "the walk callback", "the entry is the root (relative path \".\")")
	// the reported path is the relative one
	for _, call := range c.P.CallsTo(lit, "freevar:fn") {
		ok := c.DerivesFrom(call.Common().Args[0], func(v ssa.Value) bool { return c.isCallValueTo(v, "path/filepath.Rel") }, 3)
		c.R.Check(ok, rule, c.siteName(call)+"/relative-path", c.pos(call), "the reported path is relative to the root", "the reported path is not the result of filepath.Rel(root, path)")
	}
}

// R09.4 one inode map per walk.
func r09_4(c *Ctx, rule string) {
	c.R.Rule(rule, "the inode map handed to mkstat is allocated once per fs.Walk; setUnixOpt sets Linkname only from a hit in that map under Nlink > 1 and otherwise records the path under the inode")
	w := c.Fn(rule, "fsutil.(*fs).Walk")
	if w == nil {
		return
	}
	lit := c.ClosureCalling(rule, w, "freevar:fn")
	if lit != nil {
		n := 0
		for _, s := range fieldStoresIn(lit, "fsutil.DirEntryInfo.seenFiles") {
			n++
			ok := c.perCallMap(s.Val, w)
			c.R.Check(ok, rule, c.name(lit)+"/inode-map", c.pos(s), "the entry's inode map is the one map made at the start of this Walk", "the inode map given to entries is not a single map allocated once per Walk (per-entry or shared maps break first-seen hard-link detection)")
		}
		c.R.Floor(rule, "DirEntryInfo literals carrying the inode map", n, 1)
	}
	if !c.Unix() {
		return
	}
	su := c.Fn(rule, "fsutil.setUnixOpt")
	if su == nil {
		return
	}
	x := c.explorer(su)
	base := c.name(su)
	var look *ssa.Lookup
	eng.Instrs(su, func(in ssa.Instruction) {
		if l, ok := in.(*ssa.Lookup); ok && l.CommaOk {
			if _, isParam := l.X.(*ssa.Parameter); isParam {
				look = l
			}
		}
	})
	if look == nil {
		c.R.Fail(rule, base+"/inode-lookup", c.P.Pos(su.Pos()), "setUnixOpt does not look the inode up in the map it is given")
		return
	}
	c.R.Check(c.DerivesFrom(look.Index, func(v ssa.Value) bool { return isFieldLoad(v, "syscall.Stat_t.Ino") }, 3), rule, base+"/inode-key", c.pos(look), "keyed by Stat_t.Ino", "the inode map is not keyed by the inode number")
	okKey := c.reg(look) + "#1"
	stores := fieldStoresIn(su, "types.Stat.Linkname")
	for i, s := range stores {
		con := fmt.Sprintf("%s/linkname-store#%d", base, i+1)
		isS := func(in ssa.Instruction) bool { return in == ssa.Instruction(s) }
		c.R.Check(c.DerivesFrom(s.Val, func(v ssa.Value) bool { return v == ssa.Value(look) }, 3), rule, con+"/value", c.pos(s), "the link name is the path recorded for the inode", "Linkname is set to something other than the path recorded in the inode map")
		c.ObUnreachable(rule, con+"/needs-hit", su, map[string]bool{okKey: false}, isS, "setting Linkname", "the inode is not in the map")
	}
	c.R.Floor(rule, "stores to Stat.Linkname in setUnixOpt", len(stores), 1)
	// Nlink > 1 guard
	var nl []string
	eng.Instrs(su, func(in ssa.Instruction) {
		bo, ok := in.(*ssa.BinOp)
		if !ok {
			return
		}
		if c.DerivesFrom(bo.X, func(v ssa.Value) bool { return isFieldLoad(v, "syscall.Stat_t.Nlink") }, 2) {
			if k, ok := eng.ConstInt(bo.Y); ok {
				key := x.KeyAtEntry(bo)
				switch {
				case bo.Op == token.GTR && k == 1, bo.Op == token.GEQ && k == 2, bo.Op == token.NEQ && k == 1:
					nl = append(nl, key)
				case bo.Op == token.LEQ && k == 1, bo.Op == token.LSS && k == 2, bo.Op == token.EQL && k == 1:
					nl = append(nl, "!"+key)
				}
			}
		}
	})
	if len(nl) == 0 {
		c.R.Fail(rule, base+"/nlink-guard", c.P.Pos(su.Pos()), "no Nlink > 1 test: an inode number reused on another device or by an unrelated entry is reported as a hard link")
	} else {
		as := map[string]bool{}
		for _, k := range nl {
			as[k] = false
		}
		for i, s := range stores {
			c.ObUnreachable(rule, fmt.Sprintf("%s/linkname-store#%d/needs-nlink", base, i+1), su, as, func(in ssa.Instruction) bool { return in == ssa.Instruction(s) }, "setting Linkname", "Nlink is 1")
		}
	}
	// recording
	nrec := 0
	eng.Instrs(su, func(in ssa.Instruction) {
		mu, ok := in.(*ssa.MapUpdate)
		if !ok {
			return
		}
		if _, isParam := mu.Map.(*ssa.Parameter); !isParam {
			return
		}
		nrec++
		con := fmt.Sprintf("%s/record#%d", base, nrec)
		_, valParam := eng.Strip(mu.Value).(*ssa.Parameter)
		c.R.Check(valParam && c.DerivesFrom(mu.Key, func(v ssa.Value) bool { return isFieldLoad(v, "syscall.Stat_t.Ino") }, 3), rule, con+"/entry", c.pos(mu), "records inode -> this entry's path", "the inode map records something other than inode -> the entry's path")
		as := map[string]bool{okKey: true}
		for _, k := range nl {
			as[k] = true
		}
		c.ObUnreachable(rule, con+"/first-only", su, as, func(in ssa.Instruction) bool { return in == ssa.Instruction(mu) }, "re-recording the inode", "the entry was reported as a link to the first path")
		c.ObReachable(rule, con+"/first-recorded", su, map[string]bool{okKey: false}, func(in ssa.Instruction) bool { return in == ssa.Instruction(mu) }, "recording the inode", "the inode is seen for the first time")
	})
	c.R.Floor(rule, "recordings in the inode map", nrec, 1)
}

// R09.5 sub-root prefixing.
func r09_5(c *Ctx, rule string) {
	c.R.Rule(rule, "subDirFS.Walk prefixes stat.Path, non-symlink Linkname and the reported path with the sub-root's name")
	w := c.Fn(rule, "fsutil.(*subDirFS).Walk")
	if w == nil {
		return
	}
	var lit *ssa.Function
	for _, cl := range eng.Closures(w) {
		if len(fieldStoresIn(cl, "types.Stat.Path")) > 0 {
			lit = cl
		}
	}
	if lit == nil {
		c.R.Fail(rule, c.name(w)+"/path-prefix", c.P.Pos(w.Pos()), "the sub-walk callback no longer rewrites stat.Path")
		return
	}
	c.R.Analysed(c.name(lit))
	base := c.name(lit)
	isDirName := func(v ssa.Value) bool {
		o, b, _, ok := eng.LoadedField(v)
		if !ok || o != "types.Stat.Path" {
			return false
		}
		// rooted at the captured Dir (d.Stat.Path), not at the entry's stat
		return isFieldLoad(b, "fsutil.Dir.Stat")
	}
	var joinWithDir func(v ssa.Value, other func(ssa.Value) bool) bool
	joinWithDir = func(v ssa.Value, other func(ssa.Value) bool) bool {
		call, ok := v.(*ssa.Call)
		if !ok {
			return false
		}
		n := c.P.CalleeName(call)
		if n != "path.Join" && n != "path/filepath.Join" {
			// a helper no rule names that computes the new name: each of its
			// results is such a Join or the old name unchanged (a relative
			// symlink target keeps its spelling)
			rs := eng.ResolveAll(call)
			if len(rs) == 0 || (len(rs) == 1 && rs[0] == ssa.Value(call)) {
				return false
			}
			joins := 0
			for _, r := range rs {
				switch {
				case joinWithDir(r, other):
					joins++
				case other(eng.Strip(r)) || c.DerivesFrom(r, other, 2):
				default:
					return false
				}
			}
			return joins > 0
		}
		return c.DerivesFrom(call, isDirName, 8) && c.DerivesFrom(call, other, 8)
	}
	for i, s := range fieldStoresIn(lit, "types.Stat.Path") {
		ok := joinWithDir(s.Val, func(v ssa.Value) bool { return isFieldLoad(v, "types.Stat.Path") && !isDirName(v) })
		c.R.Check(ok, rule, fmt.Sprintf("%s/path-store#%d", base, i+1), c.pos(s), "stat.Path = Join(sub-root name, stat.Path)", "stat.Path is not rewritten as Join(sub-root name, original path)")
	}
	ls := fieldStoresIn(lit, "types.Stat.Linkname")
	x := c.explorer(lit)
	// (a predicate helper shared with other functions stands here for what this callback hands it)
	defer c.scope(lit)()
	symAll := modeBitTests(c, lit, x, modeSymlink)
	// ... decided on the ENTRY's own info, not on some other stat in scope
	sym := c.modeBitTestsOn(lit, x, modeSymlink, func(v ssa.Value) bool {
		return c.DerivesFrom(v, func(y ssa.Value) bool { return c.isCallValueTo(y, "(io/fs.DirEntry).Info") }, 4)
	})
	c.R.Check(len(sym) == len(symAll), rule, base+"/symlink-test-on-entry", c.P.Pos(lit.Pos()), "the symlink test reads the mode of the entry being reported", "the test that tells a symlink's target from a hard-link name reads the mode of something other than the entry being reported (the sub-root's own stat?): symlink targets are prefixed like hard-link names")
	nonSym, symArm := 0, 0
	for i, s := range ls {
		ok := joinWithDir(s.Val, func(v ssa.Value) bool { return isFieldLoad(v, "types.Stat.Linkname") })
		con := fmt.Sprintf("%s/linkname-store#%d", base, i+1)
		c.R.Check(ok, rule, con, c.pos(s), "Linkname = Join(sub-root name, Linkname)", "a Linkname rewrite does not prefix the sub-root name")
		// is this the non-symlink arm?
		as := map[string]bool{}
		for _, k := range sym {
			as[k] = false
		}
		if hit, _ := c.ReachableUnder(lit, as, nil, func(in ssa.Instruction) bool { return in == ssa.Instruction(s) }); hit != nil {
			nonSym++
		}
		// ... or the symlink arm (absolute targets are re-rooted below the sub-root)
		as2 := map[string]bool{}
		for _, k := range sym {
			as2[k] = true
		}
		if hit, _ := c.ReachableUnder(lit, as2, nil, func(in ssa.Instruction) bool { return in == ssa.Instruction(s) }); hit != nil {
			symArm++
		}
	}
	// the sub-root's name comes first in every such Join
	for i, s := range ls {
		if parts, ok := c.joinParts(s.Val); ok && len(parts) >= 2 {
			c.R.Check(parts[len(parts)-1] == "field:types.Stat.Linkname", rule, fmt.Sprintf("%s/linkname-store#%d/order", base, i+1), c.pos(s), "the old link name is the last element of the Join", "the Join that prefixes the sub-root name has the old link name in front of it")
		}
	}
	// a link name is only ever rewritten when there is one, and a symlink's
	// target only when it is absolute: with the emptiness test pinned to
	// "empty", or the symlink test to "symlink" and the absolute-path test to
	// "relative", no store to Linkname is reachable
	emptyPins, absPins := map[string]bool{}, map[string]bool{}
	absShape := true
	eng.Instrs(lit, func(in ssa.Instruction) {
		switch b := in.(type) {
		case *ssa.BinOp:
			if b.Op != token.EQL && b.Op != token.NEQ {
				return
			}
			for i, o := range []ssa.Value{b.X, b.Y} {
				if k, isK := eng.ConstString([]ssa.Value{b.Y, b.X}[i]); isK && k == "" && isFieldLoad(o, "types.Stat.Linkname") {
					emptyPins[x.RegKey(b)] = b.Op == token.EQL
				}
			}
		case *ssa.Call:
			switch c.P.CalleeName(b) {
			case "strings.HasPrefix":
				k0, is0 := eng.ConstString(b.Call.Args[0])
				k1, is1 := eng.ConstString(b.Call.Args[1])
				if is1 && k1 == "/" && isFieldLoad(b.Call.Args[0], "types.Stat.Linkname") {
					absPins[x.RegKey(b)] = false
				} else if (is0 && k0 == "/") || (is1 && k1 == "/") {
					absShape = false
				}
			case "path.IsAbs", "path/filepath.IsAbs":
				if isFieldLoad(b.Call.Args[0], "types.Stat.Linkname") {
					absPins[x.RegKey(b)] = false
				}
			}
		}
	})
	c.R.Check(absShape, rule, base+"/absolute-test-shape", c.P.Pos(lit.Pos()), "the absolute-target test asks whether the link name starts with the separator", "a prefix test with \"/\" in this callback does not ask whether the link name starts with it (arguments swapped?)")
	isLinkStore := func(in ssa.Instruction) bool {
		for _, s := range ls {
			if in == ssa.Instruction(s) {
				return true
			}
		}
		return false
	}
	// (a store that puts back what the field held - a helper that returns its
	// argument for a relative target - rewrites nothing)
	rewriteReachable := func(as map[string]bool) (*eng.Hit, bool) {
		y := c.explorer(lit)
		y.Assume = as
		y.Target = func(in ssa.Instruction, st *eng.State) bool {
			if !isLinkStore(in) {
				return false
			}
			k := y.KeyOf(in.(*ssa.Store).Val, st)
			return strings.Contains(k, "Join(") || !strings.Contains(k, "Linkname")
		}
		y.StopAtTarget = true
		hits := y.Run()
		if y.Exhausted {
			return nil, true
		}
		if len(hits) > 0 {
			return &hits[0], false
		}
		return nil, false
	}
	obNoRewrite := func(con string, as map[string]bool, when string) {
		hit, und := rewriteReachable(as)
		switch {
		case und:
			c.R.Undecided(rule, con, c.P.Pos(lit.Pos()), "state limit exceeded while exploring "+c.name(lit))
		case hit != nil:
			c.R.Fail(rule, con, c.pos(hit.Instr), "a store to Linkname is reachable although "+when+"; path "+eng.BlockTrace(lit, hit.Trace))
		default:
			c.R.OK(rule, con, c.P.Pos(lit.Pos()), "no rewrite of Linkname when "+when)
		}
	}
	if len(emptyPins) > 0 {
		obNoRewrite(base+"/rewrite-only-when-named", emptyPins, "the entry has no link name (every plain file would become a hard link to the sub-root)")
	} else {
		c.R.OK(rule, base+"/rewrite-only-when-named", c.P.Pos(lit.Pos()), "no emptiness test of the link name of a shape this rule interprets")
	}
	if len(absPins) > 0 && len(sym) > 0 {
		as := map[string]bool{}
		for _, k := range sym {
			as[k] = true
		}
		for k, v := range absPins {
			as[k] = v
		}
		for k, v := range emptyPins {
			as[k] = !v
		}
		obNoRewrite(base+"/relative-symlink-kept", as, "the entry is a symlink with a relative target (it keeps its spelling)")
	} else {
		c.R.OK(rule, base+"/relative-symlink-kept", c.P.Pos(lit.Pos()), "no absolute-path test of the link name of a shape this rule interprets")
	}
	c.R.Check(symArm >= 1 || len(sym) == 0, rule, base+"/absolute-symlink-prefix", c.P.Pos(lit.Pos()), "absolute symlink targets are re-rooted below the sub-root", "the target of an absolute symlink inside a sub-root is no longer re-rooted below the sub-root's name: in the composite view it points at the composite root's namespace")
	c.R.Check(nonSym >= 1 && len(sym) > 0, rule, base+"/hardlink-prefix", c.P.Pos(lit.Pos()), "hard-link names (non-symlink arm) are prefixed", "the link name of a hard link inside a sub-root is not prefixed with the sub-root's name: it names a path outside the composite view")
	for _, call := range c.P.CallsTo(lit, "freevar:fn") {
		ok := joinWithDir(call.Common().Args[0], func(v ssa.Value) bool { _, isP := v.(*ssa.Parameter); return isP })
		c.R.Check(ok, rule, c.siteName(call)+"/reported-path", c.pos(call), "the reported path is Join(sub-root name, p)", "the path reported for a sub-root entry lacks the sub-root's name")
		if parts, isJ := c.joinParts(call.Common().Args[0]); isJ && len(parts) >= 2 {
			c.R.Check(strings.HasPrefix(parts[len(parts)-1], "p:"), rule, c.siteName(call)+"/reported-path/order", c.pos(call), "the sub-walk's path is the last element of the Join", "the Join of the reported path has the sub-walk's path in front of the sub-root's name")
		}
		// ... and what is reported is an entry over the stat that was
		// rewritten, not the sub-walk's own entry (whose Info() still says
		// the path and link name relative to the sub-root)
		if len(call.Common().Args) < 2 {
			continue
		}
		con := c.siteName(call) + "/reported-entry"
		var rewritten []ssa.Value
		for _, st := range fieldStoresIn(lit, "types.Stat.Path") {
			if fa, ok := st.Addr.(*ssa.FieldAddr); ok {
				rewritten = append(rewritten, fa.X)
			}
		}
		verdict, why := 0, "" // 0 not interpreted, 1 ok, -1 fail
		for _, r := range eng.ResolveAll(call.Common().Args[1]) {
			r = eng.Strip(r)
			switch e := r.(type) {
			case *ssa.Alloc:
				sv := structLitFields(e)["Stat"]
				same := false
				for _, rw := range rewritten {
					if sv != nil && (eng.SameValue(eng.Strip(sv), eng.Strip(rw)) || x.StructKeyAtEntry(sv) == x.StructKeyAtEntry(rw)) {
						same = true
					}
				}
				if same && verdict == 0 {
					verdict = 1
				} else if !same && sv != nil {
					verdict, why = -1, "the entry reported for a sub-root carries a stat other than the one whose path and link name were prefixed"
				}
			case *ssa.Parameter:
				if e.Parent() == lit {
					verdict, why = -1, "the sub-walk's own entry is handed on: its Info() still reports path and link name relative to the sub-root, only the callback's path argument carries the sub-root's name"
				}
			}
		}
		switch verdict {
		case 1:
			c.R.OK(rule, con, c.pos(call), "the reported entry is built over the rewritten stat")
		case -1:
			c.R.Fail(rule, con, c.pos(call), why)
		default:
			c.R.OK(rule, con, c.pos(call), "the reported entry is not a literal over a stat nor the sub-walk's entry (a shape this rule does not interpret): not decided")
		}
	}
}

// R09.6 enumeration delegated to filepath.WalkDir.
func r09_6(c *Ctx, rule string) {
	c.R.Rule(rule, "fs.Walk enumerates with filepath.WalkDir on Join(root, target) and does not reorder")
	w := c.Fn(rule, "fsutil.(*fs).Walk")
	if w == nil {
		return
	}
	calls := c.P.CallsTo(w, "path/filepath.WalkDir")
	c.R.Exact(rule, "filepath.WalkDir calls in fs.Walk", len(calls), 1)
	for _, call := range calls {
		a0 := call.Common().Args[0]
		ok := c.isCallValueTo(a0, "path/filepath.Join") &&
			c.DerivesFrom(a0, func(v ssa.Value) bool { return isFieldLoad(v, "fsutil.fs.root") }, 3) &&
			c.DerivesFrom(a0, func(v ssa.Value) bool {
				p, isP := v.(*ssa.Parameter)
				return isP && types.TypeString(p.Type(), nil) == "string"
			}, 3)
		c.R.Check(ok, rule, c.siteName(call)+"/root-target", c.pos(call), "walks Join(fs.root, target)", "filepath.WalkDir is not applied to Join(fs.root, target)")
		c.ObErrChecked(rule+"/checked", call)
	}
	for _, f := range append([]*ssa.Function{w}, eng.Closures(w)...) {
		for _, call := range eng.Calls(f) {
			n := c.P.CalleeName(call)
			if strings.HasPrefix(n, "sort.") || strings.HasPrefix(n, "slices.Sort") {
				c.R.Fail(rule, c.siteName(call)+"/reorder", c.pos(call), "fs.Walk reorders entries itself")
			}
		}
	}
}

// R09.7: an entry's Info() builds the stat once and hands out clones.
func r09_7(c *Ctx, rule string) {
	c.R.Rule(rule, "DirEntryInfo.Info: the stat is built by mkstat from the entry's own on-disk path, relative path and the walk's inode map, cached, and every call returns a clone (consumers rewrite Path/Linkname in place)")
	fn := c.Fn(rule, "fsutil.(*DirEntryInfo).Info")
	if fn == nil {
		return
	}
	base := c.name(fn)
	for _, call := range c.P.CallsTo(fn, "fsutil.mkstat") {
		a := call.Common().Args
		ok := isFieldLoad(a[0], "fsutil.DirEntryInfo.origpath") && isFieldLoad(a[1], "fsutil.DirEntryInfo.path") && isFieldLoad(a[3], "fsutil.DirEntryInfo.seenFiles") &&
			c.DerivesFrom(a[2], func(v ssa.Value) bool { return c.isCallValueTo(v, "(io/fs.DirEntry).Info") }, 3)
		c.R.Check(ok, rule, c.siteName(call)+"/args", c.pos(call), "mkstat(origpath, path, entry info, inode map)", "mkstat is not given the entry's (on-disk path, relative path, lstat info, inode map)")
		c.ObErrChecked(rule+"/checked", call)
	}
	c.R.Floor(rule, "mkstat calls in DirEntryInfo.Info", len(c.P.CallsTo(fn, "fsutil.mkstat")), 1)
	for _, call := range c.P.CallsTo(fn, "(io/fs.DirEntry).Info") {
		c.ObErrChecked(rule+"/checked", call)
	}
	// the stat is built once: after a successful mkstat every success return
	// has stored it in the entry (mkstat consults and updates the walk's inode
	// map, it is not idempotent)
	for _, call := range c.P.CallsTo(fn, "fsutil.mkstat") {
		cl, isCall := call.(*ssa.Call)
		if !isCall {
			continue
		}
		ek, _, _ := c.errValueOf(cl)
		c.ObSuccessNeeds(rule, c.siteName(call)+"/cached", fn, call, map[string]bool{"(" + ek + "==nil)": true}, func(in ssa.Instruction) bool {
			st, ok := in.(*ssa.Store)
			if !ok {
				return false
			}
			fa, ok := st.Addr.(*ssa.FieldAddr)
			if !ok || eng.FieldOwnerName(fa.X.Type(), fa.Field) != "fsutil.DirEntryInfo.Stat" {
				return false
			}
			return c.DerivesFrom(st.Val, func(y ssa.Value) bool { return y == ssa.Value(cl) }, 4)
		}, "storing the stat in the entry (so that a second Info() does not run mkstat again)")
	}
	// every success return wraps a clone
	ex := c.explorer(fn)
	bad, good := 0, 0
	ex.Target = func(in ssa.Instruction, st *eng.State) bool {
		if !ex.IsSuccessReturn(in, st) {
			return false
		}
		r := in.(*ssa.Return)
		al, ok := eng.Strip(r.Results[0]).(*ssa.Alloc)
		okc := false
		if ok {
			for _, v := range structLitFields(al) {
				if c.isCallValueTo(v, "types.(*Stat).Clone", "types.(*Stat).CloneVT") {
					okc = true
				}
			}
		}
		if okc {
			good++
		} else {
			bad++
		}
		return false
	}
	ex.Run()
	c.R.Check(bad == 0 && good > 0, rule, base+"/returns-clone", c.P.Pos(fn.Pos()), "the FileInfo returned wraps a clone of the cached stat", "Info() hands out the cached stat itself: a consumer that rewrites Path or Linkname (sender, link reset, sub-root walk) corrupts what the next consumer sees")
	// cached: mkstat only when not yet built
	x := c.explorer(fn)
	as := map[string]bool{}
	eng.Instrs(fn, func(in ssa.Instruction) {
		bo, ok := in.(*ssa.BinOp)
		if !ok || (bo.Op != token.EQL && bo.Op != token.NEQ) {
			return
		}
		if k, isC := bo.Y.(*ssa.Const); isC && k.IsNil() && isFieldLoad(bo.X, "fsutil.DirEntryInfo.Stat") {
			as[x.KeyAtEntry(bo)] = bo.Op == token.NEQ
		}
	})
	if len(as) > 0 {
		c.ObUnreachable(rule, base+"/built-once", fn, as, c.callPred("fsutil.mkstat"), "building the stat again", "it was built before (hard-link detection is first-seen: a second mkstat would report the entry as a link to itself)")
	} else {
		c.R.Fail(rule, base+"/built-once", c.P.Pos(fn.Pos()), "Info() does not cache the stat: a second call re-runs mkstat, which now finds the inode in the map and reports the entry as a hard link to itself")
	}
}

// R09.8: the walker's root is a real directory path.
//
// fs.Walk hands root+target to filepath.WalkDir, which lstats its argument:
// if the stored root still ends in a symlink the root is reported as a
// non-directory, the callback for it is skipped as ".", and the walk of the
// whole tree is silently empty. NewFS therefore stores the path
// filepath.EvalSymlinks returned, and checks that call and that it is a
// directory.
func r09_8(c *Ctx, rule string) {
	c.R.Rule(rule, "NewFS stores in fs.root the result of a checked filepath.EvalSymlinks of its argument, after a checked os.Stat of that result said 'directory'")
	nf := c.Fn(rule, "fsutil.NewFS")
	if nf == nil {
		return
	}
	var ev *ssa.Call
	for _, call := range c.P.CallsTo(nf, "path/filepath.EvalSymlinks") {
		ev, _ = call.(*ssa.Call)
	}
	if ev == nil {
		c.R.Fail(rule, c.name(nf)+"/resolves-root", c.P.Pos(nf.Pos()), "NewFS no longer resolves symlinks in the root path")
		return
	}
	c.ObErrChecked(rule+"/checked", ev)
	resolved := func(v ssa.Value) bool {
		v = eng.Canon(v)
		e, ok := v.(*ssa.Extract)
		return ok && e.Index == 0 && e.Tuple == ssa.Value(ev)
	}
	stores := fieldStoresIn(nf, "fsutil.fs.root")
	c.R.Floor(rule, "stores to fs.root in NewFS", len(stores), 1)
	for i, st := range stores {
		c.R.Check(resolved(st.Val), rule, fmt.Sprintf("%s/root-store#%d/resolved", c.name(nf), i+1), c.pos(st), "fs.root is the resolved path",
			"fs.root is not the path filepath.EvalSymlinks returned: with a root given as a symlink to a directory filepath.WalkDir lstats the link, and the walk of the whole tree is silently empty")
	}
	// the directory test is made on the resolved path and guards the success return
	for _, call := range c.P.CallsTo(nf, "os.Stat", "os.Lstat") {
		c.ObErrChecked(rule+"/checked", call)
		c.R.Check(resolved(call.Common().Args[0]), rule, c.siteName(call)+"/arg", c.pos(call), "the resolved path is inspected", "the directory test is not made on the resolved path")
	}
	x := c.explorer(nf)
	as := map[string]bool{}
	for _, k := range c.dirTestKeys(nf, x, func(v ssa.Value) bool { return true }) {
		as[k] = false
	}
	if len(as) == 0 {
		c.R.Fail(rule, c.name(nf)+"/directory-test", c.P.Pos(nf.Pos()), "NewFS has no directory test of the root")
	} else {
		hit, und := c.SuccessAvoiding(nf, nil, as, nil, nil)
		c.R.Check(!und && hit == nil, rule, c.name(nf)+"/directory-test", c.P.Pos(nf.Pos()), "a root that is not a directory is an error", "NewFS succeeds although the root is not a directory")
	}
}

// R09.9: extended attributes are listed for every kind of entry.
//
// trusted.* and security.* attributes are legal on symlinks, fifos, devices
// and sockets; "true stats" means llistxattr of the entry, whatever it is.
// loadXattr therefore has no way to succeed without having listed them, and
// mkstat no way to succeed without loadXattr.
func r09_9(c *Ctx, rule string) {
	c.R.Rule(rule, "every success return of loadXattr is preceded by the LListxattr of the path, and every success return of mkstat by a checked loadXattr: no entry type is exempt")
	lx := c.Fn(rule, "fsutil.loadXattr")
	mk := c.Fn(rule, "fsutil.mkstat")
	if lx == nil || mk == nil {
		return
	}
	list := c.callPred("github.com/containerd/continuity/sysx.LListxattr")
	c.R.Floor(rule, "LListxattr calls in loadXattr", len(c.P.CallsTo(lx, "github.com/containerd/continuity/sysx.LListxattr")), 1)
	c.ObSuccessNeeds(rule, c.name(lx)+"/success-needs-list", lx, nil, nil, list, "listing the entry's extended attributes")
	c.ObSuccessNeeds(rule, c.name(mk)+"/success-needs-xattrs", mk, nil, nil, c.checkedCallPred("fsutil.loadXattr"), "a checked loadXattr")
}

func distinct(xs []string) []string {
	seen := map[string]bool{}
	var out []string
	for _, x := range xs {
		if !seen[x] {
			seen[x] = true
			out = append(out, x)
		}
	}
	return out
}
