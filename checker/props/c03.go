package props

import (
	"fmt"
	"go/token"
	"go/types"
	"strings"

	"fsverif/eng"

	"golang.org/x/tools/go/ssa"
)

func init() {
	register("C03", "Structural clauses of receiver containment, decided for every packet sequence because they hold on every path of the receive loop and the disk writer: each received entry passes the order validator and the hard-link validator (both checked) before it is forwarded to the writer, directly or through the replay stack; the validator has a fatal test for every lexical rejection class (unclean, absolute, '.', '..', '../' prefix) and rejects the orderings equal/greater and a foreign parent; a hard link whose source was not received is fatal; DATA for an unknown id is fatal; every filesystem call reachable from the disk writer is classified, and no symlink-following call is applied to a destination path outside a reasoned table; replacement decisions are Lstat-based. What a DATA packet is written to is the pipe looked up under that packet's id, not one remembered from an earlier packet. The validator's open-directory stack is never re-sliced past its current length (shared with C12). Does not decide races with concurrent modification of the destination nor symlinks in intermediate components.", runC03)
}

func runC03(c *Ctx) {
	// the open-directory stack is never cut past its length (shared with C12)
	r12_5(c, "R03.10")
	r03_1(c, "R03.1")
	r03_2(c, "R03.2")
	r03_3(c, "R03.3")
	r03_4(c, "R03.4")
	r03_5(c, "R03.5")
	r03_6(c, "R03.6")
	r03_7(c, "R03.7")
	r03_8(c, "R03.8")
	// stale children of a directory the peer replaced by a symlink must not
	// be deleted through that symlink (shared with C01/C05)
	r05_4(c, "R03.9")
}

// mainRecv returns the main-loop RecvMsg call of the receive loop (the one not
// in the FIN arm).
func mainRecv(c *Ctx, loop *ssa.Function) ssa.CallInstruction {
	_, site := packetTypeTestKey(c, loop, "PACKET_FIN")
	var finArm *ssa.BasicBlock
	if site != nil {
		for _, r := range eng.Referrers(site) {
			if iff, ok := r.(*ssa.If); ok {
				finArm = iff.Block().Succs[0]
			}
		}
	}
	for _, call := range c.P.CallsTo(loop, "(fsutil.Stream).RecvMsg") {
		if finArm != nil && (finArm == call.Block() || finArm.Dominates(call.Block())) {
			continue
		}
		return call
	}
	return nil
}

func r03_1(c *Ctx, rule string) {
	c.R.Rule(rule, "every forward of a received entry to the disk writer (dynamicWalker.update with an entry) is preceded in the same loop iteration by checked calls of both validators; entries parked on the replay stack are validated before they are pushed; update is the only sender on walkChan and is only called from the receive loop")
	loop := recvLoop(c, rule)
	if loop == nil {
		return
	}
	recv := mainRecv(c, loop)
	if recv == nil {
		c.R.Missing(rule, "main-loop RecvMsg")
		return
	}
	isRecv := c.callPred("(fsutil.Stream).RecvMsg")
	validators := []struct{ name, callee string }{
		{"order validator", "fsutil.(*Validator).HandleChange"},
		{"hard-link validator", "fsutil.(*Hardlinks).HandleChange"},
	}
	// receiver fields the validators must be called on
	for _, v := range validators {
		calls := c.P.CallsTo(loop, v.callee)
		c.R.Floor(rule, "calls of the "+v.name+" in the receive loop", len(calls), 1)
	}
	precededInIteration := func(target func(ssa.Instruction) bool, callee string) (*eng.Hit, bool) {
		chk := c.checkedCallPred(callee)
		x := c.explorer(loop)
		x.From = recv
		x.Barrier = func(in ssa.Instruction, st *eng.State) bool {
			return chk(in) || (in != ssa.Instruction(recv) && isRecv(in))
		}
		x.Target = func(in ssa.Instruction, st *eng.State) bool { return target(in) }
		x.StopAtTarget = true
		h := x.Run()
		if x.Exhausted {
			return nil, true
		}
		if len(h) > 0 {
			return &h[0], false
		}
		return nil, false
	}
	nUpd, nPush := 0, 0
	for _, call := range c.P.CallsTo(loop, "fsutil.(*dynamicWalker).update") {
		arg := call.Common().Args[len(call.Common().Args)-1]
		if k, ok := arg.(*ssa.Const); ok && k.IsNil() {
			continue // end-of-stats marker
		}
		nUpd++
		fromStack := c.DerivesFrom(arg, func(v ssa.Value) bool { return isFieldLoad(v, "fsutil.stack.items") }, 6)
		con := c.siteName(call)
		if fromStack {
			c.R.OK(rule, con+"/replay", c.pos(call), "forwards entries of the replay stack; its push sites are checked below")
			continue
		}
		for _, v := range validators {
			hit, und := precededInIteration(func(in ssa.Instruction) bool { return in == ssa.Instruction(call) }, v.callee)
			switch {
			case und:
				c.R.Undecided(rule, con+"/"+v.name, c.pos(call), "state limit")
			case hit != nil:
				c.R.Fail(rule, con+"/"+v.name, c.pos(call), "a received entry reaches the disk writer without a checked call of the "+v.name+" in the same iteration; path "+eng.BlockTrace(loop, hit.Trace))
			default:
				c.R.OK(rule, con+"/"+v.name, c.pos(call), "preceded by a checked "+v.name+" call on every path of the iteration")
			}
		}
		// the validated entry is the forwarded entry
		for _, v := range validators {
			same := false
			for _, vc := range c.P.CallsTo(loop, v.callee) {
				args := vc.Common().Args
				if len(args) >= 4 {
					// path argument is cp.path of the forwarded cp; stat argument wraps cp.stat
					// (or the very values the forwarded entry was built from:
					// `cp := &currentPath{path: path, stat: p.Stat}` ... HandleChange(kind, path, ...))
					built := map[ssa.Value]bool{}
					if al, isAlloc := eng.Strip(arg).(*ssa.Alloc); isAlloc {
						for _, r := range eng.Referrers(al) {
							if fa, isFA := r.(*ssa.FieldAddr); isFA {
								for _, r2 := range eng.Referrers(fa) {
									if st, isSt := r2.(*ssa.Store); isSt && st.Addr == ssa.Value(fa) {
										built[eng.Strip(st.Val)] = true
									}
								}
							}
						}
					}
					isEntry := func(x ssa.Value) bool { return x == arg || built[x] || built[eng.Strip(x)] }
					pOK := c.DerivesFrom(args[2], isEntry, 4)
					sOK := c.DerivesFrom(args[3], isEntry, 6)
					if pOK && sOK {
						same = true
					}
				}
			}
			c.R.Check(same, rule, con+"/"+v.name+"-same-entry", c.pos(call), "the "+v.name+" is applied to the path and stat of the entry that is forwarded", "the "+v.name+" is not applied to the path and stat of the entry that is forwarded")
		}
	}
	for _, call := range eng.Calls(loop) {
		if !strings.HasSuffix(c.P.CalleeName(call), ".push") || !strings.Contains(c.P.CalleeName(call), "stack") {
			continue
		}
		nPush++
		con := c.siteName(call)
		for _, v := range validators {
			hit, und := precededInIteration(func(in ssa.Instruction) bool { return in == ssa.Instruction(call) }, v.callee)
			switch {
			case und:
				c.R.Undecided(rule, con+"/"+v.name, c.pos(call), "state limit")
			case hit != nil:
				c.R.Fail(rule, con+"/"+v.name, c.pos(call), "an entry is parked on the replay stack without a checked "+v.name+" call; path "+eng.BlockTrace(loop, hit.Trace))
			default:
				c.R.OK(rule, con+"/"+v.name, c.pos(call), "validated before it is parked for replay")
			}
		}
	}
	c.R.Floor(rule, "forwarding update sites", nUpd, 2)
	c.R.Floor(rule, "replay-stack push sites", nPush, 1)
	// who may send on walkChan / who may call update
	upd := c.Fn(rule, "fsutil.(*dynamicWalker).update")
	if upd == nil {
		return
	}
	for _, fn := range transferFuncs(c, "fsutil") {
		fn := fn
		eng.Instrs(fn, func(in ssa.Instruction) {
			switch x := in.(type) {
			case *ssa.Send:
				if c.P.ChanDesc(x.Chan) == "field:fsutil.dynamicWalker.walkChan" {
					c.R.Check(fn == upd, rule, c.name(fn)+"/walkChan-send", c.pos(x), "sent in update", "walkChan is sent to outside dynamicWalker.update: entries can reach the writer unvalidated")
				}
			case *ssa.Select:
				for _, st := range x.States {
					if st.Dir == types.SendOnly && c.P.ChanDesc(st.Chan) == "field:fsutil.dynamicWalker.walkChan" {
						c.R.Check(fn == upd, rule, c.name(fn)+"/walkChan-send", c.pos(x), "walkChan is only sent to in update", "walkChan is sent to outside dynamicWalker.update: entries can reach the writer unvalidated")
					}
				}
			}
		})
	}
	for _, cs := range c.P.CallGraph().Callers(upd) {
		if c.P.IsTestFile(cs.Pos()) {
			continue
		}
		c.R.Check(c.onlyIn(cs, c.name(loop)), rule, c.siteName(cs)+"/caller", c.pos(cs), "update is called from the receive loop", "dynamicWalker.update is called from "+c.name(cs.Parent())+", outside the validating receive loop")
	}
}

// lexical rejection classes of Validator.HandleChange
func r03_2(c *Ctx, rule string) {
	c.R.Rule(rule, "Validator.HandleChange has, for each lexical class (unclean, absolute, '.', '..', '../' prefix), a test on the path whose reject outcome reaches no success return")
	fn := c.Fn(rule, "fsutil.(*Validator).HandleChange")
	if fn == nil {
		return
	}
	var pathParam *ssa.Parameter
	for _, p := range fn.Params {
		if b, ok := p.Type().Underlying().(*types.Basic); ok && b.Kind() == types.String {
			pathParam = p
		}
	}
	if pathParam == nil {
		c.R.Missing(rule, "string path parameter of Validator.HandleChange")
		return
	}
	x := c.explorer(fn)
	isP := func(v ssa.Value) bool { return eng.Strip(v) == ssa.Value(pathParam) }
	isCallOnP := func(v ssa.Value, name string) bool {
		call, ok := v.(*ssa.Call)
		return ok && c.P.CalleeName(call) == name && len(call.Call.Args) >= 1 && isP(call.Call.Args[0])
	}
	sepConst := func(v ssa.Value) (string, bool) {
		if s, ok := eng.ConstString(v); ok {
			return s, true
		}
		if call, ok := v.(*ssa.Call); ok && c.P.CalleeName(call) == "path/filepath.FromSlash" {
			if s, ok := eng.ConstString(call.Call.Args[0]); ok {
				if c.P.GOOS == "windows" {
					return strings.ReplaceAll(s, "/", `\`), true
				}
				return s, true
			}
		}
		return "", false
	}
	up := "../"
	if c.P.GOOS == "windows" {
		up = `..\`
	}
	// candidate tests: key (true = reject)
	classes := map[string][]string{}
	eng.Instrs(fn, func(in ssa.Instruction) {
		switch v := in.(type) {
		case *ssa.BinOp:
			if v.Op != token.EQL && v.Op != token.NEQ {
				return
			}
			k := x.KeyAtEntry(v)
			rejectWhenEqual := func() string {
				if v.Op == token.EQL {
					return k
				}
				return "!" + k
			}
			rejectWhenDifferent := func() string {
				if v.Op == token.NEQ {
					return k
				}
				return "!" + k
			}
			a, b := v.X, v.Y
			if isP(b) {
				a, b = b, a
			}
			if isP(a) && isCallOnP(b, "path/filepath.Clean") {
				classes["unclean"] = append(classes["unclean"], rejectWhenDifferent())
			}
			if s, ok := eng.ConstString(b); ok && (isP(a) || isCallOnP(a, "path/filepath.Base")) {
				switch s {
				case ".":
					classes["dot"] = append(classes["dot"], rejectWhenEqual())
				case "..":
					classes["dotdot"] = append(classes["dotdot"], rejectWhenEqual())
				}
			}
		case *ssa.Call:
			n := c.P.CalleeName(v)
			switch n {
			case "path/filepath.IsAbs":
				if isP(v.Call.Args[0]) {
					classes["absolute"] = append(classes["absolute"], x.KeyAtEntry(v))
				}
			case "strings.HasPrefix":
				if s, ok := sepConst(v.Call.Args[1]); ok && s == up && isP(v.Call.Args[0]) {
					classes["escape"] = append(classes["escape"], x.KeyAtEntry(v))
				}
			case "path/filepath.IsLocal":
				if isP(v.Call.Args[0]) {
					k := "!" + x.KeyAtEntry(v)
					classes["absolute"] = append(classes["absolute"], k)
					classes["dotdot"] = append(classes["dotdot"], k)
					classes["escape"] = append(classes["escape"], k)
				}
			}
		}
	})
	what := map[string]string{
		"unclean":  "p != filepath.Clean(p)",
		"absolute": "filepath.IsAbs(p)",
		"dot":      `p == "."`,
		"dotdot":   `p == ".."`,
		"escape":   `strings.HasPrefix(p, "../")`,
	}
	for _, cl := range []string{"unclean", "absolute", "dot", "dotdot", "escape"} {
		con := c.name(fn) + "/class-" + cl
		keys := classes[cl]
		if len(keys) == 0 {
			c.R.Fail(rule, con, c.P.Pos(fn.Pos()), "no test of the form "+what[cl]+" (or an equivalent listed idiom) on the received path: paths of this class are accepted")
			continue
		}
		fatal := false
		var where *eng.Hit
		for _, k := range keys {
			hit, und := c.SuccessAvoiding(fn, nil, map[string]bool{k: true}, nil, nil)
			if und {
				continue
			}
			if hit == nil {
				fatal = true
			} else {
				where = hit
			}
		}
		if fatal {
			c.R.OK(rule, con, c.P.Pos(fn.Pos()), "a path of this class ("+what[cl]+") reaches no success return")
		} else {
			p := c.P.Pos(fn.Pos())
			if where != nil {
				p = c.pos(where.Instr)
			}
			c.R.Fail(rule, con, p, "the test "+what[cl]+" exists but its reject outcome can still reach a success return")
		}
	}
	// liveness: without any of them firing, success is reachable
	hit, _ := c.SuccessAvoiding(fn, nil, nil, nil, nil)
	c.R.Check(hit != nil, rule, c.name(fn)+"/accepts-something", c.P.Pos(fn.Pos()), "a success return is reachable", "Validator.HandleChange has no reachable success return")
}

// ordering and parent rejection
func r03_3(c *Ctx, rule string) {
	c.R.Rule(rule, "the comparison of the stored last child with the new base name rejects for 'equal' and 'greater' and accepts 'less'; a directory other than the open one is rejected; a new open directory is pushed only for non-delete directory entries")
	fn := c.Fn(rule, "fsutil.(*Validator).HandleChange")
	if fn == nil {
		return
	}
	x := c.explorer(fn)
	base := c.name(fn)
	// last ? base
	var cmp *ssa.BinOp
	lastIsX := false
	eng.Instrs(fn, func(in ssa.Instruction) {
		bo, ok := in.(*ssa.BinOp)
		if !ok {
			return
		}
		switch bo.Op {
		case token.LSS, token.LEQ, token.GTR, token.GEQ:
		default:
			return
		}
		isLast := func(v ssa.Value) bool { return isFieldLoad(v, "fsutil.parent.last") }
		isBase := func(v ssa.Value) bool {
			return c.DerivesFrom(v, func(y ssa.Value) bool { return c.isCallValueTo(y, "path/filepath.Base") }, 3)
		}
		if isLast(bo.X) && isBase(bo.Y) {
			cmp, lastIsX = bo, true
		} else if isLast(bo.Y) && isBase(bo.X) {
			cmp, lastIsX = bo, false
		}
	})
	if cmp == nil {
		c.R.Undecided(rule, base+"/last-vs-base", c.P.Pos(fn.Pos()), "no ordered comparison between parent.last and filepath.Base(p) found (rewritten with a helper?); the ordering rule cannot be evaluated")
	} else {
		key := x.KeyAtEntry(cmp)
		eval := func(ord int) bool { // ord: -1 last<base, 0 equal, +1 last>base
			o := ord
			if !lastIsX {
				o = -ord
			}
			switch cmp.Op {
			case token.LSS:
				return o < 0
			case token.LEQ:
				return o <= 0
			case token.GTR:
				return o > 0
			default:
				return o >= 0
			}
		}
		names := map[int]string{-1: "less", 0: "equal", 1: "greater"}
		for _, ord := range []int{-1, 0, 1} {
			hit, und := c.SuccessAvoiding(fn, nil, map[string]bool{key: eval(ord)}, nil, nil)
			con := base + "/last-vs-base/" + names[ord]
			switch {
			case und:
				c.R.Undecided(rule, con, c.pos(cmp), "state limit")
			case ord < 0:
				c.R.Check(hit != nil, rule, con, c.pos(cmp), "a name greater than the last child is accepted", "a strictly ascending name can no longer be accepted")
			default:
				c.R.Check(hit == nil, rule, con, c.pos(cmp), "a name "+names[ord]+" (last ? base) is rejected",
					"a name that is not strictly greater than the previous sibling (last "+names[ord]+" base) reaches a success return: duplicates / unordered streams are accepted")
			}
		}
	}
	// the record of the last child is updated in the live slice
	c.ObNoStaleElementStores(rule, fn, 1, "validator record (last child of an open directory)")
	// ... and for every accepted element, whatever its kind: the next element
	// must be compared with this one
	isLastStore := func(in ssa.Instruction) bool {
		st, ok := in.(*ssa.Store)
		if !ok {
			return false
		}
		fa, ok := st.Addr.(*ssa.FieldAddr)
		if !ok || eng.FieldOwnerName(fa.X.Type(), fa.Field) != "fsutil.parent.last" {
			return false
		}
		return c.DerivesFrom(st.Val, func(y ssa.Value) bool { return c.isCallValueTo(y, "path/filepath.Base") }, 3)
	}
	// (the error parameter is nil on the accepting paths; it is the last parameter)
	errNil := map[string]bool{"(p:" + fn.Params[len(fn.Params)-1].Name() + "==nil)": true}
	if hit, und := c.SuccessAvoiding(fn, nil, errNil, nil, isLastStore); und {
		c.R.Undecided(rule, base+"/accepted-is-recorded", c.P.Pos(fn.Pos()), "state limit")
	} else {
		c.R.Check(hit == nil, rule, base+"/accepted-is-recorded", c.P.Pos(fn.Pos()), "every accepted element becomes the last child of its directory", "an element (e.g. a delete) can be accepted without being recorded as the last child of its directory: the next element is compared with a stale sibling, so a repeated or descending name is accepted")
	}
	// dir != open dir
	var dcmp *ssa.BinOp
	eng.Instrs(fn, func(in ssa.Instruction) {
		bo, ok := in.(*ssa.BinOp)
		if !ok || (bo.Op != token.EQL && bo.Op != token.NEQ) {
			return
		}
		if isFieldLoad(bo.X, "fsutil.parent.dir") || isFieldLoad(bo.Y, "fsutil.parent.dir") {
			other := bo.X
			if isFieldLoad(bo.X, "fsutil.parent.dir") {
				other = bo.Y
			}
			if c.DerivesFrom(other, func(y ssa.Value) bool { return c.isCallValueTo(y, "path/filepath.Dir") }, 4) {
				dcmp = bo
			}
		}
	})
	if dcmp == nil {
		c.R.Fail(rule, base+"/parent-mismatch", c.P.Pos(fn.Pos()), "no comparison between the entry's directory and the open directory (parent.dir): an entry without its parent directory is accepted")
	} else {
		k := x.KeyAtEntry(dcmp)
		diff := dcmp.Op == token.NEQ
		hit, und := c.SuccessAvoiding(fn, nil, map[string]bool{k: diff}, nil, nil)
		c.R.Check(!und && hit == nil, rule, base+"/parent-mismatch", c.pos(dcmp), "an entry whose directory is not the open directory is rejected", "an entry whose directory differs from the open directory can reach a success return")
	}
	// push of a new open directory
	var push ssa.Instruction
	eng.Instrs(fn, func(in ssa.Instruction) {
		if !c.P.IsCallTo(in, "builtin:append") {
			return
		}
		call := in.(*ssa.Call)
		if !isFieldLoad(call.Call.Args[0], "fsutil.Validator.parentDirs") {
			return
		}
		push = in
	})
	if push == nil {
		c.R.Missing(rule, "append to Validator.parentDirs")
		return
	}
	isPush := func(in ssa.Instruction) bool { return in == push }
	for _, call := range c.P.CallsTo(fn, "(io/fs.FileInfo).IsDir") {
		if cl, ok := call.(*ssa.Call); ok {
			c.ObUnreachable(rule, base+"/push-only-dirs", fn, map[string]bool{x.KeyAtEntry(cl): false}, isPush, "opening a new directory level", "the entry is not a directory")
		}
	}
	pk := c.P.Pkg("fsutil")
	del, _ := pk.Types.Scope().Lookup("ChangeKindDelete").(*types.Const)
	var kcmp []string
	eng.Instrs(fn, func(in ssa.Instruction) {
		bo, ok := in.(*ssa.BinOp)
		if !ok || (bo.Op != token.EQL && bo.Op != token.NEQ) || del == nil {
			return
		}
		if p, isP := bo.X.(*ssa.Parameter); isP && strings.HasSuffix(types.TypeString(p.Type(), nil), "ChangeKind") {
			if k, ok := bo.Y.(*ssa.Const); ok && k.Value != nil && k.Value.ExactString() == del.Val().ExactString() {
				key := x.KeyAtEntry(bo)
				if bo.Op == token.NEQ {
					key = "!" + key
				}
				kcmp = append(kcmp, key)
			}
		}
	})
	if len(kcmp) == 0 {
		c.R.Fail(rule, base+"/push-not-on-delete", c.pos(push), "no test of kind against ChangeKindDelete: deletions of directories open a directory level")
	} else {
		as := map[string]bool{}
		for _, k := range kcmp {
			as[k] = true
		}
		c.ObUnreachable(rule, base+"/push-not-on-delete", fn, as, isPush, "opening a new directory level", "the change is a delete")
	}
}

// hard-link source must have been received
func r03_4(c *Ctx, rule string) {
	c.R.Rule(rule, "Hardlinks.HandleChange: for a non-directory, non-symlink entry with a link name the lookup of the link source is fatal on a miss; sources are recorded only for entries without a link name, under their own path")
	fn := c.Fn(rule, "fsutil.(*Hardlinks).HandleChange")
	if fn == nil {
		return
	}
	base := c.name(fn)
	x := c.explorer(fn)
	var look *ssa.Lookup
	for _, l := range c.lookupsOfField(fn, "fsutil.Hardlinks.seenFiles") {
		look = l
	}
	if look == nil {
		c.R.Fail(rule, base+"/link-source-lookup", c.P.Pos(fn.Pos()), "no lookup of the link source in Hardlinks.seenFiles: hard links to unknown paths are accepted")
		return
	}
	c.R.Check(isFieldLoad(look.Index, "types.Stat.Linkname"), rule, base+"/link-source-key", c.pos(look), "looked up by the entry's link name", "the lookup key is not the entry's Linkname")
	hit, und := c.SuccessAvoiding(fn, look, map[string]bool{c.reg(look) + "#1": false}, nil, nil)
	c.R.Check(!und && hit == nil, rule, base+"/unknown-source-fatal", c.pos(look), "a miss reaches no success return", "a hard link whose source was never received can reach a success return")
	// the lookup cannot be bypassed for a link entry
	as := map[string]bool{}
	for _, call := range c.P.CallsTo(fn, "(io/fs.FileInfo).IsDir") {
		if cl, ok := call.(*ssa.Call); ok {
			as[x.KeyAtEntry(cl)] = false
		}
	}
	for _, k := range modeBitTests(c, fn, x, modeSymlink) {
		as[k] = false
	}
	// link name present
	eng.Instrs(fn, func(in ssa.Instruction) {
		bo, ok := in.(*ssa.BinOp)
		if !ok {
			return
		}
		if call, isC := bo.X.(*ssa.Call); isC && c.P.CalleeName(call) == "builtin:len" && isFieldLoad(call.Call.Args[0], "types.Stat.Linkname") {
			k := x.KeyAtEntry(bo)
			// truth of "len > 0"
			if n, ok := eng.ConstInt(bo.Y); ok && n == 0 {
				switch bo.Op {
				case token.GTR, token.NEQ:
					as[k] = true
				case token.EQL, token.LEQ:
					as[k] = false
				}
			}
		}
	})
	for k, v := range c.emptinessTests(fn, x, true, func(v ssa.Value) bool { return isFieldLoad(v, "types.Stat.Linkname") }) {
		as[k] = v
	}
	// kind != delete, err == nil, type assertion ok
	eng.Instrs(fn, func(in ssa.Instruction) {
		switch v := in.(type) {
		case *ssa.BinOp:
			if p, isP := v.X.(*ssa.Parameter); isP && strings.HasSuffix(types.TypeString(p.Type(), nil), "ChangeKind") {
				as[x.KeyAtEntry(v)] = v.Op == token.NEQ
			}
			if p, isP := v.X.(*ssa.Parameter); isP && types.TypeString(p.Type(), nil) == "error" {
				as[x.KeyAtEntry(v)] = v.Op == token.EQL
			}
		case *ssa.TypeAssert:
			if v.CommaOk {
				as[c.reg(v)+"#1"] = true
			}
		}
	})
	hit, und = c.SuccessAvoiding(fn, nil, as, nil, func(in ssa.Instruction) bool { return in == ssa.Instruction(look) })
	c.R.Check(!und && hit == nil, rule, base+"/lookup-not-bypassed", c.pos(look), "for a regular entry with a link name every success path passes the lookup", "a regular entry carrying a link name can succeed without its source being looked up")
	// ... and is not itself recorded as a possible source before that lookup:
	// an entry naming itself would otherwise pass
	isRecord := func(in ssa.Instruction) bool {
		mu, ok := in.(*ssa.MapUpdate)
		return ok && isFieldLoad(mu.Map, "fsutil.Hardlinks.seenFiles")
	}
	okR, hitR, undR := c.Precedes(fn, nil, as, func(in ssa.Instruction) bool { return in == ssa.Instruction(look) }, isRecord)
	whereR := c.pos(look)
	if hitR != nil {
		whereR = c.pos(hitR.Instr)
	}
	c.R.Check(okR && !undR, rule, base+"/not-recorded-before-own-lookup", whereR, "an entry carrying a link name is not recorded as a link source before its own source was looked up", "an entry carrying a link name is recorded in seenFiles before its own link source is looked up: a hard link naming itself (or a later entry) is accepted and the writer links whatever already sits at that path")
	// inserts
	n := 0
	eng.Instrs(fn, func(in ssa.Instruction) {
		mu, ok := in.(*ssa.MapUpdate)
		if !ok || !isFieldLoad(mu.Map, "fsutil.Hardlinks.seenFiles") {
			return
		}
		n++
		_, isParam := eng.Strip(mu.Key).(*ssa.Parameter)
		c.R.Check(isParam, rule, fmt.Sprintf("%s/record#%d-key", base, n), c.pos(mu), "recorded under the entry's own path", "a link source is recorded under something other than the received path")
	})
	c.R.Floor(rule, "recordings of received files in Hardlinks.seenFiles", n, 1)
}

// content only for requested ids
func r03_5(c *Ctx, rule string) {
	c.R.Rule(rule, "DATA for an id without a registered pipe is fatal and writes nothing; pipes are registered only by asyncDataFunc")
	loop := recvLoop(c, rule)
	if loop == nil {
		return
	}
	var look *ssa.Lookup
	eng.Instrs(loop, func(in ssa.Instruction) {
		if l, ok := in.(*ssa.Lookup); ok && l.CommaOk && isFieldLoad(l.X, "fsutil.receiver.pipes") {
			look = l
		}
	})
	base := c.name(loop)
	if look == nil {
		c.R.Fail(rule, base+"/pipe-lookup", c.P.Pos(loop.Pos()), "the DATA arm does not look the id up in receiver.pipes with a presence test")
		return
	}
	c.R.Check(isFieldLoad(look.Index, "types.Packet.ID"), rule, base+"/pipe-lookup-key", c.pos(look), "looked up by the packet's ID", "the pipe is not looked up by the packet's ID")
	okKey := c.reg(look) + "#1"
	isRecv := c.callPred("(fsutil.Stream).RecvMsg")
	x := c.explorer(loop)
	x.From = look
	x.Assume = map[string]bool{okKey: false}
	x.Barrier = func(in ssa.Instruction, st *eng.State) bool { return isRecv(in) }
	reached := ""
	x.Target = func(in ssa.Instruction, st *eng.State) bool {
		if x.IsSuccessReturn(in, st) {
			reached = "a success return"
			return true
		}
		if c.P.IsCallTo(in, "(io.Writer).Write", "(io.Closer).Close") {
			reached = "a write/close on a pipe"
			return true
		}
		return false
	}
	x.StopAtTarget = true
	hits := x.Run()
	// reaching the next RecvMsg (barrier) silently would also be wrong: detect by a second run
	y := c.explorer(loop)
	y.From = look
	y.Assume = map[string]bool{okKey: false}
	y.Target = func(in ssa.Instruction, st *eng.State) bool { return isRecv(in) }
	y.StopAtTarget = true
	cont := y.Run()
	switch {
	case x.Exhausted || y.Exhausted:
		c.R.Undecided(rule, base+"/unknown-id-fatal", c.pos(look), "state limit")
	case len(hits) > 0:
		c.R.Fail(rule, base+"/unknown-id-fatal", c.pos(hits[0].Instr), "DATA for an id that was never requested reaches "+reached)
	case len(cont) > 0:
		c.R.Fail(rule, base+"/unknown-id-fatal", c.pos(cont[0].Instr), "DATA for an id that was never requested is ignored and the loop continues: the stream is not rejected")
	default:
		c.R.OK(rule, base+"/unknown-id-fatal", c.pos(look), "DATA for an unknown id ends the receive loop with an error before anything is written")
	}
	// what is written to is what this packet's id was just looked up to: a pipe
	// remembered from an earlier packet may have been closed and removed from
	// the table since (its file is done), and the table is what says whether
	// content for an id was requested
	var classify func(v ssa.Value, d int, seen map[ssa.Value]bool) int
	classify = func(v ssa.Value, d int, seen map[ssa.Value]bool) int {
		if v == nil || d > 8 {
			return 0
		}
		if seen[v] {
			return 1
		}
		seen[v] = true
		if e, ok := v.(*ssa.Extract); ok && e.Tuple == ssa.Value(look) && e.Index == 0 {
			return 1
		}
		// (a variable assigned once by a literal applied on the spot:
		// `withLock(func() { pw, ok = r.pipes[id] })`)
		if cv := eng.Canon(v); cv != v {
			return classify(cv, d+1, seen)
		}
		if rs := eng.ResolveAll(v); len(rs) > 1 || (len(rs) == 1 && rs[0] != v) {
			res := 1
			for _, r := range rs {
				if k := classify(r, d+1, seen); k < res {
					res = k
				}
			}
			return res
		}
		switch y := v.(type) {
		case *ssa.Phi:
			res := 1
			for i, e := range y.Edges {
				// carried around the receive loop: a value of an earlier iteration
				if pred := y.Block().Preds[i]; y.Block().Dominates(pred) && eng.InCycle(y.Block()) {
					if _, isK := e.(*ssa.Const); !isK {
						return -1
					}
				}
				if k := classify(e, d+1, seen); k < res {
					res = k
				}
			}
			return res
		case *ssa.UnOp:
			if y.Op == token.MUL {
				return -1 // kept in a variable or field
			}
		case *ssa.ChangeInterface:
			return classify(y.X, d+1, seen)
		case *ssa.TypeAssert:
			return classify(y.X, d+1, seen)
		case *ssa.Const:
			return 1 // nil: no pipe at all
		}
		return 0
	}
	np := 0
	eng.Instrs(loop, func(in ssa.Instruction) {
		if !c.P.IsCallTo(in, "(io.Writer).Write", "(io.Closer).Close") {
			return
		}
		cc := in.(ssa.CallInstruction).Common()
		if !cc.IsInvoke() {
			return
		}
		np++
		con := fmt.Sprintf("%s/pipe-use#%d/looked-up-for-this-packet", base, np)
		switch classify(cc.Value, 0, map[ssa.Value]bool{}) {
		case 1:
			c.R.OK(rule, con, c.pos(in), "the pipe written to is the one just looked up under the packet's id")
		case -1:
			c.R.Fail(rule, con, c.pos(in), "the pipe written to can be one remembered from an earlier packet instead of the one looked up for this packet's id: once its file was completed and the id removed from the table, later DATA for that id is no longer refused - content that was not requested is written and Receive can still succeed")
		default:
			c.R.OK(rule, con, c.pos(in), "the receiver of this call is not traced to the table lookup (a shape this rule does not interpret): not decided")
		}
	})
	// who writes receiver.pipes
	f := c.P.StructField("fsutil", "receiver", "pipes")
	n := 0
	if f != nil {
		for _, m := range fieldMutations(c, f) {
			n++
			c.R.Check(c.onlyIn(m, "fsutil.(*receiver).asyncDataFunc"), rule, fmt.Sprintf("receiver.pipes/mutation#%d", n), c.pos(m), "pipes are registered/removed only by asyncDataFunc", "receiver.pipes is modified in "+c.name(m.Parent()))
		}
	}
	c.R.Floor(rule, "mutations of receiver.pipes", n, 2)
}

// filesystem call classification ------------------------------------------------

type fsClass int

const (
	fsNoFollow fsClass = iota // operates on the final component itself
	fsFollow                  // follows a symlink in the final component
	fsNeutral                 // no path semantics of interest (Getpid, IsNotExist ...)
)

// fsCallTable classifies every path-taking function of os, syscall, x/sys/unix
// and continuity/sysx that the analysed code calls. An unlisted callee with a
// string parameter from these packages is a violation (closed world).
var fsCallTable = map[string]fsClass{
	"os.Lstat": fsNoFollow, "os.Lchown": fsNoFollow, "os.Readlink": fsNoFollow, "os.Remove": fsNoFollow,
	"os.RemoveAll": fsNoFollow, "os.Rename": fsNoFollow, "os.Mkdir": fsNoFollow, "os.Symlink": fsNoFollow,
	"os.Link": fsNoFollow, "golang.org/x/sys/unix.Mknod": fsNoFollow, "syscall.Mknod": fsNoFollow,
	"github.com/containerd/continuity/sysx.LSetxattr": fsNoFollow, "github.com/containerd/continuity/sysx.LGetxattr": fsNoFollow,
	"github.com/containerd/continuity/sysx.LListxattr": fsNoFollow, "github.com/containerd/continuity/sysx.LRemovexattr": fsNoFollow,
	"golang.org/x/sys/unix.Lchown": fsNoFollow, "syscall.Lchown": fsNoFollow, "golang.org/x/sys/unix.Lstat": fsNoFollow,
	"golang.org/x/sys/unix.UtimesNanoAt": fsNoFollow, // flag checked separately
	"os.MkdirAll":                        fsFollow,
	"os.Stat":                            fsFollow, "os.Open": fsFollow, "os.OpenFile": fsFollow, "os.Create": fsFollow, "os.Chmod": fsFollow,
	"os.Chown": fsFollow, "os.Chtimes": fsFollow, "os.Truncate": fsFollow, "os.ReadFile": fsFollow, "os.WriteFile": fsFollow,
	"os.ReadDir": fsFollow, "os.Chdir": fsFollow,
	"github.com/containerd/continuity/sysx.Setxattr": fsFollow, "github.com/containerd/continuity/sysx.Getxattr": fsFollow,
	"github.com/containerd/continuity/sysx.Listxattr": fsFollow, "github.com/containerd/continuity/sysx.Removexattr": fsFollow,
	"golang.org/x/sys/unix.Chmod": fsFollow, "golang.org/x/sys/unix.Chown": fsFollow, "golang.org/x/sys/unix.Stat": fsFollow,
	"golang.org/x/sys/unix.Open": fsFollow, "golang.org/x/sys/unix.Utimes": fsFollow, "golang.org/x/sys/unix.Truncate": fsFollow,
	"golang.org/x/sys/unix.Setxattr": fsFollow, "golang.org/x/sys/unix.Lsetxattr": fsNoFollow,
	"syscall.Chmod": fsFollow, "syscall.Chown": fsFollow, "syscall.Stat": fsFollow, "syscall.Open": fsFollow,
	"syscall.UtimesNano": fsFollow, "syscall.Utimes": fsFollow, "os.Lchmod": fsNoFollow,
	"path/filepath.EvalSymlinks": fsFollow, "path/filepath.WalkDir": fsNoFollow, "path/filepath.Walk": fsNoFollow, "path/filepath.Glob": fsNoFollow,
	"os.IsNotExist": fsNeutral, "os.IsExist": fsNeutral, "os.IsPermission": fsNeutral, "os.Getpid": fsNeutral, "os.IsPathSeparator": fsNeutral,
	"os.Getenv": fsNeutral, "os.SameFile": fsNeutral, "os.NewFile": fsNeutral,
	"golang.org/x/sys/unix.Mkdev": fsNeutral, "golang.org/x/sys/unix.NsecToTimespec": fsNeutral, "golang.org/x/sys/unix.TimeToTimespec": fsNeutral,
	"golang.org/x/sys/unix.Major": fsNeutral, "golang.org/x/sys/unix.Minor": fsNeutral,
	"golang.org/x/sys/unix.CopyFileRange": fsNeutral, "golang.org/x/sys/unix.Mkfifo": fsNoFollow,
	"github.com/containerd/continuity/fs.RootPath": fsNeutral,
	"syscall.UTF16PtrFromString":                   fsNeutral, "syscall.UTF16FromString": fsNeutral, "golang.org/x/sys/windows.UTF16PtrFromString": fsNeutral,
	"golang.org/x/sys/unix.Clonefileat": fsNoFollow, // CLONE_NOFOLLOW flag checked separately
	"golang.org/x/sys/unix.Clonefile":   fsNoFollow, "golang.org/x/sys/unix.Fclonefileat": fsNoFollow,
}

var fsPackages = []string{"os.", "syscall.", "golang.org/x/sys/unix.", "golang.org/x/sys/windows.", "github.com/containerd/continuity/sysx.", "io/ioutil.", "path/filepath.EvalSymlinks", "path/filepath.Walk", "path/filepath.Glob", "github.com/Microsoft/go-winio."}

// fsCallsIn enumerates calls to path-taking filesystem functions in fns.
func fsCallsIn(c *Ctx, fns []*ssa.Function) []ssa.CallInstruction {
	var out []ssa.CallInstruction
	for _, fn := range fns {
		for _, call := range eng.Calls(fn) {
			f := call.Common().StaticCallee()
			if f == nil || c.P.InModule(f) {
				continue
			}
			n := c.P.CalleeName(call)
			isFS := false
			for _, p := range fsPackages {
				if strings.HasPrefix(n, p) {
					isFS = true
				}
			}
			if !isFS {
				continue
			}
			hasString := false
			ps := f.Signature.Params()
			for i := 0; i < ps.Len(); i++ {
				if b, ok := ps.At(i).Type().Underlying().(*types.Basic); ok && b.Kind() == types.String {
					hasString = true
				}
			}
			if !hasString {
				if cl, known := fsCallTable[n]; !known || cl != fsNeutral {
					continue
				}
			}
			out = append(out, call)
		}
	}
	return out
}

type followException struct {
	reason string
	// check, when set, must hold for the site (a structural condition the
	// reason relies on).
	check func(c *Ctx, call ssa.CallInstruction) (bool, string)
}

// guardedByNotSymlink: the call is unreachable when a symlink-mode test says
// "is a symlink".
func guardedByNotSymlink(c *Ctx, call ssa.CallInstruction) (bool, string) {
	return onAnchors(c, call, func(fn *ssa.Function) (bool, string) { return guardedByNotSymlinkIn(c, fn, call) })
}

func guardedByNotSymlinkIn(c *Ctx, fn *ssa.Function, call ssa.CallInstruction) (bool, string) {
	x := c.explorer(fn)
	keys := modeBitTests(c, fn, x, modeSymlink)
	if len(keys) == 0 {
		return false, "no symlink-mode test in " + c.name(fn)
	}
	as := map[string]bool{}
	for _, k := range keys {
		as[k] = true
	}
	hit, und := c.ReachableUnder(fn, as, nil, func(in ssa.Instruction) bool { return in == ssa.Instruction(call) })
	if und {
		return false, "state limit"
	}
	if hit != nil {
		return false, "reachable although the entry is a symlink (path " + eng.BlockTrace(fn, hit.Trace) + ")"
	}
	return true, ""
}

// dominatedByRemoveOfSamePath: an os.Remove of the same path expression precedes.
func dominatedByRemoveOfSamePath(c *Ctx, call ssa.CallInstruction) (bool, string) {
	return onAnchors(c, call, func(fn *ssa.Function) (bool, string) { return dominatedByRemoveOfSamePathIn(c, fn, call) })
}

func dominatedByRemoveOfSamePathIn(c *Ctx, fn *ssa.Function, call ssa.CallInstruction) (bool, string) {
	want := c.describeOperand(call.Common().Args[0])
	ok, _, und := c.Precedes(fn, nil, nil, func(in ssa.Instruction) bool {
		if !c.P.IsCallTo(in, "os.Remove", "os.RemoveAll") {
			return false
		}
		return strings.HasPrefix(want, "join(") && c.describeOperand(in.(ssa.CallInstruction).Common().Args[0]) == want
	}, func(in ssa.Instruction) bool { return in == ssa.Instruction(call) })
	if und {
		return false, "state limit"
	}
	if !ok {
		return false, "not preceded by os.Remove of the same path"
	}
	return true, ""
}

// r036Exceptions: following calls allowed on a destination path, keyed by
// function/callee.
var r036Exceptions = map[string]followException{
	"fsutil.(*DiskWriter).HandleChange/os.OpenFile": {reason: "newPath is a fresh temporary name next to the target, or the target itself only when Lstat reported it absent"},
	"fsutil.(*lazyFileWriter).Write/os.OpenFile":    {reason: "the path was created by this transfer as a regular file (HandleChange default arm + rename) and the validator forbids a second STAT for it"},
	"fsutil.(*lazyFileWriter).Write/os.Stat":        {reason: "as above: regular file created by this transfer"},
	"fsutil.(*lazyFileWriter).Write/os.Chmod":       {reason: "as above: regular file created by this transfer"},
	"fsutil.(*lazyFileWriter).Close/os.Chmod":       {reason: "as above: regular file created by this transfer"},
	"fsutil.rewriteMetadata/os.Chmod":               {reason: "skipped for symlinks", check: guardedByNotSymlink},
	"fsutil.chtimes/os.Chtimes":                     {reason: "non-linux: skipped when Lstat says symlink", check: guardedByLstatSymlink},
	"fsutil.(*receiver).run/os.OpenFile":            {reason: "the listing file: any pre-existing entry of that name was removed first", check: dominatedByRemoveOfSamePath},
}

func guardedByLstatSymlink(c *Ctx, call ssa.CallInstruction) (bool, string) {
	return onAnchors(c, call, func(fn *ssa.Function) (bool, string) {
		if len(c.P.CallsTo(fn, "os.Lstat")) == 0 {
			return false, "no os.Lstat in " + c.name(fn)
		}
		return guardedByNotSymlinkIn(c, fn, call)
	})
}

func r03_6(c *Ctx, rule string) {
	c.R.Rule(rule, "every filesystem call reachable from the disk writer and the listing-file tail is classified; a symlink-following call on a destination path is allowed only at the tabled sites, whose structural precondition is re-checked; UtimesNanoAt carries AT_SYMLINK_NOFOLLOW")
	var roots []*ssa.Function
	for _, n := range []string{"fsutil.(*DiskWriter).HandleChange", "fsutil.(*DiskWriter).requestAsyncFileData", "fsutil.(*DiskWriter).processChange",
		"fsutil.(*DiskWriter).Wait", "fsutil.(*lazyFileWriter).Write", "fsutil.(*lazyFileWriter).Close"} {
		if f := c.Fn(rule, n); f != nil {
			roots = append(roots, f)
		}
	}
	reach := c.P.CallGraph().Reachable(roots...)
	if run := c.Fn(rule, "fsutil.(*receiver).run"); run != nil {
		reach[run] = true
	}
	var fns []*ssa.Function
	for _, f := range c.P.SortedFuncs(reach) {
		if ps := fnPkgShort(c, f); ps != "fsutil" {
			continue
		}
		// exclude the destination *reader* (walker of the old tree): it never writes
		pos := c.P.Pos(f.Pos())
		if strings.HasPrefix(pos, "fs.go") || strings.HasPrefix(pos, "stat") || strings.HasPrefix(pos, "filter.go") || strings.HasPrefix(pos, "diff.go") || strings.HasPrefix(pos, "followlinks") {
			continue
		}
		fns = append(fns, f)
		c.R.Analysed(c.name(f))
	}
	sites := fsCallsIn(c, fns)
	n := 0
	for _, call := range sites {
		name := c.P.CalleeName(call)
		cl, known := fsCallTable[name]
		con := c.siteName(call)
		if !known {
			c.R.Fail(rule, con+"/unclassified", c.pos(call), "filesystem call "+name+" is not in the classification table (follow / no-follow): it must be classified before it may touch a destination path")
			continue
		}
		if cl == fsNeutral {
			continue
		}
		n++
		c.R.CallSites++
		if name == "golang.org/x/sys/unix.UtimesNanoAt" {
			checkNoFollowFlag(c, rule, call)
			continue
		}
		if cl == fsNoFollow {
			c.R.OK(rule, con, c.pos(call), name+" does not follow a symlink in the final component")
			continue
		}
		ex, ok := tabled(c, r036Exceptions, call)
		if !ok {
			c.R.Fail(rule, con, c.pos(call), name+" follows a symlink in the final path component and is applied to a destination path in "+c.name(call.Parent())+": a symlink received earlier (or already present) redirects the operation outside the destination")
			continue
		}
		if ex.check != nil {
			good, why := ex.check(c, call)
			c.R.Check(good, rule, con, c.pos(call), "tabled exception ("+ex.reason+"), precondition re-checked", "tabled exception for "+name+" ("+ex.reason+") no longer holds: "+why)
		} else {
			c.R.OK(rule, con, c.pos(call), "tabled exception: "+ex.reason)
		}
	}
	c.R.Floor(rule, "classified filesystem call sites in the writer", n, 14)
}

func checkNoFollowFlag(c *Ctx, rule string, call ssa.CallInstruction) {
	args := call.Common().Args
	con := c.siteName(call) + "/nofollow-flag"
	var want int64 = -1
	for _, pk := range c.P.SSA.AllPackages() {
		if pk.Pkg.Path() == "golang.org/x/sys/unix" {
			if k, ok := pk.Pkg.Scope().Lookup("AT_SYMLINK_NOFOLLOW").(*types.Const); ok {
				fmt.Sscan(k.Val().ExactString(), &want)
			}
		}
	}
	if len(args) < 4 || want < 0 {
		c.R.Undecided(rule, con, c.pos(call), "cannot resolve UtimesNanoAt's flag argument or the AT_SYMLINK_NOFOLLOW constant")
		return
	}
	got, ok := eng.ConstInt(args[3])
	c.R.Check(ok && got&want == want, rule, con, c.pos(call), "flags include AT_SYMLINK_NOFOLLOW", "UtimesNanoAt is called without AT_SYMLINK_NOFOLLOW: the times of a symlink's target (possibly outside the destination) are changed")
}

func r03_7(c *Ctx, rule string) {
	c.R.Rule(rule, "the existing entry inspected before replacing (oldFi) comes from os.Lstat of the destination path")
	hc := c.Fn(rule, "fsutil.(*DiskWriter).HandleChange")
	if hc == nil {
		return
	}
	n := 0
	for _, call := range c.P.CallsTo(hc, "(io/fs.FileInfo).IsDir", "(io/fs.FileInfo).Mode") {
		recv := call.Common().Value
		if eng.Canon(recv) == ssa.Value(hc.Params[3]) {
			continue
		}
		n++
		ok := c.DerivesFrom(recv, func(v ssa.Value) bool { return c.isCallValueTo(v, "os.Lstat") }, 5)
		c.R.Check(ok, rule, c.siteName(call)+"/lstat-based", c.pos(call), "the inspected old entry comes from os.Lstat", "the decision to replace or descend is based on something other than os.Lstat (a following stat would inspect a symlink's target)")
	}
	c.R.Floor(rule, "inspections of the existing destination entry", n, 2)
	for _, call := range c.P.CallsTo(hc, "os.Lstat") {
		arg := call.Common().Args[0]
		ok := c.DerivesFrom(arg, func(v ssa.Value) bool { return isFieldLoad(v, "fsutil.DiskWriter.dest") }, 5)
		c.R.Check(ok, rule, c.siteName(call)+"/on-dest", c.pos(call), "Lstat of a path below DiskWriter.dest", "Lstat is not applied to a path joined below DiskWriter.dest")
	}
}

// R03.8: what the validators accept as a parent directory is materialised as
// a real directory. The validators classify an entry by fi.IsDir() alone; the
// writer must give that test priority over every other mode bit, or a stat
// with contradictory type bits (directory + symlink, directory + device)
// becomes a parent the validator trusts and a symlink on disk.
func r03_8(c *Ctx, rule string) {
	c.R.Rule(rule, "type agreement between validator and writer: in DiskWriter.HandleChange no non-directory creation (symlink, hard link, file, device) and no content request is reachable when fi.IsDir() holds, and Mkdir is; both validators decide 'directory' by the same fi.IsDir()")
	hc := c.Fn(rule, "fsutil.(*DiskWriter).HandleChange")
	if hc == nil {
		return
	}
	x := c.explorer(hc)
	as := map[string]bool{}
	for _, call := range c.P.CallsTo(hc, "(io/fs.FileInfo).IsDir") {
		if cl, ok := call.(*ssa.Call); ok && eng.Strip(cl.Call.Value) == ssa.Value(hc.Params[3]) {
			as[x.KeyAtEntry(cl)] = true
		}
	}
	base := c.name(hc)
	if len(as) == 0 {
		c.R.Fail(rule, base+"/dir-test", c.P.Pos(hc.Pos()), "HandleChange never asks fi.IsDir()")
		return
	}
	nonDir := c.callPred("os.Symlink", "os.Link", "os.OpenFile", "fsutil.handleTarTypeBlockCharFifo", "fsutil.(*DiskWriter).requestAsyncFileData")
	hit, und := c.ReachableUnder(hc, as, nil, nonDir)
	switch {
	case und:
		c.R.Undecided(rule, base+"/directory-has-priority", c.P.Pos(hc.Pos()), "state limit")
	case hit != nil:
		c.R.Fail(rule, base+"/directory-has-priority", c.pos(hit.Instr), "an entry whose mode says 'directory' can be created as "+c.calleeOf(hit.Instr)+": the validators accept it as a parent directory (they test fi.IsDir() only), so its children are written through whatever was created instead - with a symlink, outside the destination; path "+eng.BlockTrace(hc, hit.Trace))
	default:
		c.R.OK(rule, base+"/directory-has-priority", c.P.Pos(hc.Pos()), "an entry with the directory bit is never created as anything but a directory")
	}
	c.ObReachable(rule, base+"/directory-created", hc, as, c.callPred("os.Mkdir"), "os.Mkdir", "the entry is a directory")
	// the validators use the same predicate
	for _, n := range []string{"fsutil.(*Validator).HandleChange", "fsutil.(*Hardlinks).HandleChange"} {
		v := c.Fn(rule, n)
		if v == nil {
			continue
		}
		k := 0
		for _, call := range c.P.CallsTo(v, "(io/fs.FileInfo).IsDir") {
			if _, isP := eng.Strip(call.Common().Value).(*ssa.Parameter); isP {
				k++
			}
		}
		c.R.Check(k >= 1, rule, n+"/same-predicate", c.P.Pos(v.Pos()), "classifies directories with fi.IsDir()", n+" no longer classifies directories with fi.IsDir(): validator and writer may disagree on what is a directory")
	}
}
