package props

import (
	"fmt"
	"go/token"
	"go/types"
	"strconv"
	"strings"

	"fsverif/eng"

	"golang.org/x/tools/go/ssa"
)

func init() {
	register("C10", "Structural clauses that keep the pruning shortcuts of the filtered walk unobservable, decided on all paths of filterFS.Walk's callback: every pattern-based SkipDir exit is unreachable unless the entry is a directory, the matching prefix-only flag is set and the matcher's verdict is the pruning one; every path-containment prefix test is separator-terminated; match infos of the include and exclude matcher are never crossed; the user callback is unreachable for an entry a matcher rejected, is preceded by the map function on the same stat when one is set, and is unreachable in the iteration where the map function said exclude/skip; lazily emitted ancestors are marked before they are reported and not reported twice. The wildcard test that allows text-level pruning looks for '*', '?' and '['. Nothing - no pending ancestor either - is reported before the map function was asked about the entry that causes the reports. The literal-prefix scan that keeps an unselected directory open looks only at positive patterns in the include block and only at exceptions ('!') in the exclude block. A matcher is built only from a non-empty pattern list. Does not decide equivalence with the reference filter for all pattern lists, the flag computation, or patternmatcher itself.", runC10)
}

func runC10(c *Ctx) {
	r10_1(c, "R10.1")
	r10_2(c, "R10.2")
	r10_3(c, "R10.3")
	r10_4(c, "R10.4")
	r10_5(c, "R10.5")
	r10_6(c, "R10.7")
	r10_8(c, "R10.8")
	r10_9(c, "R10.9")
	r10_10(c, "R10.10")
	r04_8(c, "R10.6")
	r10_11(c, "R10.11")
	r10_12(c, "R10.12")
	r10_13(c, "R10.13")
	r10_14(c, "R10.14")
	r10_15(c, "R10.15")
	r10_16(c, "R10.16")
}

// R10.16: no patterns means no matcher.
//
// A matcher built from an empty list matches nothing: as an include matcher
// it hides the whole tree. "No include patterns" reaches NewFilterFS as nil
// or as an empty slice (a decoded option, a filtered list, FollowLinks'
// result for an empty request): a matcher is built only when the list has
// elements, not when it merely is not nil.
func r10_16(c *Ctx, rule string) {
	c.R.Rule(rule, "NewFilterFS: patternmatcher.New is unreachable when the list it is given is empty (each construction is guarded by a test of the list's length, not of its nil-ness)")
	nf := c.Fn(rule, "fsutil.NewFilterFS")
	if nf == nil {
		return
	}
	x := c.explorer(nf)
	n := 0
	for _, call := range c.P.CallsTo(nf, "github.com/moby/patternmatcher.New") {
		cl, ok := call.(*ssa.Call)
		if !ok || len(cl.Call.Args) == 0 {
			continue
		}
		n++
		arg := cl.Call.Args[0]
		same := func(v ssa.Value) bool {
			return eng.SameValue(eng.Canon(v), eng.Canon(arg)) || x.StructKeyAtEntry(v) == x.StructKeyAtEntry(arg)
		}
		con := fmt.Sprintf("%s/matcher#%d/not-for-empty-list", c.name(nf), n)
		pins := c.lenPins(nf, x, true, same)
		if len(pins) == 0 {
			nilTested := false
			eng.Instrs(nf, func(in ssa.Instruction) {
				if b, isB := in.(*ssa.BinOp); isB && (b.Op == token.EQL || b.Op == token.NEQ) {
					if k, isK := b.Y.(*ssa.Const); isK && k.IsNil() && same(b.X) {
						nilTested = true
					}
				}
			})
			if nilTested {
				c.R.Fail(rule, con, c.pos(cl), "the list this matcher is built from is tested for nil only, not for being empty: an empty non-nil list (a decoded option, FollowLinks' result for an empty request) yields a matcher without patterns, which as an include matcher hides the whole tree")
			} else {
				c.R.OK(rule, con, c.pos(cl), "no emptiness test of the list of a shape this rule interprets: not decided")
			}
			continue
		}
		c.ObUnreachable(rule, con, nf, pins, func(in ssa.Instruction) bool { return in == ssa.Instruction(cl) }, "building the matcher", "its pattern list is empty")
	}
	c.R.Floor(rule, "pattern matcher constructions in NewFilterFS", n, 2)
}

// R10.14: every entry is put to every configured matcher.
//
// A verdict inherited from the parent directory is not the entry's own: an
// exception ('!') can name a file inside an included directory, and Open asks
// the matcher about exactly that file. With a matcher set, the report of an
// entry is unreachable unless that matcher's MatchesUsingParentResults was
// called in this invocation of the callback.
func r10_14(c *Ctx, rule string) {
	c.R.Rule(rule, "filterFS.Walk: with the include (exclude) matcher set, the report of the entry itself is reached only after that matcher was asked about the entry in the same invocation of the callback (no verdict is inherited from the parent directory)")
	fw := getFilterWalk(c, rule)
	if fw == nil {
		return
	}
	lit := fw.lit
	x := c.explorer(lit)
	own := ownReports(c, fw)
	if len(own) == 0 {
		c.R.OK(rule, c.name(lit)+"/own-report", c.P.Pos(lit.Pos()), "no report of the entry's own stat of a shape this rule interprets: not decided")
		return
	}
	isOwn := func(in ssa.Instruction) bool { return own[in] }
	for _, e := range []struct {
		name, field string
		call        *ssa.Call
	}{{"include", "fsutil.filterFS.includeMatcher", fw.incCall}, {"exclude", "fsutil.filterFS.excludeMatcher", fw.excCall}} {
		set := map[string]bool{}
		eng.Instrs(lit, func(in ssa.Instruction) {
			bo, ok := in.(*ssa.BinOp)
			if !ok || (bo.Op != token.EQL && bo.Op != token.NEQ) {
				return
			}
			if k, isC := bo.Y.(*ssa.Const); isC && k.IsNil() && isFieldLoad(bo.X, e.field) {
				set[x.RegKey(bo)] = bo.Op == token.NEQ
			}
		})
		call := e.call
		c.ObPrecedes(rule, c.name(lit)+"/"+e.name+"-matcher-asked", lit, set, func(in ssa.Instruction) bool { return in == ssa.Instruction(call) }, isOwn, "asking the "+e.name+" matcher about the entry", "the report of the entry (the "+e.name+" matcher is set)")
	}
}

// ownReports: the calls of the user callback that report the entry the
// callback was invoked for (its stat comes from dirEntry.Info()).
func ownReports(c *Ctx, fw *filterWalk) map[ssa.Instruction]bool {
	own := map[ssa.Instruction]bool{}
	info := fw.infoCall.Value()
	for _, call := range c.P.CallsTo(fw.lit, "freevar:fn") {
		a := call.Common().Args
		if len(a) < 2 {
			continue
		}
		al, ok := eng.Strip(a[1]).(*ssa.Alloc)
		if !ok {
			continue
		}
		X := structLitFields(al)["Stat"]
		if X != nil && info != nil && c.DerivesFrom(X, func(v ssa.Value) bool { return v == ssa.Value(info) }, 6) {
			own[call] = true
		}
	}
	return own
}

// R10.15: pending ancestors are looked for in the whole stack.
//
// Ancestors that matched nothing are reported late, when the first entry
// below them is. Whether one is pending is recorded per directory (calledFn),
// and a reported parent says nothing about its own ancestors: the map function
// may have dropped a directory that matched directly, after it was marked. The
// list the callback indexes is therefore the open-directories stack itself on
// every branch, never a copy that is empty on some.
func r10_15(c *Ctx, rule string) {
	c.R.Rule(rule, "filterFS.Walk: every indexed read of open directories (the loop that reports pending ancestors included) indexes the open-directories stack itself on every alternative, never a list that is nil or empty on some branch")
	fw := getFilterWalk(c, rule)
	if fw == nil {
		return
	}
	lit := fw.lit
	isDirs := func(t types.Type) bool {
		sl, ok := t.Underlying().(*types.Slice)
		return ok && strings.HasSuffix(eng.TypeStr(sl.Elem()), "fsutil.visitedDir")
	}
	// 1 the stack (a load of a variable or field), 0 something else, -1 a constant (nil)
	var classify func(v ssa.Value, d int, seen map[ssa.Value]bool) int
	classify = func(v ssa.Value, d int, seen map[ssa.Value]bool) int {
		if v == nil || d > 6 {
			return 0
		}
		if seen[v] {
			return 1
		}
		seen[v] = true
		switch y := v.(type) {
		case *ssa.Const:
			return -1
		case *ssa.UnOp:
			if y.Op == token.MUL {
				return 1
			}
		case *ssa.ChangeType:
			return classify(y.X, d+1, seen)
		case *ssa.Phi:
			res := 1
			for _, e := range y.Edges {
				if r := classify(e, d+1, seen); r < res {
					res = r
				}
			}
			return res
		case *ssa.Parameter:
			if rs := eng.ResolveAll(y); len(rs) > 0 && !(len(rs) == 1 && rs[0] == v) {
				res := 1
				for _, r0 := range rs {
					if r := classify(r0, d+1, seen); r < res {
						res = r
					}
				}
				return res
			}
		}
		return 0
	}
	n := 0
	defer c.scope(lit)()
	eng.Instrs(lit, func(in ssa.Instruction) {
		ia, ok := in.(*ssa.IndexAddr)
		if !ok || !isDirs(ia.X.Type()) {
			return
		}
		n++
		con := fmt.Sprintf("%s/open-directories-read#%d", c.name(lit), n)
		switch classify(ia.X, 0, map[ssa.Value]bool{}) {
		case 1:
			c.R.OK(rule, con, c.pos(ia), "indexes the open-directories stack")
		case -1:
			c.R.Fail(rule, con, c.pos(ia), "the list of open directories indexed here is nil on some branch (a short-cut that assumes nothing is pending?): an ancestor that was not reported yet - its parent was marked before the map function dropped it - is never reported, and entries below it appear without it")
		default:
			c.R.OK(rule, con, c.pos(ia), "the list indexed here is not a plain load of the stack (a shape this rule does not interpret): not decided")
		}
	})
	if n == 0 {
		c.R.OK(rule, c.name(lit)+"/open-directories-read", c.P.Pos(lit.Pos()), "the open-directories stack is not read by index in this callback: not decided")
	}
}

// R10.13: which patterns keep an unselected directory open.
//
// A directory the include list does not select is still walked when a positive
// include pattern lies below it; a directory the exclude list hides is still
// walked when an exception ('!') lies below it. The scan that decides this
// passes over the patterns of the other polarity: looking at the wrong ones
// prunes a directory whose contents a pattern brings back.
func r10_13(c *Ctx, rule string) {
	c.R.Rule(rule, "filterFS.Walk: the literal-prefix scan that keeps a directory open looks only at non-exclusion patterns in the include block and only at exclusion ('!') patterns in the exclude block (the prefix test is unreachable for a pattern of the other polarity, reachable for the right one)")
	fw := getFilterWalk(c, rule)
	if fw == nil {
		return
	}
	lit := fw.lit
	x := c.explorer(lit)
	// (the scan may live in a helper shared by both blocks, with the polarity
	// as a parameter: every Exclusion() result is pinned, and the two blocks
	// are told apart by where the path starts - at the include matcher's
	// verdict up to the exclude matcher's, or from the exclude matcher's on)
	var excl []*ssa.Call
	for _, call := range c.P.CallsTo(lit, "(*github.com/moby/patternmatcher.Pattern).Exclusion") {
		if cl, ok := call.(*ssa.Call); ok {
			excl = append(excl, cl)
		}
	}
	sites := map[ssa.Instruction]bool{}
	for _, pt := range c.prefixTests(lit) {
		if c.DerivesFrom(pt.subject, func(v ssa.Value) bool {
			return strings.HasSuffix(types.TypeString(v.Type(), nil), "patternmatcher.Pattern")
		}, 8) {
			sites[pt.site] = true
		}
	}
	if len(sites) == 0 {
		c.R.OK(rule, c.name(lit)+"/scan-polarity", c.P.Pos(lit.Pos()), "no prefix test on a pattern's text in the walk callback (the scan has a shape this rule does not interpret): not decided")
		return
	}
	run := func(from ssa.Instruction, barrier ssa.Instruction, pol bool) (*eng.Hit, bool) {
		y := c.explorer(lit)
		y.From = from
		as := map[string]bool{}
		for _, ec := range excl {
			as[x.RegKey(ec)] = pol
		}
		y.Assume = as
		if barrier != nil {
			y.Barrier = func(in ssa.Instruction, st *eng.State) bool { return in == barrier }
		}
		y.Target = func(in ssa.Instruction, st *eng.State) bool { return sites[in] }
		y.StopAtTarget = true
		hits := y.Run()
		if y.Exhausted {
			return nil, true
		}
		if len(hits) > 0 {
			return &hits[0], false
		}
		return nil, false
	}
	for _, e := range []struct {
		block   string
		from    ssa.Instruction
		barrier ssa.Instruction
		want    bool
		other   string
	}{
		{"include", fw.incCall, fw.excCall, false, "exclusion ('!') patterns"},
		{"exclude", fw.excCall, nil, true, "positive patterns"},
	} {
		con := c.name(lit) + "/" + e.block + "-block/scan-polarity"
		hitR, undR := run(e.from, e.barrier, e.want)
		if undR {
			c.R.Undecided(rule, con, c.P.Pos(lit.Pos()), "state limit")
			continue
		}
		hitW, undW := run(e.from, e.barrier, !e.want)
		switch {
		case undW:
			c.R.Undecided(rule, con, c.P.Pos(lit.Pos()), "state limit")
		case hitR == nil && hitW == nil:
			c.R.OK(rule, con, c.P.Pos(lit.Pos()), "no prefix test on a pattern's text after the "+e.block+" matcher's verdict (a shape this rule does not interpret): not decided")
		case hitW != nil:
			c.R.Fail(rule, con, c.pos(hitW.Instr), "the prefix test of the "+e.block+" block's scan is reachable for one of the "+e.other+": a pattern that cannot bring anything back keeps the directory open - or stands in for the ones that can, and a directory is pruned although a pattern re-includes something below it; path "+eng.BlockTrace(lit, hitW.Trace))
		default:
			c.R.OK(rule, con, c.pos(hitR.Instr), "the scan of the "+e.block+" block compares the directory only with patterns of the polarity that can bring entries back")
		}
	}
}

// R10.12: the walk entry points apply the filter they are given.
//
// fsutil.Walk and fsutil.WalkDir build the view and walk it; the FS they walk
// is the result of NewFilterFS applied to the caller's options, not the bare
// directory.
func r10_12(c *Ctx, rule string) {
	c.R.Rule(rule, "fsutil.Walk / fsutil.WalkDir: the FS whose Walk is called is the (checked) result of NewFilterFS(NewFS(p), opt)")
	for _, name := range []string{"fsutil.Walk", "fsutil.WalkDir"} {
		fn := c.Fn(rule, name)
		if fn == nil {
			continue
		}
		var opt *ssa.Parameter
		for _, q := range fn.Params {
			if strings.Contains(eng.TypeStr(q.Type()), "FilterOpt") {
				opt = q
			}
		}
		n := 0
		for _, call := range c.P.CallsTo(fn, "(fsutil.FS).Walk") {
			n++
			recv := call.Common().Value
			isFiltered := func(v ssa.Value) bool {
				cl, ok := v.(*ssa.Call)
				if !ok || c.P.CalleeName(cl) != "fsutil.NewFilterFS" {
					return false
				}
				if opt == nil || len(cl.Call.Args) != 2 {
					return false
				}
				// (built in a shared helper: the options the helper was handed here)
				for _, r := range eng.ResolveAll(cl.Call.Args[1]) {
					if q, isP := eng.Strip(r).(*ssa.Parameter); !isP || !strings.Contains(eng.TypeStr(q.Type()), "FilterOpt") || (q.Parent() == fn && q != opt) {
						return false
					}
				}
				return true
			}
			ok := c.DerivesFrom(recv, isFiltered, 5)
			c.R.Check(ok, rule, c.siteName(call)+"/filtered-view", c.pos(call), "walks NewFilterFS(..., opt)", name+" walks a view that was not built by NewFilterFS with the caller's options: include/exclude patterns, follow-paths and the map function are silently ignored")
		}
		c.R.Floor(rule, "FS.Walk calls in "+name, n, 1)
		for _, call := range c.P.CallsTo(fn, "fsutil.NewFilterFS") {
			c.ObErrChecked(rule+"/checked", call)
		}
	}
}

const pmMatch = "(*github.com/moby/patternmatcher.PatternMatcher).MatchesUsingParentResults"

type filterWalk struct {
	walk, lit *ssa.Function
	incCall   *ssa.Call // include matcher's MatchesUsingParentResults
	excCall   *ssa.Call
	infoCall  ssa.CallInstruction // dirEntry.Info()
}

func getFilterWalk(c *Ctx, rule string) *filterWalk {
	w := c.Fn(rule, "fsutil.(*filterFS).Walk")
	if w == nil {
		return nil
	}
	lit := c.ClosureCalling(rule, w, pmMatch)
	if lit == nil {
		return nil
	}
	fw := &filterWalk{walk: w, lit: lit}
	for _, call := range c.P.CallsTo(lit, pmMatch) {
		cl, ok := call.(*ssa.Call)
		if !ok {
			continue
		}
		switch {
		case isFieldLoad(cl.Call.Args[0], "fsutil.filterFS.includeMatcher"):
			fw.incCall = cl
		case isFieldLoad(cl.Call.Args[0], "fsutil.filterFS.excludeMatcher"):
			fw.excCall = cl
		}
	}
	for _, call := range c.P.CallsTo(lit, "(io/fs.DirEntry).Info") {
		if _, isParam := eng.Strip(call.Common().Value).(*ssa.Parameter); isParam {
			fw.infoCall = call
		}
	}
	if fw.incCall == nil || fw.excCall == nil || fw.infoCall == nil {
		c.R.Missing(rule, "include/exclude MatchesUsingParentResults calls and dirEntry.Info() in filterFS.Walk's callback")
		return nil
	}
	return fw
}

// isSkipDirValue: load of the package variable filepath.SkipDir / fs.SkipDir.
func isSkipDirValue(v ssa.Value) bool {
	u, ok := v.(*ssa.UnOp)
	if !ok || u.Op != token.MUL {
		return false
	}
	g, ok := u.X.(*ssa.Global)
	return ok && (g.String() == "path/filepath.SkipDir" || g.String() == "io/fs.SkipDir")
}

// skipDirExits: instructions by which fn decides to return SkipDir: a store of
// SkipDir into the named result, or a return of it.
var c10Transparent func(*ssa.Function) bool

func skipDirExits(fn *ssa.Function) []ssa.Instruction {
	var out []ssa.Instruction
	// the value is SkipDir itself or what a helper no rule names hands back
	// (`return fs.pruneDir(path)`: an observer hook, then SkipDir)
	yieldsSkipDir := func(v ssa.Value) bool {
		if isSkipDirValue(v) {
			return true
		}
		if rs := eng.ResolveAll(v); len(rs) > 1 || (len(rs) == 1 && rs[0] != v) {
			for _, r := range rs {
				if isSkipDirValue(r) {
					return true
				}
			}
		}
		return false
	}
	eng.Instrs(fn, func(in ssa.Instruction) {
		switch x := in.(type) {
		case *ssa.Store:
			if _, isAlloc := x.Addr.(*ssa.Alloc); isAlloc && yieldsSkipDir(x.Val) {
				out = append(out, in)
			}
		case *ssa.Return:
			if x.Parent() != fn && c10Transparent != nil && c10Transparent(x.Parent()) {
				return // the return of a helper is not an exit of fn: its call site is
			}
			for _, r := range x.Results {
				if yieldsSkipDir(r) {
					out = append(out, in)
				}
			}
		}
	})
	return out
}

func r10_1(c *Ctx, rule string) {
	c.R.Rule(rule, "each pattern-based SkipDir exit of filterFS.Walk is unreachable when the entry is not a directory, when the matching prefix-only flag is false, and when the matcher's verdict is not the pruning one")
	fw := getFilterWalk(c, rule)
	if fw == nil {
		return
	}
	lit := fw.lit
	c10Transparent = c.P.Transparent
	x := c.explorer(lit)
	// isDir source
	var isDirPins []string
	for _, call := range c.P.CallsTo(lit, "(io/fs.DirEntry).IsDir") {
		if cl, ok := call.(*ssa.Call); ok {
			isDirPins = append(isDirPins, x.KeyAtEntry(cl))
		}
	}
	if len(isDirPins) == 0 {
		c.R.Missing(rule, "dirEntry.IsDir() in filterFS.Walk's callback")
		return
	}
	flagPins := func(owner string) []string {
		var out []string
		for _, ld := range fieldLoadsIn(lit, owner) {
			out = append(out, x.KeyAtEntry(ld))
		}
		return out
	}
	n := 0
	for _, ex := range skipDirExits(lit) {
		if eng.Dominates(fw.infoCall, ex) {
			continue // decisions taken after the entry was stat'ed (map function, parents)
		}
		kind := ""
		switch {
		case eng.Dominates(fw.excCall, ex):
			kind = "exclude"
		case eng.Dominates(fw.incCall, ex):
			kind = "include"
		default:
			c.R.Fail(rule, fmt.Sprintf("%s/skipdir-exit@%s", c.name(lit), blockName(ex)), c.pos(ex), "a SkipDir exit before the entry is stat'ed is not dominated by a matcher call: directories are pruned without consulting the patterns")
			continue
		}
		n++
		con := fmt.Sprintf("%s/prune-%s#%d", c.name(lit), kind, countKind(&n, kind))
		isEx := func(in ssa.Instruction) bool { return in == ex }
		// (a) directories only
		as := map[string]bool{}
		for _, k := range isDirPins {
			as[k] = false
		}
		c.ObUnreachable(rule, con+"/only-directories", lit, as, isEx, "pruning (SkipDir)", "the entry is not a directory")
		// (b) flag
		flag := "fsutil.filterFS.onlyPrefixIncludes"
		if kind == "exclude" {
			flag = "fsutil.filterFS.onlyPrefixExcludeExceptions"
		}
		fp := flagPins(flag)
		if len(fp) == 0 {
			c.R.Fail(rule, con+"/needs-prefix-flag", c.pos(ex), "the callback never reads "+flag+": pruning is not restricted to pattern lists without wildcards")
		} else {
			as2 := map[string]bool{}
			for _, k := range fp {
				as2[k] = false
			}
			c.ObUnreachable(rule, con+"/needs-prefix-flag", lit, as2, isEx, "pruning (SkipDir)", strings.TrimPrefix(flag, "fsutil.filterFS.")+" is false (a pattern contains wildcards)")
		}
		// (c) verdict
		call, prune := fw.incCall, false
		if kind == "exclude" {
			call, prune = fw.excCall, true
		}
		c.ObUnreachable(rule, con+"/needs-verdict", lit, map[string]bool{c.reg(call) + "#0": !prune}, isEx, "pruning (SkipDir)", fmt.Sprintf("the %s matcher's verdict is %v", kind, !prune))
		c.ObReachable(rule, con+"/live", lit, nil, isEx, "this pruning exit", "nothing is assumed")
	}
	// (one exit per matcher at least; how many return statements carry them is a matter of style)
	c.R.Floor(rule, "pattern-based SkipDir exits", n, 2)
	c.R.Check(kindCount["include"] >= 1 && kindCount["exclude"] >= 1, rule, c.name(lit)+"/prune-exits-both-matchers", c.P.Pos(lit.Pos()), "both the include and the exclude matcher have a pruning exit", "the include or the exclude matcher no longer has a pruning exit that the rule recognises")
	// matcher errors are fatal
	c.ObErrChecked(rule+"/checked", fw.incCall)
	c.ObErrChecked(rule+"/checked", fw.excCall)
}

// R10.8: the caller's pattern lists keep their order.
func r10_8(c *Ctx, rule string) {
	c.R.Rule(rule, "NewFilterFS never sorts a list that contains the caller's include or exclude patterns (pattern lists are order-sensitive: a later pattern overrides an earlier one)")
	nf := c.Fn(rule, "fsutil.NewFilterFS")
	if nf == nil {
		return
	}
	n := 0
	for _, call := range eng.Calls(nf) {
		name := c.P.CalleeName(call)
		if !(strings.HasPrefix(name, "sort.") || strings.HasPrefix(name, "slices.Sort")) || len(call.Common().Args) == 0 {
			continue
		}
		n++
		arg := call.Common().Args[0]
		tainted := c.DerivesFrom(arg, func(v ssa.Value) bool {
			if _, isMk := v.(*ssa.MakeSlice); isMk {
				return true // the copy of the caller's list
			}
			return isFieldLoad(v, "fsutil.FilterOpt.IncludePatterns") || isFieldLoad(v, "fsutil.FilterOpt.ExcludePatterns")
		}, 8)
		c.R.Check(!tainted, rule, c.siteName(call)+"/not-a-pattern-list", c.pos(call), "sorts link targets only", "NewFilterFS sorts a list holding the caller's patterns: '!' patterns move to the front and lose their effect on the patterns they were meant to override")
	}
	c.R.OK(rule, c.name(nf)+"/sort-census", c.P.Pos(nf.Pos()), fmt.Sprintf("%d sort call(s) in NewFilterFS, none over a pattern list", n))
}

// R10.9: every visited directory is remembered for its children.
func r10_9(c *Ctx, rule string) {
	c.R.Rule(rule, "filterFS.Walk: when a matcher is configured, a directory entry that was read without error is pushed on the visited-directory stack on every return that lets the walk descend into it (nil), whatever the map function said: its children take their parent match state from the top of that stack")
	fw := getFilterWalk(c, rule)
	if fw == nil {
		return
	}
	lit := fw.lit
	x := c.explorer(lit)
	// the stack: a captured slice of visitedDir
	// (a captured variable, or a field of a captured state object)
	// (possibly of a named slice type with a push method: then the cell is
	// the method's pointer receiver)
	isStackCell := func(v ssa.Value) bool {
		switch v.(type) {
		case *ssa.FreeVar, *ssa.FieldAddr, *ssa.Parameter:
			if strings.HasSuffix(eng.TypeStr(v.Type()), "*[]fsutil.visitedDir") {
				return true
			}
			if pt, ok := v.Type().Underlying().(*types.Pointer); ok {
				if sl, isSl := pt.Elem().Underlying().(*types.Slice); isSl {
					return strings.HasSuffix(eng.TypeStr(sl.Elem()), "fsutil.visitedDir")
				}
			}
		}
		return false
	}
	pushesIn := func(f *ssa.Function) bool {
		found := false
		eng.Instrs(f, func(in ssa.Instruction) {
			if st, ok := in.(*ssa.Store); ok && isStackCell(st.Addr) {
				if call, isCall := eng.Canon(st.Val).(*ssa.Call); isCall && c.P.CalleeName(call) == "builtin:append" {
					found = true
				}
			}
		})
		return found
	}
	// a deferred literal may push only when a flag variable is set (`defer
	// func() { if push { stack = append(stack, dir) } }()` registered up
	// front, `push = ...` where the push used to be registered): then setting
	// the flag to true is the push
	flagOf := func(f *ssa.Function) string {
		flag := ""
		eng.Instrs(f, func(in ssa.Instruction) {
			st, ok := in.(*ssa.Store)
			if !ok || !isStackCell(st.Addr) {
				return
			}
			eng.InstrsShallow(f, func(i2 ssa.Instruction) {
				iff, isIf := i2.(*ssa.If)
				if !isIf {
					return
				}
				id := c.P.LoadedCell(iff.Cond)
				if id == "" {
					return
				}
				for _, site := range eng.LiftTo(f, st) {
					if t := iff.Block().Succs[0]; t == site.Block() || t.Dominates(site.Block()) {
						flag = id
					}
				}
			})
		})
		return flag
	}
	// flag cell -> the address the callback itself uses for it
	flags := map[string]ssa.Value{}
	var flagDefers []*ssa.Defer
	eng.InstrsShallow(lit, func(in ssa.Instruction) {
		if d, ok := in.(*ssa.Defer); ok {
			if mc, ok := d.Call.Value.(*ssa.MakeClosure); ok {
				if f := c.P.ClosureFn(mc); f != nil && pushesIn(f) {
					if id := flagOf(f); id != "" {
						for _, bnd := range mc.Bindings {
							if c.P.CellID(bnd) == id {
								flags[id] = bnd
								flagDefers = append(flagDefers, d)
							}
						}
					}
				}
			}
		}
	})
	isPush := func(in ssa.Instruction) bool {
		switch v := in.(type) {
		case *ssa.Defer:
			if mc, ok := v.Call.Value.(*ssa.MakeClosure); ok {
				if f := c.P.ClosureFn(mc); f != nil {
					return pushesIn(f) && flagOf(f) == ""
				}
			}
		case *ssa.Store:
			if isStackCell(v.Addr) {
				if call, isCall := eng.Canon(v.Val).(*ssa.Call); isCall && c.P.CalleeName(call) == "builtin:append" {
					return true
				}
			}
		}
		return false
	}
	as := map[string]bool{}
	for _, call := range c.P.CallsTo(lit, "(io/fs.DirEntry).IsDir") {
		if cl, ok := call.(*ssa.Call); ok {
			as[x.KeyAtEntry(cl)] = true
		}
	}
	// the walk reported no error for this entry; the entry itself is present
	for _, p := range lit.Params {
		switch eng.TypeStr(p.Type()) {
		case "error":
			as["(p:"+p.Name()+"==nil)"] = true
		case "io/fs.DirEntry":
			as["(p:"+p.Name()+"==nil)"] = false
		}
	}
	// both matchers are configured (tested directly, or through a flag
	// computed once from those tests)
	isMatcherSet := func(v ssa.Value) bool {
		bo, ok := v.(*ssa.BinOp)
		if !ok || bo.Op != token.NEQ {
			return false
		}
		k, isC := bo.Y.(*ssa.Const)
		return isC && k.IsNil() && (isFieldLoad(bo.X, "fsutil.filterFS.includeMatcher") || isFieldLoad(bo.X, "fsutil.filterFS.excludeMatcher"))
	}
	eng.Instrs(lit, func(in ssa.Instruction) {
		bo, ok := in.(*ssa.BinOp)
		if !ok || (bo.Op != token.EQL && bo.Op != token.NEQ) {
			return
		}
		if k, isC := bo.Y.(*ssa.Const); isC && k.IsNil() && (isFieldLoad(bo.X, "fsutil.filterFS.includeMatcher") || isFieldLoad(bo.X, "fsutil.filterFS.excludeMatcher")) {
			as[x.KeyAtEntry(bo)] = bo.Op == token.NEQ
		}
	})
	for _, k := range c.trueCellKeys(lit, x, isMatcherSet) {
		as[k] = true
	}
	// deferred pushes of a literal test the directory flag themselves
	ex := c.explorer(lit)
	ex.Assume = as
	// a flag-guarded deferred push happens when the defer was registered on
	// the path and its flag is true at the return
	const deferred = "u:push-deferred"
	ex.Barrier = func(in ssa.Instruction, st *eng.State) bool {
		if isPush(in) {
			return true
		}
		for _, d := range flagDefers {
			if in == ssa.Instruction(d) {
				st.Facts[deferred] = true
			}
		}
		return false
	}
	ex.Target = func(in ssa.Instruction, st *eng.State) bool {
		if !ex.IsSuccessReturn(in, st) {
			return false
		}
		if st.Facts[deferred] {
			for _, addr := range flags {
				if tv, known := ex.CellTruth(addr, st); known && tv {
					return false
				}
			}
		}
		return true
	}
	ex.StopAtTarget = true
	hits := ex.Run()
	und := ex.Exhausted
	var hit *eng.Hit
	if len(hits) > 0 {
		hit = &hits[0]
	}
	switch {
	case und:
		c.R.Undecided(rule, c.name(lit)+"/visited-directory-always-pushed", c.P.Pos(lit.Pos()), "state limit")
	case hit != nil:
		c.R.Fail(rule, c.name(lit)+"/visited-directory-always-pushed", c.pos(hit.Instr), "a directory entry can be left with a nil result (the walk descends into it) without having been pushed on the visited-directory stack: its children read the match state of their grandparent; path "+eng.BlockTrace(lit, hit.Trace))
	default:
		c.R.OK(rule, c.name(lit)+"/visited-directory-always-pushed", c.P.Pos(lit.Pos()), "every descended directory is pushed (or its push is deferred) before the callback returns nil")
	}
}

// R10.10: the include flag is computed from the merged pattern list.
func r10_10(c *Ctx, rule string) {
	c.R.Rule(rule, "NewFilterFS: whenever an include matcher is built (from the caller's patterns and/or resolved follow-paths) its patterns are scanned for the prefix-only flag before the filter is returned")
	nf := c.Fn(rule, "fsutil.NewFilterFS")
	if nf == nil {
		return
	}
	var news []*ssa.Call
	for _, call := range c.P.CallsTo(nf, "github.com/moby/patternmatcher.New") {
		if cl, ok := call.(*ssa.Call); ok {
			news = append(news, cl)
		}
	}
	c.R.Floor(rule, "pattern matcher constructions in NewFilterFS", len(news), 2)
	for i, nw := range news {
		nw := nw
		ek, _, _ := c.errValueOf(nw)
		isScan := func(in ssa.Instruction) bool {
			call, ok := in.(*ssa.Call)
			if !ok || c.P.CalleeName(call) != "(*github.com/moby/patternmatcher.PatternMatcher).Patterns" {
				return false
			}
			return c.DerivesFrom(call.Call.Args[0], func(y ssa.Value) bool { return y == ssa.Value(nw) }, 6)
		}
		// (patternmatcher.New returns a matcher whenever it returns no error)
		hit, und := c.SuccessAvoiding(nf, nw, map[string]bool{"(" + ek + "==nil)": true, "(" + c.reg(nw) + "#0==nil)": false}, nil, isScan)
		con := fmt.Sprintf("%s/matcher#%d/patterns-scanned", c.name(nf), i+1)
		switch {
		case und:
			c.R.Undecided(rule, con, c.pos(nw), "state limit")
		case hit != nil:
			c.R.Fail(rule, con, c.pos(hit.Instr), "a matcher is built but its patterns are not always scanned for wildcards (the scan is skipped under some option combination, e.g. follow-paths without include patterns): the prefix-only flag stays true and directories are pruned by literal prefix although a pattern has wildcards")
		default:
			c.R.OK(rule, con, c.pos(nw), "the patterns of this matcher are scanned on every path to the returned filter")
		}
	}
}

// R10.7: how the two prefix-only flags are computed.
func r10_6(c *Ctx, rule string) {
	c.R.Rule(rule, "NewFilterFS: onlyPrefixIncludes can only be cleared by a non-exclusion include pattern and onlyPrefixExcludeExceptions only by an exclusion ('!') exclude pattern; each flag can be cleared")
	nf := c.Fn(rule, "fsutil.NewFilterFS")
	if nf == nil {
		return
	}
	var excl []*ssa.Call
	for _, call := range c.P.CallsTo(nf, "(*github.com/moby/patternmatcher.Pattern).Exclusion") {
		if cl, ok := call.(*ssa.Call); ok {
			excl = append(excl, cl)
		}
	}
	c.R.Floor(rule, "Pattern.Exclusion() tests in NewFilterFS", len(excl), 2)
	if len(excl) == 0 {
		return
	}
	x0 := c.explorer(nf)
	for _, e := range []struct {
		field    string
		polarity bool // the Exclusion() value of the patterns that may clear the flag
		what     string
	}{
		{"fsutil.filterFS.onlyPrefixIncludes", false, "include patterns that are not exclusions"},
		{"fsutil.filterFS.onlyPrefixExcludeExceptions", true, "exclusion ('!') patterns of the exclude list"},
	} {
		stores := fieldStoresIn(nf, e.field)
		if len(stores) == 0 {
			c.R.Fail(rule, e.field+"/set", c.P.Pos(nf.Pos()), "NewFilterFS does not set "+e.field)
			continue
		}
		for _, pol := range []bool{!e.polarity, e.polarity} {
			as := map[string]bool{}
			for _, cl := range excl {
				as[x0.KeyAtEntry(cl)] = pol
			}
			ex := c.explorer(nf)
			ex.Assume = as
			cleared, unknown := 0, 0
			ex.Target = func(in ssa.Instruction, st *eng.State) bool {
				s, ok := in.(*ssa.Store)
				if !ok {
					return false
				}
				for _, fs := range stores {
					if s == fs {
						tv, known := ex.Truth(s.Val, st)
						switch {
						case !known:
							unknown++
						case !tv:
							cleared++
						}
					}
				}
				return false
			}
			ex.Run()
			con := fmt.Sprintf("%s/patterns-with-exclusion=%v", strings.TrimPrefix(e.field, "fsutil.filterFS."), pol)
			if ex.Exhausted {
				c.R.Undecided(rule, con, c.P.Pos(nf.Pos()), "state limit")
				continue
			}
			if pol != e.polarity {
				c.R.Check(cleared == 0 && unknown == 0, rule, con, c.pos(stores[0]), "patterns of the other polarity cannot clear the flag", "the flag is computed from patterns of the wrong polarity (it can be cleared although no "+e.what+" exist): pruning is wrongly enabled for the lists that need full matching")
			} else {
				// (cleared on a path of its own, or assigned a value that depends on the scan)
				c.R.Check(cleared+unknown > 0, rule, con, c.pos(stores[0]), "a wildcard among the "+e.what+" clears the flag", "the flag is never cleared by "+e.what+": directories are pruned by literal prefix although a pattern has wildcards")
			}
		}
	}
}

var kindCount = map[string]int{}

func countKind(n *int, kind string) int {
	// ordinal per kind within one run (reset when n == 1)
	if *n == 1 {
		kindCount = map[string]int{}
	}
	kindCount[kind]++
	return kindCount[kind]
}

func blockName(in ssa.Instruction) string {
	return fmt.Sprintf("b%d", in.Block().Index)
}

func r10_2(c *Ctx, rule string) {
	c.R.Rule(rule, "every strings.HasPrefix path-containment test in filterFS.Walk has a separator-terminated second operand (and, in the exclude block, a separator-terminated pattern)")
	fw := getFilterWalk(c, rule)
	if fw == nil {
		return
	}
	n := 0
	for _, pt := range c.prefixTests(fw.lit) {
		n++
		ok, why := sepTerminated(c, pt.prefix, false, 0)
		ok = ok || pt.sepChecked
		c.R.Check(ok, rule, pt.name+"/prefix-terminated", c.pos(pt.site), "the prefix operand ends in the separator", "the prefix operand of a path-containment test is not separator-terminated ("+why+"): directory 'a' is taken to contain 'ab'")
		if eng.Dominates(fw.excCall, pt.site) {
			// exclude block: the pattern side must be terminated too, else
			// exception '!ab' would keep directory 'a' from being pruned only
			// by accident and '!a' would not match dirSlash 'a/'
			ok0, why0 := sepTerminated(c, pt.subject, false, 0)
			c.R.Check(ok0, rule, pt.name+"/pattern-terminated", c.pos(pt.site), "the pattern operand ends in the separator", "in the exclude block the pattern operand is not separator-terminated ("+why0+"): the exception for the directory itself is not recognised and it is pruned")
		}
	}
	c.R.Floor(rule, "prefix tests in filterFS.Walk", n, 3)
}

// matchInfoFlow: checks that value v derives from `good` sources and from none
// of the `bad` ones.
func matchInfoPure(c *Ctx, v ssa.Value, good, bad func(ssa.Value) bool) (bool, bool) {
	g := c.DerivesFrom(v, good, 8)
	b := c.DerivesFrom(v, bad, 8)
	return g, b
}

func r10_3(c *Ctx, rule string) {
	c.R.Rule(rule, "match-info pairing in filterFS.Walk: the parent result given to the include matcher comes only from a visited directory's includeMatchInfo (or is zero), likewise exclude; each matcher's result is stored only in its own field")
	fw := getFilterWalk(c, rule)
	if fw == nil {
		return
	}
	incField := func(v ssa.Value) bool {
		o, _, _, ok := eng.LoadedField(v)
		return ok && strings.HasSuffix(o, ".includeMatchInfo")
	}
	excField := func(v ssa.Value) bool {
		o, _, _, ok := eng.LoadedField(v)
		return ok && strings.HasSuffix(o, ".excludeMatchInfo")
	}
	for _, e := range []struct {
		name      string
		call      *ssa.Call
		good, bad func(ssa.Value) bool
	}{{"include", fw.incCall, incField, excField}, {"exclude", fw.excCall, excField, incField}} {
		arg := e.call.Call.Args[len(e.call.Call.Args)-1]
		g, b := matchInfoPure(c, arg, e.good, e.bad)
		c.R.Check(g && !b, rule, c.siteName(e.call)+"/parent-info", c.pos(e.call), "the "+e.name+" matcher receives the parent's "+e.name+" match info", "the "+e.name+" matcher is given a parent result that does not come (only) from the parent's "+e.name+"MatchInfo: include and exclude results are crossed")
		// stores of the result
		other := fw.excCall
		if e.name == "exclude" {
			other = fw.incCall
		}
		n := 0
		eng.Instrs(fw.lit, func(in ssa.Instruction) {
			s, ok := in.(*ssa.Store)
			if !ok {
				return
			}
			fa, ok := s.Addr.(*ssa.FieldAddr)
			if !ok {
				return
			}
			fv := eng.FieldVar(fa.X.Type(), fa.Field)
			if fv == nil || eng.CanonFieldName(fa.X.Type(), fa.Field) != e.name+"MatchInfo" {
				return
			}
			n++
			fromOwn := c.DerivesFrom(s.Val, func(v ssa.Value) bool { return v == ssa.Value(e.call) }, 4)
			fromOther := c.DerivesFrom(s.Val, func(v ssa.Value) bool { return v == ssa.Value(other) }, 4)
			c.R.Check(fromOwn && !fromOther, rule, fmt.Sprintf("%s/store-%sMatchInfo#%d", c.name(fw.lit), e.name, n), c.pos(s), "stores the "+e.name+" matcher's own result", "the directory's "+e.name+"MatchInfo is assigned the other matcher's result")
		})
		c.R.Floor(rule, "stores of "+e.name+"MatchInfo", n, 1)
	}
}

func r10_4(c *Ctx, rule string) {
	c.R.Rule(rule, "map before report: with a map function set, each report of stat X is preceded by mapFn(X.Path, X); after an Exclude or SkipDir result X is not reported in that iteration")
	fw := getFilterWalk(c, rule)
	if fw == nil {
		return
	}
	lit := fw.lit
	x := c.explorer(lit)
	// mapFn != nil pins
	set := map[string]bool{}
	eng.Instrs(lit, func(in ssa.Instruction) {
		bo, ok := in.(*ssa.BinOp)
		if !ok || (bo.Op != token.EQL && bo.Op != token.NEQ) {
			return
		}
		if k, isC := bo.Y.(*ssa.Const); isC && k.IsNil() && isFieldLoad(bo.X, "fsutil.filterFS.mapFn") {
			set[x.KeyAtEntry(bo)] = bo.Op == token.NEQ
		}
	})
	pk := c.P.Pkg("fsutil")
	constOf := func(name string) string {
		if k, ok := pk.Types.Scope().Lookup(name).(*types.Const); ok {
			return k.Val().ExactString()
		}
		return "?"
	}
	n := 0
	for _, call := range c.P.CallsTo(lit, "freevar:fn") {
		n++
		a := call.Common().Args
		// the reported stat
		var X ssa.Value
		if al, ok := eng.Strip(a[1]).(*ssa.Alloc); ok {
			X = structLitFields(al)["Stat"]
		}
		con := c.siteName(call)
		if X == nil {
			c.R.Undecided(rule, con+"/reported-stat", c.pos(call), "the reported entry is not a DirEntryInfo literal with a Stat")
			continue
		}
		c.R.Check(isFieldLoad(a[0], "types.Stat.Path") && c.DerivesFrom(a[0], func(v ssa.Value) bool { return v == X }, 3), rule, con+"/reported-path", c.pos(call), "reported under the stat's own path", "the entry is not reported under its stat's Path")
		var mapCalls []*ssa.Call
		innerMap := map[*ssa.Call]*ssa.Call{}
		for _, mc := range c.P.CallsTo(lit, "field:fsutil.filterFS.mapFn") {
			if cl, ok := mc.(*ssa.Call); ok && cl.Call.Args[1] == X {
				mapCalls = append(mapCalls, cl)
			}
		}
		// the map function may be asked through a helper of the module that
		// hands it its own parameter (`fs.mapVerdict(stat)`): the call of the
		// helper with X is then the application to X
		eng.InstrsShallow(lit, func(in ssa.Instruction) {
			hc, ok := in.(*ssa.Call)
			if !ok {
				return
			}
			h := hc.Common().StaticCallee()
			if h == nil || !c.P.InModule(h) || len(h.Params) != len(hc.Call.Args) {
				return
			}
			for j, a := range hc.Call.Args {
				if a != X {
					continue
				}
				for _, mc := range c.P.CallsTo(h, "field:fsutil.filterFS.mapFn") {
					if cl, isC := mc.(*ssa.Call); isC && cl.Parent() == h && eng.Strip(cl.Call.Args[1]) == ssa.Value(h.Params[j]) {
						mapCalls = append(mapCalls, hc)
						innerMap[hc] = cl
					}
				}
			}
		})
		if len(mapCalls) == 0 {
			c.R.Fail(rule, con+"/mapped-first", c.pos(call), "the map function is never applied to the stat that is reported here")
			continue
		}
		isMap := func(in ssa.Instruction) bool {
			for _, m := range mapCalls {
				if in == ssa.Instruction(m) {
					return true
				}
			}
			return false
		}
		c.ObPrecedes(rule, con+"/mapped-first", lit, set, isMap, func(in ssa.Instruction) bool { return in == ssa.Instruction(call) }, "mapFn on the same stat", "the report")
		for _, m := range mapCalls {
			pathArg := m.Call.Args[0]
			if in, viaHelper := innerMap[m]; viaHelper {
				pathArg = in.Call.Args[0]
			}
			c.R.Check(isFieldLoad(pathArg, "types.Stat.Path"), rule, c.siteName(m)+"/path-arg", c.pos(m), "mapFn(X.Path, X)", "the map function is not given the stat's own path")
			for _, res := range []string{"MapResultExclude", "MapResultSkipDir"} {
				// find the comparison of this call's result with the constant
				var keys []string
				eng.Instrs(lit, func(in ssa.Instruction) {
					bo, ok := in.(*ssa.BinOp)
					if !ok || (bo.Op != token.EQL && bo.Op != token.NEQ) || bo.X != ssa.Value(m) {
						return
					}
					if k, isC := bo.Y.(*ssa.Const); isC && k.Value != nil && k.Value.ExactString() == constOf(res) {
						key := x.KeyAtEntry(bo)
						if bo.Op == token.NEQ {
							key = "!" + key
						}
						keys = append(keys, key)
					}
				})
				oc := fmt.Sprintf("%s/%s-not-reported", c.siteName(m), res)
				if len(keys) == 0 {
					c.R.Fail(rule, oc, c.pos(m), "the result of the map function is not compared with "+res)
					continue
				}
				as := map[string]bool{}
				for _, k := range keys {
					as[k] = true
				}
				for k, v := range set {
					as[k] = v
				}
				ex := c.explorer(lit)
				ex.From = m
				ex.Assume = as
				ex.Barrier = func(in ssa.Instruction, st *eng.State) bool {
					return in != ssa.Instruction(m) && c.P.IsCallTo(in, "field:fsutil.filterFS.mapFn")
				}
				ex.Target = func(in ssa.Instruction, st *eng.State) bool { return in == ssa.Instruction(call) }
				ex.StopAtTarget = true
				h := ex.Run()
				c.R.Check(len(h) == 0 && !ex.Exhausted, rule, oc, c.pos(m), "after "+res+" the entry is not reported", "an entry the map function answered "+res+" for is still reported")
			}
		}
	}
	c.R.Floor(rule, "report sites in filterFS.Walk", n, 2)
	// the entry's own verdict comes first: nothing - no pending ancestor
	// either - is reported before the map function was asked about the entry
	// that causes the reports (an entry the map function drops must not leave
	// its ancestors behind)
	var ownMaps []*ssa.Call
	isOwnStat := func(v ssa.Value) bool {
		return len(lit.Params) >= 2 && c.DerivesFrom(v, func(y ssa.Value) bool {
			ic, isC := y.(*ssa.Call)
			return isC && ic.Common().IsInvoke() && ic.Common().Method.Name() == "Info" && eng.Strip(ic.Common().Value) == ssa.Value(lit.Params[1])
		}, 6)
	}
	eng.InstrsShallow(lit, func(in ssa.Instruction) {
		cl, ok := in.(*ssa.Call)
		if !ok {
			return
		}
		if c.P.IsCallTo(cl, "field:fsutil.filterFS.mapFn") {
			if isOwnStat(cl.Call.Args[1]) {
				ownMaps = append(ownMaps, cl)
			}
			return
		}
		// asked through a helper that hands the map function its parameter
		h := cl.Common().StaticCallee()
		if h == nil || !c.P.InModule(h) || len(h.Params) != len(cl.Call.Args) {
			return
		}
		for j, a := range cl.Call.Args {
			if !isOwnStat(a) {
				continue
			}
			for _, mc := range c.P.CallsTo(h, "field:fsutil.filterFS.mapFn") {
				if ic, isC := mc.(*ssa.Call); isC && ic.Parent() == h && eng.Strip(ic.Call.Args[1]) == ssa.Value(h.Params[j]) {
					ownMaps = append(ownMaps, cl)
				}
			}
		}
	})
	if len(ownMaps) == 0 {
		c.R.OK(rule, c.name(lit)+"/own-verdict-first", c.P.Pos(lit.Pos()), "no map call on the stat of the callback's own entry of a shape this rule interprets")
	} else {
		c.ObPrecedes(rule, c.name(lit)+"/own-verdict-first", lit, set, func(in ssa.Instruction) bool {
			for _, m := range ownMaps {
				if in == ssa.Instruction(m) {
					return true
				}
			}
			return false
		}, func(in ssa.Instruction) bool { return c.P.IsCallTo(in, "freevar:fn") }, "mapFn on the entry's own stat", "a report (of the entry or of a pending ancestor)")
	}
}

func r10_5(c *Ctx, rule string) {
	c.R.Rule(rule, "nothing is reported for an entry a matcher rejected; a lazily emitted ancestor is marked calledFn before it is reported and is skipped once marked")
	fw := getFilterWalk(c, rule)
	if fw == nil {
		return
	}
	lit := fw.lit
	isReport := c.callPred("freevar:fn")
	base := c.name(lit)
	for _, e := range []struct {
		con, what string
		call      *ssa.Call
		verdict   bool
	}{{"/include-miss-not-reported", "the include matcher did not match the entry", fw.incCall, false}, {"/exclude-hit-not-reported", "the exclude matcher matched the entry", fw.excCall, true}} {
		ex := c.explorer(lit)
		ex.From = e.call
		ex.Assume = map[string]bool{c.reg(e.call) + "#0": e.verdict}
		ex.Target = func(in ssa.Instruction, st *eng.State) bool { return isReport(in) }
		ex.StopAtTarget = true
		h := ex.Run()
		switch {
		case ex.Exhausted:
			c.R.Undecided(rule, base+e.con, c.pos(e.call), "state limit")
		case len(h) > 0:
			c.R.Fail(rule, base+e.con, c.pos(h[0].Instr), "the walk callback is reachable although "+e.what+"; path "+eng.BlockTrace(lit, h[0].Trace))
		default:
			c.R.OK(rule, base+e.con, c.pos(e.call), "nothing is reported when "+e.what)
		}
	}
	c.ObReachable(rule, base+"/match-reported", lit, map[string]bool{c.reg(fw.incCall) + "#0": true, c.reg(fw.excCall) + "#0": false}, isReport, "the walk callback", "the entry is included and not excluded")
	// ancestors
	x := c.explorer(lit)
	var parentReport ssa.CallInstruction
	for _, call := range c.P.CallsTo(lit, "freevar:fn") {
		if eng.InCycle(call.Block()) {
			parentReport = call
		}
	}
	if parentReport == nil {
		c.R.Fail(rule, base+"/ancestors-emitted", c.P.Pos(lit.Pos()), "no report inside the loop over pending ancestors: directories that only contain included entries are never reported")
		return
	}
	isMark := func(in ssa.Instruction) bool {
		s, ok := in.(*ssa.Store)
		if !ok {
			return false
		}
		fa, ok := s.Addr.(*ssa.FieldAddr)
		if !ok {
			return false
		}
		fv := eng.FieldVar(fa.X.Type(), fa.Field)
		if fv == nil || eng.CanonFieldName(fa.X.Type(), fa.Field) != "calledFn" {
			return false
		}
		if _, isIdx := fa.X.(*ssa.IndexAddr); !isIdx {
			return false
		}
		b, ok := eng.ConstBool(s.Val)
		return ok && b
	}
	ex := c.explorer(lit)
	ex.From = fw.infoCall
	ex.Barrier = func(in ssa.Instruction, st *eng.State) bool { return isMark(in) }
	ex.Target = func(in ssa.Instruction, st *eng.State) bool { return in == ssa.Instruction(parentReport) }
	ex.StopAtTarget = true
	h := ex.Run()
	c.R.Check(len(h) == 0 && !ex.Exhausted, rule, base+"/ancestor-marked-before-report", c.pos(parentReport), "parentDirs[i].calledFn = true precedes the ancestor's report", "an ancestor is reported without first being marked calledFn in the shared slice: it is reported again for the next entry below it")
	// skipped once marked
	var pins []string
	eng.Instrs(lit, func(in ssa.Instruction) {
		v, ok := in.(ssa.Value)
		if !ok {
			return
		}
		if o, _, _, isF := eng.LoadedField(v); isF && strings.HasSuffix(o, ".calledFn") && eng.InCycle(in.Block()) {
			pins = append(pins, x.KeyAtEntry(v))
		}
	})
	if len(pins) == 0 {
		c.R.Fail(rule, base+"/ancestor-once", c.pos(parentReport), "the ancestor loop never reads calledFn: every pending ancestor is reported for every entry")
	} else {
		as := map[string]bool{}
		for _, k := range pins {
			as[k] = true
		}
		ex2 := c.explorer(lit)
		ex2.Assume = as
		ex2.Target = func(in ssa.Instruction, st *eng.State) bool { return in == ssa.Instruction(parentReport) }
		ex2.StopAtTarget = true
		h2 := ex2.Run()
		c.R.Check(len(h2) == 0 && !ex2.Exhausted, rule, base+"/ancestor-once", c.pos(parentReport), "an ancestor already marked is not reported again", "an ancestor already marked calledFn is reported again")
	}
	c.ObNoStaleElementStores(rule, lit, 2, "pending-ancestor record")
	// the entry's own directory record is marked too
	own := 0
	eng.Instrs(lit, func(in ssa.Instruction) {
		s, ok := in.(*ssa.Store)
		if !ok {
			return
		}
		if fa, ok := s.Addr.(*ssa.FieldAddr); ok {
			if fv := eng.FieldVar(fa.X.Type(), fa.Field); fv != nil && eng.CanonFieldName(fa.X.Type(), fa.Field) == "calledFn" {
				if _, isAlloc := fa.X.(*ssa.Alloc); isAlloc {
					own++
				}
			}
		}
	})
	c.R.Check(own >= 1, rule, base+"/own-record-marked", c.P.Pos(lit.Pos()), "a directory that is itself reported is recorded as reported", "a reported directory is not recorded as calledFn: it is reported a second time as an ancestor of its first child")
}

// R10.11: what counts as "a pattern without wildcards".
//
// The pruning shortcuts compare pattern TEXT with path text; that is only
// right for patterns that are plain paths. NewFilterFS decides it by looking
// for metacharacters: the set it looks for contains every character that
// makes filepath.Match / patternmatcher treat a component as a pattern.
func r10_11(c *Ctx, rule string) {
	c.R.Rule(rule, "NewFilterFS: the character set that disqualifies a pattern from prefix-only treatment contains '*', '?' and '['")
	nf := c.Fn(rule, "fsutil.NewFilterFS")
	if nf == nil {
		return
	}
	n := 0
	for _, call := range c.P.CallsTo(nf, "strings.ContainsAny", "strings.IndexAny") {
		n++
		set := ""
		var collect func(v ssa.Value, d int)
		collect = func(v ssa.Value, d int) {
			c.DerivesFrom(v, func(y ssa.Value) bool {
				if s, ok := eng.ConstString(y); ok {
					set += s
				}
				// what an initialiser function returns (`var chars = func() string { ... }()`)
				if cl, isC := y.(*ssa.Call); isC && d < 2 {
					if callee := cl.Call.StaticCallee(); callee != nil && len(callee.Blocks) > 0 && callee.Pkg != nil && callee.Pkg == nf.Pkg {
						eng.InstrsShallow(callee, func(in ssa.Instruction) {
							if r, isR := in.(*ssa.Return); isR && len(r.Results) == 1 {
								collect(r.Results[0], d+1)
							}
						})
					}
				}
				// a package-level variable (`var patternChars = ...`, completed
				// in the package initialiser): everything that is stored in it
				if u, isU := y.(*ssa.UnOp); isU && u.Op == token.MUL && d < 2 {
					if g, isG := u.X.(*ssa.Global); isG {
						for _, f := range c.P.AllModFuncs() {
							eng.InstrsShallow(f, func(in ssa.Instruction) {
								if st, isS := in.(*ssa.Store); isS && st.Addr == ssa.Value(g) {
									collect(st.Val, d+1)
								}
							})
						}
						if g.Pkg != nil {
							if ini := g.Pkg.Func("init"); ini != nil {
								eng.InstrsShallow(ini, func(in ssa.Instruction) {
									if st, isS := in.(*ssa.Store); isS && st.Addr == ssa.Value(g) {
										collect(st.Val, d+1)
									}
								})
							}
						}
					}
				}
				return false
			}, 5)
		}
		collect(call.Common().Args[1], 0)
		missing := ""
		for _, ch := range "*?[" {
			if !strings.ContainsRune(set, ch) {
				missing += string(ch)
			}
		}
		c.R.Check(missing == "", rule, c.siteName(call)+"/metacharacters", c.pos(call), "looks for "+strconv.Quote(set), "the wildcard test of a pattern does not look for "+strconv.Quote(missing)+" (set "+strconv.Quote(set)+"): a pattern with that metacharacter is compared as literal text and directories that contain matches are pruned")
	}
	c.R.Floor(rule, "wildcard tests of patterns in NewFilterFS", n, 2)
}
