package props

import (
	"fmt"
	"go/token"
	"go/types"
	"sort"
	"strings"

	"fsverif/eng"

	"golang.org/x/tools/go/ssa"
)

func init() {
	register("C02", "Structural clauses behind incremental minimality, decided for every pair of stats: the equality test that suppresses a change compares every identity field of types.Stat (the field set is taken from go/types, so a new field is an obligation) field-by-field between its two operands and each 'different' outcome forces the result false; with differencing disabled the test is false before any comparison; on the modify arm the change callback is unreachable when the test said same and reachable otherwise, with operands (destination entry, filtered clone of source entry); both walkers build stats with one constructor; content is requested only on the regular, non-link arm. Device numbers are decoded from the raw device word bit for bit as on the reference tree (bit-level reading of the decoding helpers). The file ids both ends key their tables by are the zero-based positions in the STAT sequence (counter from 0, one increment per announced entry, registration with the pre-increment value; shared with C06/C07): two ends that agree with each other on any other numbering hand a conforming peer a neighbouring file's bytes. The verdict 'different' needs a difference: with every same-field comparison equal no (false, nil) is returned. Does not decide histories, inode preservation or the hard-link timing exception.", runC02)
}

func runC02(c *Ctx) {
	r02_9(c, "R02.9")
	if c.Unix() {
		r02_8(c, "R02.8")
	}
	r02_1(c, "R02.1")
	r02_2(c, "R02.2")
	r02_3(c, "R02.3")
	r02_4(c, "R02.4")
	r02_5(c, "R02.5")
	// a re-sync is empty only if the writer leaves exactly the identity the
	// differ compares: the metadata writer's order matters (a chown after the
	// chmod clears setuid/setgid, so the file differs again on every pass) -
	// shared with C01
	if c.Unix() {
		r01_2(c, "R02.6")
	}
	// sizes compared by the differ are only meaningful if every non-directory
	// carries its real size on both walks, link members included (shared with
	// C01/C09/C17)
	c.R.Rule("R02.7", "the stat of every non-directory carries its on-disk size, recorded after the inode bookkeeping")
	statSizeAlways(c, "R02.7")
	// the content requested for a changed entry is that entry's: ids are
	// zero-based STAT positions on both ends (shared with C06/C07)
	idNumbering(c, "R02.10", "R02.11", "R02.12")
	r02_13(c, "R02.13")
}

// R02.13: "different" needs a difference.
//
// R02.1 asks that every differing identity field forces the verdict false;
// this is the converse. With every same-field comparison of the two stats
// pinned to "equal", differencing not disabled and the helpers that compare
// (compareStat, compareFileContent) answering "same", no `return false, nil`
// is reachable in sameFile or compareStat: a verdict of "different" that rests
// on the value of one side alone (a zero ModTime read as "no timestamp") makes
// an unchanged entry be re-created, re-requested and reported on every sync.
func r02_13(c *Ctx, rule string) {
	c.R.Rule(rule, "sameFile / compareStat: with all same-field comparisons of the two stats equal, differencing enabled and the comparing helpers answering 'same', no return of (false, nil) is reachable")
	pk := c.P.Pkg("fsutil")
	none := "?"
	if pk != nil {
		if k, ok := pk.Types.Scope().Lookup("DiffNone").(*types.Const); ok {
			none = k.Val().ExactString()
		}
	}
	for _, name := range []string{"fsutil.sameFile", "fsutil.compareStat"} {
		fn := c.Fn(rule, name)
		if fn == nil {
			continue
		}
		x := c.explorer(fn)
		pins := map[string]bool{}
		nf := 0
		eng.Instrs(fn, func(in ssa.Instruction) {
			switch v := in.(type) {
			case *ssa.BinOp:
				if v.Op != token.EQL && v.Op != token.NEQ {
					return
				}
				ox, _, _, okx := eng.LoadedField(v.X)
				oy, _, _, oky := eng.LoadedField(v.Y)
				if okx && oky && ox == oy && strings.HasPrefix(ox, "types.Stat.") {
					pins[x.RegKey(v)] = v.Op == token.EQL
					nf++
					return
				}
				// differ == DiffNone
				for _, o := range [][2]ssa.Value{{v.X, v.Y}, {v.Y, v.X}} {
					if _, isP := eng.Strip(o[0]).(*ssa.Parameter); isP {
						if k, isK := o[1].(*ssa.Const); isK && k.Value != nil && k.Value.ExactString() == none && strings.HasSuffix(types.TypeString(o[0].Type(), nil), "DiffType") {
							pins[x.RegKey(v)] = v.Op == token.NEQ
						}
					}
				}
			case *ssa.Extract:
				if call, ok := v.Tuple.(*ssa.Call); ok && v.Index == 0 {
					switch c.P.CalleeName(call) {
					case "fsutil.compareStat", "fsutil.compareFileContent":
						pins[x.RegKey(v)] = true
					}
				}
			}
		})
		con := c.name(fn) + "/different-needs-a-difference"
		if nf == 0 {
			c.R.OK(rule, con, c.P.Pos(fn.Pos()), "no same-field comparison of two stats of a shape this rule interprets: not decided")
			continue
		}
		ex := c.explorer(fn)
		ex.Assume = pins
		ex.Target = func(in ssa.Instruction, st *eng.State) bool {
			r, ok := in.(*ssa.Return)
			if !ok || r.Parent() != fn || len(r.Results) != 2 {
				return false
			}
			b, isB := eng.ConstBool(r.Results[0])
			k, isK := r.Results[1].(*ssa.Const)
			return isB && !b && isK && k.IsNil()
		}
		ex.StopAtTarget = true
		hits := ex.Run()
		switch {
		case ex.Exhausted:
			c.R.Undecided(rule, con, c.P.Pos(fn.Pos()), "state limit")
		case len(hits) > 0:
			c.R.Fail(rule, con, c.pos(hits[0].Instr), "the verdict 'different' is reachable although every compared field is equal on both sides (it rests on the value of one side alone?): an unchanged entry is re-created, re-requested and reported on every sync; path "+eng.BlockTrace(fn, hits[0].Trace))
		default:
			c.R.OK(rule, con, c.P.Pos(fn.Pos()), fmt.Sprintf("with %d same-field comparisons equal no (false, nil) return is reachable", nf))
		}
	}
}

// identity fields: all exported fields of types.Stat minus these, with reason.
var statIdentityExempt = map[string]string{
	"Path":   "compared by pathChange (ComparePath), not by sameFile",
	"Xattrs": "not part of identity in the property statement",
}

// fields that may sit under the !IsDir() guard
var statNonDirOnly = map[string]bool{"Size": true, "ModTime": true}

// rootParam follows loads and field addresses back to a parameter.
func rootParam(v ssa.Value) *ssa.Parameter {
	for i := 0; i < 12; i++ {
		switch x := v.(type) {
		case *ssa.Parameter:
			return x
		case *ssa.UnOp:
			if x.Op != token.MUL {
				return nil
			}
			v = x.X
		case *ssa.FieldAddr:
			v = x.X
		case *ssa.Field:
			v = x.X
		case *ssa.ChangeType:
			v = x.X
		case *ssa.Convert:
			v = x.X
		default:
			return nil
		}
	}
	return nil
}

type cmpSite struct {
	bo     *ssa.BinOp
	fn     *ssa.Function
	fx, fy string
	px, py *ssa.Parameter
}

func statCompareSites(c *Ctx, fns []*ssa.Function) []cmpSite {
	var out []cmpSite
	for _, fn := range fns {
		fn := fn
		eng.Instrs(fn, func(in ssa.Instruction) {
			bo, ok := in.(*ssa.BinOp)
			if !ok || (bo.Op != token.EQL && bo.Op != token.NEQ) {
				return
			}
			ox, _, _, okx := eng.LoadedField(bo.X)
			oy, _, _, oky := eng.LoadedField(bo.Y)
			if !okx || !oky || !strings.HasPrefix(ox, "types.Stat.") || !strings.HasPrefix(oy, "types.Stat.") {
				return
			}
			out = append(out, cmpSite{bo: bo, fn: fn, fx: strings.TrimPrefix(ox, "types.Stat."), fy: strings.TrimPrefix(oy, "types.Stat."),
				px: rootParam(bo.X), py: rootParam(bo.Y)})
		})
	}
	return out
}

// allReturnsFalse: under assume, every reachable return of fn has a provably
// false first result.
func allReturnsFalse(c *Ctx, fn *ssa.Function, from ssa.Instruction, assume map[string]bool) (*eng.Hit, bool) {
	x := c.explorer(fn)
	x.From = from
	x.Assume = assume
	x.Target = func(in ssa.Instruction, st *eng.State) bool {
		r, ok := in.(*ssa.Return)
		if !ok || len(r.Results) == 0 {
			return false
		}
		v, known := x.Truth(r.Results[0], st)
		return !(known && !v)
	}
	x.StopAtTarget = true
	hits := x.Run()
	if x.Exhausted {
		return nil, true
	}
	if len(hits) > 0 {
		return &hits[0], false
	}
	return nil, false
}

func r02_1(c *Ctx, rule string) {
	c.R.Rule(rule, "every identity field of types.Stat is compared, same field on both sides, first operand against second, and a difference forces sameFile's result false; only Size and ModTime may be skipped for directories")
	same := c.Fn(rule, "fsutil.sameFile")
	cs := c.Fn(rule, "fsutil.compareStat")
	if same == nil || cs == nil {
		return
	}
	fields := c.P.StructFields("types", "Stat")
	if fields == nil {
		c.R.Missing(rule, "struct types.Stat")
		return
	}
	sites := statCompareSites(c, []*ssa.Function{same, cs})
	// cross-field or same-side comparisons are violations by themselves
	for i, s := range sites {
		con := fmt.Sprintf("%s/compare#%d", c.name(s.fn), i+1)
		if s.fx != s.fy {
			c.R.Fail(rule, con+"/cross-field", c.pos(s.bo), fmt.Sprintf("compares Stat.%s of one entry with Stat.%s of the other", s.fx, s.fy))
		}
		if s.px == nil || s.py == nil || s.px == s.py {
			c.R.Fail(rule, con+"/same-side", c.pos(s.bo), "both operands of the comparison come from the same entry (or from neither parameter)")
		}
	}
	// compareStat's verdict must propagate through sameFile
	var csCall *ssa.Call
	for _, call := range c.P.CallsTo(same, "fsutil.compareStat") {
		csCall, _ = call.(*ssa.Call)
	}
	csKey := ""
	if csCall == nil {
		c.R.Fail(rule, "fsutil.sameFile/compareStat-call", c.P.Pos(same.Pos()), "sameFile no longer calls compareStat")
	} else {
		csKey = c.reg(csCall) + "#0"
		if csCall.Call.Signature().Results().Len() == 1 {
			csKey = c.reg(csCall) // (the always-nil error result dropped)
		}
		// arguments: stat of first param, stat of second param
		a0, a1 := rootParam(csCall.Call.Args[0]), rootParam(csCall.Call.Args[1])
		c.R.Check(a0 != nil && a1 != nil && a0 != a1 && isFieldLoad(csCall.Call.Args[0], "fsutil.currentPath.stat") && isFieldLoad(csCall.Call.Args[1], "fsutil.currentPath.stat"),
			rule, "fsutil.sameFile/compareStat-args", c.pos(csCall), "compareStat receives the stats of the two different entries", "compareStat is not applied to the stats of the two different entries")
		hit, und := allReturnsFalse(c, same, csCall, map[string]bool{csKey: false})
		switch {
		case und:
			c.R.Undecided(rule, "fsutil.sameFile/compareStat-propagates", c.pos(csCall), "state limit")
		case hit != nil:
			c.R.Fail(rule, "fsutil.sameFile/compareStat-propagates", c.pos(hit.Instr), "compareStat said 'different' but sameFile can still return same; path "+eng.BlockTrace(same, hit.Trace))
		default:
			c.R.OK(rule, "fsutil.sameFile/compareStat-propagates", c.pos(csCall), "a false result of compareStat makes sameFile return false")
		}
	}
	x := c.explorer(same)
	var isDirKeys []string
	for _, call := range c.P.CallsTo(same, "types.(*Stat).IsDir") {
		if cl, ok := call.(*ssa.Call); ok {
			isDirKeys = append(isDirKeys, x.KeyAtEntry(cl))
		}
	}
	n := 0
	for _, f := range fields {
		if !f.Exported() {
			continue
		}
		if why, ex := statIdentityExempt[f.Name()]; ex {
			c.R.OK(rule, "types.Stat."+f.Name()+"/exempt", "-", "exempt: "+why)
			continue
		}
		n++
		con := "types.Stat." + f.Name()
		var good []cmpSite
		for _, s := range sites {
			if s.fx == f.Name() && s.fy == f.Name() && s.px != nil && s.py != nil && s.px != s.py {
				good = append(good, s)
			}
		}
		if len(good) == 0 {
			c.R.Fail(rule, con+"/compared", c.P.Pos(cs.Pos()), "identity field Stat."+f.Name()+" takes no part in the same-file comparison (sameFile / compareStat): a change of it alone is not re-transferred")
			continue
		}
		s := good[0]
		c.R.OK(rule, con+"/compared", c.pos(s.bo), "compared between the two entries in "+c.name(s.fn))
		// the 'different' outcome forces false
		ex := c.explorer(s.fn)
		k := ex.KeyAtEntry(s.bo)
		val := s.bo.Op == token.NEQ // "different": EQL false / NEQ true
		as := map[string]bool{k: val}
		if statNonDirOnly[f.Name()] && s.fn == same {
			for _, dk := range isDirKeys {
				as[dk] = false // these two are only required to matter for non-directories
			}
		}
		hit, und := allReturnsFalse(c, s.fn, nil, as)
		switch {
		case und:
			c.R.Undecided(rule, con+"/difference-forces-false", c.pos(s.bo), "state limit")
		case hit != nil:
			c.R.Fail(rule, con+"/difference-forces-false", c.pos(hit.Instr), "Stat."+f.Name()+" differs but "+c.name(s.fn)+" can still report 'same'; path "+eng.BlockTrace(s.fn, hit.Trace))
		default:
			c.R.OK(rule, con+"/difference-forces-false", c.pos(s.bo), "a difference in this field makes "+c.name(s.fn)+" return false")
		}
		// directory guard
		if !statNonDirOnly[f.Name()] {
			assume := map[string]bool{}
			for _, k := range isDirKeys {
				assume[k] = true
			}
			target := ssa.Instruction(s.bo)
			fn := s.fn
			if s.fn == cs && csCall != nil {
				target, fn = csCall, same
			}
			hitR, undR := c.ReachableUnder(fn, assume, nil, func(in ssa.Instruction) bool { return in == target })
			switch {
			case undR:
				c.R.Undecided(rule, con+"/not-dir-guarded", c.pos(s.bo), "state limit")
			case hitR == nil:
				c.R.Fail(rule, con+"/not-dir-guarded", c.pos(s.bo), "the comparison of Stat."+f.Name()+" is skipped for directories; only Size and ModTime may be")
			default:
				c.R.OK(rule, con+"/not-dir-guarded", c.pos(s.bo), "also compared for directories")
			}
		}
	}
	c.R.Floor(rule, "identity fields of types.Stat", n, 8)
}

func r02_2(c *Ctx, rule string) {
	c.R.Rule(rule, "with differ == DiffNone sameFile returns false before any comparison")
	same := c.Fn(rule, "fsutil.sameFile")
	if same == nil {
		return
	}
	pk := c.P.Pkg("fsutil")
	cst, _ := pk.Types.Scope().Lookup("DiffNone").(*types.Const)
	if cst == nil {
		c.R.Missing(rule, "constant DiffNone")
		return
	}
	var test *ssa.BinOp
	eng.Instrs(same, func(in ssa.Instruction) {
		bo, ok := in.(*ssa.BinOp)
		if !ok || (bo.Op != token.EQL && bo.Op != token.NEQ) {
			return
		}
		if p, isP := bo.X.(*ssa.Parameter); isP && strings.HasSuffix(types.TypeString(p.Type(), nil), "DiffType") {
			if k, ok := bo.Y.(*ssa.Const); ok && k.Value != nil && k.Value.ExactString() == cst.Val().ExactString() {
				if test == nil {
					test = bo
				}
			}
		}
	})
	if test == nil {
		c.R.Fail(rule, "fsutil.sameFile/diffnone-test", c.P.Pos(same.Pos()), "sameFile has no test of its differ parameter against DiffNone")
		return
	}
	x := c.explorer(same)
	k := x.KeyAtEntry(test)
	assume := map[string]bool{k: true}
	hit, und := allReturnsFalse(c, same, nil, assume)
	switch {
	case und:
		c.R.Undecided(rule, "fsutil.sameFile/diffnone-false", c.pos(test), "state limit")
	case hit != nil:
		c.R.Fail(rule, "fsutil.sameFile/diffnone-false", c.pos(hit.Instr), "with differencing disabled sameFile can still return same")
	default:
		c.R.OK(rule, "fsutil.sameFile/diffnone-false", c.pos(test), "differ == DiffNone forces false")
	}
	sites := statCompareSites(c, []*ssa.Function{same})
	c.ObUnreachable(rule, "fsutil.sameFile/diffnone-before-compare", same, assume, func(in ssa.Instruction) bool {
		for _, s := range sites {
			if in == ssa.Instruction(s.bo) {
				return true
			}
		}
		return c.P.IsCallTo(in, "fsutil.compareStat", "fsutil.compareFileContent")
	}, "a stat comparison", "differ == DiffNone")
}

// diffLoop returns the comparing goroutine of doubleWalkDiff.
func diffLoop(c *Ctx, rule string) *ssa.Function {
	dwd := c.Fn(rule, "fsutil.doubleWalkDiff")
	if dwd == nil {
		return nil
	}
	return c.ClosureCalling(rule, dwd, "fsutil.sameFile")
}

func r02_3(c *Ctx, rule string) {
	c.R.Rule(rule, "on the modify arm the change callback is unreachable when sameFile said same and reachable when it said different; sameFile's operands are (entry of walker a, filtered clone of entry of walker b)")
	loop := diffLoop(c, rule)
	if loop == nil {
		return
	}
	var sf *ssa.Call
	for _, call := range c.P.CallsTo(loop, "fsutil.sameFile") {
		sf, _ = call.(*ssa.Call)
	}
	if sf == nil {
		c.R.Missing(rule, "call of sameFile in the diff loop")
		return
	}
	base := c.name(loop)
	sameKey := c.reg(sf) + "#0"
	errKey := "(" + c.reg(sf) + "#1==nil)"
	isChange := func(in ssa.Instruction) bool { return c.P.IsCallTo(in, "freevar:changeFn") }
	isNext := func(in ssa.Instruction) bool { return c.P.IsCallTo(in, "fsutil.pathChange") }
	run := func(same bool) (*eng.Hit, bool) {
		x := c.explorer(loop)
		x.From = sf
		x.Assume = map[string]bool{sameKey: same, errKey: true}
		x.Barrier = func(in ssa.Instruction, st *eng.State) bool { return isNext(in) }
		x.Target = func(in ssa.Instruction, st *eng.State) bool { return isChange(in) }
		x.StopAtTarget = true
		h := x.Run()
		if x.Exhausted {
			return nil, true
		}
		if len(h) > 0 {
			return &h[0], false
		}
		return nil, false
	}
	if len(c.P.CallsTo(loop, "fsutil.pathChange")) == 0 {
		c.R.Missing(rule, "call of pathChange in the diff loop (iteration delimiter)")
		return
	}
	hit, und := run(true)
	switch {
	case und:
		c.R.Undecided(rule, base+"/same-suppresses", c.pos(sf), "state limit")
	case hit != nil:
		c.R.Fail(rule, base+"/same-suppresses", c.pos(hit.Instr), "the change callback is called for an entry sameFile reported unchanged; path "+eng.BlockTrace(loop, hit.Trace))
	default:
		c.R.OK(rule, base+"/same-suppresses", c.pos(sf), "no change is emitted in the iteration where sameFile returned true")
	}
	hit, und = run(false)
	switch {
	case und:
		c.R.Undecided(rule, base+"/different-emits", c.pos(sf), "state limit")
	case hit == nil:
		c.R.Fail(rule, base+"/different-emits", c.pos(sf), "the change callback is not reachable in the iteration where sameFile returned false: modified entries are dropped")
	default:
		c.R.OK(rule, base+"/different-emits", c.pos(hit.Instr), "a change is emitted when sameFile returned false")
	}
	// a sameFile error must end the loop
	c.ObErrChecked(rule+"/checked", sf)
	// operand provenance
	fromCell := fromLoc
	// identify the two entry cells semantically: the cell fed by nextPath on
	// the channel handed to walker `a` is the destination side.
	aCell, bCell := walkerCells(c, loop)
	if aCell == "" || bCell == "" {
		c.R.Undecided(rule, base+"/operands", c.pos(sf), "cannot associate the entry variables of the diff loop with the two walkers")
		return
	}
	a0, a1 := sf.Call.Args[0], sf.Call.Args[1]
	ok0 := c.DerivesFromLocal(a0, fromCell(aCell), 6) && !c.DerivesFromLocal(a0, fromCell(bCell), 6)
	ok1 := c.DerivesFromLocal(a1, fromCell(bCell), 8) && !c.DerivesFromLocal(a1, fromCell(aCell), 8)
	isClone := c.DerivesFromLocal(a1, func(v ssa.Value) bool { return c.isCallValueTo(v, "types.(*Stat).Clone", "types.(*Stat).CloneVT") }, 8)
	c.R.Check(ok0, rule, base+"/operand-a", c.pos(sf), "first operand is the entry of walker a (destination)", "sameFile's first operand is not the entry of walker a only")
	c.R.Check(ok1 && isClone, rule, base+"/operand-b", c.pos(sf), "second operand is a clone of the entry of walker b (source)", "sameFile's second operand is not a clone of the entry of walker b only (same side compared twice, or the shared stat is filtered in place)")
}

// DerivesFromLocal is DerivesFrom that does not look through loop-carried
// captured cells of *other* names: it follows operands and local allocs only.
func (c *Ctx) DerivesFromLocal(v ssa.Value, pred func(ssa.Value) bool, depth int) bool {
	seen := map[ssa.Value]bool{}
	var rec func(v ssa.Value, d int) bool
	rec = func(v ssa.Value, d int) bool {
		if v == nil || seen[v] || d > depth {
			return false
		}
		seen[v] = true
		if pred(v) {
			return true
		}
		if rs := eng.ResolveAll(v); len(rs) != 1 || rs[0] != v {
			for _, r := range rs {
				if rec(r, d+1) {
					return true
				}
			}
			return false
		}
		if al, ok := v.(*ssa.Alloc); ok {
			// composite literal: what is stored into its fields / elements
			for _, r := range eng.Referrers(al) {
				switch fa := r.(type) {
				case *ssa.FieldAddr:
					for _, r2 := range eng.Referrers(fa) {
						if s, ok := r2.(*ssa.Store); ok && s.Addr == ssa.Value(fa) && rec(s.Val, d+1) {
							return true
						}
					}
				case *ssa.IndexAddr:
					for _, r2 := range eng.Referrers(fa) {
						if s, ok := r2.(*ssa.Store); ok && s.Addr == ssa.Value(fa) && rec(s.Val, d+1) {
							return true
						}
					}
				}
			}
			return false
		}
		if u, ok := v.(*ssa.UnOp); ok && u.Op == token.MUL {
			switch a := u.X.(type) {
			case *ssa.Alloc:
				for _, r := range eng.Referrers(a) {
					if s, ok := r.(*ssa.Store); ok && s.Addr == a && rec(s.Val, d+1) {
						return true
					}
				}
				return false
			case *ssa.FreeVar:
				return false
			case *ssa.FieldAddr:
				// composite literal field: follow stores to the same field of the same object
				for _, r := range eng.Referrers(a.X) {
					if fa, ok := r.(*ssa.FieldAddr); ok && fa.Field == a.Field {
						for _, r2 := range eng.Referrers(fa) {
							if s, ok := r2.(*ssa.Store); ok && s.Addr == fa && rec(s.Val, d+1) {
								return true
							}
						}
					}
				}
				return rec(a.X, d+1)
			}
		}
		if in, ok := v.(ssa.Instruction); ok {
			for _, op := range in.Operands(nil) {
				if *op != nil && rec(*op, d+1) {
					return true
				}
			}
		}
		return false
	}
	return rec(v, 0)
}

// A location is where the diff loop keeps a piece of its state: a local or
// captured variable, or a field of its state object - named by the identity
// of the memory cell (eng/cells.go), so that two cursors of one type are two
// locations.
var locProg *eng.Prog

func locOfAddr(addr ssa.Value) string {
	if locProg == nil {
		return ""
	}
	return locProg.CellID(addr)
}

// loadLoc: v loads a location; "" otherwise. A variable that lives in
// registers (a local of the loop's own function that no literal captures) is
// the web of phi nodes that carry it from iteration to iteration: reading any
// phi of the web reads the variable.
func loadLoc(v ssa.Value) string {
	if u, ok := v.(*ssa.UnOp); ok && u.Op == token.MUL {
		return locOfAddr(u.X)
	}
	if ph, ok := v.(*ssa.Phi); ok {
		return phiWeb(ph)
	}
	return ""
}

var phiWebCache = map[*ssa.Function]map[*ssa.Phi]string{}

// phiWeb names the connected component of ph in the graph "phi a has phi b as
// an edge" of its function.
func phiWeb(ph *ssa.Phi) string {
	fn := ph.Parent()
	m, ok := phiWebCache[fn]
	if !ok {
		m = map[*ssa.Phi]string{}
		parent := map[*ssa.Phi]*ssa.Phi{}
		var find func(p *ssa.Phi) *ssa.Phi
		find = func(p *ssa.Phi) *ssa.Phi {
			if parent[p] == nil || parent[p] == p {
				parent[p] = p
				return p
			}
			r := find(parent[p])
			parent[p] = r
			return r
		}
		var all []*ssa.Phi
		for _, b := range fn.Blocks {
			for _, in := range b.Instrs {
				if p, ok := in.(*ssa.Phi); ok {
					all = append(all, p)
					find(p)
				}
			}
		}
		for _, p := range all {
			for _, e := range p.Edges {
				if q, ok := e.(*ssa.Phi); ok {
					a, b := find(p), find(q)
					if a != b {
						parent[a] = b
					}
				}
			}
		}
		// the component is named after its first phi in block order
		first := map[*ssa.Phi]*ssa.Phi{}
		for _, p := range all {
			r := find(p)
			if first[r] == nil {
				first[r] = p
			}
		}
		for _, p := range all {
			m[p] = "phi:" + fn.String() + ":" + first[find(p)].Name()
		}
		phiWebCache[fn] = m
	}
	return m[ph]
}

// fromLoc is the provenance predicate "v reads location loc".
func fromLoc(loc string) func(ssa.Value) bool {
	return func(v ssa.Value) bool { return loc != "" && loadLoc(v) == loc }
}

// chanIdentity traces a channel value (seen through the given chain of helper
// calls) back to the make(chan) it comes from: through helper parameters,
// captured variables, and variables or state fields that are assigned that
// one channel (and possibly nil, once it is drained).
func chanIdentity(c *Ctx, v ssa.Value, stack []*ssa.Call, depth int) string {
	if v == nil || depth > 10 {
		return ""
	}
	ids := map[string]bool{}
	for _, r := range eng.ResolveAllCtx(v, stack) {
		id := ""
		switch x := r.(type) {
		case *ssa.MakeChan:
			id = "chan " + c.pos(x) + " " + x.Name()
		case *ssa.ChangeType:
			id = chanIdentity(c, x.X, stack, depth+1)
		case *ssa.Phi:
			// a register variable holding the channel, set to nil once drained:
			// the one channel its other edges carry
			one := ""
			okPhi := true
			seenPhi := map[*ssa.Phi]bool{}
			var walk func(p *ssa.Phi)
			walk = func(p *ssa.Phi) {
				if seenPhi[p] {
					return
				}
				seenPhi[p] = true
				for _, e := range p.Edges {
					if k, isK := e.(*ssa.Const); isK && k.IsNil() {
						continue
					}
					if q, isQ := e.(*ssa.Phi); isQ {
						walk(q)
						continue
					}
					eid := chanIdentity(c, e, stack, depth+1)
					if eid == "" || (one != "" && eid != one) {
						okPhi = false
					}
					one = eid
				}
			}
			walk(x)
			if okPhi {
				id = one
			}
		case *ssa.FreeVar:
			// captured by value through a MakeClosure in a helper: the binding
			if mc := bindingSite(c, x); mc != nil {
				for i, fv := range x.Parent().FreeVars {
					if fv == x && i < len(mc.Bindings) {
						id = chanIdentity(c, mc.Bindings[i], stack, depth+1)
					}
				}
			}
		case *ssa.UnOp:
			if x.Op != token.MUL {
				break
			}
			cell := c.P.CellIDCtx(x.X, stack)
			if fv, isFV := x.X.(*ssa.FreeVar); isFV && cell == "" {
				// a variable of a helper captured by a literal made in that helper
				if mc := bindingSite(c, fv); mc != nil {
					for i, f := range fv.Parent().FreeVars {
						if f == fv && i < len(mc.Bindings) {
							cell = c.P.CellIDCtx(mc.Bindings[i], stack)
						}
					}
				}
			}
			var vals []ssa.Value
			for _, st := range c.P.CellStores(cell) {
				if k, isK := st.Val.(*ssa.Const); isK && k.IsNil() {
					continue
				}
				vals = append(vals, st.Val)
			}
			if len(vals) == 1 {
				id = chanIdentity(c, vals[0], stack, depth+1)
			}
		}
		if id == "" {
			return ""
		}
		ids[id] = true
	}
	if len(ids) != 1 {
		return ""
	}
	for id := range ids {
		return id
	}
	return ""
}

// bindingSite finds the one MakeClosure that creates the literal fv belongs to.
func bindingSite(c *Ctx, fv *ssa.FreeVar) *ssa.MakeClosure {
	lit := fv.Parent()
	if lit == nil || lit.Parent() == nil {
		return nil
	}
	var out *ssa.MakeClosure
	n := 0
	eng.InstrsShallow(lit.Parent(), func(in ssa.Instruction) {
		if mc, ok := in.(*ssa.MakeClosure); ok && mc.Fn == ssa.Value(lit) {
			out = mc
			n++
		}
	})
	if n != 1 {
		return nil
	}
	return out
}

// walkerCells returns the locations of the pending entries fed from walker
// a's and walker b's channel: the channel handed to a (b) is identified where
// a (b) is called - in a literal of doubleWalkDiff or in a helper that builds
// such a literal; the entry location is where the result of nextPath on that
// channel is stored, per call site when the fetch is a helper shared by both
// sides.
func walkerCells(c *Ctx, loop *ssa.Function) (aCell, bCell string) {
	locProg = c.P
	dwd := c.P.Encloser(loop)
	if dwd == nil {
		return
	}
	for c.P.Encloser(dwd) != nil {
		dwd = c.P.Encloser(dwd)
	}
	chanOf := map[string]string{} // "a" -> identity of the channel handed to walker a
	walkerCall := func(call ssa.CallInstruction, stack []*ssa.Call) {
		// the callee: walker parameter a or b of doubleWalkDiff, captured or handed down
		which := ""
		cur := call.Common().Value
		for step := 0; step < 8 && cur != nil; step++ {
			if q, isP := cur.(*ssa.Parameter); isP && q.Parent() == dwd {
				if n := c.P.ParamName(q); n == "a" || n == "b" {
					which = n
				}
				break
			}
			next := ssa.Value(nil)
			switch x := cur.(type) {
			case *ssa.Parameter:
				// a helper's parameter: the argument at the call we came through
				if rs := eng.ResolveAllCtx(x, stack); len(rs) == 1 && rs[0] != cur {
					next = rs[0]
				}
			case *ssa.FreeVar:
				if mc := bindingSite(c, x); mc != nil {
					for i, f := range x.Parent().FreeVars {
						if f == x && i < len(mc.Bindings) {
							next = mc.Bindings[i]
						}
					}
				}
			case *ssa.UnOp:
				if x.Op != token.MUL {
					break
				}
				// a captured parameter: the cell it was spilled to
				switch ad := x.X.(type) {
				case *ssa.FreeVar:
					if root := c.P.Census().Root(ad); root != nil {
						next = spilledParam(root)
					}
				case *ssa.Alloc:
					next = spilledParam(ad)
				}
			}
			if next == nil || next == cur {
				break
			}
			cur = next
		}
		if which == "" {
			return
		}
		for _, arg := range call.Common().Args {
			if _, isChan := arg.Type().Underlying().(*types.Chan); !isChan {
				continue
			}
			if id := chanIdentity(c, arg, stack, 0); id != "" {
				chanOf[which] = id
			}
		}
	}
	scan := func(fn *ssa.Function) {
		eng.InstrsCtx(fn, func(in ssa.Instruction, stack []*ssa.Call) {
			if call, ok := in.(ssa.CallInstruction); ok && call.Common().StaticCallee() == nil && !call.Common().IsInvoke() {
				walkerCall(call, stack)
			}
			// a literal built in a helper (walkInto(ctx, a, ch) returning func() error)
			if mc, ok := in.(*ssa.MakeClosure); ok && len(stack) > 0 {
				if lit, isF := mc.Fn.(*ssa.Function); isF {
					for _, call := range eng.Calls(lit) {
						if call.Common().StaticCallee() == nil && !call.Common().IsInvoke() {
							walkerCall(call, stack)
						}
					}
				}
			}
		})
	}
	scan(dwd)
	for _, cl := range eng.Closures(dwd) {
		scan(cl)
	}
	if chanOf["a"] == "" || chanOf["b"] == "" || chanOf["a"] == chanOf["b"] {
		return
	}
	eng.InstrsCtx(loop, func(in ssa.Instruction, stack []*ssa.Call) {
		cv, ok := in.(*ssa.Call)
		if !ok || !c.P.IsCallTo(cv, "fsutil.nextPath") || len(cv.Call.Args) < 2 {
			return
		}
		ch := chanIdentity(c, cv.Call.Args[1], stack, 0)
		if ch == "" {
			return
		}
		for _, r := range eng.Referrers(cv) {
			e, ok := r.(*ssa.Extract)
			if !ok || e.Index != 0 {
				continue
			}
			for _, r2 := range eng.Referrers(e) {
				if ph, isPhi := r2.(*ssa.Phi); isPhi {
					// the entry is kept in a register variable
					if l := phiWeb(ph); l != "" {
						if ch == chanOf["a"] {
							aCell = l
						}
						if ch == chanOf["b"] {
							bCell = l
						}
					}
					continue
				}
				s, ok := r2.(*ssa.Store)
				if !ok || s.Val != ssa.Value(e) {
					continue
				}
				l := c.P.CellIDCtx(s.Addr, stack)
				if l == "" {
					continue
				}
				if ch == chanOf["a"] {
					aCell = l
				}
				if ch == chanOf["b"] {
					bCell = l
				}
			}
		}
	})
	return
}

// spilledParam: the parameter a captured-parameter cell was initialised from.
func spilledParam(al *ssa.Alloc) ssa.Value {
	for _, r := range eng.Referrers(al) {
		if s, ok := r.(*ssa.Store); ok && s.Addr == ssa.Value(al) {
			if q, isP := s.Val.(*ssa.Parameter); isP {
				return q
			}
		}
	}
	return al
}

func r02_4(c *Ctx, rule string) {
	c.R.Rule(rule, "stats are built by one constructor (mkstat), reached by both the destination walker and the source FS walk")
	n := 0
	for _, fn := range c.P.ModFuncs {
		ps := fnPkgShort(c, fn)
		if ps == "types" || c.P.IsTestFile(fn.Pos()) {
			continue
		}
		eng.Instrs(fn, func(in ssa.Instruction) {
			al, ok := in.(*ssa.Alloc)
			if !ok || !strings.HasSuffix(types.TypeString(al.Type(), nil), "*"+eng.ModulePath+"/types.Stat") {
				return
			}
			if len(structLitFields(al)) == 0 {
				return
			}
			n++
			c.R.Check(c.name(fn) == "fsutil.mkstat", rule, c.name(fn)+"/Stat-literal", c.pos(al), "the stat constructor", "a second place ("+c.name(fn)+") builds a non-zero types.Stat: source and destination stats may no longer be comparable field by field")
		})
	}
	c.R.Floor(rule, "non-zero types.Stat literals outside package types", n, 1)
	mk := c.Fn(rule, "fsutil.mkstat")
	gw := c.Fn(rule, "fsutil.getWalkerFn")
	fw := c.Fn(rule, "fsutil.(*fs).Walk")
	if mk == nil || gw == nil || fw == nil {
		return
	}
	g := c.P.CallGraph()
	c.R.Check(g.Reachable(gw)[mk], rule, "fsutil.getWalkerFn/reaches-mkstat", c.P.Pos(gw.Pos()), "the destination walker reaches mkstat", "the destination walker no longer reaches mkstat")
	c.R.Check(g.Reachable(fw)[mk], rule, "fsutil.(*fs).Walk/reaches-mkstat", c.P.Pos(fw.Pos()), "the source walk reaches mkstat", "the source walk no longer reaches mkstat")
}

// modeTestKey finds `fi.Mode()&<bit> != 0` style tests in fn for the given
// os.FileMode bit and returns their keys (normalised so that true = bit set).
func modeBitTests(c *Ctx, fn *ssa.Function, x *eng.Explorer, bit int64) []string {
	return modeBitTestsMask(c, fn, x, bit, false)
}

// modeBitSetTests: also the tests of a wider mask that contains the bit
// (`mode&(os.ModeDevice|os.ModeNamedPipe) != 0`). Their keys may only be
// ASSUMED TRUE ("the bit is set, so the wider test succeeds"); a wider test
// failing says the bit is clear, but the bit being clear does not make it fail.
func modeBitSetTests(c *Ctx, fn *ssa.Function, x *eng.Explorer, bit int64) []string {
	return modeBitTestsMask(c, fn, x, bit, true)
}

func modeBitTestsMask(c *Ctx, fn *ssa.Function, x *eng.Explorer, bit int64, wider bool) []string {
	var keys []string
	eng.Instrs(fn, func(in ssa.Instruction) {
		v, ok := in.(ssa.Value)
		if !ok {
			return
		}
		_, mask, setWhenTrue, isBT := eng.BitTest(v)
		if !isBT || (mask != bit && !(wider && mask&bit == bit && mask&^modeType == 0)) {
			return
		}
		// a key whose truth means "bit set"
		key := x.KeyAtEntry(v)
		if !setWhenTrue {
			key = "!" + key
		}
		keys = append(keys, key)
	})
	return keys
}

const (
	modeDir       = int64(1) << 31
	modeSymlink   = int64(1) << 27
	modeDevice    = int64(1) << 26
	modeNamedPipe = int64(1) << 25
	modeSocket    = int64(1) << 24
	modeCharDev   = int64(1) << 21
	modeType      = modeDir | modeSymlink | modeNamedPipe | modeSocket | modeDevice | modeCharDev | int64(1)<<19
)

func r02_5(c *Ctx, rule string) {
	c.R.Rule(rule, "requestAsyncFileData is called once, on the arm that is not a directory, device/fifo, symlink or hard link; the data callback is invoked only from processChange with a writer")
	hc := c.Fn(rule, "fsutil.(*DiskWriter).HandleChange")
	raf := c.Fn(rule, "fsutil.(*DiskWriter).requestAsyncFileData")
	pc := c.Fn(rule, "fsutil.(*DiskWriter).processChange")
	if hc == nil || raf == nil || pc == nil {
		return
	}
	callers := c.P.CallGraph().Callers(raf)
	c.R.Exact(rule, "call sites of requestAsyncFileData", len(callers), 1)
	for _, cs := range callers {
		c.R.Check(c.onlyIn(cs, c.name(hc)), rule, c.siteName(cs)+"/caller", c.pos(cs), "called from DiskWriter.HandleChange", "requestAsyncFileData is called from "+c.name(cs.Parent()))
	}
	isReq := c.callPred("fsutil.(*DiskWriter).requestAsyncFileData")
	x := c.explorer(hc)
	base := c.name(hc) + "/request"
	// directory
	dirAs := map[string]bool{}
	for _, call := range c.P.CallsTo(hc, "(io/fs.FileInfo).IsDir") {
		if cl, ok := call.(*ssa.Call); ok && eng.Strip(cl.Call.Value) == ssa.Value(hc.Params[3]) {
			dirAs[x.KeyAtEntry(cl)] = true
		}
	}
	if len(dirAs) == 0 {
		c.R.Fail(rule, base+"/not-dir", c.P.Pos(hc.Pos()), "HandleChange never asks fi.IsDir(): directories fall through to the regular-file arm")
	} else {
		c.ObUnreachable(rule, base+"/not-dir", hc, dirAs, isReq, "a content request", "the entry is a directory")
	}
	for _, t := range []struct {
		name string
		bit  int64
	}{{"device", modeDevice}, {"fifo", modeNamedPipe}, {"symlink", modeSymlink}} {
		keys := modeBitSetTests(c, hc, x, t.bit)
		if len(keys) == 0 {
			c.R.Fail(rule, base+"/not-"+t.name, c.P.Pos(hc.Pos()), "HandleChange has no test of the "+t.name+" mode bit: such entries fall through to the regular-file arm")
			continue
		}
		assume := map[string]bool{}
		for _, k := range keys {
			assume[k] = true
		}
		c.ObUnreachable(rule, base+"/not-"+t.name, hc, assume, isReq, "a content request", "the entry is a "+t.name)
	}
	// hard link: statCopy.Linkname != ""
	lkPins := c.emptinessTests(hc, x, true, func(v ssa.Value) bool { return isFieldLoad(v, "types.Stat.Linkname") })
	if len(lkPins) == 0 {
		c.R.Fail(rule, base+"/not-hardlink", c.P.Pos(hc.Pos()), "HandleChange has no test of Linkname != \"\": hard links fall through to the regular-file arm")
	} else {
		c.ObUnreachable(rule, base+"/not-hardlink", hc, lkPins, isReq, "a content request", "the entry has a link name")
	}
	c.ObReachable(rule, base+"/live", hc, nil, isReq, "a content request", "nothing is assumed")
	// data callbacks only from processChange, with a writer
	n := 0
	for _, fn := range c.P.ModFuncs {
		if c.P.IsTestFile(fn.Pos()) {
			continue
		}
		for _, call := range eng.Calls(fn) {
			d := c.P.CalleeName(call)
			if !strings.Contains(d, "DiskWriterOpt.AsyncDataCb") && !strings.Contains(d, "DiskWriterOpt.SyncDataCb") {
				continue
			}
			n++
			c.R.Check(fn == pc, rule, c.siteName(call)+"/caller", c.pos(call), "the data callback is invoked from processChange", "the data callback is invoked from "+c.name(fn))
			if fn == pc {
				px := c.explorer(pc)
				wKey := "(p:" + pc.Params[len(pc.Params)-1].Name() + "==nil)"
				_ = px
				c.ObUnreachable(rule, c.name(pc)+"/data-callback-needs-writer", pc, map[string]bool{wKey: true}, func(in ssa.Instruction) bool { return in == ssa.Instruction(call) }, "the data callback", "no writer was passed")
			}
		}
	}
	c.R.Floor(rule, "invocations of the data callback", n, 1)
}

// devNumberBits: the input bit each output bit of fsutil.major / fsutil.minor
// takes on the reference tree (read off `(device >> 8) & 0xfff` and
// `(device & 0xff) | ((device >> 12) & 0xfff00)`; agrees with the kernel's
// encoding of dev_t for the bits it covers).
var devNumberBits = map[string]map[int]int{
	"Devmajor": {0: 8, 1: 9, 2: 10, 3: 11, 4: 12, 5: 13, 6: 14, 7: 15, 8: 16, 9: 17, 10: 18, 11: 19},
	"Devminor": {0: 0, 1: 1, 2: 2, 3: 3, 4: 4, 5: 5, 6: 6, 7: 7, 8: 20, 9: 21, 10: 22, 11: 23, 12: 24, 13: 25, 14: 26, 15: 27, 16: 28, 17: 29, 18: 30, 19: 31},
}

// R02.8: device numbers are read off the raw device word in full.
//
// Devmajor/Devminor are identity fields; both walks compute them with the same
// helpers, so a helper that drops bits makes two different devices look alike
// on BOTH sides - the comparison rules cannot see it. The helpers are pure bit
// manipulation: every result bit the reference takes from an input bit is
// still taken from that bit (more bits may be decoded, none fewer or other).
func r02_8(c *Ctx, rule string) {
	c.R.Rule(rule, "setUnixOpt: Stat.Devmajor / Stat.Devminor are decoded from Rdev by x/sys or by helpers whose result bits come from the same input bits as on the reference tree (bit-level reading of the helper)")
	su := c.Fn(rule, "fsutil.setUnixOpt")
	if su == nil {
		return
	}
	for _, field := range []string{"Devmajor", "Devminor"} {
		ss := fieldStoresIn(su, "types.Stat."+field)
		con := c.name(su) + "/" + field
		if len(ss) == 0 {
			c.R.Fail(rule, con, c.P.Pos(su.Pos()), "setUnixOpt no longer records Stat."+field)
			continue
		}
		for _, st := range ss {
			var dec *ssa.Call
			c.DerivesFrom(st.Val, func(v ssa.Value) bool {
				if call, ok := v.(*ssa.Call); ok && dec == nil && !strings.HasPrefix(c.P.CalleeName(call), "builtin:") {
					dec = call
					return true
				}
				return false
			}, 4)
			if dec == nil {
				c.R.Undecided(rule, con, c.pos(st), "Stat."+field+" is not the result of a decoding call: shape not interpreted")
				continue
			}
			name := c.P.CalleeName(dec)
			if name == "golang.org/x/sys/unix.Major" || name == "golang.org/x/sys/unix.Minor" {
				c.R.OK(rule, con, c.pos(st), "decoded by "+name)
				continue
			}
			callee := eng.EffCallee(dec)
			bits, ok := eng.BitMap(callee)
			if !ok {
				c.R.Undecided(rule, con, c.pos(dec), "the decoding helper "+name+" is not straight-line bit manipulation: not read")
				continue
			}
			bad := ""
			for o, i := range devNumberBits[field] {
				if o >= len(bits) || bits[o] != i {
					got := "nothing"
					if o < len(bits) {
						switch {
						case bits[o] >= 0:
							got = fmt.Sprintf("input bit %d", bits[o])
						case bits[o] == eng.BitZero:
							got = "constant 0"
						case bits[o] == eng.BitOne:
							got = "constant 1"
						default:
							got = "an expression this reading does not follow"
						}
					}
					if bad == "" || o < 64 {
						bad = fmt.Sprintf("result bit %d comes from %s, the device word keeps it in bit %d", o, got, i)
					}
				}
			}
			c.R.Check(bad == "", rule, con, c.pos(dec), "every decoded bit comes from its place in the device word", "Stat."+field+" is decoded differently ("+bad+"): two devices that differ only there get the same identity on both sides and a renumbering is never re-transferred")
		}
	}
}

// R01.15 (= R02.9): the diff ends only when BOTH walks are exhausted.
//
// The loop merges the destination walk and the received walk. If it could end
// with one of them still open, the entries left in that walk would never be
// compared: stale destination entries would survive (destination walk left
// over) or received entries would never be written (source walk left over).
// For each of the two channels: assuming every "channel is not nil" test of
// that channel says "still open", no success return is reachable.
func r02_9(c *Ctx, rule string) {
	c.R.Rule(rule, "doubleWalkDiff: while either walker's channel is still open (not yet set to nil) the comparing loop cannot return success")
	loop := diffLoop(c, rule)
	if loop == nil {
		return
	}
	locProg = c.P
	x := c.explorer(loop)
	groups := map[string]map[string]bool{}
	eng.InstrsCtx(loop, func(in ssa.Instruction, stack []*ssa.Call) {
		bo, ok := in.(*ssa.BinOp)
		if !ok || (bo.Op != token.NEQ && bo.Op != token.EQL) {
			return
		}
		k, isC := bo.Y.(*ssa.Const)
		if !isC || !k.IsNil() {
			return
		}
		if _, isChan := bo.X.Type().Underlying().(*types.Chan); !isChan {
			return
		}
		id := chanIdentity(c, bo.X, stack, 0)
		if id == "" {
			return
		}
		if groups[id] == nil {
			groups[id] = map[string]bool{}
		}
		groups[id][x.KeyAtEntry(bo)] = bo.Op == token.NEQ
	})
	if len(groups) != 2 {
		c.R.Undecided(rule, c.name(loop)+"/both-walks-drained", c.P.Pos(loop.Pos()), fmt.Sprintf("expected the nil tests of two channels in the comparing loop, found %d: shape not interpreted", len(groups)))
		return
	}
	var ids []string
	for id := range groups {
		ids = append(ids, id)
	}
	sort.Strings(ids)
	for i, id := range ids {
		hit, und := c.SuccessAvoiding(loop, nil, groups[id], nil, nil)
		con := fmt.Sprintf("%s/walk#%d-drained-before-success", c.name(loop), i+1)
		switch {
		case und:
			c.R.Undecided(rule, con, c.P.Pos(loop.Pos()), "state limit")
		case hit != nil:
			c.R.Fail(rule, con, c.pos(hit.Instr), "the comparing loop can return success while the channel "+id+" is still open: the entries left in that walk are never compared (stale destination entries survive, or received entries are never written); path "+eng.BlockTrace(loop, hit.Trace))
		default:
			c.R.OK(rule, con, c.P.Pos(loop.Pos()), "no success return while this walk's channel is open")
		}
	}
}
