package props

import (
	"fmt"
	"go/constant"
	"go/token"
	"go/types"
	"strconv"
	"strings"

	"fsverif/eng"

	"golang.org/x/tools/go/ssa"
)

func init() {
	register("C18", "Structural clauses of link following: in the resolver every recursive call is preceded by the membership test of the current path in the resolved set (a hit returns), and by the insertion of that path, so that each recursion level adds a symlink path not seen before; FollowLinks sorts before de-duplicating and returns the de-duplicated list; de-duplication returns no filter for the root and uses a separator-terminated prefix; a relative link is re-rooted with a Join whose first element is the separator and an absolute one is cleaned; requested paths are re-rooted with Join(\".\", p); containsWildcards answers true exactly when a character is one of * ? [ (polarity of each test and of their connective), and the escape step is live on this platform. The link name a symlink is announced with is what readlink returned, also when its inode has several names (stat constructor, shared with C01). NewFilterFS feeds the resolved targets into the include patterns the include matcher is built from. The set of characters that makes a resolved request a wildcard pattern is complete (shared with C10). Does not decide termination of the component loop, closure or minimality of the result.", runC18)
}

func runC18(c *Ctx) {
	r18_1(c, "R18.1")
	r18_2(c, "R18.2")
	r18_3(c, "R18.3")
	r18_4(c, "R18.4")
	// resolved follow-paths may keep a wildcard: the prefix-only flag must be
	// computed from the merged list (shared with C10)
	r10_10(c, "R18.5")
	r18_6(c, "R18.6")
	wildcardChars(c, "R18.7", "fsutil.containsWildcards")
	// what a followed link resolves to in the copy is the target the sender
	// announces: a symlink's link name is what readlink said (shared with C01)
	r01_1(c, "R18.8")
	// a resolved request may keep a wildcard: which characters make one
	// (shared with C10)
	r10_11(c, "R18.9")
}

// R18.7 / R15.6: what counts as a wildcard.
//
// A request (or copy source) is expanded only if containsWildcards says so;
// a name with a metacharacter it does not know is looked up literally and not
// found. The function compares each character with '*', '?' and '[' - all
// three - and skips the character after a backslash.
func wildcardChars(c *Ctx, rule, fnName string) {
	c.R.Rule(rule, fnName+" compares the characters of its argument with '*', '?' and '[' (all three), and an escaping backslash skips the next character")
	fn := c.Fn(rule, fnName)
	if fn == nil {
		return
	}
	seen := map[int64]bool{}
	eng.Instrs(fn, func(in ssa.Instruction) {
		bo, ok := in.(*ssa.BinOp)
		if !ok || (bo.Op != token.EQL && bo.Op != token.NEQ) {
			return
		}
		for _, y := range []ssa.Value{bo.X, bo.Y} {
			if k, isK := eng.ConstInt(y); isK {
				seen[k] = true
			}
		}
	})
	missing := ""
	for _, ch := range "*?[" {
		if !seen[int64(ch)] {
			missing += string(ch)
		}
	}
	// (strings.ContainsAny with a constant set is the other spelling)
	if missing != "" {
		for _, call := range c.P.CallsTo(fn, "strings.ContainsAny", "strings.IndexAny", "strings.ContainsRune", "strings.IndexByte") {
			for _, a := range call.Common().Args {
				// (the set is the second argument of ContainsAny/IndexAny, the first of IndexByte/ContainsRune)
				c.DerivesFrom(a, func(v ssa.Value) bool {
					if s, ok := eng.ConstString(v); ok {
						for _, ch := range s {
							seen[int64(ch)] = true
						}
					}
					return false
				}, 3)
			}
		}
		missing = ""
		for _, ch := range "*?[" {
			if !seen[int64(ch)] {
				missing += string(ch)
			}
		}
	}
	// ... with the right polarity: when no test says "is a metacharacter" the
	// answer true is unreachable, and when one of them does (and the character
	// is not a backslash) the scan does not move on to the next character
	var tests, escs []*ssa.BinOp
	eng.Instrs(fn, func(in ssa.Instruction) {
		bo, ok := in.(*ssa.BinOp)
		if !ok || (bo.Op != token.EQL && bo.Op != token.NEQ) {
			return
		}
		for _, y := range []ssa.Value{bo.X, bo.Y} {
			if k, isK := eng.ConstInt(y); isK {
				switch k {
				case '*', '?', '[':
					tests = append(tests, bo)
				case '\\':
					escs = append(escs, bo)
				}
			}
		}
	})
	if len(tests) > 0 {
		pol := c.explorer(fn)
		pin := func(x *eng.Explorer, is *ssa.BinOp) map[string]bool {
			as := map[string]bool{}
			for _, t := range tests {
				as[x.RegKey(t)] = (t.Op == token.EQL) == (t == is)
			}
			for _, e := range escs {
				as[x.RegKey(e)] = e.Op != token.EQL
			}
			return as
		}
		pol.Assume = pin(pol, nil)
		pol.Target = func(in ssa.Instruction, st *eng.State) bool {
			r, ok := in.(*ssa.Return)
			if !ok || len(r.Results) != 1 {
				return false
			}
			k, isK := r.Results[0].(*ssa.Const)
			return isK && k.Value != nil && constant.BoolVal(k.Value)
		}
		pol.StopAtTarget = true
		hits := pol.Run()
		bad := ""
		if len(hits) > 0 && !pol.Exhausted {
			bad = "answers true for a name without any metacharacter"
		}
		for _, t := range tests {
			y := c.explorer(fn)
			y.Assume = pin(y, t)
			y.Target = func(in ssa.Instruction, st *eng.State) bool {
				b, ok := in.(*ssa.BinOp)
				if !ok || b.Op != token.ADD {
					return false
				}
				k, isK := eng.ConstInt(b.Y)
				return isK && k == 1
			}
			y.StopAtTarget = true
			if hs := y.Run(); len(hs) > 0 && !y.Exhausted && bad == "" {
				bad = "moves on to the next character although the current one is a metacharacter"
			}
		}
		c.R.Check(bad == "", rule, c.name(fn)+"/polarity", c.P.Pos(fn.Pos()), "true exactly when a character is a metacharacter", c.name(fn)+" "+bad+" (a test inverted or the alternatives joined by the wrong connective)")
	}
	c.R.Check(missing == "", rule, c.name(fn)+"/metacharacters", c.P.Pos(fn.Pos()), "recognises * ? [", c.name(fn)+" does not recognise "+strconv.Quote(missing)+" as a wildcard: such a name is looked up literally and silently not found")
	if c.P.GOOS != "windows" {
		// ... by an extra step of the index that is taken only for a backslash
		x := c.explorer(fn)
		// the tests "this character is a backslash", in either spelling
		escPins := func(isBackslash bool) map[string]bool {
			out := map[string]bool{}
			eng.InstrsShallow(fn, func(in ssa.Instruction) {
				bo, ok := in.(*ssa.BinOp)
				if !ok || (bo.Op != token.EQL && bo.Op != token.NEQ) {
					return
				}
				for _, y := range []ssa.Value{bo.X, bo.Y} {
					if k, isK := eng.ConstInt(y); isK && k == '\\' {
						out[x.RegKey(bo)] = (bo.Op == token.EQL) == isBackslash
					}
				}
			})
			return out
		}
		no, yes := escPins(false), escPins(true)
		skips := false
		eng.InstrsShallow(fn, func(in ssa.Instruction) {
			bo, ok := in.(*ssa.BinOp)
			if !ok || bo.Op != token.ADD || len(no) == 0 {
				return
			}
			if k, isK := eng.ConstInt(bo.Y); !isK || k < 1 {
				return
			}
			isIt := func(i2 ssa.Instruction) bool { return i2 == ssa.Instruction(bo) }
			if hit, und := c.ReachableUnder(fn, no, nil, isIt); hit == nil && !und {
				// ... and is taken for a backslash (on this platform the
				// escape is live: a platform test with the wrong polarity
				// makes the step dead code)
				if hit2, und2 := c.ReachableUnder(fn, yes, nil, isIt); hit2 != nil || und2 {
					skips = true
				}
			}
		})
		c.R.Check(skips, rule, c.name(fn)+"/escape-skips", c.P.Pos(fn.Pos()), "the character after a backslash is skipped", c.name(fn)+" does not step over the character that follows a backslash: an escaped metacharacter is taken for a wildcard")
		c.R.Check(seen['\\'], rule, c.name(fn)+"/escape", c.P.Pos(fn.Pos()), "a backslash escapes", c.name(fn)+" no longer treats a backslash as an escape: an escaped metacharacter is taken for a wildcard")
	}
}

// R18.6: a component is expanded as a wildcard at most once.
//
// readSymlink expands a wildcard in the last component by listing the
// directory and reading each MATCHED NAME literally. A matched name may itself
// contain '*', '?' or '[': treated as a pattern again it matches other
// entries (the link itself is never read) or itself (no termination). The
// expansion is therefore guarded by the caller's flag and the calls for the
// matched names pass false.
func r18_6(c *Ctx, rule string) {
	c.R.Rule(rule, "symlinkResolver.readSymlink: listing the directory is unreachable when allowWildcard is false, and the calls for matched names pass false")
	fn := c.Fn(rule, "fsutil.(*symlinkResolver).readSymlink")
	if fn == nil {
		return
	}
	var flag *ssa.Parameter
	for _, q := range fn.Params {
		if b, ok := q.Type().Underlying().(*types.Basic); ok && b.Kind() == types.Bool {
			flag = q
		}
	}
	if flag == nil {
		// no flag: the expanding function and the literal one are two functions.
		// Then the one that lists the directory must not be reachable from itself.
		var lister *ssa.Function
		eng.Instrs(fn, func(in ssa.Instruction) {
			if c.P.IsCallTo(in, "fsutil.readDir", "os.ReadDir", "path/filepath.Match") {
				lister = in.Parent()
			}
		})
		if lister == nil {
			c.R.OK(rule, c.name(fn)+"/flag", c.P.Pos(fn.Pos()), "readSymlink expands nothing")
			return
		}
		selfCall := false
		eng.InstrsShallow(lister, func(in ssa.Instruction) {
			if call, ok := in.(ssa.CallInstruction); ok && eng.EffCallee2(call) == lister {
				selfCall = true
			}
		})
		c.R.Check(!selfCall, rule, c.name(fn)+"/flag", c.P.Pos(fn.Pos()), "the expanding function reads matched names through a function that expands nothing", "the function that expands a wildcard hands matched names back to itself, with nothing that switches expansion off: a matched name is treated as a pattern again")
		return
	}
	isList := c.callPred("fsutil.readDir", "os.ReadDir", "path/filepath.Match")
	n := 0
	eng.Instrs(fn, func(in ssa.Instruction) {
		if isList(in) {
			n++
		}
	})
	c.R.Floor(rule, "directory listing / matching calls in readSymlink", n, 1)
	c.ObUnreachable(rule, c.name(fn)+"/expansion-needs-flag", fn, map[string]bool{"p:" + flag.Name(): false}, isList, "expanding a wildcard", "the caller asked for a literal name (allowWildcard is false)")
	rec := 0
	for _, call := range c.P.CallsTo(fn, c.name(fn)) {
		if call.Parent() != fn && !c.P.Transparent(call.Parent()) {
			continue
		}
		rec++
		a := call.Common().Args
		k, isK := a[len(a)-1].(*ssa.Const)
		c.R.Check(isK && eng.IsBoolConst(k, false), rule, c.siteName(call)+"/literal", c.pos(call), "matched names are read literally", "a matched directory entry is handed back to readSymlink with wildcard expansion allowed: its own name is treated as a pattern")
	}
	if rec == 0 {
		c.R.OK(rule, c.name(fn)+"/literal", c.P.Pos(fn.Pos()), "matched names are not handed back to readSymlink at all (read by a function without wildcard handling)")
	}
}

func r18_1(c *Ctx, rule string) {
	c.R.Rule(rule, "symlinkResolver.append: no path reaches a recursive call without the membership test of `current` in resolved (a hit makes the recursion unreachable) and without resolved[current] being set")
	fn := c.Fn(rule, "fsutil.(*symlinkResolver).append")
	if fn == nil {
		return
	}
	base := c.name(fn)
	var rec []ssa.CallInstruction
	for _, call := range c.P.CallsTo(fn, "fsutil.(*symlinkResolver).append") {
		rec = append(rec, call)
	}
	c.R.Floor(rule, "recursive calls of append", len(rec), 1)
	isRec := func(in ssa.Instruction) bool {
		for _, r := range rec {
			if in == ssa.Instruction(r) {
				return true
			}
		}
		return false
	}
	var looks []*ssa.Lookup
	looks = c.lookupsOfField(fn, "fsutil.symlinkResolver.resolved")
	if len(looks) == 0 {
		c.R.Fail(rule, base+"/cycle-guard", c.P.Pos(fn.Pos()), "append never asks whether the current path was resolved before: a symlink cycle recurses forever")
		return
	}
	isLook := func(in ssa.Instruction) bool {
		for _, l := range looks {
			if in == ssa.Instruction(l) {
				return true
			}
		}
		return false
	}
	isMark := func(in ssa.Instruction) bool {
		mu, ok := in.(*ssa.MapUpdate)
		return ok && isFieldLoad(mu.Map, "fsutil.symlinkResolver.resolved")
	}
	// within one iteration of the component loop: start after readSymlink
	var rs ssa.CallInstruction
	for _, call := range c.P.CallsTo(fn, "fsutil.(*symlinkResolver).readSymlink") {
		rs = call
	}
	if rs == nil {
		c.R.Missing(rule, "readSymlink call in append")
		return
	}
	for _, e := range []struct {
		name, what string
		pred       func(ssa.Instruction) bool
	}{{"guard-before-recursion", "the membership test of the current path", isLook}, {"mark-before-recursion", "recording the current path as resolved", isMark}} {
		ex := c.explorer(fn)
		ex.From = rs
		ex.Barrier = func(in ssa.Instruction, st *eng.State) bool { return e.pred(in) }
		ex.Target = func(in ssa.Instruction, st *eng.State) bool { return isRec(in) }
		ex.StopAtTarget = true
		h := ex.Run()
		switch {
		case ex.Exhausted:
			c.R.Undecided(rule, base+"/"+e.name, c.pos(rs), "state limit")
		case len(h) > 0:
			c.R.Fail(rule, base+"/"+e.name, c.pos(h[0].Instr), "a recursive call is reachable in a loop iteration without "+e.what+": a symlink cycle is followed without bound; path "+eng.BlockTrace(fn, h[0].Trace))
		default:
			c.R.OK(rule, base+"/"+e.name, c.pos(rs), "every path of an iteration to the recursion passes "+e.what)
		}
	}
	// a hit makes the recursion unreachable
	for i, l := range looks {
		ex := c.explorer(fn)
		ex.From = l
		ex.Assume = map[string]bool{c.reg(l) + "#1": true}
		ex.Barrier = func(in ssa.Instruction, st *eng.State) bool { return in == ssa.Instruction(rs) }
		ex.Target = func(in ssa.Instruction, st *eng.State) bool { return isRec(in) || isMark(in) }
		ex.StopAtTarget = true
		h := ex.Run()
		c.R.Check(len(h) == 0 && !ex.Exhausted, rule, fmt.Sprintf("%s/hit-stops#%d", base, i+1), c.pos(l), "a path resolved before is not followed again", "after the membership test reported a hit the link is still followed")
		// the key is the current path, the same value the mark uses
		marks := 0
		eng.Instrs(fn, func(in ssa.Instruction) {
			if mu, ok := in.(*ssa.MapUpdate); ok && isMark(in) {
				marks++
				c.R.Check(mu.Key == l.Index || eng.SameValue(eng.Resolve(mu.Key), eng.Resolve(l.Index)), rule, fmt.Sprintf("%s/mark#%d-same-key", base, marks), c.pos(mu), "marked under the key that is tested", "the path recorded as resolved is not the path that is tested for membership")
			}
		})
	}
	// the guard is consulted whenever targets exist: test is reachable with targets != nil
	ex := c.explorer(fn)
	var tnil []string
	eng.Instrs(fn, func(in ssa.Instruction) {
		bo, ok := in.(*ssa.BinOp)
		if !ok || (bo.Op != token.EQL && bo.Op != token.NEQ) {
			return
		}
		if k, isC := bo.Y.(*ssa.Const); isC && k.IsNil() {
			if e, isE := bo.X.(*ssa.Extract); isE && e.Tuple == rs.Value() && e.Index == 0 {
				key := ex.KeyAtEntry(bo)
				if bo.Op == token.EQL {
					key = "!" + key
				}
				tnil = append(tnil, key)
			}
		}
	})
	c.R.Check(len(tnil) >= 1, rule, base+"/targets-tests", c.P.Pos(fn.Pos()), "the presence of link targets is tested", "append does not test whether readSymlink returned targets")
	// recursion only with targets
	if len(tnil) > 0 {
		// the value itself is pinned (not only the outcome of its tests): a
		// range over the absent targets has no iteration
		as := map[string]bool{"(" + c.reg(rs.Value()) + "#0==nil)": true}
		for _, k := range tnil {
			as[k] = false
		}
		c.ObUnreachable(rule, base+"/recursion-needs-targets", fn, as, isRec, "a recursive call", "the component is not a symlink (no targets)")
	}
	c.ObErrChecked(rule+"/checked", rs)
	for _, r := range rec {
		c.ObErrChecked(rule+"/checked", r)
	}
}

func r18_2(c *Ctx, rule string) {
	c.R.Rule(rule, "FollowLinks: sort.Strings precedes dedupePaths and the result returned is the de-duplicated list; dedupePaths returns nil for \".\" and uses a separator-terminated prefix")
	fl := c.Fn(rule, "fsutil.FollowLinks")
	dd := c.Fn(rule, "fsutil.dedupePaths")
	if fl == nil || dd == nil {
		return
	}
	c.ObPrecedes(rule, c.name(fl)+"/sort-before-dedupe", fl, nil, c.callPred("sort.Strings", "slices.Sort"), c.callPred("fsutil.dedupePaths"), "sorting the resolved paths", "de-duplicating them")
	dds := map[string]bool{}
	var ddCall *ssa.Call
	for _, call := range c.P.CallsTo(fl, "fsutil.dedupePaths") {
		if cl, ok := call.(*ssa.Call); ok {
			dds[c.reg(cl)] = true
			ddCall = cl
		}
	}
	x := c.explorer(fl)
	good := 0
	x.Target = func(in ssa.Instruction, st *eng.State) bool {
		if !x.IsSuccessReturn(in, st) {
			return false
		}
		if dds[x.SourceKey(in.(*ssa.Return).Results[0], st)] {
			good++
			return false
		}
		return true
	}
	x.StopAtTarget = true
	h := x.Run()
	c.R.Check(len(h) == 0 && good > 0, rule, c.name(fl)+"/returns-deduped", c.P.Pos(fl.Pos()), "the list returned is dedupePaths' result", "FollowLinks returns a list that was not de-duplicated")
	if ddCall != nil {
		// what is sorted is what is deduped
		for _, call := range c.P.CallsTo(fl, "sort.Strings", "slices.Sort") {
			c.R.Check(eng.Strip(call.Common().Args[0]) == eng.Strip(ddCall.Call.Args[0]) || c.StructSame(fl, call.Common().Args[0], ddCall.Call.Args[0]), rule, c.siteName(call)+"/same-list", c.pos(call), "the list sorted is the list de-duplicated", "the list that is sorted is not the list that is de-duplicated")
		}
	}
	for _, call := range c.P.CallsTo(fl, "fsutil.(*symlinkResolver).append") {
		c.ObErrChecked(rule+"/checked", call)
	}
	// slash form
	okSlash := false
	for _, call := range c.P.CallsTo(fl, "path/filepath.ToSlash") {
		_ = call
		okSlash = true
	}
	c.R.Check(okSlash, rule, c.name(fl)+"/slash-form", c.P.Pos(fl.Pos()), "results are converted to slash form (patterns use '/')", "the resolved paths are not converted to slash form before they become patterns")
	// dedupePaths
	dx := c.explorer(dd)
	var dot []string
	eng.Instrs(dd, func(in ssa.Instruction) {
		bo, ok := in.(*ssa.BinOp)
		if !ok || (bo.Op != token.EQL && bo.Op != token.NEQ) {
			return
		}
		if s, isS := eng.ConstString(bo.Y); isS && s == "." {
			k := dx.KeyAtEntry(bo)
			if bo.Op == token.NEQ {
				k = "!" + k
			}
			dot = append(dot, k)
		}
	})
	if len(dot) == 0 {
		c.R.Fail(rule, c.name(dd)+"/root-is-no-filter", c.P.Pos(dd.Pos()), "dedupePaths does not recognise \".\": resolving to the root yields a pattern that matches nothing instead of no filter")
	} else {
		as := map[string]bool{}
		for _, k := range dot {
			as[k] = true
		}
		ex := c.explorer(dd)
		ex.Assume = as
		bad := 0
		// from the first test on, every return is nil
		ex.Target = func(in ssa.Instruction, st *eng.State) bool {
			if r, ok := in.(*ssa.Return); ok {
				if !ex.IsNil(r.Results[0], st) && len(st.Facts) > 0 {
					// only count returns on paths that evaluated the test
					for k := range st.Facts {
						if strings.Contains(k, `c:"."`) {
							bad++
							break
						}
					}
				}
			}
			return false
		}
		ex.Run()
		c.R.Check(bad == 0, rule, c.name(dd)+"/root-is-no-filter", c.P.Pos(dd.Pos()), "a \".\" element makes the result nil (no filter)", "a \".\" element does not make dedupePaths return nil")
	}
	// the root test is applied to every element: its operand is the element of
	// the loop over the input (not a fixed position - "." does not sort first:
	// '*', '-', '+' and others precede it), and it precedes keeping the element
	perElem := 0
	var tests []*ssa.BinOp
	eng.Instrs(dd, func(in ssa.Instruction) {
		bo, ok := in.(*ssa.BinOp)
		if !ok || (bo.Op != token.EQL && bo.Op != token.NEQ) {
			return
		}
		if s, isS := eng.ConstString(bo.Y); !isS || s != "." {
			return
		}
		ld, isLd := eng.Canon(bo.X).(*ssa.UnOp)
		if !isLd || ld.Op != token.MUL {
			return
		}
		ia, isIA := ld.X.(*ssa.IndexAddr)
		if !isIA {
			return
		}
		if _, isConst := ia.Index.(*ssa.Const); isConst {
			return
		}
		if _, isParam := eng.Canon(ia.X).(*ssa.Parameter); isParam && eng.InCycle(bo.Block()) {
			perElem++
			tests = append(tests, bo)
		}
	})
	c.R.Check(perElem > 0, rule, c.name(dd)+"/root-test-per-element", c.P.Pos(dd.Pos()), "every element of the input is compared with \".\"", "dedupePaths does not compare every element with \".\" (only a fixed position, or none): a resolved root that does not sort first leaves the pattern \".\", which matches nothing")
	for _, call := range c.P.CallsTo(dd, "builtin:append") {
		dom := false
		for _, t := range tests {
			if eng.Dominates(t, call) {
				dom = true
			}
		}
		c.R.Check(dom, rule, c.siteName(call)+"/kept-after-root-test", c.pos(call), "an element is kept only after it was compared with \".\"", "an element is appended to the result without having been compared with \".\"")
	}
	n := 0
	for _, pt := range c.prefixTests(dd) {
		n++
		ok, why := sepTerminated(c, pt.prefix, false, 0)
		ok = ok || pt.sepChecked
		c.R.Check(ok, rule, pt.name+"/separator-terminated", c.pos(pt.site), "prefix is last + \"/\"", "the containment prefix is not separator-terminated ("+why+"): 'a' swallows 'ab'")
	}
	c.R.Floor(rule, "prefix tests in dedupePaths", n, 1)
}

// StructSame: a and b render to the same structural key in fn.
func (c *Ctx) StructSame(fn *ssa.Function, a, b ssa.Value) bool {
	x := c.explorer(fn)
	return x.StructKeyAtEntry(a) == x.StructKeyAtEntry(b)
}

func r18_3(c *Ctx, rule string) {
	c.R.Rule(rule, "root clamp: readSymlink cleans the link; an absolute link is returned as cleaned, a relative one as Join(Separator, Join(Dir(p), link)); append re-roots its argument with Join(\".\", p)")
	rs := c.Fn(rule, "fsutil.(*symlinkResolver).readSymlink")
	ap := c.Fn(rule, "fsutil.(*symlinkResolver).append")
	if rs == nil || ap == nil {
		return
	}
	sep := "c:/"
	if c.P.GOOS == "windows" {
		sep = `c:\`
	}
	// all []string literals returned that are built from the link
	var clean *ssa.Call
	for _, call := range c.P.CallsTo(rs, "path/filepath.Clean") {
		if cl, ok := call.(*ssa.Call); ok && isFieldLoad(cl.Call.Args[0], "types.Stat.Linkname") {
			clean = cl
		}
	}
	if clean == nil {
		c.R.Fail(rule, c.name(rs)+"/clean", c.P.Pos(rs.Pos()), "the link target is not cleaned: '..' components survive into the pattern")
		return
	}
	nAbs, nRel := 0, 0
	eng.Instrs(rs, func(in ssa.Instruction) {
		r, ok := in.(*ssa.Return)
		if !ok || len(r.Results) != 2 {
			return
		}
		sl, ok := r.Results[0].(*ssa.Slice)
		if !ok {
			return
		}
		arr, ok := sl.X.(*ssa.Alloc)
		if !ok {
			return
		}
		for _, ref := range eng.Referrers(arr) {
			ia, ok := ref.(*ssa.IndexAddr)
			if !ok {
				continue
			}
			for _, r2 := range eng.Referrers(ia) {
				s, ok := r2.(*ssa.Store)
				if !ok {
					continue
				}
				// (a helper that computes the target stands for each value it can return)
				for _, val := range eng.ResolveNZ(s.Val) {
					if val == ssa.Value(clean) {
						nAbs++
						continue
					}
					parts, isJoin := c.joinParts(val)
					if !isJoin {
						c.R.Fail(rule, c.name(rs)+"/target-form", c.pos(s), "a link target is returned that is neither the cleaned absolute link nor a Join rooted at the separator")
						continue
					}
					nRel++
					okRoot := len(parts) >= 2 && parts[0] == sep
					okLink := c.DerivesFrom(val, func(v ssa.Value) bool { return v == ssa.Value(clean) }, 8)
					okDir := c.DerivesFrom(val, func(v ssa.Value) bool { return c.isCallValueTo(v, "path/filepath.Dir") }, 8)
					c.R.Check(okRoot && okLink && okDir, rule, c.name(rs)+"/relative-rooted", c.pos(s), "relative link = Join(Separator, Join(Dir(p), cleaned link)): '..' cannot climb above the root", "a relative link target is not rebuilt as Join(Separator, Join(Dir(p), link)): '..' beyond the root is not clamped")
				}
			}
		}
	})
	c.R.Check(nAbs >= 1, rule, c.name(rs)+"/absolute-cleaned", c.P.Pos(rs.Pos()), "an absolute link is returned in cleaned form", "absolute link targets are not returned in cleaned form")
	c.R.Floor(rule, "relative link target constructions", nRel, 1)
	// the absolute arm is guarded by IsAbs(link)
	for _, call := range c.P.CallsTo(rs, "path/filepath.IsAbs") {
		c.R.Check(eng.Resolve(call.Common().Args[0]) == ssa.Value(clean), rule, c.siteName(call)+"/on-cleaned", c.pos(call), "IsAbs of the cleaned link", "IsAbs is not applied to the cleaned link")
	}
	// append: p = Join(".", p) before the loop
	okRe := false
	for _, call := range c.P.CallsTo(ap, "path/filepath.Join") {
		parts, ok := c.joinParts(call.Value())
		if ok && len(parts) == 2 && parts[0] == "c:." {
			okRe = true
		}
	}
	c.R.Check(okRe, rule, c.name(ap)+"/re-rooted", c.P.Pos(ap.Pos()), "the argument is re-rooted with Join(\".\", p)", "append does not re-root its argument with Join(\".\", p): absolute targets would be resolved against the host root")
}

func r18_4(c *Ctx, rule string) {
	c.R.Rule(rule, "NewFilterFS appends FollowLinks' result to the include patterns and builds the include matcher from that list")
	nf := c.Fn(rule, "fsutil.NewFilterFS")
	if nf == nil {
		return
	}
	var fl *ssa.Call
	for _, call := range c.P.CallsTo(nf, "fsutil.FollowLinks") {
		fl, _ = call.(*ssa.Call)
	}
	if fl == nil {
		c.R.Fail(rule, c.name(nf)+"/follow", c.P.Pos(nf.Pos()), "NewFilterFS no longer resolves FollowPaths")
		return
	}
	c.ObErrChecked(rule+"/checked", fl)
	c.R.Check(isFieldLoad(fl.Call.Args[1], "fsutil.FilterOpt.FollowPaths"), rule, c.siteName(fl)+"/arg", c.pos(fl), "resolves opt.FollowPaths", "FollowLinks is not given opt.FollowPaths")
	ok := false
	for _, call := range c.P.CallsTo(nf, "github.com/moby/patternmatcher.New") {
		a := call.Common().Args[0]
		if c.DerivesFrom(a, func(v ssa.Value) bool { return v == ssa.Value(fl) }, 8) && c.DerivesFrom(a, func(v ssa.Value) bool { return isFieldLoad(v, "fsutil.FilterOpt.IncludePatterns") }, 10) {
			ok = true
		}
	}
	c.R.Check(ok, rule, c.name(nf)+"/merged-into-includes", c.pos(fl), "the include matcher is built from IncludePatterns + resolved targets", "the resolved follow-paths do not reach the list the include matcher is built from")
}
