package props

import (
	"fmt"
	"go/token"
	"go/types"
	"strings"

	"fsverif/eng"

	"golang.org/x/tools/go/ssa"
)

func init() {
	register("C01", "Structural clauses behind sync convergence, decided on every path of the stat constructor and the disk writer: every exported field of types.Stat (set taken from go/types) is written by the constructor from its truthful lstat-based source; rewriteMetadata applies owner, mode (symlinks excepted), times and xattrs from the stat on every success path, owner before mode and times last; metadata is applied (checked) before an entry becomes visible by rename and after every creation; creation arguments come from the stat; the mtime is re-applied after asynchronous content; directory mtimes are recorded from the stat and fixed after all writers finished; merge mode never produces deletes; no write error is dropped or survived outside a reasoned table, nor is the error of a disk-writer helper that makes such writes (rewriteMetadata, chtimes, processChange, the special-file and rename helpers) by its caller. The diff loop cannot end while either walk is still open. The os.FileInfo view the writer dispatches on (StatInfo) projects the stat's own fields; xattrs listed are xattrs recorded (shared with C09). The file ids both ends key their tables by are the zero-based positions in the STAT sequence (counter from 0, one increment per announced entry, registration with the pre-increment value; shared with C06/C07): two ends that agree with each other on any other numbering hand a conforming peer a neighbouring file's bytes. Does not decide equality of the two trees, file bytes or hard-link groups at run time.", runC01)
}

func runC01(c *Ctx) {
	r01_1(c, "R01.1")
	if c.Unix() {
		r01_2(c, "R01.2")
	}
	r01_3(c, "R01.3")
	r01_4(c, "R01.4")
	r01_5(c, "R01.5")
	r01_6(c, "R01.6")
	r01_7(c, "R01.7")
	r01_8(c, "R01.8")
	r01_9(c, "R01.9")
	r01_11(c, "R01.11")
	// stale entries are deleted unless they lie below an already removed
	// directory: the suppression prefix must be separator-terminated (shared with C05)
	r05_4(c, "R01.10")
	// an entry whose stat differs from the destination's is re-created: the
	// comparison that decides "unchanged" covers every transferred attribute,
	// for every entry type (shared with C02)
	r02_1(c, "R01.12")
	// file bytes: the file writer stores every chunk it is handed (shared with C05)
	r05_5(c, "R01.13")
	// file bytes, sending side: sendFile moves every byte it reads into the
	// chunk writer and a failed read or copy reaches no success return, so
	// the end-of-data marker never follows a partial copy (shared with C06;
	// wave 26: a read error swallowed "unless the stream failed")
	r06_10(c, "R01.22")
	if c.Unix() {
		// device numbers are decoded in full (shared with C02)
		r02_8(c, "R01.14")
	}
	// the diff ends only when both walks are exhausted (shared with C02)
	r02_9(c, "R01.15")
	// the disk writer dispatches on the entry's os.FileInfo view (shared with C17)
	r17_9(c, "R01.16")
	if c.Unix() {
		// xattrs: what listxattr names is what the stat carries (shared with C09)
		r09_11(c, "R01.17")
	}
	// the bytes requested are the bytes of the entry they are written to: ids
	// are zero-based STAT positions on both ends (shared with C06/C07)
	idNumbering(c, "R01.18", "R01.19", "R01.20")
	// file bytes for every prior destination: an old entry is replaced by
	// rename, never written into (shared with C07)
	r07_12(c, "R01.21")
}

// statSources: required provenance of each Stat field in the constructor.
// unixOnly fields are not populated on windows.
type statSource struct {
	what     string
	pred     func(c *Ctx, v ssa.Value) bool
	unixOnly bool
}

func statSources() map[string][]statSource {
	call := func(names ...string) func(c *Ctx, v ssa.Value) bool {
		return func(c *Ctx, v ssa.Value) bool { return c.isCallValueTo(v, names...) }
	}
	field := func(owner string) func(c *Ctx, v ssa.Value) bool {
		return func(c *Ctx, v ssa.Value) bool { return isFieldLoad(v, owner) }
	}
	return map[string][]statSource{
		"Path": {{what: "the relative path parameter", pred: func(c *Ctx, v ssa.Value) bool {
			p, ok := v.(*ssa.Parameter)
			return ok && c.P.ParamName(p) == "relpath"
		}}},
		"Mode":     {{what: "fi.Mode()", pred: call("(io/fs.FileInfo).Mode")}},
		"ModTime":  {{what: "fi.ModTime().UnixNano()", pred: call("(time.Time).UnixNano")}, {what: "fi.ModTime()", pred: call("(io/fs.FileInfo).ModTime")}},
		"Size":     {{what: "fi.Size()", pred: call("(io/fs.FileInfo).Size")}},
		"Uid":      {{what: "Stat_t.Uid", pred: field("syscall.Stat_t.Uid"), unixOnly: true}},
		"Gid":      {{what: "Stat_t.Gid", pred: field("syscall.Stat_t.Gid"), unixOnly: true}},
		"Linkname": {{what: "os.Readlink", pred: call("os.Readlink")}},
		"Devmajor": {{what: "major(Stat_t.Rdev)", pred: call("fsutil.major", "golang.org/x/sys/unix.Major"), unixOnly: true}, {what: "Stat_t.Rdev", pred: field("syscall.Stat_t.Rdev"), unixOnly: true}},
		"Devminor": {{what: "minor(Stat_t.Rdev)", pred: call("fsutil.minor", "golang.org/x/sys/unix.Minor"), unixOnly: true}, {what: "Stat_t.Rdev", pred: field("syscall.Stat_t.Rdev"), unixOnly: true}},
		"Xattrs":   {{what: "sysx.LGetxattr (no-follow)", pred: call("github.com/containerd/continuity/sysx.LGetxattr"), unixOnly: true}, {what: "sysx.LListxattr (no-follow)", pred: call("github.com/containerd/continuity/sysx.LListxattr"), unixOnly: true}},
	}
}

// R01.1 stat construction is complete and truthful.
func r01_1(c *Ctx, rule string) {
	c.R.Rule(rule, "every exported field of types.Stat is written by the constructor (mkstat, setUnixOpt, loadXattr) with its value derived from the truthful source (fi.Mode(), fi.ModTime(), Stat_t.Uid/Gid/Rdev, fi.Size() for non-directories, os.Readlink / the inode map, L*xattr)")
	var ctor []*ssa.Function
	for _, n := range []string{"fsutil.mkstat", "fsutil.setUnixOpt", "fsutil.loadXattr"} {
		if f := c.P.Fn(n); f != nil {
			ctor = append(ctor, f)
			c.R.Analysed(n)
		} else if n == "fsutil.mkstat" {
			c.R.Missing(rule, "func "+n)
			return
		}
	}
	fields := c.P.StructFields("types", "Stat")
	src := statSources()
	n := 0
	for _, f := range fields {
		if !f.Exported() {
			continue
		}
		n++
		con := "types.Stat." + f.Name()
		want, ok := src[f.Name()]
		if !ok {
			c.R.Fail(rule, con+"/unclassified", "-", "types.Stat has a field "+f.Name()+" with no declared source: it must be populated by the constructor, compared by the differ (R02.1) and applied by the writer")
			continue
		}
		var stores []*ssa.Store
		for _, fn := range ctor {
			stores = append(stores, fieldStoresIn(fn, "types.Stat."+f.Name())...)
		}
		unixOnly := true
		for _, w := range want {
			if !w.unixOnly {
				unixOnly = false
			}
		}
		if unixOnly && !c.Unix() {
			c.R.OK(rule, con+"/not-populated-on-windows", "-", "owner, device numbers and xattrs have no windows counterpart")
			continue
		}
		if len(stores) == 0 {
			c.R.Fail(rule, con+"/written", "-", "Stat."+f.Name()+" is never written by the stat constructor: source and destination stats always agree on it, the differ cannot see it change")
			continue
		}
		for _, w := range want {
			got := false
			var at ssa.Instruction = stores[0]
			for _, s := range stores {
				if c.DerivesFrom(s.Val, func(v ssa.Value) bool { return w.pred(c, v) }, 8) {
					got, at = true, s
				}
			}
			c.R.Check(got, rule, con+"/from "+w.what, c.pos(at), "written from "+w.what, "no store to Stat."+f.Name()+" derives from "+w.what)
		}
	}
	c.R.Floor(rule, "exported fields of types.Stat", n, 10)
	mk := c.P.Fn("fsutil.mkstat")
	x := c.explorer(mk)
	// Size only for non-directories
	for _, s := range fieldStoresIn(mk, "types.Stat.Size") {
		as := map[string]bool{}
		for _, call := range c.P.CallsTo(mk, "(io/fs.FileInfo).IsDir") {
			if cl, ok := call.(*ssa.Call); ok {
				as[x.KeyAtEntry(cl)] = true
			}
		}
		c.ObUnreachable(rule, "fsutil.mkstat/size-not-for-dirs", mk, as, func(in ssa.Instruction) bool { return in == ssa.Instruction(s) }, "recording a size", "the entry is a directory")
	}
	statSizeAlways(c, rule)
	// Readlink on the on-disk path, under the symlink test
	for _, call := range c.P.CallsTo(mk, "os.Readlink") {
		_, isParam := eng.Strip(call.Common().Args[0]).(*ssa.Parameter)
		c.R.Check(isParam, rule, "fsutil.mkstat/readlink-arg", c.pos(call), "Readlink is applied to the entry's on-disk path", "Readlink is not applied to the entry's on-disk path")
		as := map[string]bool{}
		for _, k := range modeBitTests(c, mk, x, modeSymlink) {
			as[k] = false
		}
		c.ObUnreachable(rule, "fsutil.mkstat/readlink-only-symlinks", mk, as, func(in ssa.Instruction) bool { return in == ssa.Instruction(call) }, "os.Readlink", "the entry is not a symlink")
		// ... and for every symlink, whatever the stat holds by then (the
		// inode bookkeeping has put the first name of a multiply linked inode
		// into Linkname: that is not the target of a symlink)
		isSym := map[string]bool{}
		for k := range as {
			isSym[k] = true
		}
		// (a symlink is not a directory)
		for _, dc := range c.P.CallsTo(mk, "(io/fs.FileInfo).IsDir") {
			if v := dc.Value(); v != nil {
				isSym[x.KeyAtEntry(v)] = false
			}
		}
		if len(isSym) > 0 {
			c.ObSuccessNeeds(rule, "fsutil.mkstat/readlink-for-every-symlink", mk, nil, isSym, func(in ssa.Instruction) bool { return in == ssa.Instruction(call) }, "os.Readlink (the entry is a symlink)")
		}
		c.ObErrChecked(rule+"/checked", call)
		// the readlink result is final: nothing overwrites Linkname afterwards
		for _, s := range fieldStoresIn(mk, "types.Stat.Linkname") {
			if !c.DerivesFrom(s.Val, func(v ssa.Value) bool { return v == call.Value() }, 3) {
				continue
			}
			ex := c.explorer(mk)
			ex.From = s
			ex.Target = func(in ssa.Instruction, st *eng.State) bool {
				if c.P.IsCallTo(in, "fsutil.setUnixOpt") {
					return true
				}
				if s2, ok := in.(*ssa.Store); ok && s2 != s {
					if fa, isFA := s2.Addr.(*ssa.FieldAddr); isFA && eng.FieldOwnerName(fa.X.Type(), fa.Field) == "types.Stat.Linkname" {
						return true
					}
				}
				return false
			}
			ex.StopAtTarget = true
			h := ex.Run()
			c.R.Check(len(h) == 0 && !ex.Exhausted, rule, "fsutil.mkstat/readlink-is-final", c.pos(s), "a symlink's Linkname is its readlink result: nothing overwrites it afterwards", "after a symlink's Linkname was set from os.Readlink it can be overwritten (inode bookkeeping running afterwards): a hard-linked symlink is reported with the first name of its inode as its target")
		}
	}
	// helpers are called, loadXattr is checked
	for _, n := range []string{"fsutil.setUnixOpt", "fsutil.loadXattr"} {
		if c.P.Fn(n) == nil {
			continue
		}
		calls := c.P.CallsTo(mk, n)
		c.R.Check(len(calls) >= 1, rule, "fsutil.mkstat/calls "+n, c.P.Pos(mk.Pos()), "mkstat calls "+n, "mkstat no longer calls "+n)
		for _, call := range calls {
			if n == "fsutil.loadXattr" {
				c.ObErrChecked(rule+"/checked", call)
			}
			c.ObSuccessNeeds(rule, "fsutil.mkstat/success-needs "+n, mk, nil, nil, func(in ssa.Instruction) bool { return in == ssa.Instruction(call) }, "a call of "+n)
		}
	}
}

// R01.2 metadata application.
func r01_2(c *Ctx, rule string) {
	c.R.Rule(rule, "rewriteMetadata: every success return is preceded by checked Lchown(p, Uid, Gid), by checked Chmod(p, Mode) unless the entry is a symlink, by checked chtimes(p, ModTime) and by the xattr loop; Lchown precedes Chmod; nothing is modified after chtimes")
	fn := c.Fn(rule, "fsutil.rewriteMetadata")
	if fn == nil {
		return
	}
	base := c.name(fn)
	x := c.explorer(fn)
	pathIsParam := func(call ssa.CallInstruction) bool {
		_, ok := eng.Strip(call.Common().Args[0]).(*ssa.Parameter)
		return ok
	}
	from := func(v ssa.Value, owner string) bool {
		return c.DerivesFrom(v, func(y ssa.Value) bool { return isFieldLoad(y, owner) }, 4)
	}
	// Lchown
	lch := c.P.CallsTo(fn, "os.Lchown")
	c.R.Floor(rule, "os.Lchown calls in rewriteMetadata", len(lch), 1)
	for _, call := range lch {
		a := call.Common().Args
		c.R.Check(pathIsParam(call) && from(a[1], "types.Stat.Uid") && from(a[2], "types.Stat.Gid"), rule, c.siteName(call)+"/args", c.pos(call), "Lchown(p, stat.Uid, stat.Gid)", "Lchown is not applied to (p, stat.Uid, stat.Gid)")
	}
	c.ObSuccessNeeds(rule, base+"/success-needs-lchown", fn, nil, nil, c.checkedCallPred("os.Lchown"), "a checked os.Lchown")
	// Chmod
	chm := c.P.CallsTo(fn, "os.Chmod")
	c.R.Floor(rule, "os.Chmod calls in rewriteMetadata", len(chm), 1)
	for _, call := range chm {
		a := call.Common().Args
		c.R.Check(pathIsParam(call) && from(a[1], "types.Stat.Mode"), rule, c.siteName(call)+"/args", c.pos(call), "Chmod(p, stat.Mode)", "Chmod is not applied to (p, stat.Mode)")
	}
	notSym := map[string]bool{}
	for _, k := range modeBitTests(c, fn, x, modeSymlink) {
		notSym[k] = false
	}
	c.ObSuccessNeeds(rule, base+"/success-needs-chmod", fn, nil, notSym, c.checkedCallPred("os.Chmod"), "a checked os.Chmod (entry is not a symlink)")
	// chtimes
	cht := c.P.CallsTo(fn, "fsutil.chtimes")
	c.R.Floor(rule, "chtimes calls in rewriteMetadata", len(cht), 1)
	for _, call := range cht {
		a := call.Common().Args
		c.R.Check(pathIsParam(call) && from(a[1], "types.Stat.ModTime"), rule, c.siteName(call)+"/args", c.pos(call), "chtimes(p, stat.ModTime)", "chtimes is not applied to (p, stat.ModTime)")
		// nothing modified afterwards
		ex := c.explorer(fn)
		ex.From = call
		ex.Target = func(in ssa.Instruction, st *eng.State) bool {
			return c.P.IsCallTo(in, "os.Lchown", "os.Chmod", "os.Chown", "github.com/containerd/continuity/sysx.LSetxattr", "github.com/containerd/continuity/sysx.Setxattr")
		}
		ex.StopAtTarget = true
		h := ex.Run()
		c.R.Check(len(h) == 0, rule, c.siteName(call)+"/last", c.pos(call), "no metadata call follows chtimes", "a metadata call follows chtimes")
	}
	c.ObSuccessNeeds(rule, base+"/success-needs-chtimes", fn, nil, nil, c.checkedCallPred("fsutil.chtimes"), "a checked chtimes")
	for _, call := range chm {
		ex := c.explorer(fn)
		ex.From = call
		ex.Target = func(in ssa.Instruction, st *eng.State) bool { return c.P.IsCallTo(in, "os.Lchown", "os.Chown") }
		ex.StopAtTarget = true
		h := ex.Run()
		c.R.Check(len(h) == 0 && !ex.Exhausted, rule, c.siteName(call)+"/no-chown-after", c.pos(call), "no ownership change after the mode was set", "the owner is changed after the mode was set: chown clears the setuid/setgid bits just applied")
	}
	// Lchown before Chmod (chown clears setuid/setgid)
	c.ObPrecedes(rule, base+"/lchown-before-chmod", fn, nil, c.callPred("os.Lchown"), c.callPred("os.Chmod"), "os.Lchown", "os.Chmod")
	// xattrs
	xs := c.P.CallsTo(fn, "github.com/containerd/continuity/sysx.LSetxattr", "github.com/containerd/continuity/sysx.Setxattr")
	c.R.Floor(rule, "xattr set calls in rewriteMetadata", len(xs), 1)
	for _, call := range xs {
		a := call.Common().Args
		// the key may have been collected first (keys gathered from the map, then set one by one)
		keyFrom := c.DerivesFrom(a[1], func(y ssa.Value) bool { return isFieldLoad(y, "types.Stat.Xattrs") }, 12)
		ok := pathIsParam(call) && keyFrom && from(a[2], "types.Stat.Xattrs")
		c.R.Check(ok, rule, c.siteName(call)+"/args", c.pos(call), "each (key, value) of stat.Xattrs is set on p", "the xattr set call does not take its key and value from stat.Xattrs")
		c.R.Check(eng.InCycle(call.Block()), rule, c.siteName(call)+"/loop", c.pos(call), "inside the loop over stat.Xattrs", "the xattr set call is not inside a loop over stat.Xattrs")
	}
}

// createCalls of HandleChange: callee -> description.
var hcCreates = []string{"os.Mkdir", "fsutil.handleTarTypeBlockCharFifo", "os.Symlink", "os.Link", "os.OpenFile"}

// R01.3 metadata before visibility.
func r01_3(c *Ctx, rule string) {
	c.R.Rule(rule, "HandleChange: a checked rewriteMetadata precedes renameFile on every path, and after each successful creation no success return is reachable without a checked rewriteMetadata")
	hc := c.Fn(rule, "fsutil.(*DiskWriter).HandleChange")
	if hc == nil {
		return
	}
	base := c.name(hc)
	rm := c.checkedCallPred("fsutil.rewriteMetadata")
	c.ObPrecedes(rule, base+"/metadata-before-rename", hc, nil, rm, c.callPred("fsutil.renameFile"), "a checked rewriteMetadata", "renameFile")
	n := 0
	for _, call := range c.P.CallsTo(hc, hcCreates...) {
		n++
		key, _, has := c.errValueOf(call)
		as := map[string]bool{}
		if has {
			as["("+key+"==nil)"] = true
		}
		c.ObSuccessNeeds(rule, c.siteName(call)+"/then-metadata", hc, call, as, rm, "a checked rewriteMetadata after the creation")
	}
	c.R.Floor(rule, "creation calls in HandleChange", n, 5)
	// rename is checked, and reached only when Lstat found an old entry
	sameSet := func(a, b ssa.Value) bool {
		ra, rb := eng.ResolveAll(a), eng.ResolveAll(b)
		if len(ra) == 0 || len(ra) != len(rb) {
			return false
		}
		for _, x := range ra {
			found := false
			for _, y := range rb {
				if eng.SameValue(x, y) {
					found = true
				}
			}
			if !found {
				return false
			}
		}
		return true
	}
	for _, call := range c.P.CallsTo(hc, "fsutil.renameFile") {
		c.ObErrChecked(rule+"/checked", call)
		a := call.Common().Args
		// what is renamed is what was created: every creation call makes its
		// entry at the path that is moved into place (the temporary name when
		// an old entry is being replaced), not at the destination itself
		for _, cr := range c.P.CallsTo(hc, hcCreates...) {
			ca := cr.Common().Args
			idx := 0
			if n := c.P.CalleeName(cr); n == "os.Symlink" || n == "os.Link" {
				idx = 1
			}
			c.R.Check(idx < len(ca) && sameSet(ca[idx], a[0]), rule, c.siteName(cr)+"/created-at-renamed-path", c.pos(cr), "created at the path that is then renamed into place",
				"the entry is not created at the path that is renamed into place: with an old entry in the way it is created over (or fails on) the destination itself and the temporary name that gets renamed does not exist")
		}
		c.R.Check(c.DerivesFrom(a[1], func(v ssa.Value) bool { return isFieldLoad(v, "fsutil.DiskWriter.dest") }, 5), rule, c.siteName(call)+"/target", c.pos(call), "renamed onto the destination path", "the temporary entry is not renamed onto the destination path")
	}
}

// R01.4 creation arguments come from the stat.
func r01_4(c *Ctx, rule string) {
	c.R.Rule(rule, "creation arguments: Mkdir mode from fi.Mode(), Symlink target and Link source from the stat's Linkname (Link source joined below dest), device nodes from the mode arm and mkdev(Devmajor, Devminor)")
	hc := c.Fn(rule, "fsutil.(*DiskWriter).HandleChange")
	if hc == nil {
		return
	}
	from := func(v ssa.Value, pred func(ssa.Value) bool) bool { return c.DerivesFrom(v, pred, 6) }
	for _, call := range c.P.CallsTo(hc, "os.Mkdir") {
		ok := from(call.Common().Args[1], func(v ssa.Value) bool { return c.isCallValueTo(v, "(io/fs.FileInfo).Mode") })
		c.R.Check(ok, rule, c.siteName(call)+"/mode", c.pos(call), "mode from fi.Mode()", "the directory is not created with the announced mode")
	}
	for _, call := range c.P.CallsTo(hc, "os.Symlink") {
		ok := isFieldLoad(call.Common().Args[0], "types.Stat.Linkname")
		c.R.Check(ok, rule, c.siteName(call)+"/target", c.pos(call), "target is the stat's Linkname, verbatim", "the symlink target is not the stat's Linkname verbatim")
	}
	for _, call := range c.P.CallsTo(hc, "os.Link") {
		a := call.Common().Args[0]
		ok := c.isCallValueTo(a, "path/filepath.Join") && from(a, func(v ssa.Value) bool { return isFieldLoad(v, "types.Stat.Linkname") }) && from(a, func(v ssa.Value) bool { return isFieldLoad(v, "fsutil.DiskWriter.dest") })
		c.R.Check(ok, rule, c.siteName(call)+"/source", c.pos(call), "link source is Join(dest, stat.Linkname)", "the hard-link source is not Join(dest, stat.Linkname)")
	}
	for _, call := range c.P.CallsTo(hc, "os.OpenFile") {
		ok := from(call.Common().Args[2], func(v ssa.Value) bool { return c.isCallValueTo(v, "(io/fs.FileInfo).Mode") })
		c.R.Check(ok, rule, c.siteName(call)+"/mode", c.pos(call), "created with fi.Mode()", "the file is not created with the announced mode")
	}
	if !c.Unix() {
		return
	}
	csf := c.P.Fn("fsutil.createSpecialFile")
	if csf == nil {
		c.R.Missing(rule, "func fsutil.createSpecialFile")
		return
	}
	c.R.Analysed("fsutil.createSpecialFile")
	mk := c.P.CallsTo(csf, "golang.org/x/sys/unix.Mknod", "syscall.Mknod")
	c.R.Floor(rule, "Mknod calls in createSpecialFile", len(mk), 1)
	for _, call := range mk {
		a := call.Common().Args
		okDev := from(a[2], func(v ssa.Value) bool { return isFieldLoad(v, "types.Stat.Devmajor") }) && from(a[2], func(v ssa.Value) bool { return isFieldLoad(v, "types.Stat.Devminor") })
		_, modeParam := eng.Strip(a[1]).(*ssa.Parameter)
		c.R.Check(okDev && modeParam, rule, c.siteName(call)+"/args", c.pos(call), "Mknod(path, mode, mkdev(Devmajor, Devminor))", "the device node is not created from the stat's Devmajor/Devminor and the computed mode")
	}
	if md := c.P.Fn("fsutil.mkdev"); md != nil && len(md.Params) == 2 {
		for _, call := range c.P.CallsTo(md, "golang.org/x/sys/unix.Mkdev") {
			a := call.Common().Args
			ok := eng.Strip(a[0]) == ssa.Value(md.Params[0]) && eng.Strip(a[1]) == ssa.Value(md.Params[1])
			c.R.Check(ok, rule, c.siteName(call)+"/order", c.pos(call), "Mkdev(major, minor)", "major and minor are swapped or replaced in mkdev")
		}
		for _, call := range c.P.CallsTo(csf, "fsutil.mkdev") {
			a := call.Common().Args
			ok := isFieldLoad(eng.Strip(a[0]), "types.Stat.Devmajor") && isFieldLoad(eng.Strip(a[1]), "types.Stat.Devminor")
			c.R.Check(ok, rule, c.siteName(call)+"/order", c.pos(call), "mkdev(stat.Devmajor, stat.Devminor)", "mkdev is not called with (Devmajor, Devminor) in this order")
		}
	}
	h := c.P.Fn("fsutil.handleTarTypeBlockCharFifo")
	if h == nil {
		c.R.Missing(rule, "func fsutil.handleTarTypeBlockCharFifo")
		return
	}
	c.R.Analysed("fsutil.handleTarTypeBlockCharFifo")
	// mode bits: char -> S_IFCHR, fifo -> S_IFIFO, else S_IFBLK; permission bits from the stat
	hx := c.explorer(h)
	var modeArg ssa.Value
	for _, call := range c.P.CallsTo(h, "fsutil.createSpecialFile") {
		modeArg = call.Common().Args[1]
		c.ObErrChecked(rule+"/checked", call)
	}
	if modeArg == nil {
		c.R.Fail(rule, c.name(h)+"/createSpecialFile", c.P.Pos(h.Pos()), "handleTarTypeBlockCharFifo no longer calls createSpecialFile")
		return
	}
	want := map[string]int64{"char": 0x2000, "fifo": 0x1000, "block": 0x6000}
	if c.P.GOOS != "linux" {
		// S_IF* values are the same on the BSDs and darwin
	}
	cases := []struct {
		name   string
		assume func() map[string]bool
	}{
		{"char", func() map[string]bool {
			as := map[string]bool{}
			for _, k := range modeBitTests(c, h, hx, modeCharDev) {
				as[k] = true
			}
			return as
		}},
		{"fifo", func() map[string]bool {
			as := map[string]bool{}
			for _, k := range modeBitTests(c, h, hx, modeCharDev) {
				as[k] = false
			}
			for _, k := range modeBitTests(c, h, hx, modeNamedPipe) {
				as[k] = true
			}
			return as
		}},
		{"block", func() map[string]bool {
			as := map[string]bool{}
			for _, k := range modeBitTests(c, h, hx, modeCharDev) {
				as[k] = false
			}
			for _, k := range modeBitTests(c, h, hx, modeNamedPipe) {
				as[k] = false
			}
			return as
		}},
	}
	for _, cs := range cases {
		as := cs.assume()
		ex := c.explorer(h)
		ex.Assume = as
		var keys []string
		ex.Target = func(in ssa.Instruction, st *eng.State) bool {
			if c.P.IsCallTo(in, "fsutil.createSpecialFile") {
				keys = append(keys, ex.KeyOf(in.(ssa.CallInstruction).Common().Args[1], st))
				return true
			}
			return false
		}
		ex.StopAtTarget = true
		ex.Run()
		ok := len(keys) == 1 && strings.Contains(keys[0], fmt.Sprintf("|c:%d)", want[cs.name]))
		c.R.Check(ok, rule, c.name(h)+"/type-bits/"+cs.name, c.P.Pos(h.Pos()), cs.name+" entries get the matching S_IF* bits", fmt.Sprintf("a %s entry is created with type bits %v, expected S_IF* = %#o", cs.name, keys, want[cs.name]))
	}
	c.R.Check(c.DerivesFrom(modeArg, func(v ssa.Value) bool { return isFieldLoad(v, "types.Stat.Mode") }, 8), rule, c.name(h)+"/perm-bits", c.P.Pos(h.Pos()), "permission bits from stat.Mode", "the node's permission bits do not come from stat.Mode")
}

// asyncWriter returns the goroutine literal of requestAsyncFileData.
func asyncWriter(c *Ctx, rule string) *ssa.Function {
	raf := c.Fn(rule, "fsutil.(*DiskWriter).requestAsyncFileData")
	if raf == nil {
		return nil
	}
	return c.ClosureCalling(rule, raf, "fsutil.(*DiskWriter).processChange")
}

// R01.5 mtime after asynchronous content.
func r01_5(c *Ctx, rule string) {
	c.R.Rule(rule, "the asynchronous writer applies chtimes(dest, ModTime) after a checked processChange on every success path")
	lit := asyncWriter(c, rule)
	if lit == nil {
		return
	}
	base := c.name(lit)
	cht := c.P.CallsTo(lit, "fsutil.chtimes")
	c.R.Floor(rule, "chtimes calls in the asynchronous writer", len(cht), 1)
	for _, call := range cht {
		a := call.Common().Args
		ok := c.DerivesFrom(a[1], func(v ssa.Value) bool { return isFieldLoad(v, "types.Stat.ModTime") }, 4)
		c.R.Check(ok, rule, c.siteName(call)+"/args", c.pos(call), "chtimes(dest, st.ModTime)", "the time re-applied after the content is not the stat's ModTime")
		c.ObErrChecked(rule+"/checked", call)
	}
	c.ObSuccessNeeds(rule, base+"/success-needs-chtimes", lit, nil, nil, c.callPred("fsutil.chtimes"), "chtimes after the content was written")
	c.ObPrecedes(rule, base+"/content-before-chtimes", lit, nil, c.checkedCallPred("fsutil.(*DiskWriter).processChange"), c.callPred("fsutil.chtimes"), "a checked processChange", "chtimes")
	// the writer is a lazyFileWriter on the same destination path
	raf := c.P.Encloser(lit)
	for _, call := range c.P.CallsTo(lit, "fsutil.(*DiskWriter).processChange") {
		w := call.Common().Args[len(call.Common().Args)-1]
		al, _ := eng.Strip(w).(*ssa.Alloc)
		ok := al != nil && strings.HasSuffix(eng.TypeStr(al.Type()), "fsutil.lazyFileWriter")
		c.R.Check(ok, rule, c.siteName(call)+"/writer", c.pos(call), "content goes through a lazyFileWriter", "the asynchronous content is not written through a lazyFileWriter on the destination")
	}
	_ = raf
}

// R01.6 directory mtimes.
func r01_6(c *Ctx, rule string) {
	c.R.Rule(rule, "directory mtimes: recorded from the stat's ModTime under the destination path when the directory is created; re-applied (checked) in Wait from that map")
	hc := c.Fn(rule, "fsutil.(*DiskWriter).HandleChange")
	if hc != nil {
		n := 0
		eng.Instrs(hc, func(in ssa.Instruction) {
			mu, ok := in.(*ssa.MapUpdate)
			if !ok || !isFieldLoad(mu.Map, "fsutil.DiskWriter.dirModTimes") {
				return
			}
			n++
			okV := isFieldLoad(mu.Value, "types.Stat.ModTime")
			// the key is the FINAL path Join(dest, p) - the one Wait's walk will
			// see - not the temporary name the directory may be created under
			parts, isJoin := c.joinParts(eng.Canon(mu.Key))
			okK := isJoin && len(parts) == 2 && parts[0] == "field:fsutil.DiskWriter.dest" && strings.HasPrefix(parts[1], "p:")
			c.R.Check(okV && okK, rule, c.name(hc)+"/dirModTimes-record", c.pos(mu), "dirModTimes[destPath] = stat.ModTime", "the directory time is not recorded as dirModTimes[Join(dest, p)] = stat.ModTime (a directory created under a temporary name and renamed is looked up by its final path: the record is never found and the mtime is that of its last child)")
			ok2, _, _ := c.Precedes(hc, nil, nil, c.callPred("os.Mkdir"), func(x ssa.Instruction) bool { return x == in })
			c.R.Check(ok2, rule, c.name(hc)+"/dirModTimes-on-mkdir", c.pos(mu), "recorded on the Mkdir arm", "the directory time is recorded on a path that did not create the directory")
		})
		c.R.Floor(rule, "recordings of directory times", n, 1)
		// every successful Mkdir is followed by the recording
		for _, call := range c.P.CallsTo(hc, "os.Mkdir") {
			key, _, _ := c.errValueOf(call)
			c.ObSuccessNeeds(rule, c.siteName(call)+"/then-record", hc, call, map[string]bool{"(" + key + "==nil)": true}, func(in ssa.Instruction) bool {
				mu, ok := in.(*ssa.MapUpdate)
				return ok && isFieldLoad(mu.Map, "fsutil.DiskWriter.dirModTimes")
			}, "recording the directory's mtime")
		}
	}
	w := c.Fn(rule, "fsutil.(*DiskWriter).Wait")
	if w == nil {
		return
	}
	var lit *ssa.Function
	for _, cl := range eng.Closures(w) {
		if len(c.P.CallsTo(cl, "fsutil.chtimes")) > 0 {
			lit = cl
		}
	}
	if lit == nil {
		c.R.Fail(rule, c.name(w)+"/dir-times-fixup", c.P.Pos(w.Pos()), "Wait no longer re-applies the recorded directory times")
		return
	}
	c.R.Analysed(c.name(lit))
	for _, call := range c.P.CallsTo(lit, "fsutil.chtimes") {
		a := call.Common().Args
		okT := c.DerivesFrom(a[1], func(v ssa.Value) bool {
			l, ok := v.(*ssa.Lookup)
			// (the map may have been read into a local the literal captures)
			return ok && (isFieldLoad(l.X, "fsutil.DiskWriter.dirModTimes") || c.DerivesFrom(l.X, func(y ssa.Value) bool { return isFieldLoad(y, "fsutil.DiskWriter.dirModTimes") }, 3))
		}, 4)
		_, okP := eng.Strip(a[0]).(*ssa.Parameter)
		c.R.Check(okT && okP, rule, c.siteName(call)+"/args", c.pos(call), "chtimes(path, dirModTimes[path])", "the fix-up does not apply dirModTimes[path] to path")
		c.ObErrChecked(rule+"/checked", call)
	}
	for _, call := range c.P.CallsTo(w, "path/filepath.WalkDir", "path/filepath.Walk") {
		c.ObErrChecked(rule+"/checked", call)
		ok := isFieldLoad(call.Common().Args[0], "fsutil.DiskWriter.dest")
		c.R.Check(ok, rule, c.siteName(call)+"/root", c.pos(call), "walks the destination", "the fix-up walk does not start at the destination")
	}
}

// R01.7 merge never deletes.
func r01_7(c *Ctx, rule string) {
	c.R.Rule(rule, "the destination is walked only when merge is off (else the empty walker), and delete changes originate only from entries of the destination walker")
	run := c.Fn(rule, "fsutil.(*receiver).run")
	if run == nil {
		return
	}
	lit := c.ClosureCalling(rule, run, "fsutil.doubleWalkDiff")
	if lit == nil {
		return
	}
	x := c.explorer(lit)
	base := c.name(lit)
	var mergeKeys []string
	for _, ld := range fieldLoadsIn(lit, "fsutil.receiver.merge") {
		mergeKeys = append(mergeKeys, x.KeyAtEntry(ld))
	}
	if len(mergeKeys) == 0 {
		c.R.Fail(rule, base+"/merge-test", c.P.Pos(lit.Pos()), "the diff goroutine does not consult receiver.merge: merge mode deletes whatever the source lacks")
	} else {
		as := map[string]bool{}
		for _, k := range mergeKeys {
			as[k] = true
		}
		c.ObUnreachable(rule, base+"/no-dest-walk-in-merge", lit, as, c.callPred("fsutil.getWalkerFn"), "walking the destination", "merge is on")
		as2 := map[string]bool{}
		for _, k := range mergeKeys {
			as2[k] = false
		}
		c.ObReachable(rule, base+"/dest-walk-without-merge", lit, as2, c.callPred("fsutil.getWalkerFn"), "walking the destination", "merge is off")
	}
	for _, call := range c.P.CallsTo(lit, "fsutil.doubleWalkDiff") {
		a := call.Common().Args
		if len(a) < 4 {
			continue
		}
		okA := c.DerivesFrom(a[2], func(v ssa.Value) bool { return c.isCallValueTo(v, "fsutil.getWalkerFn") }, 4) &&
			c.DerivesFrom(a[2], func(v ssa.Value) bool { f, ok := v.(*ssa.Function); return ok && c.name(f) == "fsutil.emptyWalker" }, 4)
		c.R.Check(okA, rule, c.siteName(call)+"/walker-a", c.pos(call), "walker a is the destination walker or the empty walker", "walker a of the diff is not {destination walker | empty walker}")
		okB := strings.Contains(c.P.DescribeFuncValue(a[3]), "dynamicWalker).fill")
		c.R.Check(okB, rule, c.siteName(call)+"/walker-b", c.pos(call), "walker b is fed by the received stats", "walker b of the diff is not the received-stat walker")
		for _, gw := range c.P.CallsTo(lit, "fsutil.getWalkerFn") {
			c.R.Check(isFieldLoad(gw.Common().Args[0], "fsutil.receiver.dest"), rule, c.siteName(gw)+"/root", c.pos(gw), "the destination walker walks receiver.dest", "the destination walker does not walk receiver.dest")
		}
	}
	// emptyWalker sends nothing
	if ew := c.P.Fn("fsutil.emptyWalker"); ew != nil {
		sends := 0
		eng.Instrs(ew, func(in ssa.Instruction) {
			switch in.(type) {
			case *ssa.Send, *ssa.Select:
				sends++
			}
		})
		c.R.Check(sends == 0, rule, "fsutil.emptyWalker/silent", c.P.Pos(ew.Pos()), "the empty walker reports nothing", "the empty walker reports entries")
	}
	// pathChange: Delete only names the lower entry
	pc := c.Fn(rule, "fsutil.pathChange")
	if pc == nil {
		return
	}
	pk := c.P.Pkg("fsutil")
	del, _ := pk.Types.Scope().Lookup("ChangeKindDelete").(*types.Const)
	n := 0
	eng.Instrs(pc, func(in ssa.Instruction) {
		r, ok := in.(*ssa.Return)
		if !ok || len(r.Results) != 2 || del == nil {
			return
		}
		k, isC := r.Results[0].(*ssa.Const)
		if !isC || k.Value == nil || k.Value.ExactString() != del.Val().ExactString() {
			return
		}
		n++
		p := rootParam(r.Results[1])
		c.R.Check(p == pc.Params[0], rule, fmt.Sprintf("%s/delete-return#%d", c.name(pc), n), c.pos(r), "a delete names the entry of the first (destination) walker", "pathChange reports a delete for an entry of the source walker")
	})
	c.R.Floor(rule, "delete returns of pathChange", n, 2)
	loop := diffLoop(c, rule)
	if loop != nil {
		aCell, _ := walkerCells(c, loop)
		for _, call := range c.P.CallsTo(loop, "fsutil.pathChange") {
			a0 := call.Common().Args[0]
			ok := aCell != "" && loadLoc(eng.Canon(a0)) == aCell
			c.R.Check(ok, rule, c.siteName(call)+"/lower-is-a", c.pos(call), "pathChange's first operand is walker a's entry", "pathChange's first operand is not the entry of walker a (destination)")
		}
	}
}

// r018Exceptions: write errors that are deliberately not fatal.
var r018Exceptions = map[string]string{
	"fsutil.rewriteMetadata/github.com/containerd/continuity/sysx.LSetxattr": "xattrs are applied best effort by design (unprivileged receivers, unsupported filesystems)",
	"fsutil.(*DiskWriter).HandleChange/os.Lstat":                             "ENOENT means the entry does not exist yet (create instead of replace); every other error is returned (R03.7 checks the decision is Lstat-based)",
	"fsutil.renameFile/os.Lstat":                                             "windows: ENOENT means there is nothing to replace; every other error is returned",
	"fsutil.(*DiskWriter).HandleChange/os.Mkdir":                             "EEXIST from a concurrent creator retries the whole change; every other error is returned",
	"fsutil.(*lazyFileWriter).Write/os.OpenFile#1":                           "a permission error is retried after chmod; the final error is returned",
	"fsutil.(*lazyFileWriter).Write/os.Stat":                                 "part of the permission retry: on failure the original open error is returned",
	"fsutil.(*lazyFileWriter).Write/os.Chmod":                                "part of the permission retry: on failure the original open error is returned",
	"fsutil.(*receiver).run/os.Remove":                                       "removing a pre-existing listing file is best effort; the following OpenFile is checked",
}

// R01.11: a directory that stays a directory keeps its content.
func r01_11(c *Ctx, rule string) {
	c.R.Rule(rule, "DiskWriter.HandleChange: when the existing destination entry and the incoming entry are both directories nothing is removed, renamed or re-created (whatever else differs between them: permission, setuid/setgid/sticky bits, owner, times) - the old directory's content is the merge base and, outside merge mode, is cleaned up entry by entry by the diff")
	hc := c.Fn(rule, "fsutil.(*DiskWriter).HandleChange")
	if hc == nil {
		return
	}
	x := c.explorer(hc)
	fiParam := ssa.Value(hc.Params[3])
	isFi := func(v ssa.Value) bool { return eng.Canon(v) == fiParam }
	isOld := func(v ssa.Value) bool {
		return !isFi(v) && c.DerivesFrom(v, func(y ssa.Value) bool { return c.isCallValueTo(y, "os.Lstat") }, 5)
	}
	as := map[string]bool{}
	nOld, nNew := 0, 0
	for _, k := range c.dirTestKeys(hc, x, isOld) {
		as[k] = true
		nOld++
	}
	for _, k := range c.dirTestKeys(hc, x, isFi) {
		as[k] = true
		nNew++
	}
	var lst ssa.CallInstruction
	for _, call := range c.P.CallsTo(hc, "os.Lstat") {
		lst = call
	}
	if lst == nil || nOld == 0 || nNew == 0 {
		c.R.Fail(rule, c.name(hc)+"/dir-over-dir-keeps-content", c.P.Pos(hc.Pos()), "HandleChange does not test both the existing and the incoming entry for being directories: an existing directory cannot be recognised as the one to keep")
		return
	}
	ek, _, _ := c.errValueOf(lst)
	as["("+ek+"==nil)"] = true
	as["("+c.reg(lst.Value())+"#0==nil)"] = false
	// kind is not delete
	eng.Instrs(hc, func(in ssa.Instruction) {
		if bo, ok := in.(*ssa.BinOp); ok && (bo.Op == token.EQL || bo.Op == token.NEQ) {
			if p, isP := bo.X.(*ssa.Parameter); isP && strings.HasSuffix(types.TypeString(p.Type(), nil), "ChangeKind") {
				if k, isK := eng.ConstInt(bo.Y); isK {
					if del, okc := c.packetLikeConst("fsutil", "ChangeKindDelete"); okc && k == del {
						as[x.KeyAtEntry(bo)] = bo.Op == token.NEQ
					}
				}
			}
		}
	})
	destructive := c.callPred("os.RemoveAll", "os.Remove", "os.Rename", "fsutil.renameFile", "os.Mkdir")
	hit, und := c.ReachableUnder(hc, as, nil, destructive)
	switch {
	case und:
		c.R.Undecided(rule, c.name(hc)+"/dir-over-dir-keeps-content", c.P.Pos(hc.Pos()), "state limit")
	case hit != nil:
		c.R.Fail(rule, c.name(hc)+"/dir-over-dir-keeps-content", c.pos(hit.Instr), "with an existing directory and an incoming directory a removal, rename or re-creation is reachable (the 'same type' test looks at more than the directory bit): the old directory is deleted with everything below it - in merge mode entries the source never replaces are lost; path "+eng.BlockTrace(hc, hit.Trace))
	default:
		c.R.OK(rule, c.name(hc)+"/dir-over-dir-keeps-content", c.P.Pos(hc.Pos()), "directory over directory: metadata only")
	}
}

// statSizeAlways: for a non-directory no success return of mkstat is
// reachable without the store Stat.Size = fi.Size() (whatever the inode
// bookkeeping decided: a hard-link member that a link reset later promotes to
// a file, and the tar writer, rely on it).
func statSizeAlways(c *Ctx, rule string) {
	mk := c.P.Fn("fsutil.mkstat")
	if mk == nil {
		c.R.Missing(rule, "func fsutil.mkstat")
		return
	}
	x := c.explorer(mk)
	as := map[string]bool{}
	for _, call := range c.P.CallsTo(mk, "(io/fs.FileInfo).IsDir") {
		if cl, ok := call.(*ssa.Call); ok {
			as[x.KeyAtEntry(cl)] = false
		}
	}
	isSizeStore := func(in ssa.Instruction) bool {
		s, ok := in.(*ssa.Store)
		if !ok {
			return false
		}
		fa, ok := s.Addr.(*ssa.FieldAddr)
		if !ok || eng.FieldOwnerName(fa.X.Type(), fa.Field) != "types.Stat.Size" {
			return false
		}
		return c.DerivesFrom(s.Val, func(v ssa.Value) bool { return c.isCallValueTo(v, "(io/fs.FileInfo).Size") }, 4)
	}
	// the store must come after the inode bookkeeping, which zeroes the size of link members
	hit, und := c.SuccessAvoiding(mk, nil, as, nil, isSizeStore)
	switch {
	case und:
		c.R.Undecided(rule, "fsutil.mkstat/size-for-every-non-dir", c.P.Pos(mk.Pos()), "state limit")
	case hit != nil:
		c.R.Fail(rule, "fsutil.mkstat/size-for-every-non-dir", c.pos(hit.Instr), "mkstat can succeed for a non-directory without recording fi.Size(): the entry is reported (and archived) with size 0; path "+eng.BlockTrace(mk, hit.Trace))
	default:
		c.R.OK(rule, "fsutil.mkstat/size-for-every-non-dir", c.P.Pos(mk.Pos()), "every non-directory gets Size = fi.Size()")
	}
	for _, call := range c.P.CallsTo(mk, "fsutil.setUnixOpt") {
		call := call
		ok, hit2, und2 := c.Precedes(mk, call, as, isSizeStore, func(in ssa.Instruction) bool { return isReturn(in) && mkSuccess(in) })
		c.R.Check(ok && !und2, rule, "fsutil.mkstat/size-after-inode-bookkeeping", c.pos(call), "the size is recorded after setUnixOpt (which zeroes it for link members)", "the size recorded for a non-directory can be overwritten by the inode bookkeeping"+func() string {
			if hit2 != nil {
				return " (path " + eng.BlockTrace(mk, hit2.Trace) + ")"
			}
			return ""
		}())
	}
}

// mkSuccess: a return of mkstat whose error result is the nil constant.
func mkSuccess(in ssa.Instruction) bool {
	r, ok := in.(*ssa.Return)
	if !ok || len(r.Results) == 0 {
		return false
	}
	k, isC := r.Results[len(r.Results)-1].(*ssa.Const)
	return isC && k.IsNil()
}

// R01.8 no survived write error.
func r01_8(c *Ctx, rule string) {
	c.R.Rule(rule, "no error of a mutating filesystem call in the disk writer is dropped or survived (E8), except the tabled best-effort sites")
	var roots []*ssa.Function
	for _, n := range []string{"fsutil.(*DiskWriter).HandleChange", "fsutil.(*DiskWriter).requestAsyncFileData", "fsutil.(*DiskWriter).processChange",
		"fsutil.(*DiskWriter).Wait", "fsutil.(*lazyFileWriter).Write", "fsutil.(*lazyFileWriter).Close"} {
		if f := c.P.Fn(n); f != nil {
			roots = append(roots, f)
		}
	}
	reach := c.P.CallGraph().Reachable(roots...)
	if run := c.P.Fn("fsutil.(*receiver).run"); run != nil {
		reach[run] = true
	}
	var fns []*ssa.Function
	for _, f := range c.P.SortedFuncs(reach) {
		pos := c.P.Pos(f.Pos())
		if fnPkgShort(c, f) != "fsutil" || !(strings.HasPrefix(pos, "diskwriter") || strings.HasPrefix(pos, "chtimes") || strings.HasPrefix(pos, "receive.go")) {
			continue
		}
		fns = append(fns, f)
		c.R.Analysed(c.name(f))
	}
	n := 0
	for _, call := range fsCallsIn(c, fns) {
		name := c.P.CalleeName(call)
		if cl, ok := fsCallTable[name]; ok && cl == fsNeutral {
			continue
		}
		if _, has, _ := c.errValueOf(call); !has && call.Common().Signature().Results().Len() == 0 {
			continue
		}
		n++
		con := c.siteName(call)
		if why, ok := tabled(c, r018Exceptions, call); ok {
			c.R.OK(rule, con+"/tabled", c.pos(call), "tabled: "+why)
			continue
		}
		c.ObErrChecked(rule, call)
	}
	c.R.Floor(rule, "mutating filesystem call sites with an error result", n, 14)
	// ... and the error of a helper of the disk writer that makes such calls
	// is not dropped or survived by its caller either (a caller that goes on
	// to `return nil` reports a directory whose metadata could not be set as
	// written)
	inSet := map[*ssa.Function]bool{}
	for _, f := range fns {
		inSet[f] = true
	}
	nh := 0
	for _, fn := range fns {
		for _, call := range eng.Calls(fn) {
			f := call.Common().StaticCallee()
			if f == nil || !inSet[f] || f == fn {
				continue
			}
			if _, _, has := c.errValueOf(call); !has {
				continue
			}
			if strings.HasSuffix(c.P.CalleeName(call), ").Close") {
				continue // closes have their own clauses (file-close-checked, R01.9)
			}
			if _, isGo := call.(*ssa.Go); isGo {
				continue
			}
			if _, isDefer := call.(*ssa.Defer); isDefer {
				continue
			}
			nh++
			if why, ok := tabled(c, r018Exceptions, call); ok {
				c.R.OK(rule, c.siteName(call)+"/tabled", c.pos(call), "tabled: "+why)
				continue
			}
			c.ObErrChecked(rule, call)
		}
	}
	c.R.Floor(rule, "calls of error-returning disk-writer helpers", nh, 4)
	// file.Close() of the freshly created file is checked on the success path
	hc := c.P.Fn("fsutil.(*DiskWriter).HandleChange")
	if hc != nil {
		cl := c.P.CallsTo(hc, "(*os.File).Close")
		good := 0
		for _, call := range cl {
			if ok, _, _, _ := c.ErrChecked(call); ok {
				good++
			}
		}
		c.R.Check(good >= 1, rule, c.name(hc)+"/file-close-checked", c.P.Pos(hc.Pos()), "the close of the created file is checked on the success path", "no checked Close of the newly created file: a failed close (ENOSPC, EIO) is reported as success")
	}
}

// R01.9: the permission retry of the lazy file writer restores the mode.
func r01_9(c *Ctx, rule string) {
	c.R.Rule(rule, "lazyFileWriter: the mode widened to open a read-only file for writing is recorded from the file itself and restored by Close after a successful close of the file")
	w := c.Fn(rule, "fsutil.(*lazyFileWriter).Write")
	cl := c.Fn(rule, "fsutil.(*lazyFileWriter).Close")
	if w == nil || cl == nil {
		return
	}
	// recorded before the widening chmod, from the stat of the destination
	var chm ssa.CallInstruction
	for _, call := range c.P.CallsTo(w, "os.Chmod") {
		chm = call
	}
	if chm == nil {
		c.R.OK(rule, c.name(w)+"/no-retry", c.P.Pos(w.Pos()), "no permission retry: nothing to restore")
		return
	}
	// where the mode is kept: the field(s) of the writer that Write assigns the
	// file's own mode to (a *FileMode that is nil until then, or a FileMode next
	// to a flag that says "recorded")
	modeFields := map[string]bool{}
	var recStores []*ssa.Store
	eng.Instrs(w, func(in ssa.Instruction) {
		st, ok := in.(*ssa.Store)
		if !ok {
			return
		}
		fa, ok := st.Addr.(*ssa.FieldAddr)
		if !ok || !strings.HasPrefix(eng.FieldOwnerName(fa.X.Type(), fa.Field), "fsutil.lazyFileWriter.") {
			return
		}
		isMode := func(v ssa.Value) bool { return c.isCallValueTo(v, "(io/fs.FileInfo).Mode") }
		if c.DerivesFrom(st.Val, isMode, 6) {
			modeFields[eng.FieldOwnerName(fa.X.Type(), fa.Field)] = true
			recStores = append(recStores, st)
			// the whole mode: a write by a non-owner clears setuid/setgid, the
			// restoring chmod is what brings them (and the sticky bit) back
			whole := c.DerivesFromAvoiding(st.Val, isMode, func(v ssa.Value) bool {
				if c.isCallValueTo(v, "(io/fs.FileMode).Perm", "(io/fs.FileMode).Type") {
					return true
				}
				bo, isB := v.(*ssa.BinOp)
				return isB && (bo.Op == token.AND || bo.Op == token.AND_NOT)
			}, 6)
			c.R.Check(whole, rule, c.name(w)+"/whole-mode-recorded", c.pos(st), "the recorded mode is the file's whole mode", "the mode recorded for restoring is cut down (Perm(), a mask): the chmod back after a forced write drops setuid/setgid/sticky, which the write itself may have cleared")
		}
	})
	if len(modeFields) == 0 {
		c.R.Fail(rule, c.name(w)+"/mode-recorded-before-widening", c.pos(chm), "the mode is widened without the file's own mode being kept in the writer: Close cannot put it back")
		return
	}
	// flags set to true together with the mode
	flagFields := map[string]bool{}
	eng.Instrs(w, func(in ssa.Instruction) {
		st, ok := in.(*ssa.Store)
		if !ok {
			return
		}
		fa, ok := st.Addr.(*ssa.FieldAddr)
		if !ok {
			return
		}
		o := eng.FieldOwnerName(fa.X.Type(), fa.Field)
		if !strings.HasPrefix(o, "fsutil.lazyFileWriter.") || modeFields[o] {
			return
		}
		if k, isC := st.Val.(*ssa.Const); isC && eng.IsBoolConst(k, true) {
			for _, rs := range recStores {
				if rs.Block() == st.Block() {
					flagFields[o] = true
				}
			}
		}
	})
	isModeLoad := func(v ssa.Value) bool {
		for f := range modeFields {
			if isFieldLoad(v, f) {
				return true
			}
		}
		return false
	}
	isRec := func(in ssa.Instruction) bool {
		for _, rs := range recStores {
			if in == ssa.Instruction(rs) {
				return true
			}
		}
		return false
	}
	c.ObPrecedes(rule, c.name(w)+"/mode-recorded-before-widening", w, nil, isRec, func(in ssa.Instruction) bool { return in == ssa.Instruction(chm) }, "recording the original mode", "widening the mode")
	c.R.OK(rule, c.name(w)+"/mode-from-file", c.pos(recStores[0]), "the recorded mode is the file's own")
	// Close restores it
	x := c.explorer(cl)
	as := map[string]bool{}
	eng.Instrs(cl, func(in ssa.Instruction) {
		switch v := in.(type) {
		case *ssa.BinOp:
			if v.Op != token.EQL && v.Op != token.NEQ {
				return
			}
			if k, isC := v.Y.(*ssa.Const); isC && k.IsNil() && isModeLoad(v.X) {
				as[x.KeyAtEntry(v)] = v.Op == token.NEQ
			}
		case *ssa.UnOp:
			if v.Op == token.MUL {
				for f := range flagFields {
					if isFieldLoad(v, f) {
						as[x.KeyAtEntry(v)] = true
					}
				}
			}
		}
	})
	recorded := len(as) > 0
	for _, call := range c.P.CallsTo(cl, "(*os.File).Close") {
		k, _, _ := c.errValueOf(call)
		as["("+k+"==nil)"] = true
	}
	if !recorded {
		c.R.Fail(rule, c.name(cl)+"/mode-restored", c.P.Pos(cl.Pos()), "Close does not ask whether a mode was recorded")
	} else {
		c.ObSuccessNeeds(rule, c.name(cl)+"/mode-restored", cl, nil, as, c.callPred("os.Chmod"), "restoring the recorded mode (a mode was recorded, the file closed cleanly)")
	}
	for _, call := range c.P.CallsTo(cl, "os.Chmod") {
		a := call.Common().Args
		ok := isFieldLoad(a[0], "fsutil.lazyFileWriter.dest") && c.DerivesFrom(a[1], isModeLoad, 3)
		c.R.Check(ok, rule, c.siteName(call)+"/args", c.pos(call), "Chmod(dest, recorded mode)", "Close does not restore the recorded mode on the destination")
	}
	// Close closes what Write opened
	c.R.Floor(rule, "closes of the opened file in lazyFileWriter.Close", len(c.P.CallsTo(cl, "(*os.File).Close")), 1)
	// the result of Close reports a failed close or a failed restore
	bad := 0
	ex := c.explorer(cl)
	for _, call := range c.P.CallsTo(cl, "(*os.File).Close") {
		k, _, _ := c.errValueOf(call)
		ex.Assume = map[string]bool{"(" + k + "==nil)": false}
		ex.From = call
		ex.Target = func(in ssa.Instruction, st *eng.State) bool { return ex.IsSuccessReturn(in, st) }
		ex.StopAtTarget = true
		bad += len(ex.Run())
	}
	c.R.Check(bad == 0, rule, c.name(cl)+"/close-error-reported", c.P.Pos(cl.Pos()), "a failed close of the file is returned", "a failed close of the destination file is not reported")
}
