package props

import (
	"fmt"
	"go/token"
	"go/types"
	"strings"

	"fsverif/eng"

	"golang.org/x/tools/go/ssa"
)

func init() {
	register("C06", "Structural clauses of the sender's side of the wire protocol, decided on all paths of the walk callback, queue, sendFile and fileSender.Write: the id counter starts at 0, has one increment by one outside any loop on every path that sends a STAT, independent of the requestable test, and the id registered for a file is the pre-increment value; only modes passing fileCanRequestData (mask = io/fs.ModeType, the same function the receiver uses) are registered; a request looks the id up, fails on a miss and deletes it in one lock region before enqueueing; every success return of sendFile is the single empty DATA terminator for the handle's id, chunks carry that id and the written bytes, and nothing reachable from sendFile starts a goroutine; each callback sends exactly its STAT, and one end marker follows only a successful walk; progress has one final call. the file's bytes are moved by io.Copy/io.CopyBuffer into the chunk writer or by a read loop that writes the n bytes of every Read, the one that reports io.EOF included. Does not decide ascending order of the STAT stream (delegated to FS.Walk) nor the payload bytes beyond that (io.CopyBuffer contract).", runC06)
}

func runC06(c *Ctx) {
	r06_1(c, "R06.1")
	r06_2(c, "R06.2")
	r06_3(c, "R06.3")
	r06_4(c, "R06.4")
	r06_5(c, "R06.5")
	r08_1(c, "R06.6")
	r04_4send(c, "R06.7")
	r06_8(c, "R06.8")
	r06_9(c, "R06.9")
	r06_10(c, "R06.10")
}

// walkCallback returns the FS.Walk callback literal of sender.walk.
func walkCallback(c *Ctx, rule string) (*ssa.Function, *ssa.Function) {
	w := c.Fn(rule, "fsutil.(*sender).walk")
	if w == nil {
		return nil, nil
	}
	var lit *ssa.Function
	for _, cl := range eng.Closures(w) {
		for _, in := range eng.Calls(cl) {
			if c.sendsPacket(in, "PACKET_STAT") {
				lit = cl
			}
		}
	}
	if lit == nil {
		c.R.Missing(rule, "walk callback of sender.walk sending PACKET_STAT")
		return w, nil
	}
	c.R.Analysed(c.name(lit))
	return w, lit
}

// statSendWithStat: SendMsg of a STAT literal that carries a Stat.
func (c *Ctx) statSend(in ssa.Instruction, withStat bool) bool {
	if !c.sendsPacket(in, "PACKET_STAT") {
		return false
	}
	pl, _ := c.packetOf(in.(ssa.CallInstruction))
	v, has := pl.Fields["Stat"]
	// (one constructor for both kinds of STAT, `newStatPacket(stat)`: the
	// end marker is the call that passes nil)
	if q, isP := v.(*ssa.Parameter); has && isP {
		args := in.(ssa.CallInstruction).Common().Args
		if fa, isFwd := c.sendForwarderArg(in.(ssa.CallInstruction)); isFwd {
			args = []ssa.Value{fa}
		}
		raw := args[len(args)-1]
		if mi, isMI := raw.(*ssa.MakeInterface); isMI {
			raw = mi.X
		}
		if call, isC := raw.(*ssa.Call); isC && eng.EffCallee(call) == q.Parent() {
			if rs := eng.ResolveAllCtx(q, []*ssa.Call{call}); len(rs) == 1 {
				if k, isK := rs[0].(*ssa.Const); isK && k.IsNil() {
					has = false
				}
			}
		}
	}
	return has == withStat
}

func r06_1(c *Ctx, rule string) {
	c.R.Rule(rule, "sender id counter: initial 0; exactly one store (+1) in the walk callback, outside any loop, on every path to SendMsg(STAT), reachable whether or not the entry is requestable; the key of the sender.files update is the value before the increment")
	w, lit := walkCallback(c, rule)
	if lit == nil {
		return
	}
	// the counter cell: the free variable whose load keys the sender.files update
	var upd *ssa.MapUpdate
	eng.Instrs(lit, func(in ssa.Instruction) {
		if mu, ok := in.(*ssa.MapUpdate); ok && isFieldLoad(mu.Map, "fsutil.sender.files") {
			upd = mu
		}
	})
	base := c.name(lit)
	if upd == nil {
		c.R.Missing(rule, "update of sender.files in the walk callback")
		return
	}
	defer c.scope(lit)()
	// the counter cell: a captured variable or a field of a captured state
	// object, identified by the allocation it lives in
	ld, _ := eng.Strip(upd.Key).(*ssa.UnOp)
	cell := ""
	if ld != nil {
		cell = c.P.LoadedCell(ld) // (the key may reach the update through a helper's parameter)
	}
	if ld == nil || cell == "" {
		c.R.Undecided(rule, base+"/id-counter", c.pos(upd), "the key of the sender.files update is not a load of a counter variable that can be traced to one allocation; shape not interpreted")
		return
	}
	// stores to the cell inside the callback
	var stores []*ssa.Store
	eng.Instrs(lit, func(in ssa.Instruction) {
		if s, ok := in.(*ssa.Store); ok && c.P.CellID(s.Addr) == cell {
			stores = append(stores, s)
		}
	})
	c.R.Exact(rule, "stores to the id counter in the walk callback", len(stores), 1)
	if len(stores) != 1 {
		return
	}
	st := stores[0]
	isInc := false
	if bo, ok := st.Val.(*ssa.BinOp); ok && bo.Op == token.ADD {
		if c.P.LoadedCell(bo.X) == cell {
			if k, ok := eng.ConstInt(bo.Y); ok && k == 1 {
				isInc = true
			}
		}
	}
	c.R.Check(isInc, rule, base+"/id-counter/step", c.pos(st), "the counter is advanced by exactly one", "the id counter is not advanced by exactly one")
	c.R.Check(!eng.InCycle(st.Block()), rule, base+"/id-counter/not-in-loop", c.pos(st), "the increment is outside any loop", "the id counter is incremented inside a loop: more than one step per STAT")
	isStore := func(in ssa.Instruction) bool { return in == ssa.Instruction(st) }
	c.ObPrecedes(rule, base+"/id-counter/before-every-stat", lit, nil, isStore, func(in ssa.Instruction) bool { return c.statSend(in, true) }, "the id increment", "SendMsg(STAT)")
	// independent of fileCanRequestData
	x := c.explorer(lit)
	reqs := c.requestableTests(lit, x)
	if len(reqs) > 0 {
		c.ObReachable(rule, base+"/id-counter/counts-non-files", lit, reqPins(reqs, false), isStore, "the id increment", "the entry is not requestable (directory, link, device)")
	}
	// announce after publish: for a requestable entry the id is registered
	// before the STAT that lets the receiver request it
	if len(reqs) > 0 {
		as := reqPins(reqs, true)
		c.ObPrecedes(rule, base+"/registered-before-announced", lit, as, func(in ssa.Instruction) bool { return in == ssa.Instruction(upd) }, func(in ssa.Instruction) bool { return c.statSend(in, true) }, "registering the id in sender.files", "sending the STAT of a requestable entry")
	}
	// pre-increment key
	c.R.Check(!eng.Dominates(st, ld), rule, base+"/files-key-pre-increment", c.pos(upd), "the registered id is read before the increment", "the id registered in sender.files is read after the increment: every id is off by one")
	valOK := isFieldLoad(upd.Value, "types.Stat.Path")
	if !valOK {
		// ... or the very value this callback has just assigned to it
		for _, ps := range fieldStoresIn(lit, "types.Stat.Path") {
			if eng.SameValue(eng.Canon(ps.Val), eng.Canon(upd.Value)) && eng.Dominates(ps, upd) {
				valOK = true
			}
		}
	}
	c.R.Check(valOK, rule, base+"/files-value", c.pos(upd), "the id maps to the stat's path", "sender.files does not map the id to the stat's path")
	// initial value: the cell is allocated in sender.walk (zero value) and
	// every other store to it writes 0
	initOK := strings.HasPrefix(strings.TrimPrefix(cell, "*"), w.String()+":")
	for _, s := range c.P.CellStores(cell) {
		if s == st {
			continue
		}
		if k, ok := eng.ConstInt(s.Val); !ok || k != 0 {
			initOK = false
		}
	}
	c.R.Check(initOK, rule, c.name(w)+"/id-counter/initial", c.P.Pos(w.Pos()), "the counter starts at 0 for each walk", "the id counter is not initialised to 0 in sender.walk")
}

func r06_2(c *Ctx, rule string) {
	c.R.Rule(rule, "an id is registered only when fileCanRequestData(stat.Mode) holds; that predicate is `m & io/fs.ModeType == 0` and is the function the receiver calls too")
	_, lit := walkCallback(c, rule)
	if lit == nil {
		return
	}
	base := c.name(lit)
	x := c.explorer(lit)
	isUpd := func(in ssa.Instruction) bool {
		mu, ok := in.(*ssa.MapUpdate)
		return ok && isFieldLoad(mu.Map, "fsutil.sender.files")
	}
	// (the predicate may be the shared function, FileMode.IsRegular or the mask test written out)
	reqs := c.requestableTests(lit, x)
	c.R.Floor(rule, "requestable tests (mode & ModeType == 0) in the sender's walk callback", len(reqs), 1)
	for _, t := range reqs {
		c.R.Check(c.DerivesFrom(t.arg, func(v ssa.Value) bool { return isFieldLoad(v, "types.Stat.Mode") }, 4), rule, base+"/predicate-arg", c.pos(t.site), "applied to the stat's mode", "fileCanRequestData is not applied to the stat's mode")
	}
	c.ObUnreachable(rule, base+"/register-only-regular", lit, reqPins(reqs, false), isUpd, "registering a requestable id", "fileCanRequestData(mode) is false")
	// the same predicate on the receiving side
	if loop := recvLoop(c, rule); loop != nil {
		rx := c.explorer(loop)
		c.R.Check(len(c.requestableTests(loop, rx)) >= 1, rule, c.name(loop)+"/same-predicate", c.P.Pos(loop.Pos()), "the receiver registers ids under the same predicate", "the receiver does not use fileCanRequestData (mode & ModeType == 0) to decide which STATs get an id")
	}
	// the shared function, while it exists, is that predicate
	f := c.P.Fn("fsutil.fileCanRequestData")
	if f == nil {
		return
	}
	want := c.modeTypeMask()
	ok := false
	eng.Instrs(f, func(in ssa.Instruction) {
		r, isR := in.(*ssa.Return)
		if !isR || len(r.Results) != 1 {
			return
		}
		// (io/fs.FileMode).IsRegular is this very test by definition
		if call, isC := r.Results[0].(*ssa.Call); isC {
			if cal := call.Call.StaticCallee(); cal != nil && cal.String() == "(io/fs.FileMode).IsRegular" && len(call.Call.Args) == 1 && eng.Strip(call.Call.Args[0]) == ssa.Value(f.Params[0]) {
				ok = true
			}
			return
		}
		bo, isB := r.Results[0].(*ssa.BinOp)
		if !isB || bo.Op != token.EQL {
			return
		}
		if z, okz := eng.ConstInt(bo.Y); !okz || z != 0 {
			return
		}
		and, isA := bo.X.(*ssa.BinOp)
		if !isA || and.Op != token.AND {
			return
		}
		if m, okm := eng.ConstInt(and.Y); okm && m == want && eng.Strip(and.X) == ssa.Value(f.Params[0]) {
			ok = true
		}
	})
	c.R.Check(ok && want > 0, rule, "fsutil.fileCanRequestData/definition", c.P.Pos(f.Pos()), "returns m & io/fs.ModeType == 0", "fileCanRequestData is no longer `m & os.ModeType == 0`: sender and receiver (and older peers) disagree on which STATs carry a requestable id")
}

func r06_3(c *Ctx, rule string) {
	c.R.Rule(rule, "sender.queue: the lookup of the id, the fatal miss and delete(s.files, id) lie in one lock region that precedes the enqueue")
	fn := c.Fn(rule, "fsutil.(*sender).queue")
	if fn == nil {
		return
	}
	base := c.name(fn)
	var look *ssa.Lookup
	eng.Instrs(fn, func(in ssa.Instruction) {
		if l, ok := in.(*ssa.Lookup); ok && l.CommaOk && isFieldLoad(l.X, "fsutil.sender.files") {
			look = l
		}
	})
	if look == nil {
		c.R.Fail(rule, base+"/lookup", c.P.Pos(fn.Pos()), "queue does not look the requested id up in sender.files with a presence test: unknown ids are served")
		return
	}
	_, keyIsParam := eng.Strip(look.Index).(*ssa.Parameter)
	c.R.Check(keyIsParam, rule, base+"/lookup-key", c.pos(look), "looked up by the requested id", "sender.files is not looked up by the requested id")
	okKey := c.reg(look) + "#1"
	isEnq := func(in ssa.Instruction) bool {
		switch x := in.(type) {
		case *ssa.Send:
			return c.P.ChanDesc(x.Chan) == "field:fsutil.sender.sendpipeline"
		case *ssa.Select:
			for _, st := range x.States {
				if st.Dir == types.SendOnly && c.P.ChanDesc(st.Chan) == "field:fsutil.sender.sendpipeline" {
					return true
				}
			}
		}
		return false
	}
	isDelete := func(in ssa.Instruction) bool {
		return c.P.IsCallTo(in, "builtin:delete") && isFieldLoad(in.(ssa.CallInstruction).Common().Args[0], "fsutil.sender.files")
	}
	hit, und := c.SuccessAvoiding(fn, look, map[string]bool{okKey: false}, nil, nil)
	c.R.Check(!und && hit == nil, rule, base+"/unknown-id-fatal", c.pos(look), "an id that was never announced (or already served) fails the call", "a request for an unknown or already served id can succeed")
	c.ObUnreachable(rule, base+"/unknown-id-not-queued", fn, map[string]bool{okKey: false}, isEnq, "queueing a send", "the id is not in sender.files")
	c.ObPrecedes(rule, base+"/delete-before-enqueue", fn, nil, isDelete, isEnq, "delete(sender.files, id)", "the enqueue")
	// delete key is the requested id
	eng.Instrs(fn, func(in ssa.Instruction) {
		if isDelete(in) {
			_, ok := eng.Strip(in.(ssa.CallInstruction).Common().Args[1]).(*ssa.Parameter)
			c.R.Check(ok, rule, base+"/delete-key", c.pos(in), "the served id is deleted", "delete removes a different key than the requested id")
		}
	})
	ex := c.explorer(fn)
	ex.From = look
	ex.Assume = map[string]bool{okKey: true}
	ex.Barrier = func(in ssa.Instruction, st *eng.State) bool { return isDelete(in) }
	ex.Target = func(in ssa.Instruction, st *eng.State) bool {
		return c.P.IsCallTo(in, "(*sync.RWMutex).Unlock", "(*sync.Mutex).Unlock", "(*sync.RWMutex).RUnlock")
	}
	ex.StopAtTarget = true
	h := ex.Run()
	c.R.Check(len(h) == 0 && !ex.Exhausted, rule, base+"/one-lock-region", c.pos(look), "no unlock between the successful lookup and the delete", "the mutex is released between the lookup and the delete: two requests for one id can both be served")
	// the queued handle carries the requested id and the looked-up path
	n := 0
	eng.Instrs(fn, func(in ssa.Instruction) {
		al, ok := in.(*ssa.Alloc)
		if !ok || !strings.HasSuffix(eng.TypeStr(al.Type()), "fsutil.sendHandle") {
			return
		}
		n++
		f := structLitFields(al)
		_, idOK := eng.Strip(f["id"]).(*ssa.Parameter)
		pathOK := f["path"] != nil && c.DerivesFrom(f["path"], func(v ssa.Value) bool { return v == ssa.Value(look) }, 3)
		c.R.Check(idOK && pathOK, rule, base+"/handle", c.pos(al), "the handle carries the requested id and its registered path", "the queued handle does not carry (requested id, looked-up path)")
	})
	c.R.Floor(rule, "sendHandle literals in queue", n, 1)
}

func r06_4(c *Ctx, rule string) {
	c.R.Rule(rule, "sendFile: every success return is the result of SendMsg(DATA{ID: h.id}) without payload; chunks are SendMsg(DATA{ID: fs.id, Data: dt}) for non-empty dt; nothing reachable from sendFile starts a goroutine")
	sf := c.Fn(rule, "fsutil.(*sender).sendFile")
	if sf == nil {
		return
	}
	base := c.name(sf)
	term := map[string]ssa.Instruction{}
	eng.Instrs(sf, func(in ssa.Instruction) {
		call, ok := in.(*ssa.Call)
		if !ok || !c.sendsPacket(call, "PACKET_DATA") {
			return
		}
		pl, _ := c.packetOf(call)
		_, hasData := pl.Fields["Data"]
		idOK := pl.Fields["ID"] != nil && isFieldLoad(pl.Fields["ID"], "fsutil.sendHandle.id")
		c.R.Check(!hasData && idOK, rule, c.siteName(call)+"/terminator", c.pos(call), "empty DATA for the handle's id", "the terminator is not an empty DATA packet carrying the handle's id")
		if !hasData && idOK {
			for _, k := range c.sendResultKeys(sf, call, func(ci ssa.CallInstruction) bool {
				pl2, ok2 := c.packetOf(ci)
				if !ok2 || !c.sendsPacket(ci, "PACKET_DATA") {
					return false
				}
				_, d2 := pl2.Fields["Data"]
				return !d2
			}) {
				term[k] = call
			}
		}
	})
	c.R.Floor(rule, "terminator sends in sendFile", len(term), 1)
	// one terminator per file: no path sends two
	for _, t := range term {
		t := t
		hit, und := c.ReachAfter(sf, t, func(in ssa.Instruction) bool {
			_, isTerm := term[c.reg(in.(ssa.Value))]
			return isTerm
		})
		c.R.Check(hit == nil && !und, rule, c.siteName(t)+"/terminator-not-repeated", c.pos(t), "no second terminator can follow", "after the terminator was sent another one can be sent on the same path: the receiver would close the next file's pipe early")
	}
	x := c.explorer(sf)
	okRet := 0
	x.Target = func(in ssa.Instruction, st *eng.State) bool {
		if !x.IsSuccessReturn(in, st) {
			return false
		}
		r := in.(*ssa.Return)
		if _, ok := term[x.SourceKey(r.Results[0], st)]; ok {
			okRet++
			return false
		}
		return true
	}
	x.StopAtTarget = true
	hits := x.Run()
	switch {
	case x.Exhausted:
		c.R.Undecided(rule, base+"/success-is-terminator", c.P.Pos(sf.Pos()), "state limit")
	case len(hits) > 0:
		c.R.Fail(rule, base+"/success-is-terminator", c.pos(hits[0].Instr), "sendFile can return success without having sent the empty DATA terminator: the receiver never completes this file")
	default:
		c.R.Check(okRet > 0, rule, base+"/success-is-terminator", c.P.Pos(sf.Pos()), "every success return is the terminator's result", "sendFile has no success return")
	}
	// the terminator is not in a loop, sent once
	for _, t := range term {
		c.R.Check(!eng.InCycle(t.Block()), rule, base+"/terminator-once", c.pos(t), "sent once", "the terminator is sent inside a loop")
	}
	// the copy destination is a fileSender for this id
	for _, call := range c.P.CallsTo(sf, "io.CopyBuffer", "io.Copy") {
		dst := eng.Strip(call.Common().Args[0])
		al, _ := dst.(*ssa.Alloc)
		ok := false
		if al != nil && strings.HasSuffix(eng.TypeStr(al.Type()), "fsutil.fileSender") {
			f := structLitFields(al)
			ok = f["id"] != nil && isFieldLoad(f["id"], "fsutil.sendHandle.id") && f["sender"] != nil
		}
		c.R.Check(ok, rule, c.siteName(call)+"/destination", c.pos(call), "content is copied into a fileSender for the handle's id", "the file content is not copied into a fileSender carrying the handle's id")
		c.ObErrChecked(rule+"/checked", call)
	}
	// the opened path is the handle's path
	for _, call := range c.P.CallsTo(sf, "(fsutil.FS).Open") {
		c.R.Check(isFieldLoad(call.Common().Args[0], "fsutil.sendHandle.path"), rule, c.siteName(call)+"/path", c.pos(call), "opens the path registered for the id", "sendFile opens something other than the path registered for the id")
	}
	// chunks
	fw := c.Fn(rule, "fsutil.(*fileSender).Write")
	if fw != nil {
		n := 0
		fx := c.explorer(fw)
		for _, in := range eng.Calls(fw) {
			call, ok := in.(*ssa.Call)
			if !ok || !c.sendsPacket(call, "PACKET_DATA") {
				continue
			}
			n++
			pl, _ := c.packetOf(call)
			_, dataParam := eng.Strip(pl.Fields["Data"]).(*ssa.Parameter)
			idOK := pl.Fields["ID"] != nil && isFieldLoad(pl.Fields["ID"], "fsutil.fileSender.id")
			c.R.Check(dataParam && idOK, rule, c.siteName(call)+"/chunk", c.pos(call), "DATA{ID: fs.id, Data: the bytes written}", "a chunk is not DATA{ID: fs.id, Data: dt}")
			c.ObErrChecked(rule+"/checked", call)
			// never an empty chunk (it would read as the terminator)
			lenTests := c.emptinessTests(fw, fx, false, func(v ssa.Value) bool { _, isP := eng.Strip(v).(*ssa.Parameter); return isP })
			if len(lenTests) == 0 {
				c.R.Fail(rule, c.siteName(call)+"/no-empty-chunk", c.pos(call), "fileSender.Write has no len(dt) == 0 test: a zero-length write is sent as an empty DATA packet, which the receiver reads as the terminator")
			} else {
				c.ObUnreachable(rule, c.siteName(call)+"/no-empty-chunk", fw, lenTests, func(i2 ssa.Instruction) bool { return i2 == ssa.Instruction(call) }, "sending a chunk", "the slice written is empty")
			}
		}
		c.R.Floor(rule, "chunk sends in fileSender.Write", n, 1)
		// returns len(dt) on success
		ex := c.explorer(fw)
		bad := 0
		ex.Target = func(in ssa.Instruction, st *eng.State) bool {
			if !ex.IsSuccessReturn(in, st) {
				return false
			}
			k := ex.KeyOf(in.(*ssa.Return).Results[0], st)
			if k != "len(p:"+fw.Params[1].Name()+")" && k != "c:0" {
				bad++
			}
			return false
		}
		ex.Run()
		c.R.Check(bad == 0, rule, c.name(fw)+"/returns-len", c.P.Pos(fw.Pos()), "reports all bytes as written", "fileSender.Write does not report len(dt) bytes written: io.CopyBuffer would resend or skip bytes")
	}
	// no goroutine below sendFile
	reach := c.P.CallGraph().Reachable(sf)
	gos := 0
	for f := range reach {
		eng.Instrs(f, func(in ssa.Instruction) {
			if _, ok := in.(*ssa.Go); ok {
				gos++
			}
			if c.P.IsCallTo(in, "(*golang.org/x/sync/errgroup.Group).Go") {
				gos++
			}
		})
	}
	c.R.Check(gos == 0, rule, base+"/single-goroutine", c.P.Pos(sf.Pos()), fmt.Sprintf("%d functions reachable from sendFile, none starts a goroutine: one id's packets are emitted in order by one goroutine", len(reach)), "a goroutine is started below sendFile: the packets of one id may be reordered")
}

func r06_5(c *Ctx, rule string) {
	c.R.Rule(rule, "the walk callback's success return is the result of sending its STAT (Stat field = the entry's stat); after a checked FS.Walk exactly one STAT without Stat follows, and not on the error path")
	w, lit := walkCallback(c, rule)
	if lit == nil {
		return
	}
	base := c.name(lit)
	c.ObSuccessNeeds(rule, base+"/success-needs-stat", lit, nil, nil, func(in ssa.Instruction) bool { return c.statSend(in, true) }, "SendMsg(STAT) for the entry")
	n := 0
	for _, in := range eng.Calls(lit) {
		if !c.statSend(in, true) {
			continue
		}
		n++
		pl, _ := c.packetOf(in)
		ok := c.DerivesFrom(pl.Fields["Stat"], func(v ssa.Value) bool { return c.isCallValueTo(v, "(io/fs.FileInfo).Sys") }, 5)
		c.R.Check(ok && !eng.InCycle(in.Block()), rule, c.siteName(in)+"/stat", c.pos(in), "the STAT carries the entry's stat, sent once", "the STAT packet does not carry the stat of the walked entry (or is sent in a loop)")
		c.ObErrChecked(rule+"/checked", in)
	}
	c.R.Exact(rule, "STAT sends in the walk callback", n, 1)
	// end marker
	var walkCall ssa.CallInstruction
	for _, call := range c.P.CallsTo(w, "(fsutil.FS).Walk") {
		walkCall = call
	}
	if walkCall == nil {
		c.R.Missing(rule, "FS.Walk call in sender.walk")
		return
	}
	m := 0
	for _, in := range eng.Calls(w) {
		if !c.statSend(in, false) {
			continue
		}
		m++
		c.R.Check(!eng.InCycle(in.Block()), rule, c.siteName(in)+"/once", c.pos(in), "sent once", "the end marker is sent in a loop")
		c.ObErrChecked(rule+"/checked", in)
		key, _, _ := c.errValueOf(walkCall)
		ex := c.explorer(w)
		ex.From = walkCall
		ex.Assume = map[string]bool{"(" + key + "==nil)": false}
		ex.Target = func(i2 ssa.Instruction, st *eng.State) bool { return i2 == ssa.Instruction(in) }
		ex.StopAtTarget = true
		h := ex.Run()
		c.R.Check(len(h) == 0 && !ex.Exhausted, rule, c.siteName(in)+"/not-on-error", c.pos(in), "not sent when the walk failed", "the end-of-stats marker is sent although the walk failed: the receiver treats a truncated listing as complete and deletes what is missing")
	}
	c.R.Exact(rule, "end-of-stats marker sends in sender.walk", m, 1)
	c.ObSuccessNeeds(rule, c.name(w)+"/success-needs-marker", w, nil, nil, func(in ssa.Instruction) bool { return c.statSend(in, false) }, "the end-of-stats marker")
	c.ObPrecedes(rule, c.name(w)+"/walk-before-marker", w, nil, c.checkedCallPred("(fsutil.FS).Walk"), func(in ssa.Instruction) bool { return c.statSend(in, false) }, "a checked FS.Walk", "the end-of-stats marker")
	// the walked FS is sender.fs from the root
	ok := isFieldLoad(walkCall.Common().Value, "fsutil.sender.fs")
	c.R.Check(ok, rule, c.siteName(walkCall)+"/fs", c.pos(walkCall), "walks sender.fs", "sender.walk does not walk sender.fs")
}

// R06.9: a success path cancels nobody.
func r06_9(c *Ctx, rule string) {
	c.R.Rule(rule, "sender.run / receiver.run and their goroutines never invoke a context.CancelFunc except as a deferred cleanup of the function that created it: the FIN exchange, or any other success path, must not cancel a sibling goroutine (a walk still announcing entries, a worker still sending)")
	n, bad := 0, 0
	for _, name := range []string{"fsutil.(*sender).run", "fsutil.(*receiver).run"} {
		run := c.Fn(rule, name)
		if run == nil {
			continue
		}
		for _, f := range append([]*ssa.Function{run}, eng.Closures(run)...) {
			f := f
			eng.Instrs(f, func(in ssa.Instruction) {
				call, ok := in.(ssa.CallInstruction)
				if !ok || call.Common().IsInvoke() {
					return
				}
				if eng.TypeStr(call.Common().Value.Type()) != "context.CancelFunc" {
					return
				}
				n++
				_, isDefer := in.(*ssa.Defer)
				if !(isDefer && in.Parent() == run) {
					bad++
					c.R.Fail(rule, fmt.Sprintf("%s/cancel-call#%d", c.name(f), n), c.pos(in), "a context cancel function is called on a regular path of "+c.name(f)+": the goroutines sharing that context (the STAT walk, the file workers) are aborted although the transfer is proceeding normally - the call fails after FIN was already echoed")
				}
			})
		}
	}
	if bad == 0 {
		c.R.OK(rule, "fsutil/no-cancel-on-success-paths", "-", fmt.Sprintf("%d cancel function call(s) in sender.run/receiver.run and their goroutines, all deferred cleanups", n))
	}
}

func r06_8(c *Ctx, rule string) {
	c.R.Rule(rule, "progress: one updateProgress(_, true) site, deferred in sender.run; all other sites pass false; progressCurrent only grows by the size passed, under its mutex (R08.3)")
	up := c.Fn(rule, "fsutil.(*sender).updateProgress")
	run := c.Fn(rule, "fsutil.(*sender).run")
	if up == nil || run == nil {
		return
	}
	finals, others := 0, 0
	for _, cs := range c.P.CallGraph().Callers(up) {
		if c.P.IsTestFile(cs.Pos()) {
			continue
		}
		last := cs.Common().Args[len(cs.Common().Args)-1]
		b, isConst := eng.ConstBool(last)
		if !isConst {
			c.R.Fail(rule, c.siteName(cs)+"/last-flag", c.pos(cs), "the final flag is not a constant")
			continue
		}
		if b {
			finals++
			_, isDefer := cs.(*ssa.Defer)
			c.R.Check(isDefer && cs.Parent() == run && cs.Block().Index == 0, rule, c.siteName(cs)+"/final", c.pos(cs), "the final call is deferred at the start of sender.run", "the final progress call is not a defer at the start of sender.run")
		} else {
			others++
			sz := cs.Common().Args[len(cs.Common().Args)-2]
			ok := c.isCallValueTo(sz, "types.(*Packet).Size", "types.(*Packet).SizeVT")
			c.R.Check(ok, rule, c.siteName(cs)+"/size", c.pos(cs), "adds the size of the packet just sent", "a progress update does not add the size of the packet sent")
		}
	}
	c.R.Exact(rule, "final progress calls", finals, 1)
	c.R.Floor(rule, "intermediate progress calls", others, 2)
	// inside updateProgress
	for _, s := range fieldStoresIn(up, "fsutil.sender.progressCurrent") {
		bo, ok := s.Val.(*ssa.BinOp)
		good := ok && bo.Op == token.ADD && isFieldLoad(bo.X, "fsutil.sender.progressCurrent")
		if good {
			_, isP := eng.Strip(bo.Y).(*ssa.Parameter)
			good = isP
		}
		c.R.Check(good, rule, c.name(up)+"/accumulate", c.pos(s), "progressCurrent += size", "progressCurrent is not accumulated as += size (it can decrease)")
	}
	for _, call := range c.P.CallsTo(up, "field:fsutil.sender.progressCb") {
		a := call.Common().Args
		_, lastParam := eng.Strip(a[1]).(*ssa.Parameter)
		c.R.Check(isFieldLoad(a[0], "fsutil.sender.progressCurrent") && lastParam, rule, c.siteName(call)+"/args", c.pos(call), "reports (running total, last)", "the progress callback does not receive (running total, last)")
	}
}

// R06.10: the bytes of a requested file reach the stream.
//
// sendFile hands the opened file to io.CopyBuffer, whose loop honours the
// io.Reader contract (a Read may return its last bytes together with io.EOF).
// A hand-written loop is accepted when it does too: with n > 0, no path from
// the Read leads to the terminator, to a success return or back to the Read
// without a write of buf[:n].
func r06_10(c *Ctx, rule string) {
	c.R.Rule(rule, "sendFile moves the file's bytes with io.Copy/io.CopyBuffer into a fileSender, or with a read loop that writes the n bytes of every Read (also of the one that reports io.EOF) before it sends the terminator, succeeds or reads again")
	sf := c.Fn(rule, "fsutil.(*sender).sendFile")
	if sf == nil {
		return
	}
	n := 0
	var reads []*ssa.Call
	eng.Instrs(sf, func(in ssa.Instruction) {
		call, ok := in.(*ssa.Call)
		if !ok {
			return
		}
		name := c.P.CalleeName(call)
		switch {
		case name == "io.Copy" || name == "io.CopyBuffer" || name == "io.CopyN":
			dst := call.Call.Args[0]
			isSender := c.DerivesFrom(dst, func(v ssa.Value) bool {
				al, isA := v.(*ssa.Alloc)
				return isA && strings.HasSuffix(eng.TypeStr(al.Type()), "fsutil.fileSender")
			}, 4)
			if isSender {
				n++
				c.R.OK(rule, c.siteName(call)+"/library-copy", c.pos(call), "the content is copied by "+name+" into a fileSender")
				c.ObErrChecked(rule+"/checked", call)
			}
		case strings.HasSuffix(name, ").Read") && call.Call.Signature().Results().Len() == 2:
			reads = append(reads, call)
		}
	})
	for _, rd := range reads {
		n++
		con := c.siteName(rd)
		// the byte count of this Read
		var cnt ssa.Value
		for _, r := range eng.Referrers(rd) {
			if e, ok := r.(*ssa.Extract); ok && e.Index == 0 {
				cnt = e
			}
		}
		if cnt == nil {
			c.R.Fail(rule, con+"/count-used", c.pos(rd), "the byte count of a direct Read is discarded")
			continue
		}
		x := c.explorer(sf)
		as := map[string]bool{}
		eng.Instrs(sf, func(in ssa.Instruction) {
			bo, ok := in.(*ssa.BinOp)
			if !ok {
				return
			}
			cmp := func(a int64, k int64) (bool, bool) {
				switch bo.Op {
				case token.GTR:
					return a > k, true
				case token.GEQ:
					return a >= k, true
				case token.LSS:
					return a < k, true
				case token.LEQ:
					return a <= k, true
				case token.EQL:
					return a == k, true
				case token.NEQ:
					return a != k, true
				}
				return false, false
			}
			if !eng.SameValue(bo.X, cnt) {
				return
			}
			if k, isK := eng.ConstInt(bo.Y); isK {
				lo, ok1 := cmp(1, k)
				hi, ok2 := cmp(1<<20, k)
				if ok1 && ok2 && lo == hi {
					as[x.KeyAtEntry(bo)] = lo // the truth for every n > 0
				}
			}
		})
		isWrite := func(in ssa.Instruction) bool {
			call, ok := in.(ssa.CallInstruction)
			if !ok {
				return false
			}
			nm := c.P.CalleeName(call)
			if !strings.HasSuffix(nm, ").Write") && !strings.HasSuffix(nm, ").SendMsg") {
				return false
			}
			for _, a := range call.Common().Args {
				if c.DerivesFrom(a, func(v ssa.Value) bool {
					sl, isS := v.(*ssa.Slice)
					return isS && sl.High != nil && eng.SameValue(sl.High, cnt)
				}, 5) {
					return true
				}
			}
			return false
		}
		ex := c.explorer(sf)
		ex.From = rd
		ex.Assume = as
		ex.Barrier = func(in ssa.Instruction, st *eng.State) bool { return isWrite(in) }
		ex.Target = func(in ssa.Instruction, st *eng.State) bool {
			if in == ssa.Instruction(rd) || ex.IsSuccessReturn(in, st) {
				return true
			}
			if call, ok := in.(*ssa.Call); ok && c.sendsPacket(call, "PACKET_DATA") {
				pl, _ := c.packetOf(call)
				if _, hasData := pl.Fields["Data"]; !hasData {
					return true
				}
			}
			return false
		}
		ex.StopAtTarget = true
		hits := ex.Run()
		switch {
		case ex.Exhausted:
			c.R.Undecided(rule, con+"/bytes-written", c.pos(rd), "state limit")
		case len(hits) > 0:
			c.R.Fail(rule, con+"/bytes-written", c.pos(hits[0].Instr), "the n bytes a Read returned can be dropped (a Read may return data together with io.EOF): the terminator, a success return or the next Read is reached without a write of buf[:n]; path "+eng.BlockTrace(sf, hits[0].Trace))
		default:
			c.R.OK(rule, con+"/bytes-written", c.pos(rd), "every Read's bytes are written before the loop moves on")
		}
	}
	c.R.Floor(rule, "content copy sites in sendFile", n, 1)
}
